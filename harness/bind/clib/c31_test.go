package clib

import (
	"bytes"
	"context"
	"encoding/json"
	"fmt"
	"io"
	"math/rand"
	"os"
	"path/filepath"
	"reflect"
	"sort"
	"strconv"
	"strings"
	"testing"
	"time"

	gotoml "github.com/pelletier/go-toml"
	"github.com/pilosa/pilosa/cmd"
	"github.com/pilosa/pilosa/ctl"
	"github.com/pilosa/pilosa/server"
	ptoml "github.com/pilosa/pilosa/toml"
	"github.com/spf13/pflag"

	"verif/harness/behav"
)

// c31Case is a self-contained replay: one behaviour of spec/Cli.tla (families c31*).
type c31Case struct {
	Beh     behav.Behaviour `json:"beh"`
	Seed    int64           `json:"seed"`
	Idx     int             `json:"idx"`
	Corrupt string          `json:"corrupt,omitempty"`
}

type option struct {
	Name string
	Typ  string
}

// realOptions extracts the server's option table from the real flag set.
func realOptions() []option {
	rc := cmd.NewRootCommand(strings.NewReader(""), io.Discard, io.Discard)
	sc, _, err := rc.Find([]string{"server"})
	if err != nil {
		panic(err)
	}
	var out []option
	sc.LocalFlags().VisitAll(func(f *pflag.Flag) {
		if f.Name != "help" {
			out = append(out, option{f.Name, f.Value.Type()})
		}
	})
	sort.Slice(out, func(i, j int) bool { return out[i].Name < out[j].Name })
	return out
}

// configFields maps a dotted toml path ("cluster.long-query-time") to the field of cfg.
func configFields(cfg *server.Config) map[string]reflect.Value {
	out := map[string]reflect.Value{}
	var walk func(v reflect.Value, prefix string)
	walk = func(v reflect.Value, prefix string) {
		t := v.Type()
		for i := 0; i < t.NumField(); i++ {
			tag := t.Field(i).Tag.Get("toml")
			if tag == "" || tag == "-" {
				continue
			}
			fv := v.Field(i)
			if fv.Kind() == reflect.Struct {
				walk(fv, prefix+tag+".")
			} else {
				out[prefix+tag] = fv
			}
		}
	}
	walk(reflect.ValueOf(cfg).Elem(), "")
	return out
}

// value is a concrete option value with its renderings for the three sources.
type value struct {
	v interface{} // string, int64, uint64, float64, bool, time.Duration, []string
}

func (x value) text() string { // flag and environment form
	switch v := x.v.(type) {
	case string:
		return v
	case int64:
		return strconv.FormatInt(v, 10)
	case uint64:
		return strconv.FormatUint(v, 10)
	case float64:
		return strconv.FormatFloat(v, 'g', -1, 64)
	case bool:
		return strconv.FormatBool(v)
	case time.Duration:
		return v.String()
	case []string:
		return strings.Join(v, ",")
	}
	panic("bad value")
}

func tomlString(s string) string {
	var b strings.Builder
	b.WriteByte('"')
	for _, r := range s {
		switch {
		case r == '"':
			b.WriteString(`\"`)
		case r == '\\':
			b.WriteString(`\\`)
		case r == '\n':
			b.WriteString(`\n`)
		case r == '\t':
			b.WriteString(`\t`)
		case r == '\r':
			b.WriteString(`\r`)
		case r < 0x20 || r == 0x7f:
			fmt.Fprintf(&b, `\u%04X`, r)
		default:
			b.WriteRune(r)
		}
	}
	b.WriteByte('"')
	return b.String()
}

func (x value) toml() string { // configuration-file form
	switch v := x.v.(type) {
	case string:
		return tomlString(v)
	case time.Duration:
		return tomlString(v.String())
	case []string:
		var p []string
		for _, s := range v {
			p = append(p, tomlString(s))
		}
		return "[" + strings.Join(p, ", ") + "]"
	case float64:
		s := strconv.FormatFloat(v, 'f', -1, 64)
		if !strings.Contains(s, ".") {
			s += ".0"
		}
		return s
	}
	return x.text()
}

// set stores the value in a Config field.
func (x value) set(f reflect.Value) {
	switch v := x.v.(type) {
	case string:
		f.SetString(v)
	case int64:
		f.SetInt(v)
	case uint64:
		f.SetUint(v)
	case float64:
		f.SetFloat(v)
	case bool:
		f.SetBool(v)
	case time.Duration:
		f.SetInt(int64(v))
	case []string:
		f.Set(reflect.ValueOf(append([]string{}, v...)))
	}
}

// fieldValue reads a Config field as a comparable rendering.
func fieldValue(f reflect.Value) string {
	switch f.Kind() {
	case reflect.Slice:
		s := []string{}
		for i := 0; i < f.Len(); i++ {
			s = append(s, f.Index(i).String())
		}
		return fmt.Sprintf("%q", s)
	case reflect.String:
		return fmt.Sprintf("%q", f.String())
	case reflect.Int64:
		if f.Type() == reflect.TypeOf(ptoml.Duration(0)) {
			return time.Duration(f.Int()).String()
		}
	}
	return fmt.Sprint(f.Interface())
}

func (x value) rendering() string {
	switch v := x.v.(type) {
	case []string:
		return fmt.Sprintf("%q", append([]string{}, v...))
	case string:
		return fmt.Sprintf("%q", v)
	case time.Duration:
		return v.String()
	}
	return fmt.Sprint(x.v)
}

// sourceValue refines "the value source src supplies for option i": distinct per source,
// distinct from the default, of the option's type.
func sourceValue(o option, i int, src string, rng *rand.Rand) value {
	n := map[string]int64{"file": 1, "env": 2, "flag": 3}[src]
	switch o.Typ {
	case "string":
		alts := []string{
			fmt.Sprintf("%s-%d", src, i),
			fmt.Sprintf("/%s/dir %d/x", src, i),
			fmt.Sprintf("%s:%d", src, 1000+i),
			fmt.Sprintf("%s=é,#%d", src, i),
			fmt.Sprintf("http://%s.example:%d", src, 10000+i),
		}
		return value{alts[rng.Intn(len(alts))]}
	case "int":
		return value{int64(n*1000 + int64(i) + int64(rng.Intn(50))*10000)}
	case "uint64":
		return value{uint64(n*1000 + int64(i) + int64(rng.Intn(50))*10000)}
	case "float64":
		return value{float64(n)/8 + float64(rng.Intn(5))}
	case "duration":
		alts := []time.Duration{time.Duration(n) * time.Second, time.Duration(n)*time.Minute + 30*time.Second,
			time.Duration(n) * 250 * time.Millisecond, time.Duration(n)*time.Hour + time.Second, time.Duration(n) * 1500 * time.Microsecond}
		return value{alts[rng.Intn(len(alts))] + time.Duration(i)*time.Hour}
	case "stringSlice":
		// the three sources give lists of different lengths: an appended or partially
		// replaced list cannot look like the winner's
		switch src {
		case "file":
			return value{[]string{fmt.Sprintf("f1-%d.example:1", i), "f2:2", "f3"}}
		case "env":
			return value{[]string{fmt.Sprintf("e1-%d", i)}}
		default:
			return value{[]string{fmt.Sprintf("g1-%d", i), "http://g2:3"}}
		}
	}
	panic("unknown option type " + o.Typ)
}

// classValue refines a value class of the render/parse family.
func classValue(o option, i int, class string, def reflect.Value, rng *rand.Rand) (value, bool) {
	pick := func(n int) int { return rng.Intn(n) }
	switch class {
	case "default":
		return value{}, false
	case "zero":
		switch o.Typ {
		case "string":
			return value{""}, true
		case "int":
			return value{int64(0)}, true
		case "uint64":
			return value{uint64(0)}, true
		case "float64":
			return value{float64(0)}, true
		case "bool":
			return value{false}, true
		case "duration":
			return value{time.Duration(0)}, true
		case "stringSlice":
			return value{[]string{}}, true
		}
	case "alt":
		if o.Typ == "bool" {
			return value{!def.Bool()}, true
		}
		return sourceValue(o, i, "file", rng), true
	case "edge":
		switch o.Typ {
		case "string":
			alts := []string{`a "quoted" \ back\\slash`, "# not a comment = x", " leading and trailing ", "ключ-鍵-🔑", "tab\there", "two\nlines", `C:\dir\file`, "'single' [x] {y}", "a,b,c"}
			return value{alts[pick(len(alts))] + strconv.Itoa(i)}, true
		case "int":
			alts := []int64{-1, 1 << 31, 1<<62 + int64(i), -(1 << 40), 1}
			return value{alts[pick(len(alts))]}, true
		case "uint64":
			alts := []uint64{1, 1 << 32, 1<<62 + uint64(i), 1<<63 - 1}
			return value{alts[pick(len(alts))]}, true
		case "float64":
			alts := []float64{1e-9, 12345.678, 1, 0.1, 1e21, -2.5, 0.123456789012, 0.5}
			return value{alts[pick(len(alts))]}, true
		case "bool":
			return value{true}, true
		case "duration":
			alts := []time.Duration{1, 1500, time.Hour + time.Minute + 1500*time.Millisecond, 90 * time.Second, 999 * time.Millisecond, 100 * time.Hour, 5}
			return value{alts[pick(len(alts))]}, true
		case "stringSlice":
			// list elements are hosts / URIs: the flag and environment forms are comma
			// separated (pflag reads them as one CSV record), so an element cannot hold a
			// comma or a double quote in any source
			alts := [][]string{{"one"}, {"a", "b", "c", "d"}, {"http://x:1", "ключ", "with space"}, {`q'uote`, `back\slash`, "a b=c#d"}, {"dup", "dup"}}
			return value{alts[pick(len(alts))]}, true
		}
	}
	panic("unknown class " + class + " / " + o.Typ)
}

func envName(opt string) string {
	return "PILOSA_" + strings.ToUpper(strings.NewReplacer("-", "_", ".", "_").Replace(opt))
}

// tomlFile renders `section`ed key = value lines for the given options.
func tomlFile(vals map[string]value) string {
	var top, names []string
	sections := map[string][]string{}
	for name := range vals {
		names = append(names, name)
	}
	sort.Strings(names)
	for _, name := range names {
		if j := strings.Index(name, "."); j >= 0 {
			sec, key := name[:j], name[j+1:]
			sections[sec] = append(sections[sec], key+" = "+vals[name].toml())
		} else {
			top = append(top, name+" = "+vals[name].toml())
		}
	}
	var b strings.Builder
	for _, l := range top {
		b.WriteString(l + "\n")
	}
	var secs []string
	for s := range sections {
		secs = append(secs, s)
	}
	sort.Strings(secs)
	for _, s := range secs {
		b.WriteString("\n[" + s + "]\n")
		for _, l := range sections[s] {
			b.WriteString(l + "\n")
		}
	}
	return b.String()
}

func clearPilosaEnv() {
	for _, kv := range os.Environ() {
		if strings.HasPrefix(kv, "PILOSA_") {
			os.Unsetenv(kv[:strings.Index(kv, "=")])
		}
	}
}

// runTree drives the real cobra command tree: `pilosa <sub> [--dry-run] args` under env.
// For "server" it returns the configuration the server command resolved.
func runTree(sub string, args []string, env map[string]string) (cfg *server.Config, stdout string, err error) {
	clearPilosaEnv()
	for k, v := range env {
		os.Setenv(k, v)
	}
	defer clearPilosaEnv()
	var out, errb bytes.Buffer
	rc := cmd.NewRootCommand(strings.NewReader(""), &out, &errb)
	full := []string{sub}
	if sub == "server" {
		full = append(full, "--dry-run")
	}
	rc.SetArgs(append(full, args...))
	err = rc.Execute()
	if sub == "server" {
		if err != nil && err.Error() == "dry run" {
			err = nil
		} else if err == nil {
			err = fmt.Errorf("the server command did not stop at the dry run")
		}
		c := *cmd.Server.Config
		cfg = &c
	}
	return cfg, out.String(), err
}

// normalise makes nil and empty lists equal before a deep comparison.
func normalise(cfg *server.Config) *server.Config {
	c := *cfg
	for _, f := range configFields(&c) {
		if f.Kind() == reflect.Slice && f.Len() == 0 {
			f.Set(reflect.MakeSlice(f.Type(), 0, 0))
		} else if f.Kind() == reflect.Slice {
			f.Set(reflect.AppendSlice(reflect.MakeSlice(f.Type(), 0, f.Len()), f))
		}
	}
	return &c
}

// diffConfig lists the options whose values differ (plus "<untagged>" for other fields).
func diffConfig(got, want *server.Config) []string {
	g, w := normalise(got), normalise(want)
	gf, wf := configFields(g), configFields(w)
	var out []string
	for name, f := range wf {
		if fieldValue(f) != fieldValue(gf[name]) {
			out = append(out, fmt.Sprintf("%s: got %s want %s", name, fieldValue(gf[name]), fieldValue(f)))
		}
	}
	sort.Strings(out)
	if len(out) == 0 && !reflect.DeepEqual(g, w) {
		out = append(out, fmt.Sprintf("<untagged>: got %+v want %+v", *g, *w))
	}
	return out
}

// diffClass names the kind of difference of one option: "float32_precision" when a float
// came back equal only at single precision, else "value".
func diffClass(got, want *server.Config, opt string) string {
	g, w := configFields(got)[opt], configFields(want)[opt]
	if g.IsValid() && w.IsValid() && g.Kind() == reflect.Float64 && float32(g.Float()) == float32(w.Float()) {
		return "float32_precision"
	}
	return "value"
}

type c31Env struct {
	opts   []option
	byName map[string]int
	dir    string
}

// assignment is the refinement of one option's part of a Resolve step.
type assignment struct {
	opt    option
	idx    int
	srcs   map[string]bool
	vals   map[string]value
	expect *value // nil: the default
}

func (e *c31Env) refine(st map[string]interface{}, rng *rand.Rand, def *server.Config) assignment {
	name := st["opt"].(string)
	i := e.byName[name]
	a := assignment{opt: e.opts[i], idx: i, srcs: map[string]bool{}, vals: map[string]value{}}
	for _, s := range behav.ToList(st["srcs"]) {
		a.srcs[s.(string)] = true
	}
	bvals := behav.ToMap(st["bvals"])
	for s := range a.srcs {
		if a.opt.Typ == "bool" {
			a.vals[s] = value{bvals[s].(bool)}
		} else {
			a.vals[s] = sourceValue(a.opt, i, s, rng)
		}
	}
	if win := st["win"].(string); win != "default" {
		v := a.vals[win]
		if a.opt.Typ == "bool" { // the expectation comes from the specification, not from bvals
			v = value{st["bexp"].(string) == "T"}
		}
		a.expect = &v
	}
	return a
}

// runResolve replays a Resolve or ResolveAll step.
func (e *c31Env) runResolve(c *c31Case, st behav.Step, cov func(string)) *behav.Failure {
	rng := rand.New(rand.NewSource(c.Seed*7919 + int64(c.Idx)))
	def := server.NewConfig()
	var asg []assignment
	if st.Str("op") == "Resolve" {
		asg = append(asg, e.refine(st, rng, def))
	} else {
		for _, x := range behav.ToList(st["asg"]) {
			asg = append(asg, e.refine(behav.ToMap(x), rng, def))
		}
	}
	want := *def
	wf := configFields(&want)
	fileVals := map[string]value{}
	env := map[string]string{}
	var args []string
	var desc []string
	for _, a := range asg {
		if _, ok := wf[a.opt.Name]; !ok {
			return &behav.Failure{Match: map[string]string{"op": "Resolve", "opt": a.opt.Name, "symptom": "no_config_field"},
				Detail: "no field of server.Config carries the toml path " + a.opt.Name + " (the configuration file cannot set this option)", Replay: c}
		}
		if a.srcs["file"] {
			fileVals[a.opt.Name] = a.vals["file"]
		}
		if a.srcs["env"] {
			env[envName(a.opt.Name)] = a.vals["env"].text()
		}
		if a.srcs["flag"] {
			if sl, ok := a.vals["flag"].v.([]string); ok && rng.Intn(2) == 0 && len(sl) > 1 {
				for _, s := range sl { // a list flag may be repeated
					args = append(args, "--"+a.opt.Name+"="+s)
				}
			} else if b, ok := a.vals["flag"].v.(bool); ok && b && rng.Intn(2) == 0 {
				args = append(args, "--"+a.opt.Name) // a bare bool flag means true
			} else if short := map[string]string{"data-dir": "-d", "bind": "-b"}[a.opt.Name]; short != "" && rng.Intn(2) == 0 {
				args = append(args, short, a.vals["flag"].text())
			} else if rng.Intn(3) == 0 && a.opt.Typ != "bool" {
				args = append(args, "--"+a.opt.Name, a.vals["flag"].text())
			} else {
				args = append(args, "--"+a.opt.Name+"="+a.vals["flag"].text())
			}
		}
		if a.expect != nil {
			a.expect.set(wf[a.opt.Name])
		}
		if cov != nil {
			var s []string
			for _, k := range []string{"file", "env", "flag"} {
				if a.srcs[k] {
					s = append(s, k)
				}
			}
			cov("resolve:" + a.opt.Typ + ":" + strings.Join(s, "+"))
			desc = append(desc, a.opt.Name+"<-"+strings.Join(s, "+"))
		}
	}
	if c.Corrupt == "expect" && len(asg) > 0 && asg[0].expect != nil && asg[0].opt.Typ == "string" {
		wf[asg[0].opt.Name].SetString("corrupted")
	}
	if len(fileVals) > 0 || c.Idx%2 == 0 { // an empty configuration file is a configuration file too
		path := filepath.Join(e.dir, fmt.Sprintf("c%d.toml", c.Idx))
		if err := os.WriteFile(path, []byte(tomlFile(fileVals)), 0o600); err != nil {
			panic(err)
		}
		defer os.Remove(path)
		switch c.Idx % 3 { // the configuration file is itself named by a flag or the environment
		case 0:
			args = append(args, "--config="+path)
		case 1:
			args = append(args, "-c", path)
		default:
			env["PILOSA_CONFIG"] = path
		}
	}
	mk := func(symptom, detail string, opt string) *behav.Failure {
		return &behav.Failure{
			Match:  map[string]string{"op": st.Str("op"), "symptom": symptom, "opt": opt},
			Detail: fmt.Sprintf("case %d %s: %s\nargs %q\nenv %q\nfile %q", c.Idx, strings.Join(desc, " "), detail, args, env, tomlFile(fileVals)),
			Replay: c,
		}
	}
	first := func(d []string) string { return d[0][:strings.Index(d[0], ":")] }
	got, _, err := runTree("server", args, env)
	if err != nil {
		return mk("error", "pilosa server --dry-run: "+err.Error(), asg[0].opt.Name)
	}
	if d := diffConfig(got, &want); len(d) > 0 {
		return mk("wrong_value", "resolved configuration differs from flag > env > file > default:\n  "+strings.Join(d, "\n  "), first(d))
	}
	// second observation: `pilosa config` prints the configuration it resolved
	_, out, err := runTree("config", args, env)
	if err != nil {
		return mk("error", "pilosa config: "+err.Error(), asg[0].opt.Name)
	}
	printed, perr := parseConfig(out)
	if perr != nil {
		return mk("config_output_unreadable", fmt.Sprintf("output of pilosa config does not parse: %v\n%s", perr, out), asg[0].opt.Name)
	}
	if d := diffConfig(printed, &want); len(d) > 0 {
		return mk("wrong_value_printed", "configuration printed by `pilosa config` differs:\n  "+strings.Join(d, "\n  "), first(d))
	}
	return nil
}

// parseConfig reads a rendered configuration the way the server does: as the
// configuration file of `pilosa server`.
func parseConfig(text string) (*server.Config, error) {
	f, err := os.CreateTemp("", "c31-*.toml")
	if err != nil {
		return nil, err
	}
	defer os.Remove(f.Name())
	f.WriteString(text)
	f.Close()
	cfg, _, err := runTree("server", []string{"--config=" + f.Name()}, nil)
	return cfg, err
}

// runRender replays a RenderParse step.
func (e *c31Env) runRender(c *c31Case, st behav.Step, cov func(string)) *behav.Failure {
	rng := rand.New(rand.NewSource(c.Seed*104729 + int64(c.Idx)))
	cfg := server.NewConfig()
	fields := configFields(cfg)
	allDefault := true
	var desc []string
	for _, x := range behav.ToList(st["cls"]) {
		m := behav.ToMap(x)
		name, class := m["opt"].(string), m["cl"].(string)
		i := e.byName[name]
		f, ok := fields[name]
		if !ok {
			return &behav.Failure{Match: map[string]string{"op": "RenderParse", "opt": name, "symptom": "no_config_field"},
				Detail: "no field of server.Config carries the toml path " + name, Replay: c}
		}
		if v, set := classValue(e.opts[i], i, class, f, rng); set {
			v.set(f)
			allDefault = false
			desc = append(desc, name+"="+v.rendering())
		}
		if cov != nil {
			cov("render:" + e.opts[i].Typ + ":" + class)
		}
	}
	mk := func(symptom, detail, opt string) *behav.Failure {
		if len(desc) > 12 {
			desc = append(desc[:12], "…")
		}
		return &behav.Failure{
			Match:  map[string]string{"op": "RenderParse", "symptom": symptom, "opt": opt},
			Detail: fmt.Sprintf("case %d [%s]: %s", c.Idx, strings.Join(desc, " "), detail),
			Replay: c,
		}
	}
	first := func(d []string) string { return d[0][:strings.Index(d[0], ":")] }
	only := st.Str("opt")
	render := func(generate bool) (string, error) {
		var out, errb bytes.Buffer
		if generate {
			g := ctl.NewGenerateConfigCommand(strings.NewReader(""), &out, &errb)
			err := g.Run(context.Background())
			return out.String(), err
		}
		cc := ctl.NewConfigCommand(strings.NewReader(""), &out, &errb)
		cp := *cfg
		cc.Config = &cp
		err := cc.Run(context.Background())
		return out.String(), err
	}
	if allDefault {
		direct, err1 := render(true)
		_, viaTree, err2 := runTree("generate-config", nil, nil)
		if err1 != nil || err2 != nil || direct != viaTree {
			return mk("render_error", fmt.Sprintf("pilosa generate-config prints %q (%v), ctl.GenerateConfigCommand %q (%v)", viaTree, err2, direct, err1), only)
		}
	}
	kinds := []bool{false}
	if allDefault {
		kinds = append(kinds, true) // generate-config renders the default configuration
	}
	for _, generate := range kinds {
		what := "config"
		if generate {
			what = "generate-config"
		}
		text, err := render(generate)
		if err != nil {
			return mk("render_error", what+": "+err.Error(), only)
		}
		if c.Corrupt == "render" {
			text = strings.Replace(text, "max-file-count = ", "max-file-count = 1", 1)
		}
		// every option must be in the rendering, under its own name
		tree, terr := gotoml.Load(text)
		if terr != nil {
			return mk("render_not_toml", fmt.Sprintf("%s output is not TOML: %v\n%s", what, terr, text), only)
		}
		for _, o := range e.opts {
			if !tree.Has(o.Name) {
				return mk("option_not_rendered", fmt.Sprintf("%s output has no %q:\n%s", what, o.Name, text), o.Name)
			}
		}
		// read back the way the server reads its configuration file
		back, err := parseConfig(text)
		if err != nil {
			return mk("parse_error", fmt.Sprintf("pilosa server cannot read the output of %s: %v\n%s", what, err, text), only)
		}
		if d := diffConfig(back, cfg); len(d) > 0 {
			f := mk("roundtrip_differs", fmt.Sprintf("%s | server --config gives a different configuration:\n  %s\n%s", what, strings.Join(d, "\n  "), text), first(d))
			f.Match["class"] = diffClass(back, cfg, first(d))
			return f
		}
	}
	return nil
}

func TestC31(t *testing.T) {
	res := behav.NewResult()
	defer func() {
		if err := res.Write(); err != nil {
			t.Fatal(err)
		}
	}()
	seed := behav.Seed()
	var cases []*c31Case
	replay := false
	if raw, ok := behav.LoadReplay(); ok {
		var c c31Case
		if err := json.Unmarshal(raw, &c); err != nil {
			t.Fatal(err)
		}
		cases = append(cases, &c)
		replay = true
	} else {
		corrupt := os.Getenv("VERIF_CORRUPT")
		for i, b := range behav.LoadEnv() {
			cases = append(cases, &c31Case{Beh: b, Seed: seed, Idx: i, Corrupt: corrupt})
		}
	}
	dir, err := os.MkdirTemp("", "clib-c31-")
	if err != nil {
		t.Fatal(err)
	}
	defer os.RemoveAll(dir)
	e := &c31Env{opts: realOptions(), byName: map[string]int{}, dir: dir}
	for i, o := range e.opts {
		e.byName[o.Name] = i
	}
	// the specification's option table must be the real one
	sawTable := false
	check := func(list []interface{}) string {
		var spec []option
		for _, x := range list {
			m := behav.ToMap(x)
			spec = append(spec, option{m["name"].(string), m["typ"].(string)})
		}
		sort.Slice(spec, func(i, j int) bool { return spec[i].Name < spec[j].Name })
		if !reflect.DeepEqual(spec, e.opts) {
			return fmt.Sprintf("spec stale: option table of spec/Cli.tla %v differs from the real flag set %v", spec, e.opts)
		}
		return ""
	}
	for _, c := range cases {
		if c.Beh[0].Str("op") == "Table" {
			sawTable = true
			if why := check(behav.ToList(c.Beh[0]["opts"])); why != "" {
				res.SetInconclusive(why)
				return
			}
		}
	}
	if !sawTable && !replay {
		res.SetInconclusive("the behaviours carry no option table")
		return
	}
	nontrivial := behav.Distinct{}
	for _, c := range cases { // sequential: the environment is process-wide
		st := c.Beh[0]
		op := st.Str("op")
		if op == "Table" {
			continue
		}
		var fail *behav.Failure
		pv, stack := behav.Protect(func() {
			switch op {
			case "Resolve", "ResolveAll":
				fail = e.runResolve(c, st, res.Cover)
			case "RenderParse":
				fail = e.runRender(c, st, res.Cover)
			default:
				res.SetInconclusive("unknown op " + op)
			}
		})
		res.CountEval()
		if pv != nil {
			if behav.PanicInCode(stack) {
				fail = &behav.Failure{Match: map[string]string{"op": op, "symptom": "panic"}, Detail: fmt.Sprintf("case %d: panic %v\n%s", c.Idx, pv, stack), Replay: c}
			} else {
				res.SetInconclusive(fmt.Sprintf("harness panic in case %d: %v\n%s", c.Idx, pv, stack))
				continue
			}
		}
		if fail != nil {
			res.Fail(*fail)
			continue
		}
		trivial := op == "Resolve" && len(behav.ToList(st["srcs"])) == 0
		if !trivial && nontrivial.Add(behav.JSON(c.Beh)) {
			res.CountNontrivial()
		}
		if c.Idx%61 == 0 {
			res.AddSample(map[string]interface{}{"idx": c.Idx, "op": op, "opt": st.Str("opt"), "srcs": st["srcs"], "win": st["win"]})
		}
	}
}
