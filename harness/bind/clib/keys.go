// Package clib binds spec/Cli.tla (C30 export/import round trip, C31 configuration
// precedence and render/parse round trip) to the real commands of /repo.
package clib

import (
	"fmt"
	"math/rand"
	"sort"
	"strings"
)

// Key classes: the refinement of the spec's abstract key tokens. Every generated key
// embeds a token that is unique within its namespace, so distinct abstract keys are
// distinct strings whatever the class.
var keyClasses = []string{
	"plain", "comma", "quote", "newline", "space", "unicode", "emptyish",
	"numeric", "backslash", "hash", "mixed", "cr", "long", "crlf",
}

// keyClassOf names the class of a generated key by its content (used for failure
// matchers: the shape of the keys that went missing).
func keyShape(k string) string {
	var s []string
	add := func(c bool, n string) {
		if c {
			s = append(s, n)
		}
	}
	add(k == "", "empty")
	add(strings.Contains(k, "\r\n"), "crlf")
	add(strings.Contains(strings.Replace(k, "\r\n", "", -1), "\r"), "cr")
	add(strings.Contains(strings.Replace(k, "\r\n", "", -1), "\n"), "newline")
	add(strings.Contains(k, ","), "comma")
	add(strings.Contains(k, `"`), "quote")
	add(k != "" && strings.Trim(k, " \t") != k, "space")
	add(strings.Contains(k, `\`), "backslash")
	add(strings.HasPrefix(k, "#"), "hash")
	nonASCII := false
	for _, r := range k {
		if r > 127 {
			nonASCII = true
		}
	}
	add(nonASCII, "unicode")
	if len(s) == 0 {
		return "plain"
	}
	return strings.Join(s, "+")
}

func shapesOf(keys []string) string {
	m := map[string]bool{}
	for _, k := range keys {
		m[keyShape(k)] = true
	}
	var out []string
	for k := range m {
		out = append(out, k)
	}
	sort.Strings(out)
	if len(out) == 0 {
		return "none"
	}
	if len(out) > 4 {
		out = append(out[:4], "…")
	}
	return strings.Join(out, "|")
}

// fixed "empty-looking" keys; each can be used once per namespace
var emptyish = []string{`""`, " ", `''`, ",", `"`, "null", "0", "-1", "  ", `","`, "\t", `\N`, "false", "-"}

// keyGen produces distinct keys for one namespace.
type keyGen struct {
	rng  *rand.Rand
	used map[string]bool
	n    int
	// classes to draw from (crlf only where the caller wants it)
	classes []string
}

func newKeyGen(seed int64, classes []string) *keyGen {
	return &keyGen{rng: rand.New(rand.NewSource(seed)), used: map[string]bool{}, classes: classes}
}

func (g *keyGen) next() string {
	return g.ofClass(g.classes[g.rng.Intn(len(g.classes))])
}

func (g *keyGen) ofClass(class string) string {
	for {
		g.n++
		u := fmt.Sprintf("%d", g.n)
		pick := func(a ...string) string { return a[g.rng.Intn(len(a))] }
		var k string
		switch class {
		case "plain":
			k = pick("k"+u, "key-"+u, "K_"+u+".x", "row:"+u)
		case "comma":
			k = pick("a,"+u+",b", ","+u, u+",", "x"+u+",,y")
		case "quote":
			k = pick(`"`+u+`"`, `x"`+u, `""`+u, u+`"`, `a"b"`+u+`"c`, `'`+u+`'`)
		case "newline":
			k = pick(u+"\nline2", "\n"+u, u+"\n", "a\n\nb"+u)
		case "space":
			k = pick(" "+u, u+" ", " "+u+" ", "\t"+u, u+"  ", "a "+u+" b ")
		case "unicode":
			k = pick("ключ"+u, "鍵"+u+"🔑", "é"+u, " "+u, "ñ"+u+"ß", "​"+u)
		case "emptyish":
			k = emptyish[g.rng.Intn(len(emptyish))]
			if g.used[k] {
				k = "e" + u
			}
		case "numeric":
			k = pick("00"+u, "1"+u, "18446744073709551615"+u, "-"+u, u+".5", "1e"+u)
		case "backslash":
			k = pick(`\.`+u, `a\b`+u, `\`+u, u+`\`, `\"`+u, `\n`+u)
		case "hash":
			k = pick("#"+u, "# "+u, "#,"+u)
		case "mixed":
			k = pick(` "a, b"`+"\n"+u+` `, `,"`+u+`",`, "\"\n,\""+u, "é,\""+u+"\"\n ")
		case "cr":
			k = pick("\r"+u, "a\rb"+u)
		case "crlf":
			k = pick(u+"\r\nx", "\r\n"+u)
		case "long":
			k = strings.Repeat("L"+u+",", 40+g.rng.Intn(40))
		default:
			k = "k" + u
		}
		if k != "" && !g.used[k] {
			g.used[k] = true
			return k
		}
	}
}
