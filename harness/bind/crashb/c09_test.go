package crashb

import (
	"bytes"
	"encoding/json"
	"fmt"
	"io"
	"os"
	"os/exec"
	"path/filepath"
	"sort"
	"strconv"
	"strings"
	"sync"
	"testing"

	"github.com/pilosa/pilosa"

	"verif/harness/behav"
)

const straceSyscalls = "openat,write,pwrite64,rename,renameat,renameat2,unlink,unlinkat,ftruncate,fsync,fdatasync,mkdir,mkdirat"

// ---- recovery side (fresh process) --------------------------------------------------

type recovered struct {
	N     int               `json:"n"`
	Err   string            `json:"err,omitempty"`
	Err2  string            `json:"err2,omitempty"` // the recovered directory did not survive a write + second restart
	Err3  string            `json:"err3,omitempty"` // ... or a second epoch of shrinking writes + snapshots + restart
	Epoch bool              `json:"epoch,omitempty"` // the second epoch was run on this image
	Stack string            `json:"stack,omitempty"`
	Units map[string]string `json:"units,omitempty"`
	Left  []string          `json:"left,omitempty"` // leftover temporary files present in the image
}

func leftovers(dir string) []string {
	var out []string
	_ = filepath.Walk(dir, func(p string, fi os.FileInfo, err error) error {
		if err == nil && !fi.IsDir() && (strings.HasSuffix(p, ".snapshotting") || strings.HasSuffix(p, ".temp")) {
			rel, _ := filepath.Rel(dir, p)
			out = append(out, rel)
		}
		return nil
	})
	return out
}

const (
	probeRow    = 7   // row written by the post-recovery probe into every fragment (60 in the int field)
	probeColOff = 777 // column offset within the shard, outside the universe
	probeKey    = "key-probe"
)

func openHolder(dir string) (*pilosa.Holder, *pilosa.TranslateFile, error) {
	h := pilosa.NewHolder()
	h.Path = dir
	tf := pilosa.NewTranslateFile(pilosa.OptTranslateFileMapSize(1 << 22))
	tf.Path = filepath.Join(dir, ".keys")
	pilosa.VerifDurSetTranslateFile(h, tf)
	if err := tf.Open(); err != nil {
		_ = tf.Close()
		return nil, nil, fmt.Errorf("opening TranslateFile: %v", err)
	}
	if err := h.Open(); err != nil {
		_ = h.Close()
		return nil, nil, fmt.Errorf("opening Holder: %v", err)
	}
	return h, tf, nil
}

// stripProbe removes what the probe added from a projection.
func stripProbe(u map[string]string) map[string]string {
	out := map[string]string{}
	for k, v := range u {
		var keep []string
		for _, w := range strings.Fields(v) {
			if strings.HasPrefix(w, fmt.Sprintf("%d:", probeRow)) || strings.HasSuffix(w, "=probe") {
				continue
			}
			keep = append(keep, w)
		}
		if len(keep) == 0 {
			continue
		}
		if strings.HasPrefix(k, "keys/") || isIntUnit(k) {
			out[k] = strings.Join(keep, " ") + " "
		} else {
			out[k] = strings.Join(keep, " ")
		}
	}
	return out
}

// openImage does what a server start does with the data (Server.Open: translate store,
// then holder) and projects the recovered state. It then checks that the recovered
// directory is a sound basis: one more entry is appended to every fragment's op log and
// to the translate log, the holder is closed, and a second start must succeed and read
// the same state (err2 otherwise) - a history continues after a restart.
func openImage(dir string) (units map[string]string, err error, err2 error) {
	h, tf, err := openHolder(dir)
	if err != nil {
		return nil, err, nil
	}
	s, perr := project(h, tf)
	if perr != nil {
		_ = h.Close()
		return nil, perr, nil
	}
	units = s.units()
	// probe
	probed := 0
	probes := map[string]uint64{} // fragment -> position written
	for k := range pilosa.VerifDurFragments(h) {
		parts := strings.Split(k, "/")
		var shard uint64
		fmt.Sscanf(parts[3], "%d", &shard)
		row := uint64(probeRow)
		if parts[1] == "v" {
			row = 60
		}
		if _, e := pilosa.VerifDurSetBit(h, parts[0], parts[1], parts[2], shard, row, shard*sw+probeColOff); e != nil {
			err2 = fmt.Errorf("write to %s after the restart: %v", k, e)
		}
		probes[k] = row*sw + probeColOff
		probed++
	}
	if _, e := tf.TranslateColumnsToUint64(idxK, []string{probeKey}); e != nil && err2 == nil {
		err2 = fmt.Errorf("key allocation after the restart: %v", e)
	}
	if cerr := h.Close(); cerr != nil && err2 == nil {
		err2 = fmt.Errorf("closing the recovered holder: %v", cerr)
	}
	if err2 != nil {
		return units, nil, err2
	}
	h2, tf2, e := openHolder(dir)
	if e != nil {
		return units, nil, fmt.Errorf("second restart (after %d fragment appends and a key allocation): %v", probed, e)
	}
	s2, perr2 := project(h2, tf2)
	raw2 := pilosa.VerifDurFragments(h2)
	_ = h2.Close()
	for k, pos := range probes {
		found := false
		for _, p := range raw2[k] {
			if p == pos {
				found = true
				break
			}
		}
		if !found {
			return units, nil, fmt.Errorf("second restart: the bit written to %s after the first restart is gone", k)
		}
	}
	if perr2 != nil {
		return units, nil, fmt.Errorf("second restart: %v", perr2)
	}
	u2 := s2.units()
	nkeys := len(s.ColKeys)
	if got := s2.ColKeys[fmt.Sprint(nkeys+1)]; got != "probe" {
		return units, nil, fmt.Errorf("second restart: the key allocated after the first restart reads as %q (id %d)", got, nkeys+1)
	}
	if d := diffUnits(stripProbe(units), stripProbe(u2)); d != "" {
		return units, nil, fmt.Errorf("second restart reads a different state: %s", d)
	}
	return units, nil, nil
}

// secondEpoch continues the history on a directory that has been recovered (and
// probed) once: every fragment is SHRUNK - emptied through the op log, then snapshotted
// exactly once by a fragment.clearRow (which replaces the data file by a snapshot before
// it returns) - then one bit (row 8) is set in it, the int field gets one new large value (its bit depth
// grows: the field meta is rewritten through <field>.temp), one more key is allocated,
// the holder is closed, and the next start must succeed and read exactly that: every
// acknowledged write of this epoch, nothing else. A file left by a snapshot or meta
// rewrite that the kill interrupted in the FIRST epoch (.snapshotting, .temp) is still
// lying around when the second epoch writes its own, smaller ones: whatever it contains
// must not reach the recovered state (DurabilityAbs: Recover never reads `garbage`).
func secondEpoch(dir string) error {
	h, tf, err := openHolder(dir)
	if err != nil {
		return fmt.Errorf("restart before the second epoch: %v", err)
	}
	closed := false
	defer func() {
		if !closed {
			_ = h.Close()
		}
	}()
	s0, err := project(h, tf)
	if err != nil {
		return err
	}
	const epochRow = 8
	want := map[string]uint64{} // fragment -> the only position it may hold afterwards
	vshards := map[uint64]bool{}
	for k, vals := range pilosa.VerifDurFragments(h) {
		parts := strings.Split(k, "/")
		var shard uint64
		fmt.Sscanf(parts[3], "%d", &shard)
		// empty the fragment through the op log (one remove-batch entry) ...
		var rws, cls []uint64
		for _, p := range vals {
			rws = append(rws, p/sw)
			cls = append(cls, shard*sw+p%sw)
		}
		if len(vals) > 0 {
			if e := pilosa.VerifDurClearBits(h, parts[0], parts[1], parts[2], shard, rws, cls); e != nil {
				return fmt.Errorf("second epoch: clearing %s: %v", k, e)
			}
		}
		// ... then exactly ONE snapshot of the now empty (smallest possible) bitmap: it is
		// written to <fragment>.snapshotting, where a file of the first epoch may still lie
		if _, e := pilosa.VerifDurClearRow(h, parts[0], parts[1], parts[2], shard, epochRow); e != nil {
			return fmt.Errorf("second epoch: ClearRow(%d) on %s: %v", epochRow, k, e)
		}
		if parts[1] == "v" {
			vshards[shard] = true
			continue
		}
		pos := uint64(epochRow)*sw + probeColOff
		if _, e := pilosa.VerifDurSetBit(h, parts[0], parts[1], parts[2], shard, epochRow, shard*sw+probeColOff); e != nil {
			return fmt.Errorf("second epoch: write to %s: %v", k, e)
		}
		want[k] = pos
	}
	fv := h.Field(idxI, "v")
	for shard := range vshards {
		if _, e := fv.SetValue(shard*sw+probeColOff+1, 900); e != nil {
			return fmt.Errorf("second epoch: SetValue in shard %d: %v", shard, e)
		}
	}
	ids, e := tf.TranslateColumnsToUint64(idxK, []string{"key-probe2"})
	if e != nil {
		return fmt.Errorf("second epoch: key allocation: %v", e)
	}
	closed = true
	if e := h.Close(); e != nil {
		return fmt.Errorf("second epoch: closing: %v", e)
	}

	h3, tf3, e := openHolder(dir)
	if e != nil {
		return fmt.Errorf("restart after the second epoch (every fragment shrunk and snapshotted): %v", e)
	}
	defer h3.Close()
	raw := pilosa.VerifDurFragments(h3)
	for k, pos := range want {
		got := raw[k]
		if len(got) != 1 || got[0] != pos {
			return fmt.Errorf("after the second epoch fragment %s holds positions %v, written: only %d", k, trunc(got, 12), pos)
		}
	}
	fv3 := h3.Field(idxI, "v")
	for shard := range vshards {
		if v, ok, e := fv3.Value(shard*sw + probeColOff + 1); e != nil || !ok || v != 900 {
			return fmt.Errorf("after the second epoch the value 900 written in shard %d reads as %d (exists=%v, err=%v)", shard, v, ok, e)
		}
		for _, c := range absCols {
			if col(c)/sw != shard {
				continue
			}
			if v, ok, _ := fv3.Value(col(c)); ok {
				return fmt.Errorf("after the second epoch column %d of the int field reads %d although its value was cleared", c, v)
			}
		}
	}
	s3, e := project(h3, tf3)
	if e != nil {
		return fmt.Errorf("after the second epoch: %v", e)
	}
	if k, _ := tf3.TranslateColumnToString(idxK, ids[0]); k != "key-probe2" {
		return fmt.Errorf("after the second epoch the key allocated in it (id %d) reads as %q", ids[0], k)
	}
	for id, k := range s0.ColKeys {
		if s3.ColKeys[id] != k {
			return fmt.Errorf("after the second epoch column key id %s reads %q, was %q", id, s3.ColKeys[id], k)
		}
	}
	for id, k := range s0.RowKeys {
		if s3.RowKeys[id] != k {
			return fmt.Errorf("after the second epoch row key id %s reads %q, was %q", id, s3.RowKeys[id], k)
		}
	}
	return nil
}

func trunc(a []uint64, n int) []uint64 {
	if len(a) > n {
		return a[:n]
	}
	return a
}

// TestC09Recover is the fresh process that opens every crash image below
// $VERIF_C09_IMAGES/img and writes what it recovered to recovered.json.
func TestC09Recover(t *testing.T) {
	out := os.Getenv("VERIF_C09_IMAGES")
	if out == "" {
		t.Skip("child mode only")
	}
	var pts pointsFile
	mustReadJSON(t, filepath.Join(out, "points.json"), &pts)
	recs := make([]recovered, len(pts.Points))
	hidx := os.Getenv("VERIF_C09_HIDX")
	every := behav.EnvInt("VERIF_C09_EPOCH_EVERY", 4)
	behav.Parallel(len(pts.Points), func(i int) {
		p := pts.Points[i]
		dir := filepath.Join(out, "img", strconv.Itoa(p.N))
		r := recovered{N: p.N, Left: leftovers(dir)}
		// the second epoch runs on every image that holds a leftover temporary file and
		// on a seeded sample of the others
		r.Epoch = len(r.Left) > 0 || every <= 1 ||
			behav.Hash64(fmt.Sprintf("%d/%s/%d", behav.Seed(), hidx, p.N))%uint64(every) == 0
		pv, stack := behav.Protect(func() {
			u, err, err2 := openImage(dir)
			if err != nil {
				r.Err = err.Error()
			}
			if err2 != nil {
				r.Err2 = err2.Error()
			}
			r.Units = u
			if err == nil && err2 == nil && r.Epoch {
				if err3 := secondEpoch(dir); err3 != nil {
					r.Err3 = err3.Error()
				}
			}
		})
		if pv != nil {
			r.Err = fmt.Sprintf("panic: %v", pv)
			r.Stack = stack
		}
		recs[i] = r
		_ = os.RemoveAll(dir)
	}, nil)
	b, _ := json.Marshal(recs)
	if err := os.WriteFile(filepath.Join(out, "recovered.json"), b, 0o644); err != nil {
		t.Fatal(err)
	}
}

// ---- orchestration ------------------------------------------------------------------

type point struct {
	N           int      `json:"n"`
	Event       int      `json:"event"`
	After       string   `json:"after"`
	Unit        string   `json:"unit"`
	Nth         int      `json:"nth"`
	InflightAt  int      `json:"inflight_at"`
	Op          string   `json:"op"`
	Obligations [][2]int `json:"obligations"`
	// Last: unit (real names, e.g. i/m/standard/0, keys) -> [action, nth within its step, step]
	// of the last state-changing syscall on that unit before the crash point
	Last map[string][]interface{} `json:"last"`
}

// lastOn returns the action of the last syscall that changed the file(s) of an abstract
// unit before the crash point ("none" when the history has not touched it).
func (p point) lastOn(u string) string {
	parts := strings.Split(u, "/")
	real := u
	if parts[0] == "keys" {
		real = "keys"
	} else if len(parts) == 4 {
		if r, ok := viewName[parts[2]]; ok {
			parts[2] = r
		}
		real = strings.Join(parts, "/")
	}
	if l, ok := p.Last[real]; ok && len(l) > 0 {
		if s, ok := l[0].(string); ok {
			return s
		}
	}
	return "none"
}

// progressOn tells whether the step in flight was interrupted inside its sequence of
// syscalls of that kind on the unit ("partial": more of them follow in the recording) or
// after the last one ("complete"); "none" when the last change of the unit is not the
// in-flight step's.
func (p point) progressOn(u string, inflight int) string {
	parts := strings.Split(u, "/")
	real := u
	if parts[0] == "keys" {
		real = "keys"
	} else if len(parts) == 4 {
		if r, ok := viewName[parts[2]]; ok {
			parts[2] = r
		}
		real = strings.Join(parts, "/")
	}
	l, ok := p.Last[real]
	if !ok || len(l) < 4 || inflight == 0 || behav.ToInt(l[2]) != inflight {
		return "none"
	}
	if behav.ToInt(l[1]) < behav.ToInt(l[3]) {
		return "partial"
	}
	return "complete"
}

type pointsFile struct {
	Points []point `json:"points"`
	Closed bool    `json:"closed"`
	Acked  int     `json:"acked"`
}

func mustReadJSON(t testing.TB, path string, v interface{}) {
	b, err := os.ReadFile(path)
	if err != nil {
		t.Fatal(err)
	}
	if err := json.Unmarshal(b, v); err != nil {
		t.Fatalf("%s: %v", path, err)
	}
}

func readJSON(path string, v interface{}) error {
	b, err := os.ReadFile(path)
	if err != nil {
		return err
	}
	return json.Unmarshal(b, v)
}

func copyDir(src, dst string) error {
	return filepath.Walk(src, func(p string, fi os.FileInfo, err error) error {
		if err != nil {
			return err
		}
		rel, _ := filepath.Rel(src, p)
		d := filepath.Join(dst, rel)
		if fi.IsDir() {
			return os.MkdirAll(d, 0o777)
		}
		in, err := os.Open(p)
		if err != nil {
			return err
		}
		defer in.Close()
		out, err := os.Create(d)
		if err != nil {
			return err
		}
		defer out.Close()
		_, err = io.Copy(out, in)
		return err
	})
}

func toolsDir() string {
	if d := os.Getenv("VERIF_SPECDIR"); d != "" {
		return filepath.Join(filepath.Dir(d), "tools")
	}
	return "/verif/tools"
}

// c09Case is the self-contained replay: one history; the replay re-executes it, rebuilds
// every crash image and fails when a violation with the same signature shows again.
type c09Case struct {
	Beh   behav.Behaviour   `json:"beh"`
	Match map[string]string `json:"match,omitempty"`
	Hidx  int               `json:"hidx"` // index of the history in its run (seeds the second-epoch sample)
}

type histOutcome struct {
	images, obligations, nontrivial, epochs, epochsLeft int
	failures                        []behav.Failure
	drift                           []string
	events                          []map[string]interface{}
	apiErrs                         []string
}

// unitsFromSpec renders the specification's post state in the same form as State.units.
func unitsFromSpec(post map[string]interface{}) map[string]string {
	acc := map[string][]string{}
	add := func(k, item string) { acc[k] = append(acc[k], item) }
	for _, fld := range []string{"f", "m"} {
		for _, p := range pairsOf(post[fld]) {
			add(fmt.Sprintf("%s/%s/std/%d", idxI, fld, col(p[1])/sw), fmt.Sprintf("%d:%d", p[0], p[1]))
		}
	}
	for _, e := range behav.ToList(post["t"]) {
		a := behav.ToList(e)
		r, c, w := behav.ToInt(a[0]), behav.ToInt(a[1]), a[2].(string)
		add(fmt.Sprintf("%s/t/%s/%d", idxI, w, col(c)/sw), fmt.Sprintf("%d:%d", r, c))
	}
	for _, c := range behav.ToInts(post["ex"]) {
		add(fmt.Sprintf("%s/_exists/std/%d", idxI, col(c)/sw), fmt.Sprintf("0:%d", c))
	}
	for _, p := range pairsOf(post["kf"]) {
		add(fmt.Sprintf("%s/kf/std/%d", idxK, uint64(p[1])/sw), fmt.Sprintf("%d:%d", p[0], p[1]))
	}
	for _, c := range behav.ToInts(post["kex"]) {
		add(fmt.Sprintf("%s/_exists/std/%d", idxK, uint64(c)/sw), fmt.Sprintf("0:%d", c))
	}
	u := map[string]string{}
	for k, items := range acc {
		sort.Strings(items)
		u[k] = strings.Join(items, " ")
	}
	vals := map[int]int{}
	for _, p := range pairsOf(post["v"]) {
		vals[p[0]] = p[1]
	}
	for _, c := range absCols {
		if val, ok := vals[c]; ok {
			u[fmt.Sprintf("%s/v/bsig_v/%d", idxI, col(c)/sw)] += fmt.Sprintf("%d=%d ", c, val)
		}
	}
	for _, kind := range []struct{ unit, fld string }{{"keys/col", "ck"}, {"keys/row", "rk"}} {
		for i, k := range strsOf(post[kind.fld]) {
			u[kind.unit] += fmt.Sprintf("%d=%s ", i+1, k)
		}
	}
	return u
}

func diffUnits(a, b map[string]string) string {
	keys := map[string]bool{}
	for k := range a {
		keys[k] = true
	}
	for k := range b {
		keys[k] = true
	}
	var ks []string
	for k := range keys {
		if a[k] != b[k] {
			ks = append(ks, k)
		}
	}
	sort.Strings(ks)
	var sb strings.Builder
	for _, k := range ks {
		fmt.Fprintf(&sb, "%s: [%s] vs [%s]; ", k, a[k], b[k])
	}
	return sb.String()
}

// intCols parses "c=val c=val " of an int unit.
func intCols(s string) map[string]string {
	out := map[string]string{}
	for _, w := range strings.Fields(s) {
		if i := strings.IndexByte(w, '='); i > 0 {
			out[w[:i]] = w[i+1:]
		}
	}
	return out
}

// twoRows reports a column that holds two rows in a "row:col row:col" unit.
func twoRows(s string) (string, bool) {
	seen := map[string]string{}
	for _, w := range strings.Fields(s) {
		i := strings.IndexByte(w, ':')
		if i < 0 {
			continue
		}
		r, c := w[:i], w[i+1:]
		if prev, ok := seen[c]; ok && prev != r {
			return c, true
		}
		seen[c] = r
	}
	return "", false
}

// fieldOfUnit names the field of a unit ("i/m/std/0" -> "m", "keys/col" -> "keys").
func fieldOfUnit(u string) string {
	parts := strings.Split(u, "/")
	if parts[0] == "keys" {
		return "keys"
	}
	if len(parts) > 1 {
		return parts[1]
	}
	return u
}

func isIntUnit(u string) bool   { return strings.HasPrefix(u, idxI+"/v/") }
func isMutexUnit(u string) bool { return strings.HasPrefix(u, idxI+"/m/") }

// judge applies DurabilityAbs!RecoveredOK to one recovered image under one obligation
// (acked = number of acknowledged steps, inflight = step in flight or 0) and classifies
// a rejection. S[k] is the state after step k (S[0] before the history).
func judge(beh behav.Behaviour, S []map[string]string, p point, ob [2]int, rec recovered) (ok bool, match map[string]string, detail string) {
	acked, inflight := ob[0], ob[1]
	opKind := func(k int) string {
		if k >= 1 && k <= len(beh) {
			return beh[k-1].Str("op")
		}
		return "none"
	}
	if rec.Err != "" {
		sym := "restart_fails"
		if strings.HasPrefix(rec.Err, "panic:") {
			sym = "restart_panics"
		}
		op := opKind(inflight)
		if inflight == 0 {
			op = opKind(acked) // a kill after the acknowledgement: background work of the last step
		}
		return false, map[string]string{"op": op, "crash_after": p.After, "symptom": sym},
			fmt.Sprintf("restart fails: %s", rec.Err)
	}
	if rec.Err2 != "" {
		op := opKind(inflight)
		if inflight == 0 {
			op = opKind(acked)
		}
		return false, map[string]string{"op": op, "field": "", "crash_after": p.After, "symptom": "broken_after_restart"},
			fmt.Sprintf("the first restart succeeded, but %s", rec.Err2)
	}
	if rec.Err3 != "" {
		op := opKind(inflight)
		if inflight == 0 {
			op = opKind(acked)
		}
		sym := "broken_after_restart"
		if len(rec.Left) > 0 {
			sym = "leftover_affects_state"
		}
		return false, map[string]string{"op": op, "field": "", "crash_after": p.After, "symptom": sym},
			fmt.Sprintf("the first restart succeeded, but %s", rec.Err3)
	}
	a := S[acked]
	b := a
	if inflight > 0 && inflight < len(S) {
		b = S[inflight]
	}
	keys := map[string]bool{}
	for _, m := range []map[string]string{a, b, rec.Units} {
		for k := range m {
			keys[k] = true
		}
	}
	var units []string
	for k := range keys {
		units = append(units, k)
	}
	sort.Strings(units)
	for _, u := range units {
		r := rec.Units[u]
		if r == a[u] || r == b[u] {
			continue
		}
		// rejected by the abstract property: classify
		sym := "partial_write"
		op := opKind(inflight)
		if a[u] == b[u] {
			// this unit is not being changed by the write in flight: an acknowledged
			// state was lost (or something else changed). Attribute to the first step
			// whose change to the unit is missing.
			sym = "acked_lost"
			op = opKind(acked)
			for j := acked - 1; j >= 0; j-- {
				if S[j][u] == r {
					op = opKind(j + 1)
					break
				}
			}
		} else if isIntUnit(u) {
			ra, aa, bb := intCols(r), intCols(a[u]), intCols(b[u])
			for c, v := range ra {
				if v != aa[c] && v != bb[c] {
					sym = "never_written_value"
				}
			}
			for c := range aa {
				if _, ok := ra[c]; !ok {
					if _, ok2 := bb[c]; ok2 {
						sym = "never_written_value" // an existing value vanished though both states have one
					}
				}
			}
		} else if isMutexUnit(u) {
			if _, two := twoRows(r); two {
				sym = "mutex_two_rows"
			}
		}
		// crash_after names the last syscall that changed this unit (not the globally last
		// one, which may belong to a background snapshot of another fragment)
		return false, map[string]string{"op": op, "field": fieldOfUnit(u), "crash_after": p.lastOn(u),
				"progress": p.progressOn(u, inflight), "symptom": sym},
			fmt.Sprintf("unit %s recovered as [%s]; acknowledged state [%s], with the in-flight write [%s]", u, r, a[u], b[u])
	}
	return true, nil, ""
}

var straceOnce sync.Once
var straceArgs []string

func straceCmd() []string {
	straceOnce.Do(func() {
		straceArgs = []string{"strace"}
		// --seccomp-bpf stops the tracee only at the traced syscalls (much faster)
		if exec.Command("strace", "--seccomp-bpf", "-f", "-e", "trace=write", "-o", os.DevNull, "true").Run() == nil {
			straceArgs = append(straceArgs, "--seccomp-bpf")
		}
		straceArgs = append(straceArgs, "-f", "-y", "-xx", "-s", "200000", "-e", "trace="+straceSyscalls)
	})
	return straceArgs
}

// runHistory executes one history under strace, rebuilds every crash image, opens each in
// a fresh process and judges it.
func runHistory(work, base string, beh behav.Behaviour, keepEvents bool, hidx int) (*histOutcome, error) {
	out := &histOutcome{}
	if err := os.MkdirAll(work, 0o777); err != nil {
		return nil, err
	}
	if os.Getenv("VERIF_C09_KEEP") == "" {
		defer os.RemoveAll(work)
	}
	run := filepath.Join(work, "run")
	if err := copyDir(base, run); err != nil {
		return nil, fmt.Errorf("copy base: %v", err)
	}
	hb, _ := json.Marshal(beh)
	histPath := filepath.Join(work, "hist.json")
	if err := os.WriteFile(histPath, hb, 0o644); err != nil {
		return nil, err
	}
	statesPath := filepath.Join(work, "states.json")
	logPath := filepath.Join(work, "trace.txt")
	args := append(append([]string{}, straceCmd()[1:]...), "-o", logPath, os.Args[0], "-test.run", "^TestC09Writer$", "-test.count", "1")
	cmd := exec.Command("strace", args...)
	cmd.Env = append(os.Environ(), "VERIF_C09_DIR="+run, "VERIF_C09_HIST="+histPath, "VERIF_C09_STATES="+statesPath)
	var stderr, stdout bytes.Buffer
	cmd.Stderr, cmd.Stdout = &stderr, &stdout
	if err := cmd.Run(); err != nil {
		return nil, fmt.Errorf("writer under strace: %v\n%s\n%s", err, tail(stderr.String(), 1500), tail(stdout.String(), 1500))
	}
	var w writerOut
	if err := readJSON(statesPath, &w); err != nil {
		return nil, fmt.Errorf("writer states: %v\n%s", err, tail(stderr.String(), 1500))
	}
	if len(w.States) != len(beh)+1 {
		return nil, fmt.Errorf("writer recorded %d states for %d steps", len(w.States), len(beh))
	}
	out.apiErrs = w.Errs
	S := make([]map[string]string, len(w.States))
	for i, s := range w.States {
		S[i] = s.units()
	}
	// the live state after every step against the specification's post state
	for k, st := range beh {
		want := unitsFromSpec(behav.ToMap(st["post"]))
		if d := diffUnits(want, S[k+1]); d != "" {
			out.drift = append(out.drift, fmt.Sprintf("step %d %s: spec vs live: %s", k+1, st.Str("op"), d))
		}
	}
	imgs := filepath.Join(work, "out")
	py := exec.Command("python3", filepath.Join(toolsDir(), "strace2fs.py"), "--log", logPath, "--root", run, "--base", base, "--out", imgs)
	if b, err := py.CombinedOutput(); err != nil {
		return nil, fmt.Errorf("strace2fs: %v\n%s", err, tail(string(b), 2000))
	}
	rc := exec.Command(os.Args[0], "-test.run", "^TestC09Recover$", "-test.count", "1")
	rc.Env = append(os.Environ(), "VERIF_C09_IMAGES="+imgs, "VERIF_WORKERS=2", fmt.Sprintf("VERIF_C09_HIDX=%d", hidx))
	if b, err := rc.CombinedOutput(); err != nil {
		return nil, fmt.Errorf("recovery process: %v\n%s", err, tail(string(b), 3000))
	}
	var pts pointsFile
	var recs []recovered
	if err := readJSON(filepath.Join(imgs, "points.json"), &pts); err != nil {
		return nil, err
	}
	if err := readJSON(filepath.Join(imgs, "recovered.json"), &recs); err != nil {
		return nil, err
	}
	if !pts.Closed || len(recs) != len(pts.Points) {
		return nil, fmt.Errorf("incomplete run: closed=%v points=%d recovered=%d", pts.Closed, len(pts.Points), len(recs))
	}
	if keepEvents {
		var evs []map[string]interface{}
		if err := readJSON(filepath.Join(imgs, "events.json"), &evs); err != nil {
			return nil, err
		}
		out.events = evs
	}
	for i, p := range pts.Points {
		rec := recs[i]
		out.images++
		if rec.Epoch {
			out.epochs++
			if len(rec.Left) > 0 {
				out.epochsLeft++
			}
		}
		nt := len(rec.Left) > 0
		for _, ob := range p.Obligations {
			out.obligations++
			if ob[1] > 0 {
				nt = true
			}
			ok, match, detail := judge(beh, S, p, ob, rec)
			if ok {
				continue
			}
			if strings.HasPrefix(rec.Err, "panic:") && !behav.PanicInCode(rec.Stack) {
				return nil, fmt.Errorf("harness panic while opening image %d: %s\n%s", p.N, rec.Err, rec.Stack)
			}
			out.failures = append(out.failures, behav.Failure{
				Match: match,
				Detail: fmt.Sprintf("history %s\ncrash point %d (after %s on %s, #%d within step %d %s), %d steps acknowledged, step in flight: %d\n%s\nleftover files: %v",
					histString(beh), p.N, p.After, p.Unit, p.Nth, p.InflightAt, p.Op, ob[0], ob[1], detail, rec.Left),
				Replay: c09Case{Beh: beh, Match: match, Hidx: hidx},
			})
			break
		}
		if nt {
			out.nontrivial++
		}
	}
	return out, nil
}

func histString(beh behav.Behaviour) string {
	var parts []string
	for _, st := range beh {
		cp := behav.Step{}
		for k, v := range st {
			if k != "post" {
				cp[k] = v
			}
		}
		parts = append(parts, behav.JSON(cp))
	}
	return strings.Join(parts, " ; ")
}

func tail(s string, n int) string {
	if len(s) > n {
		return s[len(s)-n:]
	}
	return s
}

// sameMatch compares two failure signatures for the replay: operation, field and symptom
// must agree; the syscall the crash point follows may differ between two runs of the same
// history when a background snapshot is involved.
func sameMatch(a, b map[string]string) bool {
	for _, k := range []string{"op", "field", "symptom"} {
		if a[k] != b[k] {
			return false
		}
	}
	return true
}

// TestC09 runs every history of $VERIF_BEH (or the replay case).
func TestC09(t *testing.T) {
	res := behav.NewResult()
	defer func() {
		if err := res.Write(); err != nil {
			t.Fatal(err)
		}
	}()
	scratch := os.Getenv("VERIF_SCRATCH")
	if scratch == "" {
		scratch = os.TempDir()
	}
	// the check hands over a tmpfs work directory when there is one (the histories are
	// fsync-heavy); it is gone when a replay runs, which then uses the scratch directory
	if w := os.Getenv("VERIF_C09_WORK"); w != "" {
		if fi, err := os.Stat(w); err == nil && fi.IsDir() {
			scratch = w
		}
	}
	root, err := os.MkdirTemp(scratch, "c09-")
	if err != nil {
		t.Fatal(err)
	}
	if os.Getenv("VERIF_C09_KEEP") == "" {
		defer os.RemoveAll(root)
	}
	base := filepath.Join(root, "base")
	if err := makeBase(base); err != nil {
		res.SetInconclusive("creating the base image failed: " + err.Error())
		return
	}
	if raw, ok := behav.LoadReplay(); ok {
		var c c09Case
		if err := json.Unmarshal(raw, &c); err != nil {
			t.Fatal(err)
		}
		res.Evaluations = 1
		o, err := runHistory(filepath.Join(root, "h0"), base, c.Beh, false, c.Hidx)
		if err != nil {
			res.SetInconclusive("replay: " + err.Error())
			return
		}
		for _, f := range o.failures {
			if c.Match == nil || sameMatch(f.Match, c.Match) {
				res.Fail(f)
			}
		}
		return
	}
	behs := behav.LoadEnv()
	traceOut := os.Getenv("VERIF_C09_TRACE")
	var mu sync.Mutex
	var traces []map[string]interface{}
	var driftSamples, apiErrs []string
	var distinct behav.Distinct
	behav.Parallel(len(behs), func(i int) {
		o, err := runHistory(filepath.Join(root, fmt.Sprintf("h%d", i)), base, behs[i], traceOut != "", i)
		if err != nil {
			res.SetInconclusive(fmt.Sprintf("history %d (%s): %v", i, histString(behs[i]), err))
			return
		}
		for j := 0; j < o.images; j++ {
			res.CountEval()
		}
		if distinct.Add(histString(behs[i])) {
			for j := 0; j < o.nontrivial; j++ {
				res.CountNontrivial()
			}
		}
		for _, st := range behs[i] {
			res.Cover("op:" + st.Str("op"))
		}
		for _, f := range o.failures {
			res.Fail(f)
		}
		mu.Lock()
		defer mu.Unlock()
		res.Coverage["obligations"] = toInt64(res.Coverage["obligations"]) + int64(o.obligations)
		res.Coverage["second_epochs"] = toInt64(res.Coverage["second_epochs"]) + int64(o.epochs)
		res.Coverage["second_epochs_on_images_with_leftovers"] = toInt64(res.Coverage["second_epochs_on_images_with_leftovers"]) + int64(o.epochsLeft)
		if len(o.drift) > 0 {
			res.Coverage["histories_with_semantic_drift"] = toInt64(res.Coverage["histories_with_semantic_drift"]) + 1
			if len(driftSamples) < 5 {
				driftSamples = append(driftSamples, histString(behs[i])+" => "+o.drift[0])
			}
		}
		if len(o.apiErrs) > 0 && len(apiErrs) < 5 {
			apiErrs = append(apiErrs, o.apiErrs...)
		}
		if i%(len(behs)/4+1) == 0 {
			res.AddSample(map[string]interface{}{"history": histString(behs[i]), "crash_images": o.images, "obligations": o.obligations})
		}
		if traceOut != "" {
			traces = append(traces, map[string]interface{}{"hist": i, "steps": stepsNoPost(behs[i]), "events": o.events})
		}
	}, func(i int, v interface{}, stack string) {
		res.SetInconclusive(fmt.Sprintf("harness panic in history %d: %v\n%s", i, v, stack))
	})
	if len(driftSamples) > 0 {
		res.Coverage["semantic_drift_samples"] = driftSamples
	}
	if len(apiErrs) > 0 {
		res.Coverage["api_errors"] = apiErrs
	}
	if traceOut != "" {
		sort.Slice(traces, func(a, b int) bool { return traces[a]["hist"].(int) < traces[b]["hist"].(int) })
		b, _ := json.Marshal(traces)
		if err := os.WriteFile(traceOut, b, 0o644); err != nil {
			res.SetInconclusive("writing traces: " + err.Error())
		}
	}
}

// stepsNoPost returns the steps of a history without their post states.
func stepsNoPost(beh behav.Behaviour) []behav.Step {
	var out []behav.Step
	for _, st := range beh {
		cp := behav.Step{}
		for k, v := range st {
			if k != "post" {
				cp[k] = v
			}
		}
		out = append(out, cp)
	}
	return out
}

func toInt64(v interface{}) int64 {
	switch x := v.(type) {
	case int64:
		return x
	case int:
		return int64(x)
	}
	return 0
}
