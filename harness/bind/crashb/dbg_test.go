package crashb

import (
	"fmt"
	"os"
	"testing"
)

func TestC09Dbg(t *testing.T) {
	d := os.Getenv("VERIF_C09_DBG")
	if d == "" {
		t.Skip()
	}
	u, err := openImage(d)
	fmt.Println(u, err)
}
