package crashb

import (
	"encoding/json"
	"fmt"
	"os"
	"testing"

	"github.com/pilosa/pilosa"

	"verif/harness/behav"
)

// writerOut is what the writer child leaves for the parent: the projected live state
// after the open (index 0) and after every acknowledged step (index k), and the error
// text of steps the API refused.
type writerOut struct {
	States []*State `json:"states"`
	Errs   []string `json:"errs"`
}

// TestC09Writer is the child process run under strace: it opens the server on
// $VERIF_C09_DIR, executes the history in $VERIF_C09_HIST step by step with BEGIN/ACK
// markers on stderr, records the live state after every step in $VERIF_C09_STATES and
// closes the server.
func TestC09Writer(t *testing.T) {
	dir := os.Getenv("VERIF_C09_DIR")
	if dir == "" {
		t.Skip("child mode only")
	}
	raw, err := os.ReadFile(os.Getenv("VERIF_C09_HIST"))
	if err != nil {
		t.Fatal(err)
	}
	var beh behav.Behaviour
	if err := json.Unmarshal(raw, &beh); err != nil {
		t.Fatal(err)
	}
	out := &writerOut{}
	save := func() {
		b, _ := json.Marshal(out)
		if err := os.WriteFile(os.Getenv("VERIF_C09_STATES"), b, 0o644); err != nil {
			t.Fatal(err)
		}
	}
	m := newCommand(dir)
	if err := m.Start(); err != nil {
		mark("FATAL start: %v", err)
		t.Fatal(err)
	}
	h := m.Server.Holder()
	tf := pilosa.VerifDurTranslateFile(h)
	snap := func() {
		s, err := project(h, tf)
		if err != nil {
			mark("FATAL project: %v", err)
			t.Fatal(err)
		}
		out.States = append(out.States, s)
	}
	maxopn := 0
	if len(beh) > 0 {
		maxopn = beh[0].Int("maxopn")
		setBigCut(beh[0].Str("bigcut"))
	}
	if maxopn > 0 {
		pilosa.VerifDurSetMaxOpN(h, maxopn)
	}
	mark("OPEN")
	snap()
	for k, st := range beh {
		mark("BEGIN %d %s", k+1, st.Str("op"))
		err := execStep(m.API, st)
		if err != nil {
			mark("ERR %d %v", k+1, err)
			out.Errs = append(out.Errs, fmt.Sprintf("step %d %s: %v", k+1, st.Str("op"), err))
		} else {
			mark("ACK %d", k+1)
		}
		snap()
		if maxopn > 0 {
			pilosa.VerifDurSetMaxOpN(h, maxopn) // fragments created by this step
		}
	}
	pilosa.VerifDurAwaitSnapshots(h)
	mark("QUIET")
	save()
	if err := m.Close(); err != nil {
		mark("FATAL close: %v", err)
		t.Fatal(err)
	}
	mark("CLOSED")
}

// TestC09Base creates the base directory image (schema + base data) in $VERIF_C09_BASE.
func TestC09Base(t *testing.T) {
	dir := os.Getenv("VERIF_C09_BASE")
	if dir == "" {
		t.Skip("child mode only")
	}
	if err := makeBase(dir); err != nil {
		t.Fatal(err)
	}
}
