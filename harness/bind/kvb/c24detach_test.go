//go:build verif

package kvb

import (
	"fmt"
	"os"
	"os/exec"
	"path/filepath"
	"strings"
	"testing"
	"time"

	"github.com/pilosa/pilosa"

	"verif/harness/behav"
)

// TestC24Detach: a replica whose primary is taken away (cluster shrinks to one node:
// SetPrimaryStore("", nil)) and later assigned again must resume at its offset and end
// with the primary's mapping. The scenario runs in a child process because the failure
// mode is a panic on the store's own goroutine, which no recover() in the driver can
// catch.
func TestC24Detach(t *testing.T) {
	res := behav.NewResult()
	defer func() {
		if err := res.Write(); err != nil {
			t.Fatal(err)
		}
	}()
	rounds := behav.EnvInt("VERIF_ROUNDS", 3)
	for round := 0; round < rounds; round++ {
		cmd := exec.Command(os.Args[0], "-test.run", "^TestC24DetachChild$", "-test.count", "1")
		cmd.Env = append(os.Environ(), "VERIF_DETACH_CHILD=1", fmt.Sprintf("VERIF_ROUND=%d", round), "VERIF_REPLAY=", "VERIF_OUT="+os.DevNull)
		out, err := cmd.CombinedOutput()
		res.CountEval()
		res.CountNontrivial()
		if err == nil && strings.Contains(string(out), "DETACH-CHILD-OK") {
			res.Cover("detach_reattach_ok")
			continue
		}
		sym := "detach_reattach"
		if strings.Contains(string(out), "panic:") {
			sym = "panic"
			if !behav.PanicInCode(string(out)) {
				res.SetInconclusive("detach child: " + firstLines(string(out), 30))
				return
			}
		}
		res.Fail(behav.Failure{Match: map[string]string{"op": "Detach", "symptom": sym, "mode": "detach"},
			Detail: fmt.Sprintf("primary x -> none -> y on a replica (round %d): %v\n%s", round, err, firstLines(string(out), 25)),
			Replay: map[string]interface{}{"detach": true, "round": round}})
		return
	}
}

func TestC24DetachChild(t *testing.T) {
	if os.Getenv("VERIF_DETACH_CHILD") == "" {
		t.Skip("helper of TestC24Detach")
	}
	round := behav.EnvInt("VERIF_ROUND", 0)
	dir := scratchDir("c24d")
	defer os.RemoveAll(dir)
	p := newTranslateFile(filepath.Join(dir, "primary"))
	if err := p.Open(); err != nil {
		t.Fatal(err)
	}
	defer p.Close()
	r := newTranslateFile(filepath.Join(dir, "replica"))
	if err := r.Open(); err != nil {
		t.Fatal(err)
	}
	defer r.Close()
	prof := profileFor(keyProfiles[round%len(keyProfiles)], int64(round))
	mon := newMonitor()
	translate := func(ns string, k int) {
		keys := prof.block(k)
		ids, err := nsTranslate(p, ns, keys)
		if err != nil {
			t.Fatal(err)
		}
		if sym, d := mon.observe(ns, keys, ids); sym != "" {
			t.Fatalf("%s: %s", sym, d)
		}
	}
	waitPrimary := func(id string) {
		deadline := time.Now().Add(waitMax)
		for pilosa.VerifTranslatePrimaryID(r) != id {
			if time.Now().After(deadline) {
				t.Fatalf("the replica's primary did not become %q", id)
			}
			time.Sleep(time.Millisecond)
		}
	}
	converge := func(what string) {
		deadline := time.Now().Add(waitMax)
		for pilosa.VerifTranslateSize(r) != pilosa.VerifTranslateSize(p) {
			if time.Now().After(deadline) || pilosa.VerifTranslateSize(r) > pilosa.VerifTranslateSize(p) {
				t.Fatalf("%s: the replica's log has %d bytes, the primary's %d", what, pilosa.VerifTranslateSize(r), pilosa.VerifTranslateSize(p))
			}
			time.Sleep(time.Millisecond)
		}
		for ns, ids := range mon.idOf {
			for k, id := range ids {
				got, err := nsTranslate(r, ns, []string{k})
				if err != nil || got[0] != id {
					t.Fatalf("%s: replica: key %s of %s -> %v, %v; want %d", what, short(k), ns, got, err, id)
				}
				if back, _ := nsReverse(r, ns, id); back != k {
					t.Fatalf("%s: replica: id %d of %s -> %s, want %s", what, id, ns, short(back), short(k))
				}
			}
		}
	}
	r.SetPrimaryStore("x", p)
	waitPrimary("x")
	translate("c", 1)
	translate("r", 2)
	converge("attached to x")
	for i := 0; i < 2; i++ {
		r.SetPrimaryStore("", nil) // the node is alone in the cluster
		waitPrimary("")
		translate("c", 3+i) // the primary goes on
		y := fmt.Sprintf("y%d", i)
		r.SetPrimaryStore(y, p) // the cluster grows again
		waitPrimary(y)
		translate("r", 3+i)
		converge("re-attached to " + y)
	}
	fmt.Println("DETACH-CHILD-OK")
}
