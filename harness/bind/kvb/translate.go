//go:build verif

package kvb

import (
	"context"
	"fmt"
	"io"
	"strings"
	"sync"
	"sync/atomic"
	"time"

	"github.com/cespare/xxhash"
	"github.com/pilosa/pilosa"
)

// ---- key refinement: abstract key -> block of concrete keys -----------------------

// keyProfile refines the abstract keys 1..4 of spec/Translate.tla: every abstract key
// is a block of concrete keys (a distinguished main key and block-1 fillers) that are
// always translated together, and every namespace is pre-filled with `prefill` other
// keys before the history starts, so that the hash index reaches its 90 % load
// threshold (230 of 256 slots) and rehashes in the middle of the history.
type keyProfile struct {
	Name    string
	Main    [5]string
	Block   int
	Prefill int
	blocks  [5][]string
}

var keyProfiles = []string{"plain", "odd", "edge", "blocks", "collide", "oddedge", "collidefull"}

// collidingKeys returns n distinct keys whose hashes agree in the low `bits` bits, i.e.
// that start probing at the same slot of every table of up to 2^bits slots.
func collidingKeys(tag string, n int, bits uint) []string {
	mask := uint64(1)<<bits - 1
	var out []string
	var want uint64
	for i := 0; len(out) < n; i++ {
		k := fmt.Sprintf("col-%s-%d", tag, i)
		h := xxhash.Sum64([]byte(k)) & mask
		if len(out) == 0 {
			want = h
			out = append(out, k)
		} else if h == want {
			out = append(out, k)
		}
	}
	return out
}

var profCache sync.Map

func profileFor(name string, seed int64) *keyProfile {
	ck := fmt.Sprintf("%s/%d", name, seed)
	if p, ok := profCache.Load(ck); ok {
		return p.(*keyProfile)
	}
	tag := fmt.Sprintf("s%d", seed)
	p := &keyProfile{Name: name, Block: 1}
	for k := 1; k <= 4; k++ {
		p.Main[k] = fmt.Sprintf("key%d-%s", k, tag)
	}
	odd := func() {
		p.Main[1] = ""                                                    // the empty key
		p.Main[2] = strings.Repeat("0123456789abcdefghij-Ключ-鍵-", 150)[:5000] // larger than the 4096-byte bufio buffers
		p.Main[3] = "ключ-鍵-🔑-" + tag
		p.Main[4] = "a\x00b\xff\n" + tag
	}
	switch name {
	case "plain":
	case "odd":
		odd()
	case "edge":
		p.Prefill = 229 // the 2nd new key of the history crosses the threshold of 230
	case "oddedge":
		odd()
		p.Prefill = 228 + int(seed%3)
	case "blocks":
		p.Block = 120 // a 3-key batch is a 5 kB entry; 256 -> 512 -> 1024 slots on the way
	case "collide":
		ks := collidingKeys(tag, 4, 11)
		copy(p.Main[1:], ks)
		p.Prefill = []int{0, 200, 229}[seed%3]
	case "collidefull":
		// the fillers of a block collide with their main key
		p.Block = 8
		p.Prefill = 200
	default:
		panic("unknown key profile " + name)
	}
	for k := 1; k <= 4; k++ {
		p.blocks[k] = p.mkBlock(k)
	}
	profCache.Store(ck, p)
	return p
}

// block returns the concrete keys of abstract key k (main key first).
func (p *keyProfile) block(k int) []string { return p.blocks[k] }

func (p *keyProfile) mkBlock(k int) []string {
	out := []string{p.Main[k]}
	if p.Name == "collidefull" {
		return append(out, collidingKeys(fmt.Sprintf("b%d-%s", k, p.Main[k]), p.Block, 10)[1:]...)
	}
	for i := 1; i < p.Block; i++ {
		out = append(out, fmt.Sprintf("fill-%d-%d-%s", k, i, p.Main[4]))
	}
	return out
}

func (p *keyProfile) prefill(ns string) []string {
	out := make([]string, p.Prefill)
	for i := range out {
		out[i] = fmt.Sprintf("pre-%s-%d", ns, i)
	}
	return out
}

// ---- the gate between the read phase and the write phase ------------------------------

type gateTicket struct{ release chan struct{} }

type gateCtl struct {
	arrivals    chan *gateTicket
	passthrough int32
	unexpected  int32
}

var gates sync.Map // *pilosa.TranslateFile -> *gateCtl

func init() {
	pilosa.VerifTranslateGate = func(s *pilosa.TranslateFile) {
		v, ok := gates.Load(s)
		if !ok {
			return
		}
		g := v.(*gateCtl)
		if m := atomic.LoadInt32(&g.passthrough); m != 0 {
			if m == 2 {
				atomic.AddInt32(&g.unexpected, 1)
			}
			return
		}
		t := &gateTicket{release: make(chan struct{})}
		g.arrivals <- t
		<-t.release
	}
	// the replica's side: an entry read off the stream is held in flight (before the
	// replica's lock is taken) while the gate of its store is armed
	pilosa.VerifTranslateReplGate = func(s *pilosa.TranslateFile) {
		v, ok := replGates.Load(s)
		if !ok {
			return
		}
		g := v.(*gateCtl)
		if atomic.LoadInt32(&g.passthrough) != 0 {
			return
		}
		t := &gateTicket{release: make(chan struct{})}
		g.arrivals <- t
		<-t.release
	}
}

var replGates sync.Map // replica *pilosa.TranslateFile -> *gateCtl (passthrough != 0: not armed)

// ---- the primary as the replica sees it: a byte-gated stream ---------------------------

// gatedPrimary is the TranslateStore handed to the replica. Its Reader wraps the real
// reader of the current primary store and delivers bytes only up to `limit`, which
// the harness moves from entry boundary to entry boundary (or into an entry, for a
// cut). Every Reader call is reported with the offset the replica asked for.
type gatedPrimary struct {
	mu       sync.Mutex
	cond     *sync.Cond
	primary  *pilosa.TranslateFile
	limit    int64
	gen      int
	requests chan [2]int64 // (offset asked for, link id)
	pos     int64 // offset up to which the current reader has delivered
	links    int   // number of replica objects attached so far; the last one is current
	stale    int   // reconnects of replica objects closed earlier
}

func newGatedPrimary(p *pilosa.TranslateFile) *gatedPrimary {
	g := &gatedPrimary{primary: p, requests: make(chan [2]int64, 64)}
	g.cond = sync.NewCond(&g.mu)
	return g
}

func (g *gatedPrimary) TranslateColumnsToUint64(index string, values []string) ([]uint64, error) {
	return nil, pilosa.ErrTranslateStoreReadOnly
}
func (g *gatedPrimary) TranslateColumnToString(index string, id uint64) (string, error) {
	return "", pilosa.ErrTranslateStoreReadOnly
}
func (g *gatedPrimary) TranslateRowsToUint64(index, field string, values []string) ([]uint64, error) {
	return nil, pilosa.ErrTranslateStoreReadOnly
}
func (g *gatedPrimary) TranslateRowToString(index, field string, id uint64) (string, error) {
	return "", pilosa.ErrTranslateStoreReadOnly
}

// replicaLink is the gated primary as handed to ONE replica store object, so that a
// request can be told from the requests of replica objects closed earlier (whose
// replication goroutine may outlive Close for a moment and reconnect once more).
type replicaLink struct {
	*gatedPrimary
	id int
}

func (g *gatedPrimary) link() *replicaLink {
	g.mu.Lock()
	defer g.mu.Unlock()
	// (streams opened through earlier links are left alone until the replica itself
	// drops them: breaking them here would send the old replication goroutine into its
	// retry loop just when handlePrimaryStoreEvent takes the store's lock and waits for
	// that goroutine - which then blocks in size() for ever; see design/C24.md)
	g.links++
	return &replicaLink{gatedPrimary: g, id: g.links}
}

func (l *replicaLink) Reader(ctx context.Context, off int64) (io.ReadCloser, error) {
	return l.gatedPrimary.reader(ctx, off, l.id)
}

func (g *gatedPrimary) reader(ctx context.Context, off int64, link int) (io.ReadCloser, error) {
	g.mu.Lock()
	if link != g.links {
		// a replica object that was closed: it gets a stream that never delivers
		g.stale++
		g.mu.Unlock()
		<-ctx.Done()
		return nil, ctx.Err()
	}
	p, gen := g.primary, g.gen
	g.pos = off
	g.mu.Unlock()
	rc, err := p.Reader(ctx, off)
	if err != nil {
		return nil, err
	}
	r := &gatedReader{g: g, rc: rc, ctx: ctx, pos: off, gen: gen, link: link}
	go func() {
		<-ctx.Done()
		g.mu.Lock()
		g.cond.Broadcast()
		g.mu.Unlock()
	}()
	g.requests <- [2]int64{off, int64(link)}
	return r, nil
}

type gatedReader struct {
	g      *gatedPrimary
	rc     io.ReadCloser
	ctx    context.Context
	pos    int64
	gen    int
	link   int
	closed bool
}

func (r *gatedReader) Read(p []byte) (int, error) {
	g := r.g
	g.mu.Lock()
	// (a stream opened through an earlier link delivers nothing more; it ends when the
	// replica drops it)
	for (r.pos >= g.limit || r.link != g.links) && r.gen == g.gen && !r.closed && r.ctx.Err() == nil {
		g.cond.Wait()
	}
	switch {
	case r.gen != g.gen:
		g.mu.Unlock()
		return 0, io.ErrUnexpectedEOF // the connection to the primary broke
	case r.closed:
		g.mu.Unlock()
		return 0, io.ErrClosedPipe
	case r.ctx.Err() != nil:
		g.mu.Unlock()
		return 0, r.ctx.Err()
	}
	max := g.limit - r.pos
	g.mu.Unlock()
	if int64(len(p)) > max {
		p = p[:max]
	}
	n, err := r.rc.Read(p)
	g.mu.Lock()
	r.pos += int64(n)
	if r.gen == g.gen && r.link == g.links {
		g.pos = r.pos
	}
	g.cond.Broadcast()
	g.mu.Unlock()
	return n, err
}

func (r *gatedReader) Close() error {
	r.g.mu.Lock()
	r.closed = true
	r.g.cond.Broadcast()
	r.g.mu.Unlock()
	return r.rc.Close()
}

// setLimit lets the stream run up to byte offset off.
func (g *gatedPrimary) setLimit(off int64) {
	g.mu.Lock()
	g.limit = off
	g.cond.Broadcast()
	g.mu.Unlock()
}

// waitDelivered waits until the current reader has handed out everything up to off.
func (g *gatedPrimary) waitDelivered(off int64, d time.Duration) bool {
	deadline := time.Now().Add(d)
	for {
		g.mu.Lock()
		ok := g.pos >= off
		g.mu.Unlock()
		if ok {
			return true
		}
		if time.Now().After(deadline) {
			return false
		}
		time.Sleep(200 * time.Microsecond)
	}
}

// breakStream makes the current reader fail as a broken connection does.
func (g *gatedPrimary) breakStream() {
	g.mu.Lock()
	g.gen++
	g.cond.Broadcast()
	g.mu.Unlock()
}

// waitRequest waits for the replica's next Reader call and returns the offset it asked for.
func (g *gatedPrimary) waitRequest(d time.Duration) (int64, bool) {
	timeout := time.After(d)
	for {
		select {
		case rq := <-g.requests:
			g.mu.Lock()
			current := int(rq[1]) == g.links
			if !current {
				g.stale++
			}
			g.mu.Unlock()
			if current {
				return rq[0], true
			}
		case <-timeout:
			return 0, false
		}
	}
}

const (
	idxName = "idx"
	fldName = "fld"
	mapSize = 1 << 24
)

// translate / reverse on a namespace: "c*" = column keys of index idx, "r*" = row keys of idx/fld.
func nsTranslate(s *pilosa.TranslateFile, ns string, keys []string) ([]uint64, error) {
	if strings.HasPrefix(ns, "c") {
		return s.TranslateColumnsToUint64(idxName+ns[1:], keys)
	}
	return s.TranslateRowsToUint64(idxName, fldName+ns[1:], keys)
}

func nsReverse(s *pilosa.TranslateFile, ns string, id uint64) (string, error) {
	if strings.HasPrefix(ns, "c") {
		return s.TranslateColumnToString(idxName+ns[1:], id)
	}
	return s.TranslateRowToString(idxName, fldName+ns[1:], id)
}

func newTranslateFile(path string) *pilosa.TranslateFile {
	s := pilosa.NewTranslateFile(pilosa.OptTranslateFileMapSize(mapSize))
	s.Path = path
	pilosa.VerifTranslateSetRetryInterval(s, 5*time.Millisecond)
	return s
}
