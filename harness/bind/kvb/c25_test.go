//go:build verif

package kvb

import (
	"bytes"
	"encoding/json"
	"fmt"
	"os"
	"sort"
	"strings"
	"testing"

	"verif/harness/behav"
)

// c25Case is a self-contained replay: one behaviour of spec/Attrs.tla on one target
// under one value profile.
type c25Case struct {
	Beh     behav.Behaviour `json:"beh"`
	Target  string          `json:"target"` // store | rowq | rowq1 | colq
	Profile string          `json:"profile"`
	Variant int             `json:"variant"` // integer input type / mutation style
	Tag     string          `json:"tag"`     // unique marker key the case scribbles with
	// Corrupt (self-test only): step whose expectation is falsified.
	Corrupt int `json:"corrupt,omitempty"`
}

func (c *c25Case) nstores() int {
	n := 1
	for _, st := range c.Beh {
		if st.Int("st") > n {
			n = st.Int("st")
		}
		if st.Int("st2") > n {
			n = st.Int("st2")
		}
		for _, e := range behav.ToList(st["state"]) {
			if s := behav.ToInt(behav.ToList(e)[0]); s > n {
				n = s
			}
		}
	}
	return n
}

func (c *c25Case) ids() []uint64 {
	set := map[uint64]bool{0: true, 99: true, 100: true, 101: true}
	for _, st := range c.Beh {
		if st.Has("id") {
			set[uint64(st.Int("id"))] = true
		}
	}
	var out []uint64
	for id := range set {
		out = append(out, id)
	}
	sort.Slice(out, func(i, j int) bool { return out[i] < out[j] })
	return out
}

func openTarget(c *c25Case, slot int) (attrTarget, error) {
	switch c.Target {
	case "store":
		return newStoreTarget(c.nstores())
	case "rowq":
		return newQueryTarget(slot, false, c.nstores(), c.ids(), false)
	case "rowq1":
		return newQueryTarget(slot, false, c.nstores(), c.ids(), true)
	case "colq":
		return newQueryTarget(slot, true, c.nstores(), c.ids(), false)
	}
	return nil, fmt.Errorf("unknown target %q", c.Target)
}

// stripForeign removes scribble keys of other cases running in the same process (the
// code as found shares one empty map process-wide); the case's own marker stays.
func stripForeign(m map[string]interface{}, own string, cov func(string)) map[string]interface{} {
	out := make(map[string]interface{}, len(m))
	for k, v := range m {
		if strings.HasPrefix(k, "zz") && k != own {
			cov("foreign_scribble_seen")
			continue
		}
		out[k] = v
	}
	return out
}

// runC25 replays one case; nil when the code agrees with the specification.
func runC25(c *c25Case, slot int, cov func(string)) (fail *stepFail, err error) {
	tg, err := openTarget(c, slot)
	if err != nil {
		return nil, err
	}
	defer tg.Close()
	own := "zz" + c.Tag
	returned := map[int]map[string]interface{}{}          // step -> map handed out by Read
	returnedBlk := map[int]map[uint64]map[string]interface{}{} // step -> BlockData result
	var scribbled []func()
	defer func() {
		for _, undo := range scribbled {
			undo()
		}
	}()
	bad := func(i int, op, sym, format string, a ...interface{}) *stepFail {
		return &stepFail{Step: i, Op: op, Symptom: sym, Detail: fmt.Sprintf(format, a...)}
	}
	checkRead := func(i int, op string, st int, id uint64, want map[string]interface{}, keep bool) *stepFail {
		got, err := tg.Read(st, id)
		if err != nil {
			return bad(i, op, "error", "Attrs(%d) of store %d: %v", id, st, err)
		}
		if keep {
			returned[i] = got
		}
		if d := sameAttrs(stripForeign(got, own, cov), want); d != "" {
			sym := "wrong_attrs"
			if _, leaked := got[own]; leaked || strings.Contains(d, "scribbled") {
				sym = "caller_mutation_visible"
			}
			return bad(i, op, sym, "Attrs(%d) of store %d = %s, want %s: %s", id, st, showAttrs(got), showAttrs(want), d)
		}
		return nil
	}

	// checkDiff compares the block checksums of two stores, and what the code reports as
	// their difference, with the specification's three-valued relation per block.
	checkDiff := func(i int, op string, s, s2 int, relv interface{}, have map[int]bool, corrupt bool) *stepFail {
		a, b := tg.Store(s), tg.Store(s2)
		if a == nil || b == nil {
			return bad(i, op, "error", "store not found")
		}
		b1, err := a.Blocks()
		if err != nil {
			return bad(i, op, "error", "Blocks: %v", err)
		}
		b2, err := b.Blocks()
		if err != nil {
			return bad(i, op, "error", "Blocks: %v", err)
		}
		mustIn, mustNotIn := map[uint64]bool{}, map[uint64]bool{}
		for _, e := range behav.ToList(relv) {
			l := behav.ToList(e)
			blk := uint64(behav.ToInt(l[0]))
			rel, _ := l[1].(string)
			if corrupt {
				rel = map[string]string{"eq": "ne", "ne": "eq", "free": "free"}[rel]
			}
			sum1, ok1 := blockSum(b1, blk)
			sum2, ok2 := blockSum(b2, blk)
			equal := (!ok1 && !ok2) || (ok1 && ok2 && bytes.Equal(sum1, sum2))
			cov("rel_" + rel)
			switch rel {
			case "eq":
				mustNotIn[blk] = true
				if !equal {
					return bad(i, op, "checksum_differs", "block %d holds the same attributes in stores %d and %d but the checksums differ (present %v/%v, %x vs %x)", blk, s, s2, ok1, ok2, sum1, sum2)
				}
			case "ne":
				if have[int(blk)] {
					mustIn[blk] = true
				}
				if equal {
					return bad(i, op, "checksum_equal", "block %d holds different attributes in stores %d and %d but the checksums are equal (present %v/%v, %x)", blk, s, s2, ok1, ok2, sum1)
				}
			}
		}
		ids, blocks, err := tg.Diff(s, s2)
		if err != nil {
			return bad(i, op, "error", "diff: %v", err)
		}
		if blocks != nil {
			if want := refDiff(b1, b2); fmt.Sprint(want) != fmt.Sprint(blocks) && !(len(want) == 0 && len(blocks) == 0) {
				return bad(i, op, "diff_list", "Diff(%v, %v) = %v, want %v", blockIDs(b1), blockIDs(b2), blocks, want)
			}
		}
		// the ids reported must cover every differing block that holds attributes and
		// no block that is equal
		for id := range ids {
			if mustNotIn[id/100] {
				return bad(i, op, "diff_extra", "diff of stores %d,%d reports id %d of block %d whose attributes are equal", s, s2, id, id/100)
			}
		}
		for blk := range mustIn {
			found := false
			for id := range ids {
				if id/100 == blk {
					found = true
				}
			}
			if !found {
				return bad(i, op, "diff_missing", "diff of stores %d,%d reports nothing of block %d whose attributes differ (reported ids %v)", s, s2, blk, keysOf(ids))
			}
		}
		return nil
	}
	// checkBlocks compares the block list of a store with the blocks that must / may exist.
	checkBlocks := func(i int, op string, s int, must, may map[int]bool) *stepFail {
		store := tg.Store(s)
		if store == nil {
			return bad(i, op, "error", "store %d not found", s)
		}
		bs, err := store.Blocks()
		if err != nil {
			return bad(i, op, "error", "Blocks: %v", err)
		}
		got := blockIDs(bs)
		seen := map[int]bool{}
		for j, b := range got {
			if j > 0 && got[j-1] >= b {
				return bad(i, op, "blocks_unsorted", "Blocks() ids %v not strictly ascending", got)
			}
			seen[int(b)] = true
			if !must[int(b)] && !may[int(b)] {
				return bad(i, op, "extra_block", "Blocks() = %v lists block %d which holds no attributes (expected %v, optional %v)", got, b, must, may)
			}
			if len(bs[j].Checksum) == 0 {
				return bad(i, op, "empty_checksum", "block %d has an empty checksum", b)
			}
		}
		for b := range must {
			if !seen[b] {
				return bad(i, op, "missing_block", "Blocks() = %v lacks block %d (expected %v)", got, b, must)
			}
		}
		return nil
	}

	for i, st := range c.Beh {
		op := st.Str("op")
		s := st.Int("st")
		cov("op_" + op)
		corrupt := c.Corrupt != 0 && c.Corrupt == i
		switch op {
		case "Init":
			pre := idMaps(st["pre"])
			if len(pre) == 0 {
				continue
			}
			for s := 1; s <= c.nstores(); s++ {
				m := map[uint64]map[string]interface{}{}
				for id, pairs := range pre {
					m[id] = updMap(c.Profile, pairs, 0)
				}
				if err := tg.SetBulk(s, m); err != nil {
					return bad(i, op, "error", "SetBulkAttrs: %v", err), nil
				}
			}
			for s := 1; s <= c.nstores() && st.Str("mode") != "warm"; s++ {
				if err := tg.Reopen(s); err != nil {
					return bad(i, op, "error", "reopen: %v", err), nil
				}
				if _, isq := tg.(*queryTarget); isq {
					break // one server restart reopens every store
				}
			}
		case "BulkQuery":
			var calls []attrCall
			for _, e := range behav.ToList(st["calls"]) {
				l := behav.ToList(e)
				calls = append(calls, attrCall{ID: uint64(behav.ToInt(l[0])), Attrs: updMap(c.Profile, pairList(l[1]), c.Variant+i)})
			}
			if err := tg.BulkQuery(s, calls); err != nil {
				return bad(i, op, "error", "BulkQuery(%v): %v", st["calls"], err), nil
			}
		case "SetAttrs":
			if err := tg.Set(s, uint64(st.Int("id")), updMap(c.Profile, pairList(st["upd"]), c.Variant+i)); err != nil {
				return bad(i, op, "error", "SetAttrs(%d, %v): %v", st.Int("id"), st["upd"], err), nil
			}
		case "SetBulkAttrs":
			m := map[uint64]map[string]interface{}{}
			for id, pairs := range idMaps(st["bulk"]) {
				m[id] = updMap(c.Profile, pairs, c.Variant+i)
			}
			if err := tg.SetBulk(s, m); err != nil {
				return bad(i, op, "error", "SetBulkAttrs(%v): %v", st["bulk"], err), nil
			}
		case "Read", "ReadAbsent":
			want := wantMap(c.Profile, pairList(st["res"]))
			if corrupt {
				want["a"] = "corrupted-expectation"
			}
			if f := checkRead(i, op, s, uint64(st.Int("id")), want, true); f != nil {
				return f, nil
			}
			if len(want) > 0 {
				cov("read_nonempty")
			}
		case "CallerMutates":
			ref := st.Int("ref") - 1
			if m := returned[ref]; m != nil {
				// scribble: add a marker key, and delete or overwrite what is there
				for k := range m {
					if strings.HasPrefix(k, "zz") {
						continue
					}
					if (c.Variant+i)%2 == 0 {
						delete(m, k)
					} else {
						m[k] = "scribbled"
					}
				}
				m[own] = "scribbled"
				mm := m
				scribbled = append(scribbled, func() { delete(mm, own) })
				cov("scribble_read_map")
			} else if bm := returnedBlk[ref]; bm != nil {
				for _, m := range bm {
					for k := range m {
						m[k] = "scribbled"
					}
					m[own] = "scribbled"
				}
				bm[uint64(100)] = map[string]interface{}{own: "scribbled"}
				bm[uint64(7)] = map[string]interface{}{own: "scribbled"}
				cov("scribble_blockdata_map")
			} else {
				cov("scribble_nil_map")
			}
		case "Reopen":
			if err := tg.Reopen(s); err != nil {
				return bad(i, op, "error", "reopen: %v", err), nil
			}
		case "Blocks":
			must, may := intSet(st["must"]), intSet(st["may"])
			if corrupt {
				must[5] = true
			}
			if f := checkBlocks(i, op, s, must, may); f != nil {
				return f, nil
			}
		case "BlockData":
			store := tg.Store(s)
			if store == nil {
				return bad(i, op, "error", "store %d not found", s), nil
			}
			blk := uint64(st.Int("blk"))
			got, err := store.BlockData(blk)
			if err != nil {
				return bad(i, op, "error", "BlockData(%d): %v", blk, err), nil
			}
			returnedBlk[i] = got
			must, may := idMaps(st["must"]), intSet(st["may"])
			if corrupt {
				must[55] = [][2]string{{"a", "i:1"}}
			}
			for id, pairs := range must {
				g, ok := got[id]
				if !ok {
					return bad(i, op, "missing_id", "BlockData(%d) lacks id %d (got ids %v)", blk, id, keysOf(got)), nil
				}
				if d := sameAttrs(stripForeign(g, own, cov), wantMap(c.Profile, pairs)); d != "" {
					return bad(i, op, "wrong_attrs", "BlockData(%d)[%d] = %s: %s", blk, id, showAttrs(g), d), nil
				}
			}
			for id, g := range got {
				if _, ok := must[id]; ok {
					continue
				}
				if id/100 != blk {
					return bad(i, op, "foreign_id", "BlockData(%d) lists id %d of block %d", blk, id, id/100), nil
				}
				if !may[int(id)] || len(stripForeign(g, own, cov)) != 0 {
					return bad(i, op, "extra_id", "BlockData(%d) lists id %d = %s which holds no attributes", blk, id, showAttrs(g)), nil
				}
				cov("blockdata_ghost_listed")
			}
			if len(must) > 0 {
				cov("blockdata_nonempty")
			}
		case "Diff":
			if f := checkDiff(i, op, s, st.Int("st2"), st["rel"], intSet(st["have"]), corrupt); f != nil {
				return f, nil
			}
		case "Final":
			// everything, twice: as is (whatever is cached) and after a reopen
			for pass := 0; pass < 2; pass++ {
				for _, e := range behav.ToList(st["state"]) {
					l := behav.ToList(e)
					s := behav.ToInt(l[0])
					want := idMaps(l[1])
					for _, id := range c.ids() {
						w := wantMap(c.Profile, want[id])
						if corrupt && id == 100 {
							w["b"] = int64(12345)
						}
						if f := checkRead(i, fmt.Sprintf("Final%d", pass), s, id, w, false); f != nil {
							return f, nil
						}
					}
					// block data of every block lists exactly the ids with attributes
					store := tg.Store(s)
					if store == nil {
						return bad(i, op, "error", "store %d not found", s), nil
					}
					for blk := uint64(0); blk < 3; blk++ {
						got, err := store.BlockData(blk)
						if err != nil {
							return bad(i, op, "error", "BlockData(%d): %v", blk, err), nil
						}
						for id, pairs := range want {
							if id/100 != blk {
								continue
							}
							if d := sameAttrs(stripForeign(got[id], own, cov), wantMap(c.Profile, pairs)); d != "" {
								return bad(i, "FinalBlockData", "wrong_attrs", "BlockData(%d)[%d] = %s: %s", blk, id, showAttrs(got[id]), d), nil
							}
						}
						for id, g := range got {
							if id/100 != blk {
								return bad(i, "FinalBlockData", "foreign_id", "BlockData(%d) lists id %d", blk, id), nil
							}
							if _, ok := want[id]; !ok && len(stripForeign(g, own, cov)) != 0 {
								return bad(i, "FinalBlockData", "extra_id", "BlockData(%d) lists id %d = %s", blk, id, showAttrs(g)), nil
							}
						}
					}
				}
				for _, e := range behav.ToList(st["blocks"]) {
					l := behav.ToList(e)
					if f := checkBlocks(i, fmt.Sprintf("FinalBlocks%d", pass), behav.ToInt(l[0]), intSet(l[1]), intSet(l[2])); f != nil {
						return f, nil
					}
				}
				for _, e := range behav.ToList(st["rel"]) {
					l := behav.ToList(e)
					if f := checkDiff(i, fmt.Sprintf("FinalDiff%d", pass), behav.ToInt(l[0]), behav.ToInt(l[1]), l[2], intSet(l[3]), false); f != nil {
						return f, nil
					}
				}
				if pass == 0 {
					if (behav.Hash64(c.Tag+c.Profile)%2 == 0 || os.Getenv("VERIF_NOREOPEN") != "") && c.Corrupt == 0 {
						break // the reopen pass is taken by half of the cases (it costs two fsyncs per store)
					}
					for s := 1; s <= c.nstores(); s++ {
						if err := tg.Reopen(s); err != nil {
							return bad(i, op, "error", "reopen: %v", err), nil
						}
						if _, isq := tg.(*queryTarget); isq {
							break
						}
					}
				}
			}
		default:
			return nil, fmt.Errorf("unknown op %q", op)
		}
	}
	return nil, nil
}

func keysOf(m map[uint64]map[string]interface{}) []uint64 {
	var out []uint64
	for k := range m {
		out = append(out, k)
	}
	sort.Slice(out, func(i, j int) bool { return out[i] < out[j] })
	return out
}

func c25Failure(c *c25Case, f *stepFail) behav.Failure {
	return behav.Failure{
		Match:  map[string]string{"op": f.Op, "symptom": f.Symptom, "target": c.Target},
		Detail: fmt.Sprintf("target %s profile %s: %s", c.Target, c.Profile, f.String()),
		Replay: c,
	}
}

func TestC25(t *testing.T) {
	res := behav.NewResult()
	defer func() {
		closeServers()
		if err := res.Write(); err != nil {
			t.Fatal(err)
		}
	}()
	if raw, ok := behav.LoadReplay(); ok {
		var c c25Case
		if err := json.Unmarshal(raw, &c); err != nil {
			t.Fatal(err)
		}
		res.Evaluations = 1
		var f *stepFail
		var err error
		pv, stack := behav.Protect(func() { f, err = runC25(&c, 0, func(string) {}) })
		if pv != nil {
			if !behav.PanicInCode(stack) {
				res.SetInconclusive(fmt.Sprintf("harness panic: %v\n%s", pv, firstLines(stack, 30)))
				return
			}
			f = &stepFail{Op: "panic", Symptom: "panic", Detail: fmt.Sprintf("%v\n%s", pv, firstLines(stack, 30))}
		}
		if err != nil {
			res.SetInconclusive(err.Error())
			return
		}
		if f != nil {
			res.Fail(c25Failure(&c, f))
		}
		return
	}
	behs := behav.LoadEnv()
	targets := strings.Split(os.Getenv("VERIF_TARGETS"), ",")
	if os.Getenv("VERIF_TARGETS") == "" {
		targets = []string{"store"}
	}
	seed := behav.Seed()
	nprof := behav.EnvInt("VERIF_NPROFILES", 2)
	maxq := behav.EnvInt("VERIF_MAXQ", 120) // behaviours replayed through a server, per query target
	selftest := os.Getenv("VERIF_SELFTEST") != ""
	var jobs []*c25Case
	for bi, b := range behs {
		for _, tg := range targets {
			profs := attrProfiles
			if tg != "store" {
				if maxq > 0 && len(behs) > maxq && (uint64(bi)+uint64(seed))%uint64(len(behs)/maxq+1) != 0 {
					continue
				}
				profs = attrProfiles[:3] // no 5000-byte / NUL strings in PQL text (that is C26's business)
			}
			for k := 0; k < nprof && k < len(profs); k++ {
				p := profs[(int(behav.Hash64(fmt.Sprint(seed, bi, tg))%1000)+k)%len(profs)]
				c := &c25Case{Beh: b, Target: tg, Profile: p, Variant: int(seed) + bi + k, Tag: fmt.Sprintf("%d", len(jobs))}
				if selftest {
					c.Corrupt = len(b) - 1
					if bi%2 == 0 {
						// falsify the last spec step that carries an expectation
						for i := len(b) - 2; i > 0; i-- {
							if op := b[i].Str("op"); op == "Read" || op == "ReadAbsent" || op == "Blocks" || op == "BlockData" || op == "Diff" {
								c.Corrupt = i
								break
							}
						}
					}
				}
				jobs = append(jobs, c)
			}
		}
	}
	// A behaviour in which the caller scribbles on a returned map runs alone: if the map
	// is shared process-wide (the defect this step exists to find), a scribble races with
	// every other store in the process and the Go runtime kills the driver.
	var par, ser []int
	for i, c := range jobs {
		alone := false
		for _, st := range c.Beh {
			if st.Str("op") == "CallerMutates" {
				alone = true
			}
		}
		if alone {
			ser = append(ser, i)
		} else {
			par = append(par, i)
		}
	}
	var distinct behav.Distinct
	one := func(i int) {
		c := jobs[i]
		var f *stepFail
		var err error
		pv, stack := behav.Protect(func() { f, err = runC25(c, i, res.Cover) })
		if pv != nil {
			if !behav.PanicInCode(stack) {
				res.SetInconclusive(fmt.Sprintf("harness panic: %v\n%s", pv, firstLines(stack, 30)))
				return
			}
			f = &stepFail{Op: "panic", Symptom: "panic", Detail: fmt.Sprintf("%v\n%s", pv, firstLines(stack, 30))}
		}
		if err != nil {
			res.SetInconclusive(fmt.Sprintf("target %s: %v", c.Target, err))
			return
		}
		res.CountEval()
		res.Cover("target_" + c.Target)
		res.Cover("profile_" + c.Profile)
		nontrivial := false
		for _, st := range c.Beh {
			if op := st.Str("op"); op == "SetAttrs" || op == "SetBulkAttrs" || op == "BulkQuery" {
				nontrivial = true
			}
		}
		if nontrivial && distinct.Add(behav.JSON(c.Beh)+"|"+c.Target+"|"+c.Profile+fmt.Sprint(c.Variant%4)) {
			res.CountNontrivial()
		}
		if i%(len(jobs)/5+1) == 0 {
			res.AddSample(map[string]interface{}{"behaviour": c.Beh, "target": c.Target, "profile": c.Profile})
		}
		if selftest {
			if f == nil {
				res.Fail(behav.Failure{Match: map[string]string{"op": "selftest", "symptom": "corruption_not_detected", "target": c.Target},
					Detail: fmt.Sprintf("corrupted expectation at step %d went unnoticed", c.Corrupt), Replay: c})
			}
			return
		}
		if f != nil {
			res.Fail(c25Failure(c, f))
		}
	}
	behav.Parallel(len(par), func(k int) { one(par[k]) }, nil)
	for _, i := range ser {
		one(i)
	}
}
