//go:build verif

package kvb

import (
	"encoding/json"
	"fmt"
	"testing"
	"time"

	"github.com/pilosa/pilosa"
	pilosahttp "github.com/pilosa/pilosa/http"
	"github.com/pilosa/pilosa/test"

	"verif/harness/behav"
)

// c24HTTPCase replays the translate calls of a batch of behaviours on the key store
// of one in-process server while the key store of a second server replicates from it
// over HTTP (http/translator.go -> GET /internal/translate/data -> API.GetTranslateData
// -> TranslateFile.Reader), reconnecting with its current offset at every replica step
// of the behaviours.
type c24HTTPCase struct {
	Behs    []behav.Behaviour `json:"behs"`
	Seed    int64             `json:"seed"`
	Profile string            `json:"profile,omitempty"` // "" = rotate
	// Busy: do not wait for the replica to catch up before the primary is re-assigned.
	Busy bool `json:"busy,omitempty"`
}

func runC24HTTP(c *c24HTTPCase, cov func(string)) (fail *stepFail, err error) {
	run := func() *test.Command {
		m := test.NewCommandNode(false)
		m.Config.Cluster.Disabled = true
		m.Config.Metric.Diagnostics = false
		m.Config.Translation.MapSize = mapSize // the test default (140 kB) is smaller than the logs written here
		if err := m.Start(); err != nil {
			panic(err)
		}
		return m
	}
	a, b := run(), run()
	defer a.Close()
	defer b.Close()
	primary := pilosa.VerifDurTranslateFile(a.Server.Holder())
	replica := pilosa.VerifDurTranslateFile(b.Server.Holder())
	if primary == nil || replica == nil {
		return nil, fmt.Errorf("no translate file")
	}
	link := 0
	connect := func() {
		link++
		replica.SetPrimaryStore(fmt.Sprintf("primary-%d", link), pilosahttp.NewTranslateStore(a.API.Node()))
	}
	connect()
	bad := func(i int, op, sym, format string, args ...interface{}) *stepFail {
		return &stepFail{Step: i, Op: op, Symptom: sym, Detail: fmt.Sprintf(format, args...)}
	}
	waitEqual := func() (int64, int64, bool) {
		deadline := time.Now().Add(waitMax)
		for {
			p, r := pilosa.VerifTranslateSize(primary), pilosa.VerifTranslateSize(replica)
			if p == r {
				return p, r, true
			}
			if r > p || time.Now().After(deadline) {
				return p, r, false
			}
			time.Sleep(time.Millisecond)
		}
	}
	for bi, beh := range c.Behs {
		pname := c.Profile
		if pname == "" {
			pname = keyProfiles[(bi+int(c.Seed))%len(keyProfiles)]
		}
		prof := profileFor(pname, c.Seed)
		mon := newMonitor()
		nsOf := func(ns string) string { return fmt.Sprintf("%s%d", ns[:1], bi) } // own index / field per behaviour
		seen := map[string]bool{}
		for i, st := range beh {
			op := st.Str("op")
			switch op {
			case "TRead", "Translate":
				ns := nsOf(st.Str("ns"))
				if !seen[ns] {
					seen[ns] = true
					if pre := prof.prefill(ns); len(pre) > 0 {
						ids, err := nsTranslate(primary, ns, pre)
						if err != nil {
							return bad(i, "Prefill", "error", "%v", err), nil
						}
						if sym, d := mon.observe(ns, pre, ids); sym != "" {
							return bad(i, "Prefill", sym, "%s", d), nil
						}
					}
				}
				var keys []string
				for _, k := range st.Ints("batch") {
					keys = append(keys, prof.block(k)...)
				}
				ids, err := nsTranslate(primary, ns, keys)
				if err != nil {
					return bad(i, op, "error", "behaviour %d: Translate(%s): %v", bi, ns, err), nil
				}
				if sym, d := mon.observe(ns, keys, ids); sym != "" {
					return bad(i, op, sym, "behaviour %d profile %s: %s", bi, pname, d), nil
				}
				cov("http_translate")
			case "RResume", "RCut", "RStop", "Restart", "RReassign":
				// a new stream: the replica must ask for exactly what it lacks
				connect()
				cov("http_reconnect")
			default:
				continue
			}
			if c.Busy && (op == "TRead" || op == "Translate") && i < len(beh)-2 {
				// busy variant: the next reconnect finds the replica in the middle of the stream
				continue
			}
			p, r, ok := waitEqual()
			if !ok {
				sym := "replica_stalled"
				if r > p {
					sym = "replica_log_longer"
				}
				return bad(i, op, sym, "behaviour %d profile %s: the primary's log has %d bytes, the replica's %d", bi, pname, p, r), nil
			}
			for ns, ids := range mon.idOf {
				keys := make([]string, 0, len(ids))
				for k := range ids {
					keys = append(keys, k)
				}
				got, err := nsTranslate(replica, ns, keys)
				if err != nil {
					return bad(i, op, "error", "behaviour %d: replica Translate(%s, %d known keys): %v", bi, ns, len(keys), err), nil
				}
				for j, k := range keys {
					if got[j] != ids[k] {
						return bad(i, op, "id_changed", "behaviour %d profile %s: replica: key %s of %s has id %d on the primary and %d on the replica", bi, pname, short(k), ns, ids[k], got[j]), nil
					}
					back, err := nsReverse(replica, ns, ids[k])
					if err != nil || back != k {
						return bad(i, op, "reverse_wrong", "behaviour %d profile %s: replica: id %d of %s translates back to %s (%v), want %s", bi, pname, ids[k], ns, short(back), err, short(k)), nil
					}
				}
			}
			cov("http_replica_checked")
		}
	}
	return nil, nil
}

func TestC24HTTP(t *testing.T) {
	res := behav.NewResult()
	defer func() {
		if err := res.Write(); err != nil {
			t.Fatal(err)
		}
	}()
	var c *c24HTTPCase
	if raw, ok := behav.LoadReplay(); ok {
		c = &c24HTTPCase{}
		if err := json.Unmarshal(raw, c); err != nil {
			t.Fatal(err)
		}
	} else {
		behs := behav.LoadEnv()
		if n := behav.EnvInt("VERIF_MAXBEH", 80); len(behs) > n {
			behs = behs[:n]
		}
		c = &c24HTTPCase{Behs: behs, Seed: behav.Seed(), Busy: behav.EnvInt("VERIF_BUSY", 0) != 0}
	}
	var f *stepFail
	var err error
	pv, stack := behav.Protect(func() { f, err = runC24HTTP(c, res.Cover) })
	if pv != nil {
		if !behav.PanicInCode(stack) {
			res.SetInconclusive(fmt.Sprintf("harness panic: %v\n%s", pv, firstLines(stack, 30)))
			return
		}
		f = &stepFail{Op: "panic", Symptom: "panic", Detail: fmt.Sprintf("%v\n%s", pv, firstLines(stack, 30))}
	}
	if err != nil {
		res.SetInconclusive(err.Error())
		return
	}
	res.Evaluations = int64(len(c.Behs))
	res.Validated = int64(len(c.Behs))
	res.DistinctNontrivial = int64(len(c.Behs))
	if f != nil {
		res.Fail(behav.Failure{Match: map[string]string{"op": f.Op, "symptom": f.Symptom, "mode": "http"},
			Detail: "over HTTP: " + f.String(), Replay: c})
	}
}
