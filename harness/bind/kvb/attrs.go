//go:build verif

package kvb

import (
	"bytes"
	"context"
	"fmt"
	"math"
	"os"
	"path/filepath"
	"reflect"
	"sort"
	"strconv"
	"strings"
	"sync"

	"github.com/pilosa/pilosa"
	"github.com/pilosa/pilosa/boltdb"
	"github.com/pilosa/pilosa/test"

	"verif/harness/behav"
)

// ---- value refinement: abstract tag -> concrete Go value ------------------------

// attrProfiles are the seeded refinements of the value tags of spec/Attrs.tla. Every
// profile keeps distinct tags distinct and the tag's type.
var attrProfiles = []string{"plain", "zero", "alike", "extreme"}

var longStr = strings.Repeat("長い文字列-é-\x00-\"q\"-", 250) // 5000+ bytes, Unicode, NUL, quotes

// concrete returns the canonical stored value of a tag (what a read must return).
func concrete(profile, tag string) interface{} {
	switch profile {
	case "zero": // zero values: proto3 omits them on the wire
		switch tag {
		case "i:1":
			return int64(0)
		case "i:2":
			return int64(1)
		case "s:x":
			return ""
		case "b:T":
			return false
		case "f:1":
			return float64(0)
		}
	case "alike": // values that look alike across types
		switch tag {
		case "i:1":
			return int64(1)
		case "i:2":
			return int64(-1)
		case "s:x":
			return "1"
		case "b:T":
			return true
		case "f:1":
			return float64(1)
		}
	case "extreme":
		switch tag {
		case "i:1":
			return int64(math.MaxInt64)
		case "i:2":
			return int64(math.MinInt64)
		case "s:x":
			return longStr
		case "b:T":
			return true
		case "f:1":
			return -1e300
		}
	default:
		switch tag {
		case "i:1":
			return int64(1)
		case "i:2":
			return int64(2)
		case "s:x":
			return "x"
		case "b:T":
			return true
		case "f:1":
			return 1.5
		}
	}
	panic("unknown value tag " + tag + " / profile " + profile)
}

// input returns the value a caller passes for a tag: integers are passed as int64,
// int, uint or uint64 by variant where the value fits (the store documents all four).
func input(profile, tag string, variant int) interface{} {
	if tag == "null" {
		return nil
	}
	v := concrete(profile, tag)
	if i, ok := v.(int64); ok {
		switch variant % 4 {
		case 1:
			return int(i)
		case 2:
			if i >= 0 {
				return uint64(i)
			}
		case 3:
			if i >= 0 {
				return uint(i)
			}
		}
	}
	return v
}

// pqlLit renders a concrete value as a PQL literal.
func pqlLit(v interface{}) string {
	switch x := v.(type) {
	case nil:
		return "null"
	case int64:
		return strconv.FormatInt(x, 10)
	case int:
		return strconv.FormatInt(int64(x), 10)
	case uint:
		return strconv.FormatUint(uint64(x), 10)
	case uint64:
		return strconv.FormatUint(x, 10)
	case bool:
		if x {
			return "true"
		}
		return "false"
	case float64:
		s := strconv.FormatFloat(x, 'f', -1, 64)
		if !strings.Contains(s, ".") {
			s += ".0"
		}
		return s
	case string:
		return strconv.Quote(x)
	}
	panic(fmt.Sprintf("pqlLit %T", v))
}

func updMap(profile string, pairs [][2]string, variant int) map[string]interface{} {
	m := map[string]interface{}{}
	for _, p := range pairs {
		m[p[0]] = input(profile, p[1], variant)
	}
	return m
}

func wantMap(profile string, pairs [][2]string) map[string]interface{} {
	m := map[string]interface{}{}
	for _, p := range pairs {
		m[p[0]] = concrete(profile, p[1])
	}
	return m
}

// idMaps decodes a TLA+ set of <<id, pairs>>.
func idMaps(v interface{}) map[uint64][][2]string {
	out := map[uint64][][2]string{}
	for _, e := range behav.ToList(v) {
		l := behav.ToList(e)
		out[uint64(behav.ToInt(l[0]))] = pairList(l[1])
	}
	return out
}

// sameAttrs compares a returned attribute map with the expected one: same keys, and
// for every key the same dynamic type and value.
func sameAttrs(got, want map[string]interface{}) string {
	var diffs []string
	for k, w := range want {
		g, ok := got[k]
		if !ok {
			diffs = append(diffs, fmt.Sprintf("key %q missing (want %s)", k, showVal(w)))
		} else if reflect.TypeOf(g) != reflect.TypeOf(w) {
			diffs = append(diffs, fmt.Sprintf("key %q has type %T value %s, want %s", k, g, showVal(g), showVal(w)))
		} else if !reflect.DeepEqual(g, w) {
			diffs = append(diffs, fmt.Sprintf("key %q = %s, want %s", k, showVal(g), showVal(w)))
		}
	}
	for k, g := range got {
		if _, ok := want[k]; !ok {
			diffs = append(diffs, fmt.Sprintf("unexpected key %q = %s", k, showVal(g)))
		}
	}
	sort.Strings(diffs)
	return strings.Join(diffs, "; ")
}

func showVal(v interface{}) string {
	if s, ok := v.(string); ok {
		return "string " + short(s)
	}
	return fmt.Sprintf("%T %v", v, v)
}

func showAttrs(m map[string]interface{}) string {
	keys := make([]string, 0, len(m))
	for k := range m {
		keys = append(keys, k)
	}
	sort.Strings(keys)
	var b strings.Builder
	b.WriteString("{")
	for i, k := range keys {
		if i > 0 {
			b.WriteString(", ")
		}
		b.WriteString(k + ": " + showVal(m[k]))
	}
	b.WriteString("}")
	return b.String()
}

// ---- targets ---------------------------------------------------------------------

// attrTarget is one way of reaching real attribute stores named 1, 2.
type attrTarget interface {
	Set(st int, id uint64, m map[string]interface{}) error
	SetBulk(st int, m map[uint64]map[string]interface{}) error
	// BulkQuery sends several set calls (ids may repeat) as ONE query; on the plain
	// store, which has no such thing, they are applied one after the other.
	BulkQuery(st int, calls []attrCall) error
	// Read returns the attributes of id as the code hands them to its caller.
	Read(st int, id uint64) (map[string]interface{}, error)
	Reopen(st int) error
	Store(st int) pilosa.AttrStore
	// Diff returns the ids (with their attributes) of the blocks of s1 that the code
	// reports as differing from s2, and the plain block-id list when available.
	Diff(s1, s2 int) (ids map[uint64]map[string]interface{}, blocks []uint64, err error)
	Close()
}

// attrCall is one SetRowAttrs / SetColumnAttrs call of a query.
type attrCall struct {
	ID    uint64
	Attrs map[string]interface{}
}

func (t *storeTarget) BulkQuery(st int, calls []attrCall) error {
	for _, c := range calls {
		if err := t.stores[st].SetAttrs(c.ID, c.Attrs); err != nil {
			return err
		}
	}
	return nil
}

// one query text: only SetRowAttrs calls -> executeBulkSetRowAttrs merges them per
// row; `single` appends another call so that every SetRowAttrs runs on its own;
// SetColumnAttrs calls always run one by one.
func (t *queryTarget) BulkQuery(st int, calls []attrCall) error {
	var q []string
	for _, c := range calls {
		q = append(q, t.setCall(st, c.ID, c.Attrs))
	}
	text := strings.Join(q, " ")
	if t.single && !t.cols {
		text += " Count(Row(other=0))"
	}
	_, err := t.query(st, text, false)
	return err
}

// -- boltdb store, directly

type storeTarget struct {
	dir    string
	stores map[int]pilosa.AttrStore
}

func newStoreTarget(nstores int) (*storeTarget, error) {
	t := &storeTarget{dir: scratchDir("c25"), stores: map[int]pilosa.AttrStore{}}
	for st := 1; st <= nstores; st++ {
		s := boltdb.NewAttrStore(filepath.Join(t.dir, fmt.Sprintf("attrs%d", st)))
		if err := s.Open(); err != nil {
			return nil, err
		}
		t.stores[st] = s
	}
	return t, nil
}

func (t *storeTarget) Set(st int, id uint64, m map[string]interface{}) error {
	return t.stores[st].SetAttrs(id, m)
}
func (t *storeTarget) SetBulk(st int, m map[uint64]map[string]interface{}) error {
	return t.stores[st].SetBulkAttrs(m)
}
func (t *storeTarget) Read(st int, id uint64) (map[string]interface{}, error) {
	return t.stores[st].Attrs(id)
}
func (t *storeTarget) Reopen(st int) error {
	path := t.stores[st].Path()
	if err := t.stores[st].Close(); err != nil {
		return err
	}
	s := boltdb.NewAttrStore(path)
	t.stores[st] = s
	return s.Open()
}
func (t *storeTarget) Store(st int) pilosa.AttrStore { return t.stores[st] }
func (t *storeTarget) Diff(s1, s2 int) (map[uint64]map[string]interface{}, []uint64, error) {
	b1, err := t.stores[s1].Blocks()
	if err != nil {
		return nil, nil, err
	}
	b2, err := t.stores[s2].Blocks()
	if err != nil {
		return nil, nil, err
	}
	blocks := append([]uint64{}, pilosa.VerifAttrBlocksDiff(b1, b2)...)
	ids := map[uint64]map[string]interface{}{}
	for _, b := range blocks {
		m, err := t.stores[s1].BlockData(b)
		if err != nil {
			return nil, nil, err
		}
		for id, a := range m {
			ids[id] = a
		}
	}
	return ids, blocks, nil
}
func (t *storeTarget) Close() {
	for _, s := range t.stores {
		s.Close()
	}
	os.RemoveAll(t.dir)
}

// -- through queries on an in-process server. Row attributes: store st is field f<st>
// of one index. Column attributes: store st is index <name>c<st>.

type server struct {
	mu  sync.Mutex
	cmd *test.Command
	n   int
}

var (
	serversMu sync.Mutex
	servers   []*server
)

// serverFor returns one of a small pool of in-process servers (started on first use).
func serverFor(i int) *server {
	serversMu.Lock()
	defer serversMu.Unlock()
	n := behav.EnvInt("VERIF_SERVERS", 3)
	for len(servers) < n {
		servers = append(servers, &server{})
	}
	return servers[i%n]
}

func closeServers() {
	serversMu.Lock()
	defer serversMu.Unlock()
	for _, s := range servers {
		if s.cmd != nil {
			s.cmd.Close()
		}
	}
	servers = nil
}

type queryTarget struct {
	srv     *server
	cols    bool
	name    string
	ids     []uint64
	single  bool // use the non-bulk SetRowAttrs path (query mixed with another call)
	indexes []string
}

func newQueryTarget(slot int, cols bool, nstores int, ids []uint64, single bool) (t *queryTarget, err error) {
	srv := serverFor(slot)
	srv.mu.Lock()
	defer func() {
		if err != nil {
			srv.mu.Unlock()
		}
	}()
	if srv.cmd == nil {
		srv.cmd = test.MustRunCommand()
	}
	srv.n++
	t = &queryTarget{srv: srv, cols: cols, name: fmt.Sprintf("i%d", srv.n), ids: ids, single: single}
	ctx := context.Background()
	api := srv.cmd.API
	if cols {
		for st := 1; st <= nstores; st++ {
			idx := t.index(st)
			if _, err = api.CreateIndex(ctx, idx, pilosa.IndexOptions{}); err != nil {
				return nil, err
			}
			t.indexes = append(t.indexes, idx)
			if _, err = api.CreateField(ctx, idx, "f", pilosa.OptFieldTypeSet(pilosa.CacheTypeNone, 0)); err != nil {
				return nil, err
			}
			// one row holding every id as a column, so that a Row query lists them
			var q strings.Builder
			for _, id := range ids {
				fmt.Fprintf(&q, "Set(%d, f=0) ", id)
			}
			if _, err = api.Query(ctx, &pilosa.QueryRequest{Index: idx, Query: q.String()}); err != nil {
				return nil, err
			}
		}
	} else {
		idx := t.index(1)
		if _, err = api.CreateIndex(ctx, idx, pilosa.IndexOptions{}); err != nil {
			return nil, err
		}
		t.indexes = append(t.indexes, idx)
		for st := 1; st <= nstores; st++ {
			if _, err = api.CreateField(ctx, idx, fmt.Sprintf("f%d", st), pilosa.OptFieldTypeSet(pilosa.CacheTypeNone, 0)); err != nil {
				return nil, err
			}
		}
		// an unrelated field for the mixed (non-bulk) queries
		if _, err = api.CreateField(ctx, idx, "other", pilosa.OptFieldTypeSet(pilosa.CacheTypeNone, 0)); err != nil {
			return nil, err
		}
	}
	return t, nil
}

func (t *queryTarget) index(st int) string {
	if t.cols {
		return fmt.Sprintf("%sc%d", t.name, st)
	}
	return t.name
}

func attrArgs(m map[string]interface{}) string {
	keys := make([]string, 0, len(m))
	for k := range m {
		keys = append(keys, k)
	}
	sort.Strings(keys)
	var parts []string
	for _, k := range keys {
		parts = append(parts, k+"="+pqlLit(m[k]))
	}
	return strings.Join(parts, ", ")
}

func (t *queryTarget) setCall(st int, id uint64, m map[string]interface{}) string {
	if t.cols {
		return fmt.Sprintf("SetColumnAttrs(%d, %s)", id, attrArgs(m))
	}
	return fmt.Sprintf("SetRowAttrs(f%d, %d, %s)", st, id, attrArgs(m))
}

func (t *queryTarget) query(st int, q string, colAttrs bool) (pilosa.QueryResponse, error) {
	return t.srv.cmd.API.Query(context.Background(), &pilosa.QueryRequest{Index: t.index(st), Query: q, ColumnAttrs: colAttrs})
}

func (t *queryTarget) Set(st int, id uint64, m map[string]interface{}) error {
	q := t.setCall(st, id, m)
	if t.single && !t.cols {
		// a query that is not made of SetRowAttrs calls only takes executeSetRowAttrs
		q += " Count(Row(other=0))"
	}
	_, err := t.query(st, q, false)
	return err
}

func (t *queryTarget) SetBulk(st int, m map[uint64]map[string]interface{}) error {
	ids := make([]uint64, 0, len(m))
	for id := range m {
		ids = append(ids, id)
	}
	sort.Slice(ids, func(i, j int) bool { return ids[i] < ids[j] })
	var q []string
	for _, id := range ids {
		q = append(q, t.setCall(st, id, m[id]))
	}
	_, err := t.query(st, strings.Join(q, " "), false)
	return err
}

func (t *queryTarget) Read(st int, id uint64) (map[string]interface{}, error) {
	if t.cols {
		resp, err := t.query(st, "Row(f=0)", true)
		if err != nil {
			return nil, err
		}
		for _, cs := range resp.ColumnAttrSets {
			if cs.ID == id {
				return cs.Attrs, nil
			}
		}
		return map[string]interface{}{}, nil
	}
	resp, err := t.query(st, fmt.Sprintf("Row(f%d=%d)", st, id), false)
	if err != nil {
		return nil, err
	}
	row, ok := resp.Results[0].(*pilosa.Row)
	if !ok {
		return nil, fmt.Errorf("Row() returned %T", resp.Results[0])
	}
	return row.Attrs, nil
}

func (t *queryTarget) Reopen(st int) error { return t.srv.cmd.Reopen() }

func (t *queryTarget) Store(st int) pilosa.AttrStore {
	h := t.srv.cmd.Server.Holder()
	if t.cols {
		idx := h.Index(t.index(st))
		if idx == nil {
			return nil
		}
		return idx.ColumnAttrStore()
	}
	f := h.Field(t.index(st), fmt.Sprintf("f%d", st))
	if f == nil {
		return nil
	}
	return f.RowAttrStore()
}

func (t *queryTarget) Diff(s1, s2 int) (map[uint64]map[string]interface{}, []uint64, error) {
	other := t.Store(s2)
	if other == nil {
		return nil, nil, fmt.Errorf("store %d not found", s2)
	}
	b2, err := other.Blocks()
	if err != nil {
		return nil, nil, err
	}
	ctx := context.Background()
	var ids map[uint64]map[string]interface{}
	if t.cols {
		ids, err = t.srv.cmd.API.IndexAttrDiff(ctx, t.index(s1), b2)
	} else {
		ids, err = t.srv.cmd.API.FieldAttrDiff(ctx, t.index(s1), fmt.Sprintf("f%d", s1), b2)
	}
	return ids, nil, err
}

func (t *queryTarget) Close() {
	for _, idx := range t.indexes {
		_ = t.srv.cmd.API.DeleteIndex(context.Background(), idx)
	}
	t.srv.mu.Unlock()
}

func blockSum(bs []pilosa.AttrBlock, id uint64) ([]byte, bool) {
	for _, b := range bs {
		if b.ID == id {
			return b.Checksum, true
		}
	}
	return nil, false
}

func blockIDs(bs []pilosa.AttrBlock) []uint64 {
	out := make([]uint64, len(bs))
	for i, b := range bs {
		out[i] = b.ID
	}
	return out
}

// refDiff is the documented meaning of attrBlocks.Diff on actual block lists: the
// blocks of a that b lacks or holds with another checksum.
func refDiff(a, b []pilosa.AttrBlock) []uint64 {
	var out []uint64
	for _, x := range a {
		if sum, ok := blockSum(b, x.ID); !ok || !bytes.Equal(sum, x.Checksum) {
			out = append(out, x.ID)
		}
	}
	return out
}
