//go:build verif

// Package kvb binds spec/Translate.tla (C24) and spec/Attrs.tla (C25) to the real key
// translation store (pilosa.TranslateFile) and the real attribute stores
// (boltdb.NewAttrStore, and the stores behind SetRowAttrs / SetColumnAttrs queries of an
// in-process server).
package kvb

import (
	"fmt"
	"os"
	"strings"
	"sync/atomic"

	"verif/harness/behav"
)

// stepFail is one disagreement between the code and the specification.
type stepFail struct {
	Step    int
	Op      string
	Symptom string
	Detail  string
}

func (f *stepFail) String() string {
	return fmt.Sprintf("step %d %s: %s: %s", f.Step, f.Op, f.Symptom, f.Detail)
}

var dirSeq int64

// scratchDir makes a fresh directory under $VERIF_SCRATCH / $TMPDIR.
func scratchDir(prefix string) string {
	base := os.Getenv("VERIF_SCRATCH")
	if base == "" {
		base = os.TempDir()
	}
	d, err := os.MkdirTemp(base, fmt.Sprintf("%s-%d-", prefix, atomic.AddInt64(&dirSeq, 1)))
	if err != nil {
		panic(err)
	}
	return d
}

// raceReport returns the head of the race detector's log when the binary runs with
// GORACE=log_path=<prefix> (the detector appends ".<pid>") and a race was reported by
// this process; "" otherwise.
func raceReport() string {
	prefix := ""
	for _, f := range strings.Fields(os.Getenv("GORACE")) {
		if strings.HasPrefix(f, "log_path=") {
			prefix = strings.TrimPrefix(f, "log_path=")
		}
	}
	if prefix == "" {
		return ""
	}
	b, err := os.ReadFile(fmt.Sprintf("%s.%d", prefix, os.Getpid()))
	if err != nil || !strings.Contains(string(b), "DATA RACE") {
		return ""
	}
	return firstLines(string(b), 60)
}

func firstLines(s string, n int) string {
	lines := strings.Split(s, "\n")
	if len(lines) > n {
		lines = lines[:n]
	}
	return strings.Join(lines, "\n")
}

// pairList decodes a TLA+ set of <<k, v>> string pairs.
func pairList(v interface{}) [][2]string {
	var out [][2]string
	for _, p := range behav.ToList(v) {
		kv := behav.ToList(p)
		if len(kv) != 2 {
			panic(fmt.Sprintf("bad pair %v", p))
		}
		k, _ := kv[0].(string)
		x, _ := kv[1].(string)
		out = append(out, [2]string{k, x})
	}
	return out
}

func intSet(v interface{}) map[int]bool {
	m := map[int]bool{}
	for _, x := range behav.ToInts(v) {
		m[x] = true
	}
	return m
}

func short(s string) string {
	if len(s) > 60 {
		return fmt.Sprintf("%q…(%d bytes)", s[:40], len(s))
	}
	return fmt.Sprintf("%q", s)
}
