//go:build verif

package kvb

import (
	"encoding/json"
	"fmt"
	"os"
	"path/filepath"
	"sort"
	"strings"
	"sync"
	"sync/atomic"
	"testing"
	"time"

	"github.com/pilosa/pilosa"

	"verif/harness/behav"
)

// c24Case is a self-contained replay: one behaviour of spec/Translate.tla under one key
// profile.
type c24Case struct {
	Beh     behav.Behaviour `json:"beh"`
	Profile string          `json:"profile"`
	Seed    int64           `json:"seed"`
	Variant int             `json:"variant"`
	Free    bool            `json:"free,omitempty"` // run the calls concurrently without gates
	Corrupt int             `json:"corrupt,omitempty"`
}

const waitMax = 30 * time.Second

type callResult struct {
	ids []uint64
	err error
}

type pendingCall struct {
	ticket *gateTicket
	done   chan callResult
	ns     string
	keys   []string
}

// monitor is the stable-bijection monitor of one store family: per namespace the id
// first seen for every concrete key, and the key every id belongs to.
type monitor struct {
	idOf  map[string]map[string]uint64
	keyOf map[string]map[uint64]string
}

func newMonitor() *monitor {
	return &monitor{idOf: map[string]map[string]uint64{}, keyOf: map[string]map[uint64]string{}}
}

// observe checks the ids a translate call returned for keys against everything seen
// before and records new pairs.
func (m *monitor) observe(ns string, keys []string, ids []uint64) (sym, detail string) {
	if len(ids) != len(keys) {
		return "wrong_length", fmt.Sprintf("%d ids for %d keys", len(ids), len(keys))
	}
	if m.idOf[ns] == nil {
		m.idOf[ns] = map[string]uint64{}
		m.keyOf[ns] = map[uint64]string{}
	}
	for i, k := range keys {
		id := ids[i]
		if id == 0 {
			return "zero_id", fmt.Sprintf("key %s of %s got id 0", short(k), ns)
		}
		if old, ok := m.idOf[ns][k]; ok {
			if old != id {
				return "id_changed", fmt.Sprintf("key %s of %s had id %d and now got id %d", short(k), ns, old, id)
			}
			continue
		}
		if other, ok := m.keyOf[ns][id]; ok {
			return "id_shared", fmt.Sprintf("key %s of %s got id %d which belongs to key %s", short(k), ns, id, short(other))
		}
		m.idOf[ns][k] = id
		m.keyOf[ns][id] = k
	}
	return "", ""
}

// c24Run is the state of one replay.
type c24Run struct {
	c        *c24Case
	prof     *keyProfile
	dir      string
	primary  *pilosa.TranslateFile
	replica  *pilosa.TranslateFile
	gp       *gatedPrimary
	ctl      *gateCtl
	mon      *monitor
	bounds   []int64 // bounds[n] = size of the primary log after n entries of the history
	pend     map[int]*pendingCall
	rctl     *gateCtl    // gate of the current replica object (in-flight entries)
	inflight *gateTicket // the parked goroutine holding an entry in flight
	links    int
	drift    bool // a call completed in one piece where the model has two phases
	cov      func(string)
	nsSeen   map[string]bool
	replayed bool
}

func (r *c24Run) concreteBatch(batch []int) []string {
	var out []string
	for _, k := range batch {
		out = append(out, r.prof.block(k)...)
	}
	return out
}

func (r *c24Run) openPrimary() error {
	p := newTranslateFile(filepath.Join(r.dir, "primary"))
	if err := p.Open(); err != nil {
		return err
	}
	r.primary = p
	gates.Store(p, r.ctl)
	return nil
}

func (r *c24Run) closePrimary() error {
	gates.Delete(r.primary)
	return r.primary.Close()
}

func (r *c24Run) openReplica() error {
	s := newTranslateFile(filepath.Join(r.dir, "replica"))
	r.links++
	s.SetPrimaryStore(fmt.Sprintf("primary-%d", r.links), r.gp.link())
	if err := s.Open(); err != nil {
		return err
	}
	if r.replica != nil {
		replGates.Delete(r.replica)
	}
	r.replica = s
	r.rctl = &gateCtl{arrivals: make(chan *gateTicket, 8), passthrough: 1}
	replGates.Store(s, r.rctl)
	return nil
}

// waitQuiet polls the replica's log size for a short while after an in-flight entry of
// a dropped stream was released and reports whether it grew (the entry was appended).
func (r *c24Run) waitQuiet(from int64) (int64, bool) {
	deadline := time.Now().Add(60 * time.Millisecond)
	for time.Now().Before(deadline) {
		if sz := pilosa.VerifTranslateSize(r.replica); sz != from {
			return sz, true
		}
		time.Sleep(500 * time.Microsecond)
	}
	return from, false
}

// direct runs a translate call on the primary that the model treats as one step; mode 1:
// the call may allocate, mode 2: every key is known, reaching the write phase is odd.
func (r *c24Run) direct(ns string, keys []string) ([]uint64, error) {
	return r.directMode(ns, keys, 1)
}

func (r *c24Run) directMode(ns string, keys []string, mode int32) ([]uint64, error) {
	atomic.StoreInt32(&r.ctl.passthrough, mode)
	defer atomic.StoreInt32(&r.ctl.passthrough, 0)
	return nsTranslate(r.primary, ns, keys)
}

// checkStore compares a store's forward and reverse mapping of the given abstract keys
// (all keys of their blocks, plus the prefill keys when deep) with the monitor.
func (r *c24Run) checkStore(s *pilosa.TranslateFile, who string, kmap map[string]interface{}, deep bool) (sym, detail string) {
	nss := make([]string, 0, len(kmap))
	for ns := range kmap {
		nss = append(nss, ns)
	}
	sort.Strings(nss)
	for _, ns := range nss {
		ids := behav.ToInts(kmap[ns])
		var known []string
		for k := 1; k <= len(ids); k++ {
			blk := r.prof.block(k)
			if ids[k-1] != 0 {
				known = append(known, blk...)
				continue
			}
			if who == "replica" {
				// a key the replica has not received yet: read-only error, no id
				got, err := nsTranslate(s, ns, blk[:1])
				if err != pilosa.ErrTranslateStoreReadOnly || (len(got) > 0 && got[0] != 0) {
					return "replica_unknown_key", fmt.Sprintf("%s: key %s of %s is not in the replicated prefix but Translate returned %v, %v", who, short(blk[0]), ns, got, err)
				}
			} else if !r.drift {
				if _, ok := r.mon.idOf[ns][blk[0]]; ok {
					return "harness", fmt.Sprintf("key %d of %s is assigned in the harness but not in the model", k, ns)
				}
			}
		}
		if deep && r.nsSeen[ns] {
			known = append(known, r.prof.prefill(ns)...)
		}
		if len(known) == 0 {
			continue
		}
		var got []uint64
		var err error
		if who == "replica" {
			got, err = nsTranslate(s, ns, known)
		} else {
			got, err = r.directMode(ns, known, 2)
		}
		if err != nil {
			return "error", fmt.Sprintf("%s: Translate(%s, %d known keys): %v", who, ns, len(known), err)
		}
		for i, k := range known {
			want, ok := r.mon.idOf[ns][k]
			if !ok {
				return "harness", fmt.Sprintf("key %s of %s is assigned in the model but was never returned", short(k), ns)
			}
			if got[i] != want {
				return "id_changed", fmt.Sprintf("%s: key %s of %s has id %d, now translates to %d", who, short(k), ns, want, got[i])
			}
			back, err := nsReverse(s, ns, want)
			if err != nil {
				return "error", fmt.Sprintf("%s: reverse(%s, %d): %v", who, ns, want, err)
			}
			if back != k {
				return "reverse_wrong", fmt.Sprintf("%s: id %d of %s translates back to %s, want %s", who, want, ns, short(back), short(k))
			}
		}
	}
	return "", ""
}

// waitReplicaAt waits until the replica has written and applied the log up to off.
func (r *c24Run) waitReplicaAt(off int64) bool {
	deadline := time.Now().Add(waitMax)
	for {
		sz := pilosa.VerifTranslateSize(r.replica)
		if sz == off {
			return true
		}
		if sz > off || time.Now().After(deadline) {
			return false
		}
		time.Sleep(200 * time.Microsecond)
	}
}

// replicaAt is waitReplicaAt as a step verdict.
func (r *c24Run) replicaAt(i int, op string, off int64) *stepFail {
	if r.waitReplicaAt(off) {
		return nil
	}
	sz := pilosa.VerifTranslateSize(r.replica)
	sym, what := "replica_stalled", "only"
	if sz > off {
		sym, what = "replica_log_longer", "already"
	}
	return &stepFail{Step: i, Op: op, Symptom: sym, Detail: fmt.Sprintf("the replica's log should end at byte %d (boundaries of the primary's log %v), it holds %s %d bytes", off, r.bounds, what, sz)}
}

func (r *c24Run) expectRequest(i int, op string, want int64) *stepFail {
	off, ok := r.gp.waitRequest(waitMax)
	if !ok {
		return &stepFail{Step: i, Op: op, Symptom: "replica_no_reconnect", Detail: "the replica did not ask the primary for the log"}
	}
	if off != want {
		return &stepFail{Step: i, Op: op, Symptom: "resume_offset", Detail: fmt.Sprintf("the replica resumed the stream at byte %d, the boundary after the entries it holds is %d (boundaries %v)", off, want, r.bounds)}
	}
	return nil
}

func runC24(c *c24Case, cov func(string)) (fail *stepFail, err error) {
	r := &c24Run{c: c, prof: profileFor(c.Profile, c.Seed), dir: scratchDir("c24"), mon: newMonitor(),
		ctl: &gateCtl{arrivals: make(chan *gateTicket, 8)}, pend: map[int]*pendingCall{}, cov: cov, nsSeen: map[string]bool{}}
	defer os.RemoveAll(r.dir)
	if err := r.openPrimary(); err != nil {
		return nil, err
	}
	defer func() {
		// let every caller still in flight finish, then close replica and primary
		for _, p := range r.pend {
			close(p.ticket.release)
			<-p.done
		}
		if r.rctl != nil {
			atomic.StoreInt32(&r.rctl.passthrough, 1)
		}
		if r.inflight != nil {
			close(r.inflight.release)
		}
		if r.gp != nil && r.replica != nil {
			// stop the stream and let the replica finish the entry it is appending: Close
			// does not wait for the replication goroutine, which would then touch the
			// unmapped file (SIGSEGV, the whole driver dies)
			r.gp.setLimit(0)
			last, same := int64(-1), 0
			for i := 0; i < 400 && same < 3; i++ {
				time.Sleep(2 * time.Millisecond)
				if sz := pilosa.VerifTranslateSize(r.replica); sz == last {
					same++
				} else {
					last, same = sz, 0
				}
			}
		}
		if r.replica != nil {
			r.replica.Close()
		}
		r.closePrimary()
	}()
	bad := func(i int, op, sym, format string, a ...interface{}) *stepFail {
		return &stepFail{Step: i, Op: op, Symptom: sym, Detail: fmt.Sprintf(format, a...)}
	}
	// namespaces of the behaviour; pre-fill each with the profile's filler keys
	fin := c.Beh[len(c.Beh)-1]
	var nss []string
	for ns := range behav.ToMap(fin["kmap"]) {
		nss = append(nss, ns)
	}
	sort.Strings(nss)
	for _, ns := range nss {
		r.nsSeen[ns] = true
		pre := r.prof.prefill(ns)
		if len(pre) == 0 {
			continue
		}
		ids, err := r.direct(ns, pre)
		if err != nil {
			return bad(0, "Prefill", "error", "%v", err), nil
		}
		if sym, d := r.mon.observe(ns, pre, ids); sym != "" {
			return bad(0, "Prefill", sym, "%s", d), nil
		}
	}
	r.bounds = []int64{pilosa.VerifTranslateSize(r.primary)}
	// the replica starts attached and caught up with the pre-filled log
	r.gp = newGatedPrimary(r.primary)
	r.gp.setLimit(r.bounds[0])
	if err := r.openReplica(); err != nil {
		return nil, err
	}
	if f := r.expectRequest(0, "Attach", 0); f != nil {
		return f, nil
	}
	if !r.waitReplicaAt(r.bounds[0]) {
		return bad(0, "Attach", "replica_stalled", "the replica did not reach byte %d of the primary's log", r.bounds[0]), nil
	}

	if c.Free {
		return runC24Free(r, bad)
	}

	finishCall := func(i int, op string, p *pendingCall, res callResult, st behav.Step) *stepFail {
		if res.err != nil {
			return bad(i, op, "error", "Translate(%s, %v): %v", p.ns, st["batch"], res.err)
		}
		if sym, d := r.mon.observe(p.ns, p.keys, res.ids); sym != "" {
			return bad(i, op, sym, "Translate(%s, %v) = %v: %s", p.ns, st["batch"], shortIDs(res.ids), d)
		}
		return nil
	}

	for i, st := range c.Beh {
		op := st.Str("op")
		cov("op_" + op)
		post := behav.ToMap(st["post"])
		switch op {
		case "TRead":
			cl := st.Int("c")
			ns := st.Str("ns")
			keys := r.concreteBatch(st.Ints("batch"))
			p := &pendingCall{done: make(chan callResult, 1), ns: ns, keys: keys}
			go func() {
				ids, err := nsTranslate(r.primary, ns, keys)
				p.done <- callResult{ids, err}
			}()
			select {
			case t := <-r.ctl.arrivals:
				p.ticket = t
				if st.Bool("done") {
					// the model answers from the read phase, the code wants to write:
					// let it, and judge the answer
					cov("unexpected_write_phase")
					close(t.release)
					res := <-p.done
					if f := finishCall(i, op, p, res, st); f != nil {
						return f, nil
					}
				} else {
					r.pend[cl] = p
					cov("caller_parked_between_phases")
				}
			case res := <-p.done:
				if !st.Bool("done") {
					r.drift = true
					cov("call_completed_in_one_piece")
				}
				if f := finishCall(i, op, p, res, st); f != nil {
					return f, nil
				}
			case <-time.After(waitMax):
				return nil, fmt.Errorf("step %d: translate call neither returned nor reached the gate", i)
			}
		case "TWrite":
			cl := st.Int("c")
			p := r.pend[cl]
			if p == nil {
				if r.drift {
					continue
				}
				return nil, fmt.Errorf("step %d: TWrite of caller %d which is not pending", i, cl)
			}
			delete(r.pend, cl)
			close(p.ticket.release)
			var res callResult
			select {
			case res = <-p.done:
			case <-time.After(waitMax):
				return nil, fmt.Errorf("step %d: released caller did not return", i)
			}
			if f := finishCall(i, op, p, res, st); f != nil {
				return f, nil
			}
			if len(st.Ints("new")) > 0 {
				cov("write_phase_allocates")
			} else {
				cov("write_phase_finds_all_after_recheck")
			}
		case "Translate":
			ns := st.Str("ns")
			keys := r.concreteBatch(st.Ints("batch"))
			ids, err := r.direct(ns, keys)
			if f := finishCall(i, op, &pendingCall{ns: ns, keys: keys}, callResult{ids, err}, st); f != nil {
				return f, nil
			}
		case "Restart":
			r.gp.mu.Lock()
			r.gp.gen++
			r.gp.cond.Broadcast()
			err := r.closePrimary()
			if err == nil {
				err = r.openPrimary()
			}
			r.gp.primary = r.primary
			r.gp.mu.Unlock()
			if err != nil {
				return bad(i, op, "restart_fails", "%v", err), nil
			}
			if post["ron"] == true {
				if f := r.expectRequest(i, op, r.bounds[behav.ToInt(post["rlen"])]); f != nil {
					return f, nil
				}
			}
		case "RApply":
			n := behav.ToInt(post["rlen"])
			r.gp.setLimit(r.bounds[n])
			if f := r.replicaAt(i, op, r.bounds[n]); f != nil {
				return f, nil
			}
		case "RRecv":
			// the next entry is read off the stream and held before the replica's lock
			n := behav.ToInt(post["infl"])
			atomic.StoreInt32(&r.rctl.passthrough, 0)
			r.gp.setLimit(r.bounds[n])
			select {
			case t := <-r.rctl.arrivals:
				r.inflight = t
				cov("entry_held_in_flight")
			case <-time.After(waitMax):
				return bad(i, op, "replica_stalled", "the replica did not read entry %d off the stream", n), nil
			}
		case "RApplyInfl":
			if r.inflight == nil {
				return nil, fmt.Errorf("step %d: no entry in flight", i)
			}
			atomic.StoreInt32(&r.rctl.passthrough, 1)
			close(r.inflight.release)
			r.inflight = nil
			if f := r.replicaAt(i, op, r.bounds[behav.ToInt(post["rlen"])]); f != nil {
				return f, nil
			}
		case "RReassign":
			// the running replica is given a primary again (as on every change of cluster
			// membership): the old stream ends, a new one must start at the boundary of what
			// the replica holds; an entry of the old stream still in flight must not be
			// appended (the new stream delivers it again)
			n := st.Int("off")
			before := pilosa.VerifTranslateSize(r.replica)
			r.gp.setLimit(r.bounds[n])
			r.links++
			r.replica.SetPrimaryStore(fmt.Sprintf("primary-%d", r.links), r.gp.link())
			if f := r.expectRequest(i, op, r.bounds[n]); f != nil {
				return f, nil
			}
			if r.inflight != nil {
				atomic.StoreInt32(&r.rctl.passthrough, 1)
				close(r.inflight.release)
				r.inflight = nil
				if sz, grew := r.waitQuiet(before); grew {
					return bad(i, op, "stale_entry_applied", "the entry in flight when the primary was re-assigned was appended to the replica's log (%d -> %d bytes) although the new stream, which started at byte %d, delivers it again", before, sz, r.bounds[n]), nil
				}
				cov("in_flight_entry_of_dropped_stream")
			}
		case "RStop":
			if err := r.replica.Close(); err != nil {
				return bad(i, op, "error", "closing the replica: %v", err), nil
			}
		case "RResume":
			if err := r.openReplica(); err != nil {
				return bad(i, op, "restart_fails", "reopening the replica: %v", err), nil
			}
			if f := r.expectRequest(i, op, r.bounds[st.Int("off")]); f != nil {
				return f, nil
			}
		case "RCut":
			n := st.Int("off")
			lo, hi := r.bounds[n], r.bounds[n+1]
			if hi-lo < 2 {
				cov("cut_skipped")
				break
			}
			cut := lo + 1 + int64(c.Variant+i)%(hi-lo-1) // strictly inside the entry
			switch (c.Variant + i) % 3 {
			case 1:
				cut = lo + 1
			case 2:
				cut = hi - 1
			}
			r.gp.setLimit(cut)
			if !r.gp.waitDelivered(cut, waitMax) {
				return bad(i, op, "replica_stalled", "the replica did not read the stream up to byte %d", cut), nil
			}
			r.gp.setLimit(lo)
			r.gp.breakStream()
			if f := r.expectRequest(i, op, lo); f != nil {
				return f, nil
			}
			cov("stream_cut_inside_entry")
		case "Final":
			post = map[string]interface{}(st)
		default:
			return nil, fmt.Errorf("unknown op %q", op)
		}
		// a new entry of the primary's log: remember where it ends
		// (a log that grows differently from the model's is not a violation by itself - the
		// restart and replica checks decide - but the replica can then only be steered
		// approximately: drift)
		if n := behav.ToInt(post["loglen"]); n == len(r.bounds) {
			r.bounds = append(r.bounds, pilosa.VerifTranslateSize(r.primary))
			if r.bounds[n] <= r.bounds[n-1] {
				r.drift = true
				cov("drift_no_log_entry")
			}
		} else if n > len(r.bounds) {
			if !r.drift {
				return nil, fmt.Errorf("step %d: log length %d after %d boundaries", i, n, len(r.bounds))
			}
			for len(r.bounds) <= n {
				r.bounds = append(r.bounds, pilosa.VerifTranslateSize(r.primary))
			}
		}
		if sz := pilosa.VerifTranslateSize(r.primary); sz != r.bounds[len(r.bounds)-1] {
			r.drift = true
			cov("drift_extra_log_entry")
			r.bounds[len(r.bounds)-1] = sz
		}
		// projected state after every step: primary (forward + reverse of every assigned
		// key) and, while it is open, the replica (exactly the mapping of its prefix)
		deep := op == "Restart" || op == "Final" || op == "RResume"
		kmap := behav.ToMap(post["kmap"])
		if c.Corrupt == i+1 {
			r.mon.idOf[nss[0]][r.prof.block(1)[0]] += 7
		}
		if sym, d := r.checkStore(r.primary, "primary", kmap, deep); sym != "" {
			if sym == "harness" {
				return nil, fmt.Errorf("step %d: %s", i, d)
			}
			return bad(i, op, sym, "after %s: %s", op, d), nil
		}
		if op == "Final" {
			// every behaviour ends the same way: the replica (reopened if it was stopped)
			// catches up and must be identical; then both stores are restarted and must
			// still hold the same mapping
			last := r.bounds[len(r.bounds)-1]
			step := func(what string) *stepFail {
				if sym, d := r.checkStore(r.primary, "primary", kmap, true); sym != "" && sym != "harness" {
					return bad(i, what, sym, "%s", d)
				}
				if sym, d := r.checkStore(r.replica, "replica", kmap, true); sym != "" && sym != "harness" {
					return bad(i, what, sym, "%s", d)
				}
				return nil
			}
			if post["ron"] != true {
				if err := r.openReplica(); err != nil {
					return bad(i, "FinalResume", "restart_fails", "reopening the replica: %v", err), nil
				}
				if f := r.expectRequest(i, "FinalResume", r.bounds[behav.ToInt(post["rlen"])]); f != nil {
					return f, nil
				}
			}
			r.gp.setLimit(last)
			if f := r.replicaAt(i, "FinalCatchUp", last); f != nil {
				return f, nil
			}
			if f := step("FinalCatchUp"); f != nil {
				return f, nil
			}
			if err := r.replica.Close(); err != nil {
				return bad(i, "FinalRestart", "error", "closing the replica: %v", err), nil
			}
			r.gp.mu.Lock()
			r.gp.gen++
			r.gp.cond.Broadcast()
			err := r.closePrimary()
			if err == nil {
				err = r.openPrimary()
			}
			r.gp.primary = r.primary
			r.gp.mu.Unlock()
			if err == nil {
				err = r.openReplica()
			}
			if err != nil {
				return bad(i, "FinalRestart", "restart_fails", "%v", err), nil
			}
			if f := r.expectRequest(i, "FinalRestart", last); f != nil {
				return f, nil
			}
			if f := step("FinalRestart"); f != nil {
				return f, nil
			}
			cov("final_checked")
			continue
		}
		if post["ron"] == true {
			rmap := behav.ToMap(post["rmap"])
			if sym, d := r.checkStore(r.replica, "replica", rmap, deep); sym != "" {
				if sym == "harness" {
					return nil, fmt.Errorf("step %d: %s", i, d)
				}
				return bad(i, op, sym, "after %s: %s", op, d), nil
			}
			cov("replica_checked")
		}
	}
	if n := atomic.LoadInt32(&r.ctl.unexpected); n > 0 {
		cov("read_of_known_keys_entered_write_phase")
	}
	r.gp.mu.Lock()
	if r.gp.stale > 0 {
		cov("closed_replica_reconnected")
	}
	r.gp.mu.Unlock()
	return nil, nil
}

// runC24Free runs every translate call of the behaviour at once, without gates, with
// the replica streaming and a reader doing reverse lookups, then checks the outcome:
// any linearization must be a stable bijection, survive a restart and reach the replica.
func runC24Free(r *c24Run, bad func(int, string, string, string, ...interface{}) *stepFail) (*stepFail, error) {
	atomic.StoreInt32(&r.ctl.passthrough, 1)
	r.gp.setLimit(1 << 60)
	type call struct {
		ns   string
		keys []string
		res  callResult
	}
	var calls []*call
	for _, st := range r.c.Beh {
		if op := st.Str("op"); op == "TRead" || op == "Translate" {
			for rep := 0; rep < 2; rep++ {
				calls = append(calls, &call{ns: st.Str("ns"), keys: r.concreteBatch(st.Ints("batch"))})
			}
		}
	}
	var wg sync.WaitGroup
	stop := make(chan struct{})
	var revBad atomic.Value
	wg.Add(1)
	go func() {
		defer wg.Done()
		for {
			select {
			case <-stop:
				return
			default:
			}
			for ns := range r.nsSeen {
				for id := uint64(1); id < 6; id++ {
					if _, err := nsReverse(r.primary, ns, id); err != nil {
						revBad.Store(err.Error())
					}
				}
			}
		}
	}()
	var cw sync.WaitGroup
	for _, cl := range calls {
		cw.Add(1)
		go func(cl *call) {
			defer cw.Done()
			defer func() {
				if v := recover(); v != nil {
					cl.res = callResult{nil, fmt.Errorf("panic: %v", v)}
				}
			}()
			ids, err := nsTranslate(r.primary, cl.ns, cl.keys)
			cl.res = callResult{ids, err}
		}(cl)
	}
	cw.Wait()
	close(stop)
	wg.Wait()
	if v := revBad.Load(); v != nil {
		return bad(0, "Free", "error", "reverse lookup: %v", v), nil
	}
	for _, cl := range calls {
		if cl.res.err != nil {
			return bad(0, "Free", "error", "Translate(%s): %v", cl.ns, cl.res.err), nil
		}
		if sym, d := r.mon.observe(cl.ns, cl.keys, cl.res.ids); sym != "" {
			return bad(0, "Free", sym, "%s", d), nil
		}
	}
	r.cov("free_calls")
	// everything assigned, as a kmap over the abstract keys
	kmap := map[string]interface{}{}
	for ns := range r.nsSeen {
		ids := make([]interface{}, 4)
		for k := 1; k <= 4; k++ {
			if _, ok := r.mon.idOf[ns][r.prof.block(k)[0]]; ok {
				ids[k-1] = float64(1)
			} else {
				ids[k-1] = float64(0)
			}
		}
		kmap[ns] = ids
	}
	r.drift = true
	check := func(op string) *stepFail {
		if sym, d := r.checkStore(r.primary, "primary", kmap, true); sym != "" {
			return bad(0, op, sym, "%s", d)
		}
		return nil
	}
	if f := check("Free"); f != nil {
		return f, nil
	}
	size := pilosa.VerifTranslateSize(r.primary)
	if !r.waitReplicaAt(size) {
		return bad(0, "Free", "replica_stalled", "the replica holds %d of %d bytes", pilosa.VerifTranslateSize(r.replica), size), nil
	}
	if sym, d := r.checkStore(r.replica, "replica", kmap, true); sym != "" {
		return bad(0, "FreeReplica", sym, "%s", d), nil
	}
	// restart both
	r.gp.mu.Lock()
	r.gp.gen++
	r.gp.cond.Broadcast()
	err := r.closePrimary()
	if err == nil {
		err = r.openPrimary()
	}
	r.gp.primary = r.primary
	r.gp.mu.Unlock()
	if err != nil {
		return bad(0, "FreeRestart", "restart_fails", "%v", err), nil
	}
	if f := check("FreeRestart"); f != nil {
		return f, nil
	}
	return nil, nil
}

func opsOf(b behav.Behaviour) []string {
	var out []string
	for _, st := range b {
		out = append(out, st.Str("op"))
	}
	return out
}

func shortIDs(ids []uint64) string {
	if len(ids) > 12 {
		return fmt.Sprintf("%v…(%d ids)", ids[:12], len(ids))
	}
	return fmt.Sprint(ids)
}

func c24Failure(c *c24Case, f *stepFail) behav.Failure {
	mode := "gated"
	if c.Free {
		mode = "free"
	}
	return behav.Failure{
		Match:  map[string]string{"op": f.Op, "symptom": f.Symptom, "profile": c.Profile, "mode": mode},
		Detail: fmt.Sprintf("profile %s seed %d: %s", c.Profile, c.Seed, f.String()),
		Replay: c,
	}
}

func TestC24(t *testing.T) {
	res := behav.NewResult()
	defer func() {
		if err := res.Write(); err != nil {
			t.Fatal(err)
		}
	}()
	runOne := func(c *c24Case, cov func(string)) (f *stepFail, inconclusive string) {
		var err error
		var pv interface{}
		var stack string
		finished := make(chan struct{})
		go func() {
			defer close(finished)
			pv, stack = behav.Protect(func() { f, err = runC24(c, cov) })
		}()
		select {
		case <-finished:
		case <-time.After(4 * time.Minute):
			// a store whose lock is never released again; the goroutine is abandoned
			return nil, fmt.Sprintf("case did not finish within 4 minutes (a store is wedged?): profile %s, ops %v", c.Profile, opsOf(c.Beh))
		}
		if pv != nil {
			if !behav.PanicInCode(stack) {
				return nil, fmt.Sprintf("harness panic: %v\n%s", pv, firstLines(stack, 30))
			}
			f = &stepFail{Op: "panic", Symptom: "panic", Detail: fmt.Sprintf("%v\n%s", pv, firstLines(stack, 30))}
		}
		if err != nil {
			return nil, err.Error()
		}
		return f, ""
	}
	if raw, ok := behav.LoadReplay(); ok {
		var rr struct {
			RaceRerun []behav.Behaviour `json:"race_rerun"`
			Seed      int64             `json:"seed"`
		}
		if err := json.Unmarshal(raw, &rr); err == nil && len(rr.RaceRerun) > 0 {
			for round := 0; round < 3 && raceReport() == ""; round++ {
				behav.Parallel(len(rr.RaceRerun), func(i int) {
					runOne(&c24Case{Beh: rr.RaceRerun[i], Profile: keyProfiles[i%len(keyProfiles)], Seed: rr.Seed, Free: true}, func(string) {})
				}, nil)
			}
			res.Evaluations = int64(len(rr.RaceRerun))
			if rep := raceReport(); rep != "" {
				res.Fail(behav.Failure{Match: map[string]string{"op": "Free", "symptom": "data_race", "mode": "free"}, Detail: rep, Replay: rr})
			}
			return
		}
		var c c24Case
		if err := json.Unmarshal(raw, &c); err != nil {
			t.Fatal(err)
		}
		res.Evaluations = 1
		f, inc := runOne(&c, func(string) {})
		if inc != "" {
			res.SetInconclusive(inc)
		} else if f != nil {
			res.Fail(c24Failure(&c, f))
		}
		return
	}
	behs := behav.LoadEnv()
	if n := behav.EnvInt("VERIF_MAXBEH", 0); n > 0 && len(behs) > n {
		behs = behs[:n]
	}
	seed := behav.Seed()
	nprof := behav.EnvInt("VERIF_NPROFILES", 2)
	free := os.Getenv("VERIF_FREE") != ""
	if free {
		// a race-detector report (GORACE=log_path=race.log) is a failure of its own; its
		// replay re-runs a slice of this very run under the detector
		defer func() {
			if rep := raceReport(); rep != "" {
				n := len(behs)
				if n > 60 {
					n = 60
				}
				res.Fail(behav.Failure{Match: map[string]string{"op": "Free", "symptom": "data_race", "mode": "free"},
					Detail: rep, Replay: map[string]interface{}{"race_rerun": behs[:n], "seed": seed}})
			}
		}()
	}
	selftest := os.Getenv("VERIF_SELFTEST") != ""
	profs := keyProfiles
	if only := os.Getenv("VERIF_PROFILES"); only != "" {
		profs = strings.Split(only, ",")
	}
	var jobs []*c24Case
	for bi, b := range behs {
		for k := 0; k < nprof && k < len(profs); k++ {
			p := profs[(int(behav.Hash64(fmt.Sprint(seed, bi))%1000)+k)%len(profs)]
			c := &c24Case{Beh: b, Profile: p, Seed: seed, Variant: int(seed) + bi + k, Free: free}
			if selftest {
				c.Corrupt = len(b) // falsify the harness's record of key 1 before the final projection
			}
			jobs = append(jobs, c)
		}
	}
	var distinct behav.Distinct
	behav.Parallel(len(jobs), func(i int) {
		c := jobs[i]
		f, inc := runOne(c, res.Cover)
		if inc != "" {
			res.SetInconclusive(fmt.Sprintf("profile %s: %s", c.Profile, inc))
			return
		}
		res.CountEval()
		res.Cover("profile_" + c.Profile)
		nontrivial := false
		for _, st := range c.Beh {
			if st.Bool("wrote") {
				nontrivial = true
			}
		}
		if nontrivial && distinct.Add(behav.JSON(c.Beh)+"|"+c.Profile+fmt.Sprint(c.Variant%3, c.Free)) {
			res.CountNontrivial()
		}
		if i%(len(jobs)/5+1) == 0 {
			res.AddSample(map[string]interface{}{"behaviour": c.Beh, "profile": c.Profile})
		}
		if selftest {
			if f == nil {
				res.Fail(behav.Failure{Match: map[string]string{"op": "selftest", "symptom": "corruption_not_detected"},
					Detail: "a falsified id went unnoticed", Replay: c})
			}
			return
		}
		if f != nil {
			res.Fail(c24Failure(c, f))
		}
	}, nil)
}
