// Package resizeb binds spec/Resize.tla, spec/ResizeAbs.tla and the trace
// specifications to the coordinator side of the cluster-resize protocol in
// /repo/cluster.go (property C22).
//
// A Sim is one real coordinator `cluster` (through verif_export_resize.go) whose
// broadcaster records the messages it is asked to send instead of sending them;
// the harness plays the followers, the network and the operator. The resize
// hooks (verif_hook_resize_on.go) give the harness the protocol's events and,
// when gating is on, let it hold the listener goroutine and the job goroutines
// at the points that correspond to the program counters of Resize.tla.
package resizeb

import (
	"fmt"
	"os"
	"sort"
	"strings"
	"sync"
	"sync/atomic"
	"time"

	"github.com/pilosa/pilosa"
	"github.com/pilosa/pilosa/roaring"
)

// ---------------------------------------------------------------- broadcaster

// InstrMsg is a ResizeInstruction the coordinator sent.
type InstrMsg struct {
	JobID int64
	Node  string
}

// Bcast records what the coordinator sends.
type Bcast struct {
	mu       sync.Mutex
	instr    []InstrMsg
	failNext bool
	statuses []string // states of broadcast ClusterStatus messages
}

func (b *Bcast) SendSync(m pilosa.Message) error  { return b.SendTo(nil, m) }
func (b *Bcast) SendAsync(m pilosa.Message) error { return b.SendTo(nil, m) }
func (b *Bcast) SendTo(n *pilosa.Node, m pilosa.Message) error {
	b.mu.Lock()
	defer b.mu.Unlock()
	switch x := m.(type) {
	case *pilosa.ResizeInstruction:
		if b.failNext {
			b.failNext = false
			return fmt.Errorf("verif: injected send failure")
		}
		b.instr = append(b.instr, InstrMsg{JobID: x.JobID, Node: x.Node.ID})
	case *pilosa.ClusterStatus:
		b.statuses = append(b.statuses, x.State)
	}
	return nil
}

// ArmFail makes the next instruction send fail.
func (b *Bcast) ArmFail() {
	b.mu.Lock()
	b.failNext = true
	b.mu.Unlock()
}

// Instr returns a copy of the instructions sent so far.
func (b *Bcast) Instr() []InstrMsg {
	b.mu.Lock()
	defer b.mu.Unlock()
	return append([]InstrMsg(nil), b.instr...)
}

// --------------------------------------------------------------------- hasher

// ModHasher places partition k on node k mod n.
type ModHasher struct{}

func (ModHasher) Hash(key uint64, n int) int { return int(key % uint64(n)) }

// ----------------------------------------------------------------------- Sim

// Event is one hook event.
type Event struct {
	Seq   uint64
	Point string
	Job   int      // job index (1-based, creation order), 0 = none
	Node  string   // node argument
	Act   string   // action argument
	State string   // state argument
	IDs   []string // members / target membership
	Oks   []string // nodes already complete at job_start
	Done  bool     // job_end: final state is DONE
}

// Config selects the cluster configuration (it determines the resize plans).
type Config struct {
	Members  []string
	ReplicaN int
	PartN    int
	Hasher   string // "mod" | "jump"
	Shards   int    // number of shards with data (0 = an index without data)
}

// DefaultConfig is the configuration whose plans spec/ResizePlan.tla tabulates.
func DefaultConfig() Config {
	return Config{Members: []string{"n0", "n1", "n2"}, ReplicaN: 2, PartN: 12, Hasher: "mod", Shards: 8}
}

// Sim is a real coordinator cluster under the harness's control.
type Sim struct {
	V   *pilosa.VerifResizeCluster
	B   *Bcast
	dir string
	key interface{}

	mu     sync.Mutex
	events []Event
	jobIdx map[int64]int
	jobIDs []int64
	gated  bool
	lpos   string
	lgate  chan struct{}
	rgate  map[int64]chan struct{}
	// gate:complete (under j.mu): the next completion handler is held when holdC is set
	holdC bool
	cgate chan struct{}
	cheld bool
}

var (
	simsMu   sync.RWMutex
	sims     = map[interface{}]*Sim{}
	simByJob = map[int64]*Sim{}
)

func init() { pilosa.VerifResizeHook = dispatch }

func dispatch(c interface{}, seq uint64, point string, kv ...interface{}) {
	var s *Sim
	simsMu.RLock()
	if c != nil {
		s = sims[c]
	} else if len(kv) > 0 {
		if id, ok := kv[0].(int64); ok {
			s = simByJob[id]
		}
	}
	simsMu.RUnlock()
	if s == nil {
		return
	}
	s.hook(seq, point, kv)
}

func strs(v interface{}) []string {
	switch x := v.(type) {
	case []string:
		out := append([]string(nil), x...)
		sort.Strings(out)
		return out
	}
	return nil
}

func (s *Sim) hook(seq uint64, point string, kv []interface{}) {
	ev := Event{Seq: seq, Point: point}
	str := func(i int) string {
		if i < len(kv) {
			if x, ok := kv[i].(string); ok {
				return x
			}
		}
		return ""
	}
	jobAt := func(i int) int64 {
		if i < len(kv) {
			if x, ok := kv[i].(int64); ok {
				return x
			}
		}
		return 0
	}
	var jid int64
	s.mu.Lock()
	switch point {
	case "state":
		ev.State = str(0)
	case "members":
		if len(kv) > 0 {
			ev.IDs = strs(kv[0])
		}
	case "enqueue":
		ev.Act, ev.Node = str(0), str(1)
	case "gate:action":
		ev.Act, ev.Node = str(0), str(1)
	case "job_start", "job_reject":
		jid = jobAt(0)
		if _, ok := s.jobIdx[jid]; !ok {
			s.jobIDs = append(s.jobIDs, jid)
			s.jobIdx[jid] = len(s.jobIDs)
			simsMu.Lock()
			simByJob[jid] = s
			simsMu.Unlock()
		}
		if point == "job_start" {
			ev.Act, ev.Node = str(1), str(2)
			if len(kv) > 3 {
				if m, ok := kv[3].(map[string]bool); ok {
					for k, done := range m {
						ev.IDs = append(ev.IDs, k)
						if done {
							ev.Oks = append(ev.Oks, k)
						}
					}
					sort.Strings(ev.IDs)
					sort.Strings(ev.Oks)
				}
			}
		}
	case "job_end":
		jid = jobAt(0)
		ev.State = str(1)
		if len(kv) > 2 {
			ev.Done, _ = kv[2].(bool)
		}
	case "complete_ok", "complete_err":
		jid = jobAt(0)
		ev.Node = str(1)
	case "result_send", "result_drop", "gate:result":
		jid = jobAt(0)
		ev.State = str(1)
	default: // abort, gate:wait, gate:member, gate:run, gate:loop, gate:block
		jid = jobAt(0)
	}
	if jid != 0 {
		ev.Job = s.jobIdx[jid]
	}
	s.events = append(s.events, ev)
	var gate chan struct{}
	if point == "gate:complete" {
		if s.holdC {
			s.holdC = false
			s.cheld = true
			gate = make(chan struct{})
			s.cgate = gate
		}
	} else if s.gated && strings.HasPrefix(point, "gate:") {
		gate = make(chan struct{})
		if point == "gate:run" {
			s.rgate[jid] = gate
		} else {
			s.lpos = point
			s.lgate = gate
		}
	}
	s.mu.Unlock()
	if gate != nil {
		<-gate
	}
}

// NewSim builds a coordinator cluster in a fresh directory under $TMPDIR.
func NewSim(cfg Config, gated bool) (*Sim, error) {
	dir, err := os.MkdirTemp(os.Getenv("VERIF_SCRATCH"), "c22-")
	if err != nil {
		return nil, err
	}
	s := &Sim{B: &Bcast{}, dir: dir, jobIdx: map[int64]int{}, rgate: map[int64]chan struct{}{}}
	var h pilosa.Hasher
	if cfg.Hasher == "mod" {
		h = ModHasher{}
	}
	v, err := pilosa.VerifResizeNew(pilosa.VerifResizeOptions{Path: dir, Self: cfg.Members[0], Members: cfg.Members,
		ReplicaN: cfg.ReplicaN, PartitionN: cfg.PartN, Hasher: h, Broadcaster: s.B})
	if err != nil {
		os.RemoveAll(dir)
		return nil, err
	}
	s.V = v
	idx, err := v.Holder().CreateIndex("i", pilosa.IndexOptions{})
	if err != nil {
		return nil, err
	}
	f, err := idx.CreateField("f", pilosa.OptFieldTypeDefault())
	if err != nil {
		return nil, err
	}
	for sh := 0; sh < cfg.Shards; sh++ {
		if _, err := f.SetBit(1, uint64(sh)*pilosa.ShardWidth+1, nil); err != nil {
			return nil, err
		}
	}
	if cfg.Shards > 0 {
		// what the coordinator learns from CreateShard broadcasts: the shards exist in the
		// cluster whether or not this node holds them (so that the holder cleaner, which
		// drops fragments this node no longer owns, does not change later resize plans)
		all := make([]uint64, cfg.Shards)
		for i := range all {
			all[i] = uint64(i)
		}
		if err := f.AddRemoteAvailableShards(roaring.NewBitmap(all...)); err != nil {
			return nil, err
		}
	}
	if st := v.State(); st != "NORMAL" {
		return nil, fmt.Errorf("harness: coordinator did not reach NORMAL: %s", st)
	}
	s.key = v.VerifResizeClusterOf()
	s.gated = gated
	simsMu.Lock()
	sims[s.key] = s
	simsMu.Unlock()
	v.ListenForJoins()
	if gated {
		if !s.WaitListener(5 * time.Second) {
			return nil, fmt.Errorf("harness: listener did not reach its first gate")
		}
	}
	return s, nil
}

// Close releases every held goroutine, closes the cluster and removes its files.
// stuck tells that goroutines are known to be blocked (no wait for the listener).
func (s *Sim) Close(stuck bool) {
	s.mu.Lock()
	s.gated = false
	if s.lgate != nil {
		close(s.lgate)
		s.lgate = nil
	}
	for k, g := range s.rgate {
		close(g)
		delete(s.rgate, k)
	}
	if s.cgate != nil {
		close(s.cgate)
		s.cgate = nil
	}
	s.holdC = false
	s.mu.Unlock()
	if stuck {
		s.V.CloseNoWait()
	} else {
		done := make(chan struct{})
		go func() { _ = s.V.Close(); close(done) }()
		select {
		case <-done:
		case <-time.After(3 * time.Second):
			// the listener waits for a result nobody will send (a job left waiting
			// at the end of a behaviour); leave the goroutine behind
		}
	}
	simsMu.Lock()
	delete(sims, s.key)
	for _, id := range s.jobIDs {
		delete(simByJob, id)
	}
	simsMu.Unlock()
	os.RemoveAll(s.dir)
}

// HoldNextCompletion makes the next completion handler stop right after it has taken j.mu.
func (s *Sim) HoldNextCompletion() {
	s.mu.Lock()
	s.holdC = true
	s.cheld = false
	s.mu.Unlock()
}

// CompletionHeld reports whether a completion handler is held under j.mu.
func (s *Sim) CompletionHeld() bool {
	s.mu.Lock()
	defer s.mu.Unlock()
	return s.cheld
}

// ReleaseCompletion lets the held completion handler continue.
func (s *Sim) ReleaseCompletion() {
	s.mu.Lock()
	g := s.cgate
	s.cgate = nil
	s.cheld = false
	s.holdC = false
	s.mu.Unlock()
	if g != nil {
		close(g)
	}
}

// ClusterLockBusy reports whether c.mu is write-locked (or a writer waits): a State()
// call does not return promptly.
func (s *Sim) ClusterLockBusy(probe time.Duration) bool {
	ch := make(chan struct{})
	go func() { _ = s.V.State(); close(ch) }()
	select {
	case <-ch:
		return false
	case <-time.After(probe):
		return true
	}
}

// ListenerPos returns the gate the listener is held at ("" while it runs).
func (s *Sim) ListenerPos() string {
	s.mu.Lock()
	defer s.mu.Unlock()
	return s.lpos
}

// WaitListener waits until the listener is held at a gate.
func (s *Sim) WaitListener(d time.Duration) bool {
	return Poll(d, func() bool { return s.ListenerPos() != "" })
}

// ReleaseListener lets the listener run to its next gate.
func (s *Sim) ReleaseListener() bool {
	s.mu.Lock()
	g := s.lgate
	s.lgate = nil
	s.lpos = ""
	s.mu.Unlock()
	if g == nil {
		return false
	}
	close(g)
	return true
}

// ReleaseRunner lets job j's run() proceed (waits until it is at its gate).
func (s *Sim) ReleaseRunner(job int, d time.Duration) bool {
	var g chan struct{}
	ok := Poll(d, func() bool {
		s.mu.Lock()
		defer s.mu.Unlock()
		if job < 1 || job > len(s.jobIDs) {
			return false
		}
		id := s.jobIDs[job-1]
		if ch, ok := s.rgate[id]; ok {
			g = ch
			delete(s.rgate, id)
			return true
		}
		return false
	})
	if ok {
		close(g)
	}
	return ok
}

// CountEvents counts recorded events at `point` for job index `job` (0 = any).
func (s *Sim) CountEvents(job int, points ...string) int {
	s.mu.Lock()
	defer s.mu.Unlock()
	n := 0
	for _, e := range s.events {
		if job != 0 && e.Job != job {
			continue
		}
		for _, p := range points {
			if e.Point == p {
				n++
			}
		}
	}
	return n
}

// Events returns a copy of the recorded events, ordered by sequence number.
func (s *Sim) Events() []Event {
	s.mu.Lock()
	out := append([]Event(nil), s.events...)
	s.mu.Unlock()
	sort.Slice(out, func(i, j int) bool { return out[i].Seq < out[j].Seq })
	return out
}

// JobID returns the real id of job index j (0 when unknown).
func (s *Sim) JobID(j int) int64 {
	s.mu.Lock()
	defer s.mu.Unlock()
	if j < 1 || j > len(s.jobIDs) {
		return 0
	}
	return s.jobIDs[j-1]
}

func poll(d time.Duration, f func() bool) bool {
	end := time.Now().Add(d)
	sleep := 20 * time.Microsecond
	for {
		if f() {
			return true
		}
		if time.Now().After(end) {
			return false
		}
		time.Sleep(sleep)
		if sleep < 2*time.Millisecond {
			sleep *= 2
		}
	}
}

// longWaits is the number of times a wait that missed its deadline is extended (by four
// more deadlines) before it is declared a failure: on a loaded machine a goroutine can be
// starved for seconds, and a handler that is merely slow must not be reported as stuck. The
// budget keeps a run with many genuinely stuck cases from taking forever.
var longWaits int32 = 16

func extend() bool { return atomic.AddInt32(&longWaits, -1) >= 0 }

// ResetWaitBudget restores the extension budget (before a sequential re-run).
func ResetWaitBudget() { atomic.StoreInt32(&longWaits, 16) }

// Within runs f and reports whether it returned within d (extended once, see longWaits).
func Within(d time.Duration, f func()) bool {
	ch := make(chan struct{})
	go func() { f(); close(ch) }()
	select {
	case <-ch:
		return true
	case <-time.After(d):
	}
	if !extend() {
		return false
	}
	select {
	case <-ch:
		return true
	case <-time.After(4 * d):
		return false
	}
}

// Poll polls f until it holds or d has passed (extended once, see longWaits).
func Poll(d time.Duration, f func() bool) bool {
	if poll(d, f) {
		return true
	}
	if d == 0 || !extend() {
		return false
	}
	return poll(4*d, f)
}

// ------------------------------------------------------------------ observables

// Obs is the observable state of the coordinator, in the shape of Resize!Obs.
type Obs struct {
	State string
	Nodes []string
	Cur   int
	Q     int
	JS    []string
	JD    [][]string
	JI    [][]string
	Out   []string // "j/n"
	Lpc   string
}

var gateLpc = map[string]string{"gate:loop": "idle", "gate:block": "block", "gate:action": "gen",
	"gate:wait": "wait", "gate:result": "complete", "gate:member": "member", "": "running"}

// Observe reads the observables (takes c.mu and j.mu read locks).
func (s *Sim) Observe() Obs {
	o := Obs{State: s.V.State(), Nodes: s.V.NodeIDs(), Q: s.V.QueueLen()}
	jobs := s.V.Jobs()
	cur, has := s.V.CurrentJobID()
	s.mu.Lock()
	n := len(s.jobIDs)
	o.JS = make([]string, n)
	o.JD = make([][]string, n)
	o.JI = make([][]string, n)
	for i := range o.JS {
		o.JS[i] = "?"
	}
	for _, j := range jobs {
		k, ok := s.jobIdx[j.ID]
		if !ok {
			continue
		}
		o.JS[k-1] = j.State
		for id, done := range j.IDs {
			o.JI[k-1] = append(o.JI[k-1], id)
			if done {
				o.JD[k-1] = append(o.JD[k-1], id)
			}
		}
		sort.Strings(o.JI[k-1])
		sort.Strings(o.JD[k-1])
	}
	if has {
		o.Cur = s.jobIdx[cur]
		if o.Cur == 0 {
			o.Cur = -1
		}
	}
	idx := map[int64]int{}
	for k, v := range s.jobIdx {
		idx[k] = v
	}
	o.Lpc = gateLpc[s.lpos]
	s.mu.Unlock()
	seen := map[string]bool{}
	for _, m := range s.B.Instr() {
		k := fmt.Sprintf("%d/%s", idx[m.JobID], m.Node)
		if !seen[k] {
			seen[k] = true
			o.Out = append(o.Out, k)
		}
	}
	sort.Strings(o.Out)
	return o
}

func eqs(a, b []string) bool {
	if len(a) != len(b) {
		return false
	}
	for i := range a {
		if a[i] != b[i] {
			return false
		}
	}
	return true
}

// Diff returns the first differing field between expected and actual ("" when equal).
func Diff(want, got Obs, withLpc bool) string {
	switch {
	case want.State != got.State:
		return "state"
	case !eqs(want.Nodes, got.Nodes):
		return "nodes"
	case want.Cur != got.Cur:
		return "currentJob"
	case want.Q != got.Q:
		return "queue"
	case !eqs(want.JS, got.JS):
		return "jobState"
	case len(want.JD) != len(got.JD):
		return "jobCount"
	}
	for i := range want.JD {
		if !eqs(want.JD[i], got.JD[i]) {
			return "jobDone"
		}
		if !eqs(want.JI[i], got.JI[i]) {
			return "jobIDs"
		}
	}
	if !eqs(want.Out, got.Out) {
		return "instructions"
	}
	if withLpc && want.Lpc != got.Lpc {
		return "listener"
	}
	return ""
}

// --------------------------------------------------------------- environment

// Node returns the Node value the harness uses for id (a node announces itself READY).
func Node(id string) *pilosa.Node {
	n := pilosa.VerifResizeNode(id)
	n.State = "READY"
	return n
}

// Join delivers a NodeJoin event through Server.receiveMessage.
func (s *Sim) Join(id string) error {
	return s.V.ReceiveMessage(&pilosa.NodeEvent{Event: pilosa.NodeJoin, Node: Node(id)})
}

// Leave is API.RemoveNode.
func (s *Sim) Leave(id string) error { return s.V.RemoveNode(id) }

// Complete delivers a ResizeInstructionComplete through Server.receiveMessage.
func (s *Sim) Complete(jobID int64, node string, kind string) error {
	m := &pilosa.ResizeInstructionComplete{JobID: jobID, Node: Node(node)}
	if kind == "err" {
		m.Error = "verif: injected follower error"
	}
	return s.V.ReceiveMessage(m)
}

// Abort is API.ResizeAbort.
func (s *Sim) Abort() error { return s.V.ResizeAbort() }
