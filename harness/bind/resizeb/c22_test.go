package resizeb

import (
	"encoding/json"
	"fmt"
	"math/rand"
	"os"
	"os/exec"
	"path/filepath"
	"sort"
	"strings"
	"sync"
	"sync/atomic"
	"testing"
	"time"

	"verif/harness/behav"
)

const (
	stepDeadline  = 2 * time.Second
	drainDeadline = 3 * time.Second
	unknownJobID  = int64(424242)
)

// c22Case is a self-contained replay: a behaviour of Resize.tla (Beh, with Gran
// "fine" or "sync") or a seeded concurrent schedule (Gran "free").
type c22Case struct {
	Beh        behav.Behaviour `json:"beh,omitempty"`
	Gran       string          `json:"gran"`
	Cfg        Config          `json:"cfg"`
	Seed       int64           `json:"seed"`
	TraceCheck string          `json:"trace_check,omitempty"` // "abs": the failure is a trace rejection
}

var lSteps = map[string]bool{"LTake": true, "LNorm": true, "LGen": true, "LRecv": true, "LComplete": true, "LMember": true}

type caseResult struct {
	fail    *behav.Failure
	trace   []map[string]interface{}
	jobs    int
	harness string // harness-side problem (inconclusive)
}

func obsOf(st behav.Step) (Obs, bool) {
	m := behav.ToMap(st["obs"])
	if m == nil {
		return Obs{}, false
	}
	if _, ok := m["state"]; !ok {
		return Obs{}, false
	}
	o := Obs{}
	o.State, _ = m["state"].(string)
	o.Lpc, _ = m["lpc"].(string)
	o.Cur = behav.ToInt(m["cur"])
	o.Q = behav.ToInt(m["q"])
	ss := func(v interface{}) []string {
		var out []string
		for _, x := range behav.ToList(v) {
			s, _ := x.(string)
			out = append(out, s)
		}
		sort.Strings(out)
		return out
	}
	o.Nodes = ss(m["nodes"])
	for _, x := range behav.ToList(m["js"]) {
		s, _ := x.(string)
		o.JS = append(o.JS, s)
	}
	n := len(o.JS)
	o.JD = make([][]string, n)
	o.JI = make([][]string, n)
	for i, x := range behav.ToList(m["jd"]) {
		if i < n {
			o.JD[i] = ss(x)
		}
	}
	for i, x := range behav.ToList(m["ji"]) {
		if i < n {
			o.JI[i] = ss(x)
		}
	}
	for _, x := range behav.ToList(m["out"]) {
		t := behav.ToList(x)
		if len(t) == 2 {
			nn, _ := t[1].(string)
			o.Out = append(o.Out, fmt.Sprintf("%d/%s", behav.ToInt(t[0]), nn))
		}
	}
	sort.Strings(o.Out)
	return o, true
}

func retOf(err error) string {
	if err == nil {
		return "ok"
	}
	return "err"
}

// traceOf converts hook events to trace records for TraceResize*.tla.
func traceOf(members []string, evs []Event, clean bool, state string) []map[string]interface{} {
	rec := func(ev string) map[string]interface{} {
		return map[string]interface{}{"ev": ev, "j": 0, "n": "", "a": "", "s": "", "ids": []string{}, "oks": []string{}, "done": false}
	}
	nz := func(a []string) []string {
		if a == nil {
			return []string{}
		}
		return a
	}
	r0 := rec("reset")
	r0["ids"] = members
	out := []map[string]interface{}{r0}
	for _, e := range evs {
		if strings.HasPrefix(e.Point, "gate:") || e.Point == "result_send" || e.Point == "result_drop" {
			continue
		}
		r := rec(e.Point)
		r["j"], r["n"], r["a"], r["s"], r["ids"], r["oks"], r["done"] = e.Job, e.Node, e.Act, e.State, nz(e.IDs), nz(e.Oks), e.Done
		out = append(out, r)
	}
	re := rec("end")
	re["s"] = state
	re["done"] = clean
	return append(out, re)
}

type driver struct {
	s        *Sim
	c        *c22Case
	answered map[string]bool // "j/n" answered at least once
	cov      func(string)
}

func (d *driver) failure(st behav.Step, i int, symptom, field, detail string) *behav.Failure {
	ev, kind := "", ""
	if st != nil {
		ev, kind = st.Str("ev"), st.Str("kind")
	}
	m := map[string]string{"event": ev, "symptom": symptom, "gran": d.c.Gran}
	if kind != "" {
		m["kind"] = kind
	}
	if field != "" {
		m["field"] = field
	}
	return &behav.Failure{Match: m, Detail: fmt.Sprintf("step %d %s: %s", i, behav.JSON(st), detail), Replay: d.c}
}

// env performs one environment event of the specification on the real cluster.
// It returns the handler's result class ("ok"/"err"/"stuck"/"panic: ...").
func (d *driver) env(st behav.Step) string {
	ev, n, j, kind := st.Str("ev"), st.Str("n"), st.Int("j"), st.Str("kind")
	var err error
	var pv interface{}
	var stack string
	call := func(f func() error) string {
		ok := Within(stepDeadline, func() { pv, stack = behav.Protect(func() { err = f() }) })
		if !ok {
			return "stuck"
		}
		if pv != nil {
			return fmt.Sprintf("panic: %v\n%s", pv, stack)
		}
		return retOf(err)
	}
	switch ev {
	case "Join":
		return call(func() error { return d.s.Join(n) })
	case "Leave":
		return call(func() error { return d.s.Leave(n) })
	case "Deliver", "Late", "Dup":
		id := d.s.JobID(j)
		d.answered[fmt.Sprintf("%d/%s", j, n)] = true
		return call(func() error { return d.s.Complete(id, n, kind) })
	case "Unknown":
		return call(func() error { return d.s.Complete(unknownJobID, n, kind) })
	case "Abort":
		return call(func() error { return d.s.Abort() })
	case "ArmSendFail":
		d.s.B.ArmFail()
		return ""
	}
	return "harness: unknown event " + ev
}

// drain answers every outstanding instruction of the current job with success until
// the coordinator is clean (NORMAL, no current job, nothing queued).
func (d *driver) drain() (clean bool, o Obs, stuck string) {
	end := time.Now().Add(drainDeadline)
	extended := false
	for {
		okRead := Within(stepDeadline, func() { o = d.s.Observe() })
		if !okRead {
			return false, o, "observing the cluster blocked (a lock is held forever)"
		}
		if o.State == "NORMAL" && o.Cur == 0 && o.Q == 0 {
			// stable?
			time.Sleep(2 * time.Millisecond)
			o2 := d.s.Observe()
			if o2.State == "NORMAL" && o2.Cur == 0 && o2.Q == 0 {
				return true, o2, ""
			}
			continue
		}
		if o.Cur > 0 {
			for _, k := range o.Out {
				if strings.HasPrefix(k, fmt.Sprintf("%d/", o.Cur)) && !d.answered[k] {
					d.answered[k] = true
					node := k[strings.Index(k, "/")+1:]
					id := d.s.JobID(o.Cur)
					if !Within(stepDeadline, func() { _ = d.s.Complete(id, node, "ok") }) {
						return false, o, "completion handler blocked while draining"
					}
				}
			}
		}
		if time.Now().After(end) {
			if !extended && extend() {
				extended = true
				end = time.Now().Add(4 * drainDeadline)
				continue
			}
			return false, o, ""
		}
		time.Sleep(500 * time.Microsecond)
	}
}

// runBehaviour replays a behaviour of Resize.tla.
func runBehaviour(c *c22Case, cov func(string)) (r caseResult) {
	fine := c.Gran == "fine"
	s, err := NewSim(c.Cfg, fine)
	if err != nil {
		r.harness = "NewSim: " + err.Error()
		return
	}
	d := &driver{s: s, c: c, answered: map[string]bool{}, cov: cov}
	stuck := false
	defer func() {
		r.jobs = len(s.jobIDs)
		s.Close(stuck)
	}()
	finish := func(f *behav.Failure, isStuck bool) caseResult {
		stuck = isStuck
		r.fail = f
		r.trace = traceOf(c.Cfg.Members, s.Events(), false, "?")
		return r
	}
	knownJobs := 0
	for i, st := range c.Beh {
		ev := st.Str("ev")
		want, hasObs := obsOf(st)
		isL := lSteps[ev]
		switch {
		case isL && fine:
			if !s.ReleaseListener() {
				r.harness = fmt.Sprintf("step %d %s: listener not at a gate", i, ev)
				return
			}
			if !s.WaitListener(stepDeadline) {
				return finish(d.failure(st, i, "listener_stuck", "", "the listener did not reach its next step within the deadline; spec expects lpc="+want.Lpc), true)
			}
		case ev == "RRun" && fine:
			j := st.Int("j")
			before := s.CountEvents(j, "result_send", "result_drop")
			nout := len(s.B.Instr())
			if !s.ReleaseRunner(j, stepDeadline) {
				return finish(d.failure(st, i, "job_not_started", "", "run() of the job did not start"), false)
			}
			if !Poll(stepDeadline, func() bool {
				return s.CountEvents(j, "result_send", "result_drop") > before || len(s.B.Instr()) > nout
			}) {
				return finish(d.failure(st, i, "job_stuck", "", "run() neither sent instructions nor a result"), true)
			}
		case isL || ev == "RRun":
			r.harness = "coordinator step in a sync behaviour"
			return
		default:
			if cov != nil {
				cov("ev:" + ev + "/" + st.Str("kind") + "/" + st.Str("ret"))
				if fine {
					cov("env-at-lpc:" + gateLpc[s.ListenerPos()] + ":" + ev)
				}
			}
			got := d.env(st)
			wantRet := st.Str("ret")
			switch {
			case strings.HasPrefix(got, "harness:"):
				r.harness = got
				return
			case got == "stuck":
				if wantRet != "stuck" {
					return finish(d.failure(st, i, "handler_stuck", "", "the handler did not return within "+stepDeadline.String()+"; spec: returns "+wantRet), true)
				}
				stuck = true
			case strings.HasPrefix(got, "panic"):
				if !behav.PanicInCode(got) {
					r.harness = got
					return
				}
				if wantRet != "panic" {
					return finish(d.failure(st, i, "panic", "", got), false)
				}
			case got != wantRet:
				return finish(d.failure(st, i, "wrong_return", "", fmt.Sprintf("handler returned %q, spec: %q", got, wantRet)), false)
			}
		}
		if !hasObs {
			continue
		}
		// a job appeared: the plan the real code computed must be the one the specification
		// took from ResizePlan (otherwise the table is stale: harness problem, no verdict)
		for k := knownJobs + 1; k <= len(want.JS); k++ {
			for _, e := range s.Events() {
				if e.Point == "job_start" && e.Job == k && (!eqs(e.IDs, want.JI[k-1]) || (k == len(want.JS) && isL && !eqs(e.Oks, want.JD[k-1]))) {
					r.harness = fmt.Sprintf("resize plan of job %d differs from spec/ResizePlan.tla: code ids=%v complete=%v, spec ids=%v complete=%v", k, e.IDs, e.Oks, want.JI[k-1], want.JD[k-1])
					return
				}
			}
		}
		if len(want.JS) > knownJobs {
			knownJobs = len(want.JS)
		}
		var got Obs
		var field string
		match := func() bool {
			got = s.Observe()
			field = Diff(want, got, fine)
			return field == ""
		}
		okObs := false
		readable := Within(6*stepDeadline, func() {
			okObs = Poll(stepDeadline, match)
			if okObs && !fine {
				time.Sleep(3 * time.Millisecond)
				okObs = match()
			}
		})
		if !readable {
			return finish(d.failure(st, i, "observer_stuck", "", "reading the cluster's state blocked: a lock is held forever"), true)
		}
		if !okObs {
			return finish(d.failure(st, i, "state_mismatch", field, fmt.Sprintf("after the step (%s differs)\n spec: %s\n code: %s", field, behav.JSON(want), behav.JSON(got))), false)
		}
	}
	// the behaviour is over: let everything run, answer what is owed, and require a clean end
	s.mu.Lock()
	s.gated = false
	s.mu.Unlock()
	s.ReleaseListener()
	for j := 1; j <= len(s.jobIDs); j++ {
		s.ReleaseRunner(j, 0)
	}
	clean, o, why := d.drain()
	// a runner may have reached its gate after the switch; release again
	for j := 1; j <= len(s.jobIDs); j++ {
		s.ReleaseRunner(j, 0)
	}
	if !clean {
		clean, o, why = d.drain()
	}
	r.trace = traceOf(c.Cfg.Members, s.Events(), clean, o.State)
	if !clean {
		stuck = true
		sym := "not_clean_after_drain"
		if why != "" {
			sym = "stuck_after_drain"
		}
		var last behav.Step
		if len(c.Beh) > 0 {
			last = c.Beh[len(c.Beh)-1]
		}
		r.fail = d.failure(last, len(c.Beh), sym, "", fmt.Sprintf("after the behaviour every outstanding instruction was answered with success but the cluster did not return to NORMAL without a current job within %s (%s): %s", drainDeadline, why, behav.JSON(o)))
	}
	return r
}

// runFree runs a seeded schedule with real concurrency (no gates): joins/leaves, then
// all answers, duplicates, errors and aborts fired from concurrent goroutines.
func runFree(c *c22Case, cov func(string)) (r caseResult) {
	rng := rand.New(rand.NewSource(c.Seed))
	s, err := NewSim(c.Cfg, false)
	if err != nil {
		r.harness = "NewSim: " + err.Error()
		return
	}
	d := &driver{s: s, c: c, answered: map[string]bool{}, cov: cov}
	stuck := false
	defer func() {
		r.jobs = len(s.jobIDs)
		s.Close(stuck)
	}()
	rounds := 1 + rng.Intn(2)
	for round := 0; round < rounds; round++ {
		var st behav.Step
		switch rng.Intn(4) {
		case 0:
			st = behav.Step{"ev": "Leave", "n": "n2"}
		default:
			st = behav.Step{"ev": "Join", "n": "n3"}
		}
		if rng.Intn(5) == 0 {
			s.B.ArmFail()
		}
		if got := d.env(st); got == "stuck" || strings.HasPrefix(got, "panic") {
			stuck = got == "stuck"
			r.fail = d.failure(st, round, "handler_stuck", "", got)
			r.trace = traceOf(c.Cfg.Members, s.Events(), false, "?")
			return
		}
		if rng.Intn(3) == 0 { // a second request racing with the first job
			_ = d.env(behav.Step{"ev": "Join", "n": "n3"})
		}
		// wait for the job's instructions (or for the job to be over already)
		var o Obs
		poll(stepDeadline, func() bool {
			o = s.Observe()
			return o.State == "NORMAL" && o.Cur == 0 && o.Q == 0 || o.Cur > 0 && strings.Contains(strings.Join(o.Out, " "), fmt.Sprintf("%d/", o.Cur))
		})
		if o.Cur == 0 {
			continue
		}
		var steps []behav.Step
		for _, k := range o.Out {
			if !strings.HasPrefix(k, fmt.Sprintf("%d/", o.Cur)) {
				continue
			}
			node := k[strings.Index(k, "/")+1:]
			kind := "ok"
			if rng.Intn(6) == 0 {
				kind = "err"
			}
			if rng.Intn(5) != 0 { // sometimes an answer is late (left to the drain)
				steps = append(steps, behav.Step{"ev": "Deliver", "j": o.Cur, "n": node, "kind": kind})
			}
			if rng.Intn(3) == 0 {
				k2 := "ok"
				if rng.Intn(4) == 0 {
					k2 = "err"
				}
				steps = append(steps, behav.Step{"ev": "Dup", "j": o.Cur, "n": node, "kind": k2})
			}
		}
		if rng.Intn(3) == 0 {
			steps = append(steps, behav.Step{"ev": "Abort"})
		}
		if rng.Intn(4) == 0 {
			steps = append(steps, behav.Step{"ev": "Unknown", "n": "n1", "kind": "ok"})
		}
		if o.Cur > 1 && rng.Intn(2) == 0 { // an answer for an earlier, finished job
			steps = append(steps, behav.Step{"ev": "Late", "j": o.Cur - 1, "n": "n1", "kind": []string{"ok", "err"}[rng.Intn(2)]})
		}
		rng.Shuffle(len(steps), func(a, b int) { steps[a], steps[b] = steps[b], steps[a] })
		var wg sync.WaitGroup
		var mu sync.Mutex
		var bad *behav.Failure
		start := make(chan struct{})
		for i, st := range steps {
			wg.Add(1)
			delay := time.Duration(rng.Intn(200)) * time.Microsecond
			go func(i int, st behav.Step) {
				defer wg.Done()
				<-start
				time.Sleep(delay)
				mu.Lock()
				if st.Str("ev") != "Abort" && st.Str("ev") != "Unknown" {
					d.answered[fmt.Sprintf("%d/%s", st.Int("j"), st.Str("n"))] = true
				}
				mu.Unlock()
				dd := &driver{s: s, c: c, answered: map[string]bool{}}
				got := dd.env(st)
				if cov != nil {
					cov("free:" + st.Str("ev") + "/" + st.Str("kind") + "/" + strings.SplitN(got, ":", 2)[0])
				}
				if got == "stuck" || strings.HasPrefix(got, "panic") {
					mu.Lock()
					if bad == nil {
						sym := "handler_stuck"
						if got != "stuck" {
							sym = "panic"
						}
						bad = d.failure(st, i, sym, "", "concurrent schedule: "+got)
					}
					mu.Unlock()
				}
			}(i, st)
		}
		close(start)
		wg.Wait()
		if bad != nil {
			stuck = true
			r.fail = bad
			r.trace = traceOf(c.Cfg.Members, s.Events(), false, "?")
			return
		}
		clean, oo, why := d.drain()
		if !clean {
			stuck = true
			r.fail = d.failure(behav.Step{"ev": "Drain"}, round, "not_clean_after_drain", "", fmt.Sprintf("concurrent schedule %s: cluster did not return to NORMAL without a current job (%s): %s", behav.JSON(steps), why, behav.JSON(oo)))
			r.trace = traceOf(c.Cfg.Members, s.Events(), false, oo.State)
			return
		}
	}
	clean, o, why := d.drain()
	r.trace = traceOf(c.Cfg.Members, s.Events(), clean, o.State)
	if !clean {
		stuck = true
		r.fail = d.failure(behav.Step{"ev": "Drain"}, rounds, "not_clean_after_drain", "", fmt.Sprintf("concurrent schedule: cluster did not return to NORMAL without a current job (%s): %s", why, behav.JSON(o)))
	}
	return r
}

// raceScenarios are the lock-order schedules of runRace.
var raceScenarios = []string{"ok_notlast_vs_abort", "ok_last_vs_abort", "ok_vs_job_completion", "ok_vs_abort_together"}

// runRace checks the lock order of the completion handler (j.mu) against the two code
// paths that take c.mu and then j.mu (abortCurrentJob, completeCurrentJob).  A completion
// handler is held at gate:complete - right after it has taken j.mu - until the other party
// has taken c.mu and waits for j.mu; then it is released.  If the handler touches c.mu while
// it holds j.mu both wait forever.  The last scenario starts handler and abort together,
// without holding anything, many times.
func runRace(c *c22Case, cov func(string)) (r caseResult) {
	sc := raceScenarios[int(c.Seed)%len(raceScenarios)]
	s, err := NewSim(c.Cfg, true)
	if err != nil {
		r.harness = "NewSim: " + err.Error()
		return
	}
	d := &driver{s: s, c: c, answered: map[string]bool{}, cov: cov}
	stuck := false
	defer func() {
		r.jobs = len(s.jobIDs)
		s.Close(stuck)
	}()
	if cov != nil {
		cov("race:" + sc)
	}
	fail := func(what, detail string) caseResult {
		stuck = true
		r.fail = d.failure(behav.Step{"ev": "Race", "kind": sc}, 0, what, "", detail)
		r.trace = nil
		return r
	}
	ungate := func() {
		s.mu.Lock()
		s.gated = false
		s.mu.Unlock()
		s.ReleaseListener()
		for j := 1; j <= len(s.jobIDs); j++ {
			s.ReleaseRunner(j, 0)
		}
	}
	// start a job: ADD n3
	if got := d.env(behav.Step{"ev": "Join", "n": "n3"}); got != "ok" {
		return fail("wrong_return", "Join n3: "+got)
	}
	for k := 0; k < 8 && s.ListenerPos() != "gate:wait"; k++ {
		s.ReleaseListener()
		if !s.WaitListener(stepDeadline) {
			return fail("listener_stuck", "listener did not reach the wait for the job result")
		}
	}
	if !s.ReleaseRunner(1, stepDeadline) {
		return fail("job_not_started", "run() did not start")
	}
	var pend []string
	if !Poll(stepDeadline, func() bool {
		pend = nil
		for _, m := range s.B.Instr() {
			pend = append(pend, m.Node)
		}
		return len(pend) > 0
	}) {
		r.harness = "race: the ADD job of this configuration sends no instruction"
		return
	}
	time.Sleep(2 * time.Millisecond)
	pend = nil
	for _, m := range s.B.Instr() {
		pend = append(pend, m.Node)
	}
	sort.Strings(pend)
	id := s.JobID(1)
	complete := func(node, kind string) string {
		d.answered["1/"+node] = true
		return d.env(behav.Step{"ev": "Deliver", "j": 1, "n": node, "kind": kind})
	}
	// run f in the background; result via channel
	bg := func(f func() string) chan string {
		ch := make(chan string, 1)
		go func() { ch <- f() }()
		return ch
	}
	waitCh := func(ch chan string, what string) (string, bool) {
		select {
		case v := <-ch:
			return v, true
		case <-time.After(stepDeadline):
		}
		if extend() {
			select {
			case v := <-ch:
				return v, true
			case <-time.After(4 * stepDeadline):
			}
		}
		return what, false
	}
	_ = id
	last := pend[len(pend)-1]
	switch sc {
	case "ok_notlast_vs_abort", "ok_last_vs_abort":
		ungate() // the listener waits for the result on its own
		held := pend[0]
		if sc == "ok_last_vs_abort" {
			for _, n := range pend[:len(pend)-1] {
				if got := complete(n, "ok"); got != "ok" {
					return fail("wrong_return", "completion of "+n+": "+got)
				}
			}
			held = last
		}
		s.HoldNextCompletion()
		h := bg(func() string { return complete(held, "ok") })
		if !Poll(stepDeadline, s.CompletionHeld) {
			return fail("handler_stuck", "completion handler did not reach j.mu")
		}
		a := bg(func() string { return d.env(behav.Step{"ev": "Abort"}) })
		// the abort holds c.mu and waits for j.mu
		Poll(200*time.Millisecond, func() bool { return s.ClusterLockBusy(3 * time.Millisecond) })
		s.ReleaseCompletion()
		if v, ok := waitCh(h, "completion handler"); !ok {
			return fail("handler_stuck", "completion handler (holding j.mu) and ResizeAbort (holding c.mu) wait for each other: the handler did not return")
		} else if v == "stuck" {
			return fail("handler_stuck", "a handler racing for c.mu / j.mu did not return")
		} else if v != "ok" && v != "err" {
			return fail("panic", v)
		}
		if v, ok := waitCh(a, "abort"); !ok {
			return fail("handler_stuck", "ResizeAbort did not return")
		} else if v == "stuck" {
			return fail("handler_stuck", "a handler racing for c.mu / j.mu did not return")
		} else if v != "ok" && v != "err" {
			return fail("panic", v)
		}
	case "ok_vs_job_completion":
		// an error answer decides the job; the listener is held before completeCurrentJob
		if got := complete(pend[0], "err"); got != "err" {
			return fail("wrong_return", "error completion: "+got)
		}
		s.ReleaseListener()
		if !s.WaitListener(stepDeadline) || s.ListenerPos() != "gate:result" {
			return fail("listener_stuck", "listener did not receive the job result; at "+s.ListenerPos())
		}
		s.HoldNextCompletion()
		h := bg(func() string { return complete(last, "ok") })
		if !Poll(stepDeadline, s.CompletionHeld) {
			return fail("handler_stuck", "completion handler did not reach j.mu")
		}
		ungate() // completeCurrentJob: takes c.mu, waits for j.mu in setState
		Poll(200*time.Millisecond, func() bool { return s.ClusterLockBusy(3 * time.Millisecond) })
		s.ReleaseCompletion()
		if v, ok := waitCh(h, "completion handler"); !ok {
			return fail("handler_stuck", "completion handler (holding j.mu) and completeCurrentJob (holding c.mu) wait for each other: the handler did not return")
		} else if v == "stuck" {
			return fail("handler_stuck", "a handler racing for c.mu / j.mu did not return")
		} else if v != "ok" && v != "err" {
			return fail("panic", v)
		}
	case "ok_vs_abort_together":
		ungate()
		for _, n := range pend[:len(pend)-1] {
			if got := complete(n, "ok"); got != "ok" {
				return fail("wrong_return", "completion of "+n+": "+got)
			}
		}
		start := make(chan struct{})
		h := bg(func() string { <-start; return complete(last, "ok") })
		a := bg(func() string { <-start; return d.env(behav.Step{"ev": "Abort"}) })
		close(start)
		if v, ok := waitCh(h, "completion handler"); !ok || v == "stuck" {
			return fail("handler_stuck", "completion handler started together with ResizeAbort did not return")
		}
		if v, ok := waitCh(a, "abort"); !ok || v == "stuck" {
			return fail("handler_stuck", "ResizeAbort started together with a completion did not return")
		}
	}
	clean, o, why := d.drain()
	r.trace = traceOf(c.Cfg.Members, s.Events(), clean, o.State)
	if !clean {
		return fail("not_clean_after_drain", fmt.Sprintf("after the race the cluster did not return to NORMAL without a current job (%s): %s", why, behav.JSON(o)))
	}
	return r
}

func runCase(c *c22Case, cov func(string)) caseResult {
	if c.Gran == "race" {
		return runRace(c, cov)
	}
	if c.Gran == "free" {
		return runFree(c, cov)
	}
	return runBehaviour(c, cov)
}

// validateTrace runs TLC on a trace with spec/<module>.tla; it returns whether the trace
// was accepted and, if not, the number of accepted events.
func validateTrace(module string, recs []map[string]interface{}) (accepted bool, prefix int, out string, err error) {
	specdir := os.Getenv("VERIF_SPECDIR")
	if specdir == "" {
		specdir = "/verif/spec"
	}
	work, err := os.MkdirTemp(os.Getenv("VERIF_SCRATCH"), "c22tlc-")
	if err != nil {
		return false, 0, "", err
	}
	defer os.RemoveAll(work)
	files, _ := filepath.Glob(filepath.Join(specdir, "*.tla"))
	for _, f := range append(files, filepath.Join(specdir, module+".cfg")) {
		b, e := os.ReadFile(f)
		if e != nil {
			return false, 0, "", e
		}
		if e := os.WriteFile(filepath.Join(work, filepath.Base(f)), b, 0o644); e != nil {
			return false, 0, "", e
		}
	}
	var sb strings.Builder
	for _, r := range recs {
		b, _ := json.Marshal(r)
		sb.Write(b)
		sb.WriteByte('\n')
	}
	if e := os.WriteFile(filepath.Join(work, "trace.ndjson"), []byte(sb.String()), 0o644); e != nil {
		return false, 0, "", e
	}
	cmd := exec.Command("timeout", "300", "tlc", "-workers", "1", "-metadir", filepath.Join(work, "meta"), "-noGenerateSpecTE", "-config", module+".cfg", module+".tla")
	cmd.Dir = work
	cmd.Env = append(os.Environ(), "JAVA_TOOL_OPTIONS=-Xss64m -Dtlc2.tool.queue.IStateQueue=StateDeque")
	b, _ := cmd.CombinedOutput()
	out = string(b)
	if strings.Contains(out, "TRACE-ACCEPTED") {
		return true, len(recs), out, nil
	}
	if i := strings.Index(out, "TRACE-REJECTED"); i >= 0 {
		fmt.Sscanf(out[i:], "TRACE-REJECTED %d", &prefix)
		return false, prefix, out, nil
	}
	return false, 0, out, fmt.Errorf("TLC gave no verdict on the trace")
}

func TestC22(t *testing.T) {
	res := behav.NewResult()
	defer func() {
		if err := res.Write(); err != nil {
			t.Fatal(err)
		}
	}()
	record := func(c *c22Case, r caseResult) {
		if r.harness != "" {
			res.SetInconclusive("harness: " + r.harness)
			return
		}
		if r.fail != nil {
			res.Fail(*r.fail)
		}
	}
	if raw, ok := behav.LoadReplay(); ok {
		var c c22Case
		if err := json.Unmarshal(raw, &c); err != nil {
			t.Fatal(err)
		}
		res.Evaluations = 1
		attempts := 1
		if c.Gran == "free" || c.Gran == "race" {
			attempts = 25 // a concurrent schedule is re-run; any failing run counts
		}
		for a := 0; a < attempts; a++ {
			r := runCase(&c, nil)
			if c.TraceCheck != "" && r.fail == nil && r.harness == "" {
				module := "TraceResizeAbs"
				okT, prefix, out, err := validateTrace(module, r.trace)
				if err != nil {
					res.SetInconclusive("trace validation: " + err.Error() + "\n" + tail(out, 1500))
					return
				}
				if !okT {
					ev := behav.JSON(r.trace[minInt(prefix, len(r.trace)-1)])
					r.fail = &behav.Failure{Match: map[string]string{"symptom": "trace_rejected", "spec": "abs", "gran": c.Gran},
						Detail: fmt.Sprintf("recorded execution rejected by %s at event %d: %s", module, prefix, ev), Replay: &c}
				}
			}
			record(&c, r)
			if r.fail != nil || r.harness != "" {
				return
			}
		}
		return
	}
	gran := os.Getenv("VERIF_GRAN")
	cfg := DefaultConfig()
	if s := os.Getenv("VERIF_CFG"); s != "" {
		if err := json.Unmarshal([]byte(s), &cfg); err != nil {
			t.Fatal(err)
		}
	}
	var cases []*c22Case
	if gran == "free" || gran == "race" {
		n := behav.EnvInt("VERIF_N", 100)
		for i := 0; i < n; i++ {
			cases = append(cases, &c22Case{Gran: gran, Cfg: cfg, Seed: behav.Seed()*1000003 + int64(i)})
		}
	} else {
		for _, b := range behav.LoadEnv() {
			cases = append(cases, &c22Case{Beh: b, Gran: gran, Cfg: cfg, Seed: behav.Seed()})
		}
	}
	results := make([]caseResult, len(cases))
	var distinct behav.Distinct
	var nfail int32
	behav.Parallel(len(cases), func(i int) {
		c := cases[i]
		if atomic.LoadInt32(&nfail) >= 24 {
			// enough failing cases for a verdict; the rest would only cost deadlines
			res.Cover("skipped_after_many_failures")
			return
		}
		r := runCase(c, res.Cover)
		if r.fail != nil {
			atomic.AddInt32(&nfail, 1)
		}
		results[i] = r
		res.CountEval()
		if r.jobs > 0 && distinct.Add(behav.JSON(c.Beh)+fmt.Sprint(c.Seed, c.Gran)) {
			res.CountNontrivial()
		}
		if i%(len(cases)/4+1) == 0 {
			res.AddSample(map[string]interface{}{"gran": c.Gran, "seed": c.Seed, "behaviour": c.Beh})
		}
	}, func(i int, v interface{}, stack string) {
		res.SetInconclusive(fmt.Sprintf("harness panic: %v\n%s", v, stack))
	})
	// A failure seen while all workers compete for the machine is re-run alone before it is
	// reported: every symptom here involves a deadline, and a deadline missed because the
	// process was starved is not a disagreement of the code with the specification. (The
	// check replays every reported failure once more in a fresh process.)
	reran := 0
	confirmed := map[string]int{}
	for i, r := range results {
		if r.harness != "" {
			record(cases[i], r)
			continue
		}
		if r.fail == nil {
			continue
		}
		sig := fmt.Sprint(r.fail.Match)
		if confirmed[sig] >= 1 {
			// this kind of failure has already been reproduced alone
			record(cases[i], r)
			continue
		}
		if reran < 10 {
			reran++
			ResetWaitBudget()
			attempts := 1
			if cases[i].Gran == "free" || cases[i].Gran == "race" {
				attempts = 10
			}
			var again caseResult
			for a := 0; a < attempts; a++ {
				again = runCase(cases[i], nil)
				if again.fail != nil || again.harness != "" {
					break
				}
			}
			if again.fail == nil && again.harness == "" {
				res.Cover("failure_not_reproduced_when_run_alone:" + r.fail.Match["symptom"])
				results[i] = again
				continue
			}
			results[i] = again
			r = again
			if r.fail != nil {
				confirmed[fmt.Sprint(r.fail.Match)]++
			}
		}
		record(cases[i], r)
	}
	// traces and the cases they came from, for binding B (checks/c22.py runs TLC on them)
	if p := os.Getenv("VERIF_TRACE_OUT"); p != "" {
		limit := behav.EnvInt("VERIF_TRACE_MAX", 400)
		tf, err := os.Create(p)
		if err != nil {
			t.Fatal(err)
		}
		cf, err := os.Create(p + ".cases")
		if err != nil {
			t.Fatal(err)
		}
		n := 0
		for i, r := range results {
			if r.trace == nil || r.fail != nil || r.harness != "" || n >= limit {
				continue
			}
			n++
			for _, rec := range r.trace {
				b, _ := json.Marshal(rec)
				tf.Write(b)
				tf.Write([]byte("\n"))
			}
			b, _ := json.Marshal(cases[i])
			cf.Write(b)
			cf.Write([]byte("\n"))
		}
		tf.Close()
		cf.Close()
		res.Cover("traces_written")
	}
}

func tail(s string, n int) string {
	if len(s) > n {
		return s[len(s)-n:]
	}
	return s
}

func minInt(a, b int) int {
	if a < b {
		return a
	}
	return b
}

// TestC22Plan tabulates, for the configuration, the resize plan the real code computes
// for every membership and node action (which target nodes receive an instruction), as
// the TLA+ module ResizePlan.  Plans are the subject of C21; C22 only needs to know who
// has to answer.
func TestC22Plan(t *testing.T) {
	res := behav.NewResult()
	defer res.Write()
	cfg := DefaultConfig()
	if s := os.Getenv("VERIF_CFG"); s != "" {
		if err := json.Unmarshal([]byte(s), &cfg); err != nil {
			t.Fatal(err)
		}
	}
	all := append(append([]string(nil), cfg.Members...), strings.Fields(os.Getenv("VERIF_JOINERS"))...)
	if len(all) == len(cfg.Members) {
		all = append(all, "n3")
	}
	coord := cfg.Members[0]
	var rows []string
	set := func(a []string) string {
		q := make([]string, len(a))
		for i, x := range a {
			q[i] = fmt.Sprintf("%q", x)
		}
		return "{" + strings.Join(q, ", ") + "}"
	}
	for mask := 0; mask < 1<<uint(len(all)); mask++ {
		var ms []string
		for i, n := range all {
			if mask&(1<<uint(i)) != 0 {
				ms = append(ms, n)
			}
		}
		if len(ms) == 0 || ms[0] != coord {
			continue
		}
		for _, n := range all {
			if n == coord {
				continue
			}
			in := false
			for _, m := range ms {
				in = in || m == n
			}
			c := cfg
			c.Members = ms
			s, err := NewSim(c, false)
			if err != nil {
				t.Fatal(err)
			}
			act := "ADD"
			if in {
				act = "REMOVE"
				err = s.Leave(n)
			} else {
				err = s.Join(n)
			}
			ok := err == nil
			var pend []string
			if ok {
				poll(stepDeadline, func() bool { return len(s.V.Jobs()) > 0 })
				time.Sleep(5 * time.Millisecond)
				for _, j := range s.V.Jobs() {
					pend = j.Instr
				}
				_ = s.Abort()
			}
			s.Close(false)
			rows = append(rows, fmt.Sprintf("    <<%q, %q, %s, %s, %s>>", act, n, set(ms), map[bool]string{true: "TRUE", false: "FALSE"}[ok], set(pend)))
			res.CountEval()
		}
	}
	mod := "----------------------------- MODULE ResizePlan -----------------------------\n" +
		"(* Generated by harness/bind/resizeb TestC22Plan from the real code's resize plans for\n" +
		"   configuration " + strings.ReplaceAll(behav.JSON(cfg), "*)", "") + ".\n" +
		"   Row: <<action, node, members, a job can be generated, nodes that receive an instruction>> *)\n" +
		"PlanTab == {\n" + strings.Join(rows, ",\n") + "\n}\n" +
		"=============================================================================\n"
	out := os.Getenv("VERIF_PLAN_OUT")
	if out == "" {
		t.Fatal("VERIF_PLAN_OUT not set")
	}
	if err := os.WriteFile(out, []byte(mod), 0o644); err != nil {
		t.Fatal(err)
	}
}
