package mrtimeb

import (
	"context"
	"encoding/json"
	"fmt"
	"os"
	"sort"
	"strings"
	"sync"
	"testing"
	"time"

	"github.com/pilosa/pilosa"
	"github.com/pilosa/pilosa/server"
	"github.com/pilosa/pilosa/test"
	"verif/harness/behav"
)

// ---- placement: a Hasher whose table the harness rewrites per case --------------

// tableHasher maps a partition to the index of its primary node. All nodes of all the
// harness's clusters share it (they live in this process), so a placement chosen by TLC
// is realised by writing the partitions of the case's shards into the table.
type tableHasher struct {
	mu sync.RWMutex
	m  map[uint64]int
}

func (h *tableHasher) Hash(key uint64, n int) int {
	h.mu.RLock()
	v, ok := h.m[key]
	h.mu.RUnlock()
	if !ok {
		return int(key % uint64(n))
	}
	return v % n
}

func (h *tableHasher) set(m map[uint64]int) {
	h.mu.Lock()
	h.m = m
	h.mu.Unlock()
}

var hasher = &tableHasher{m: map[uint64]int{}}

// ---- arrival order: the gate hook ---------------------------------------------

// gateCtl decides the order in which shard results reach a node's reduce loop and node
// responses reach the coordinator's. Every map/reduce phase run on a node covers each
// of the node's shards exactly once, and every phase run by the coordinator gets exactly
// one response per node that owns shards; so "the k-th passage of x waits for the k-th
// passage of everything ordered before x" enforces the order in every phase, whatever
// the number of phases a query needs (TopN: 2, GroupBy: 1 + one per Rows child, ...).
type gateCtl struct {
	mu        sync.Mutex
	cond      *sync.Cond
	active    bool
	shardNode map[uint64]int   // shard -> owning node
	local     map[int][]uint64 // node -> its shards in arrival order
	remote    []string         // node ids in the order their responses arrive at the coordinator
	coord     string
	shardCnt  map[uint64]int
	nodeCnt   map[string]int
	delay     time.Duration
	timeouts  int
	passes    int
}

var ctl = func() *gateCtl { g := &gateCtl{}; g.cond = sync.NewCond(&g.mu); return g }()

func (g *gateCtl) arm(shardNode map[uint64]int, local map[int][]uint64, remote []string, coord string, delay time.Duration) {
	g.mu.Lock()
	g.active = true
	g.shardNode, g.local, g.remote, g.coord, g.delay = shardNode, local, remote, coord, delay
	g.shardCnt, g.nodeCnt = map[uint64]int{}, map[string]int{}
	g.mu.Unlock()
}

func (g *gateCtl) disarm() (timeouts, passes int) {
	g.mu.Lock()
	g.active = false
	timeouts, passes = g.timeouts, g.passes
	g.timeouts, g.passes = 0, 0
	g.cond.Broadcast()
	g.mu.Unlock()
	return
}

// wait blocks until ready() holds (g.mu held), at most 10 s.
func (g *gateCtl) wait(ready func() bool) {
	deadline := time.Now().Add(10 * time.Second)
	for g.active && !ready() {
		if time.Now().After(deadline) {
			g.timeouts++
			g.active = false // let everything run free; the case is reported inconclusive
			g.cond.Broadcast()
			return
		}
		tm := time.AfterFunc(100*time.Millisecond, func() { g.mu.Lock(); g.cond.Broadcast(); g.mu.Unlock() })
		g.cond.Wait()
		tm.Stop()
	}
}

func (g *gateCtl) gate(point string, kv ...interface{}) {
	g.mu.Lock()
	if !g.active {
		g.mu.Unlock()
		return
	}
	switch point {
	case "worker":
		shard := kv[0].(uint64)
		node, ok := g.shardNode[shard]
		if !ok {
			g.mu.Unlock()
			return
		}
		order := g.local[node]
		idx := -1
		for i, s := range order {
			if s == shard {
				idx = i
			}
		}
		round := g.shardCnt[shard]
		g.wait(func() bool {
			for j := 0; j < idx; j++ {
				if g.shardCnt[order[j]] <= round {
					return false
				}
			}
			return true
		})
		if idx > 0 && g.active {
			// the predecessor has left its gate; give its channel send time to happen
			g.mu.Unlock()
			time.Sleep(g.delay)
			g.mu.Lock()
		}
		g.shardCnt[shard]++
		g.passes++
		g.cond.Broadcast()
	case "mapper":
		exec, node := kv[0].(string), kv[1].(string)
		if exec != g.coord {
			break // a remote node finishing its own reduce (NodeDone): not ordered
		}
		idx := -1
		for i, n := range g.remote {
			if n == node {
				idx = i
			}
		}
		if idx < 0 {
			break
		}
		round := g.nodeCnt[node]
		g.wait(func() bool {
			for j := 0; j < idx; j++ {
				if g.nodeCnt[g.remote[j]] <= round {
					return false
				}
			}
			return true
		})
		if idx > 0 && g.active {
			g.mu.Unlock()
			time.Sleep(g.delay)
			g.mu.Lock()
		}
		g.nodeCnt[node]++
		g.passes++
		g.cond.Broadcast()
	}
	g.mu.Unlock()
}

// ---- clusters ------------------------------------------------------------------

type clusterKey struct{ n, replicas int }

type sysCluster struct {
	key     clusterKey
	c       test.Cluster
	indexes map[string]string // data key -> index name
	order   []string          // data keys, oldest first
	nextIdx int
}

type sysEnv struct {
	t        *testing.T
	clusters map[clusterKey]*sysCluster
	colsPer  int
	g        int
	r        int
}

func (e *sysEnv) cluster(k clusterKey) *sysCluster {
	if sc, ok := e.clusters[k]; ok {
		return sc
	}
	c := test.MustNewCluster(e.t, k.n, []server.CommandOption{
		server.OptCommandServerOptions(pilosa.OptServerClusterHasher(hasher))})
	for _, m := range c {
		m.Config.Cluster.ReplicaN = k.replicas
		m.Config.WorkerPoolSize = 8 // at least the shards of a node: a gated worker must not starve a later shard
		m.Config.Metric.Diagnostics = false
	}
	if err := c.Start(); err != nil {
		e.t.Fatalf("starting cluster: %v", err)
	}
	sc := &sysCluster{key: k, c: c, indexes: map[string]string{}}
	e.clusters[k] = sc
	return sc
}

func (e *sysEnv) close() {
	for _, sc := range e.clusters {
		sc.c.Close()
	}
}

func query(m *test.Command, index, q string) ([]interface{}, error) {
	resp, err := m.API.Query(context.Background(), &pilosa.QueryRequest{Index: index, Query: q})
	if err != nil {
		return nil, err
	}
	return resp.Results, resp.Err
}

// dataCol is one column of a dataset (abstract ids).
type dataCol struct {
	Col   int   `json:"col"`
	Shard int   `json:"shard"`
	F     []int `json:"f"`
	G     []int `json:"g"`
	V     int   `json:"v"`
}

const noVal = -99

var injectN int

// ensureIndex loads the dataset into a fresh index of the cluster (once per data key).
// partitions: the partitions of the S shards in that index.
func (e *sysEnv) ensureIndex(sc *sysCluster, key string, data []dataCol, counts [][]int, nshards int, owner []int) (string, []uint64, error) {
	parts := func(name string) []uint64 {
		out := make([]uint64, nshards)
		for s := 0; s < nshards; s++ {
			out[s] = uint64(sc.c[0].API.VerifReducePartition(name, uint64(s)))
		}
		return out
	}
	if name, ok := sc.indexes[key]; ok {
		return name, parts(name), nil
	}
	// an index name whose shards fall into distinct partitions (the table is per partition)
	var name string
	var ps []uint64
	for {
		name = fmt.Sprintf("i%dx%d", sc.nextIdx, sc.key.n*10+sc.key.replicas)
		sc.nextIdx++
		ps = parts(name)
		seen := map[uint64]bool{}
		ok := true
		for _, p := range ps {
			if seen[p] {
				ok = false
			}
			seen[p] = true
		}
		if ok {
			break
		}
	}
	tab := map[uint64]int{}
	for s, p := range ps {
		tab[p] = owner[s] % sc.key.n
	}
	hasher.set(tab)
	ctx := context.Background()
	api := sc.c[0].API
	if _, err := api.CreateIndex(ctx, name, pilosa.IndexOptions{}); err != nil {
		return "", nil, err
	}
	for _, f := range []string{"f", "g", "t", "pad"} { // ranked caches far larger than the rows: TopN has the true counts
		if _, err := api.CreateField(ctx, name, f, pilosa.OptFieldTypeSet(pilosa.CacheTypeRanked, 1000)); err != nil {
			return "", nil, err
		}
	}
	if _, err := api.CreateField(ctx, name, "v", pilosa.OptFieldTypeInt(-10, 100)); err != nil {
		return "", nil, err
	}
	var sb strings.Builder
	for s := 0; s < nshards; s++ {
		// every shard exists in the index, whatever the data
		fmt.Fprintf(&sb, "Set(%d, pad=0) ", uint64(s)*pilosa.ShardWidth+7)
	}
	for _, d := range data {
		c := colOf(d.Col, e.colsPer)
		for _, r := range d.F {
			fmt.Fprintf(&sb, "Set(%d, f=%d) ", c, r)
		}
		for _, r := range d.G {
			fmt.Fprintf(&sb, "Set(%d, g=%d) ", c, r)
		}
		if d.V != noVal {
			fmt.Fprintf(&sb, "Set(%d, v=%d) ", c, d.V)
		}
	}
	// the TopN field: counts[s][r-1] columns of shard s hold row r
	for s, rowCnt := range counts {
		for r, k := range rowCnt {
			for j := 0; j < k; j++ {
				fmt.Fprintf(&sb, "Set(%d, t=%d) ", tCol(s, r+1, j), r+1)
			}
		}
	}
	if _, err := query(sc.c[0], name, sb.String()); err != nil {
		return "", nil, fmt.Errorf("loading data: %v", err)
	}
	for _, m := range sc.c {
		if err := m.API.RecalculateCaches(ctx); err != nil {
			return "", nil, err
		}
	}
	sc.indexes[key] = name
	sc.order = append(sc.order, key)
	// every index keeps its fragments' files open: keep the most recent ones only
	for len(sc.order) > 6 {
		old := sc.order[0]
		sc.order = sc.order[1:]
		if err := api.DeleteIndex(ctx, sc.indexes[old]); err != nil {
			return "", nil, fmt.Errorf("deleting index %s: %v", sc.indexes[old], err)
		}
		delete(sc.indexes, old)
	}
	return name, ps, nil
}

// tCol is the j-th column of shard s that holds row r of field t (every (row, j) its own column).
func tCol(s, r, j int) uint64 { return uint64(s)*pilosa.ShardWidth + 1000 + uint64(r)*16 + uint64(j) }

// topNOK is the specification's TopNOK (MapReduce.tla) on a returned list: n (or all present)
// entries with true totals in descending order, and every row that is among the n best of
// some shard under every tie order (sure) is returned or no better than any returned entry.
func topNOK(ps []pilosa.Pair, n int, tot map[uint64]uint64, sure []int) string {
	wantLen := n
	if len(tot) < n {
		wantLen = len(tot)
	}
	if len(ps) != wantLen {
		return fmt.Sprintf("%d entries, expected %d", len(ps), wantLen)
	}
	got := map[uint64]bool{}
	for i, pr := range ps {
		if tot[pr.ID] != pr.Count || pr.Count == 0 {
			return fmt.Sprintf("row %d returned with count %d, its total is %d", pr.ID, pr.Count, tot[pr.ID])
		}
		if i > 0 && ps[i-1].Count < pr.Count {
			return "not sorted by count"
		}
		if got[pr.ID] {
			return fmt.Sprintf("row %d returned twice", pr.ID)
		}
		got[pr.ID] = true
	}
	for _, r := range sure {
		if got[uint64(r)] {
			continue
		}
		for _, pr := range ps {
			if tot[uint64(r)] > pr.Count {
				return fmt.Sprintf("row %d (total %d) is among the %d best of a shard, so a candidate under every placement, but row %d with total %d was returned instead",
					r, tot[uint64(r)], n, pr.ID, pr.Count)
			}
		}
	}
	return ""
}

// sparse loads the dataset's integer values into an index that holds nothing but the int field
// (no existence tracking, no set field: every shard exists only through a view that is not
// "standard"), and the columns of Row(f=1) into an index that holds nothing but a time field
// without standard view; it queries them from the coordinator (no arrival order is forced: which
// shards a coordinator knows of is the point) and deletes the indexes.
func (e *sysEnv) sparse(sc *sysCluster, data []dataCol, nshards int, owner []int, base map[uint64]int, m *test.Command,
	expect map[string]interface{}, p redParams, res *behav.Result) (fails []sysFail, err error) {
	ctx := context.Background()
	api := sc.c[0].API
	defer hasher.set(base)
	newIndex := func(prefix string) (string, error) {
		for {
			name := fmt.Sprintf("%s%dx%d", prefix, sc.nextIdx, sc.key.n*10+sc.key.replicas)
			sc.nextIdx++
			t2 := map[uint64]int{}
			for k, v := range base {
				t2[k] = v
			}
			ok := true
			for s := 0; s < nshards && ok; s++ {
				pp := uint64(api.VerifReducePartition(name, uint64(s)))
				if _, used := t2[pp]; used {
					ok = false
				}
				t2[pp] = owner[s]
			}
			if !ok {
				continue
			}
			hasher.set(t2)
			_, err := api.CreateIndex(ctx, name, pilosa.IndexOptions{})
			return name, err
		}
	}
	fail := func(q, format string, a ...interface{}) {
		fails = append(fails, sysFail{q, "wrong_result", fmt.Sprintf(format, a...)})
	}
	run := func(index, name, pql string) (interface{}, bool) {
		r, err := query(m, index, pql)
		if res != nil {
			res.Cover("query/" + name)
		}
		if err != nil || len(r) != 1 {
			fails = append(fails, sysFail{name, "error", fmt.Sprintf("%s: error %v", pql, err)})
			return nil, false
		}
		return r[0], true
	}
	// ---- nothing but an integer field
	name, err := newIndex("o")
	if err != nil {
		return nil, err
	}
	if _, err := api.CreateField(ctx, name, "v", pilosa.OptFieldTypeInt(-10, 100)); err != nil {
		return nil, err
	}
	var sb strings.Builder
	var withVal []uint64
	for _, d := range data {
		if d.V != noVal {
			fmt.Fprintf(&sb, "Set(%d, v=%d) ", colOf(d.Col, e.colsPer), d.V)
			withVal = append(withVal, colOf(d.Col, e.colsPer))
		}
	}
	if sb.Len() > 0 {
		if _, err := query(sc.c[0], name, sb.String()); err != nil {
			return nil, err
		}
	}
	for _, q := range []struct{ kind, pql string }{{"Sum", "Sum(field=v)"}, {"Min", "Min(field=v)"}, {"Max", "Max(field=v)"}} {
		if r, ok := run(name, "IntOnly"+q.kind, q.pql); ok {
			vc, _ := r.(pilosa.ValCount)
			if got, want := canonVC(vc), specCanon(q.kind, expect[q.kind], p); got != want {
				fail("IntOnly"+q.kind, "index holding only an int field: %s = %s, expected %s", q.pql, got, want)
			}
		}
	}
	if r, ok := run(name, "IntOnlyRow", "Row(v > -10)"); ok {
		row, _ := r.(*pilosa.Row)
		var cols []uint64
		if row != nil {
			cols = row.Columns()
		}
		if got, want := canonCols(cols, e.colsPer), canonCols(withVal, e.colsPer); got != want {
			fail("IntOnlyRow", "index holding only an int field: Row(v > -10) = %s, expected %s", got, want)
		}
	}
	if err := api.DeleteIndex(ctx, name); err != nil {
		return fails, err
	}
	// ---- nothing but a time field without standard view
	name, err = newIndex("p")
	if err != nil {
		return fails, err
	}
	if _, err := api.CreateField(ctx, name, "tn", pilosa.OptFieldTypeTime(pilosa.TimeQuantum("YMD"), true)); err != nil {
		return fails, err
	}
	sb.Reset()
	for _, d := range data {
		for _, r := range d.F {
			if r == 1 {
				fmt.Fprintf(&sb, "Set(%d, tn=1, 2019-03-04T05:00) ", colOf(d.Col, e.colsPer))
			}
		}
	}
	if sb.Len() > 0 {
		if _, err := query(sc.c[0], name, sb.String()); err != nil {
			return fails, err
		}
	}
	if r, ok := run(name, "TimeOnlyRow", "Row(tn=1, from='2019-01-01T00:00', to='2020-01-01T00:00')"); ok {
		row, _ := r.(*pilosa.Row)
		var cols []uint64
		if row != nil {
			cols = row.Columns()
		}
		if got, want := canonCols(cols, e.colsPer), specCanon("Row", expect["Row"], p); got != want {
			fail("TimeOnlyRow", "index holding only a noStandardView time field: Row(tn=1, from, to) = %s, expected %s", got, want)
		}
	}
	if r, ok := run(name, "TimeOnlyCount", "Count(Row(tn=1, from='2019-01-01T00:00', to='2020-01-01T00:00'))"); ok {
		cnt, _ := r.(uint64)
		if got, want := fmt.Sprintf("n%d", cnt), specCanon("Count", expect["Count"], p); got != want {
			fail("TimeOnlyCount", "index holding only a noStandardView time field: Count(Row(tn=1, from, to)) = %s, expected %s", got, want)
		}
	}
	if err := api.DeleteIndex(ctx, name); err != nil {
		return fails, err
	}
	return fails, nil
}

// ---- one case --------------------------------------------------------------------

type sysCase struct {
	Beh      behav.Behaviour `json:"beh"`
	ColsPer  int             `json:"colsPer"`
	G        int             `json:"g"`
	R        int             `json:"r"`
	Replicas int             `json:"replicas"` // 0: as many as nodes
	DelayUs  int             `json:"delayUs"`
	Corrupt  bool            `json:"corrupt,omitempty"`
}

type sysFail struct {
	query, symptom, detail string
}

func pairsOf(j interface{}) map[uint64]uint64 {
	out := map[uint64]uint64{}
	for _, x := range behav.ToList(j) {
		m := behav.ToMap(x)
		out[uint64(behav.ToInt(m["id"]))] = uint64(behav.ToInt(m["n"]))
	}
	return out
}

// runSystem executes one behaviour of MapReduce (mode data) on a real cluster.
func (e *sysEnv) runSystem(c *sysCase, res *behav.Result) (fails []sysFail, inconclusive string) {
	var place behav.Step
	var locals = map[int][]uint64{}
	var remote []int
	for _, st := range c.Beh {
		switch st.Str("op") {
		case "Place":
			place = st
		case "LocalArrive":
			locals[st.Int("node")] = append(locals[st.Int("node")], uint64(st.Int("shard")))
		case "RemoteArrive":
			remote = append(remote, st.Int("node"))
		}
	}
	if place == nil {
		return nil, "behaviour without a Place step"
	}
	// test of the retry policy itself: VERIF_INJECT_ENV=k makes the first attempt of every k-th case fail
	// like an environmental hiccup
	if k := behav.EnvInt("VERIF_INJECT_ENV", 0); k > 0 && res != nil && c.DelayUs == 0 {
		injectN++
		if injectN%k == 0 {
			return nil, "injected environmental failure"
		}
	}
	n := place.Int("nodes")
	owner := place.Ints("owner")
	coord := place.Int("coord")
	lim := place.Int("lim")
	nshards := len(owner)
	var data []dataCol
	b, _ := json.Marshal(place["data"])
	if err := json.Unmarshal(b, &data); err != nil {
		return nil, "bad data: " + err.Error()
	}
	sort.Slice(data, func(i, j int) bool { return data[i].Col < data[j].Col })
	expect := behav.ToMap(place["expect"])
	topn := behav.ToMap(place["topn"])
	var counts [][]int
	for _, row := range behav.ToList(topn["counts"]) {
		counts = append(counts, behav.ToInts(row))
	}
	replicas := c.Replicas
	if replicas <= 0 || replicas > n {
		replicas = n
	}
	sc := e.cluster(clusterKey{n, replicas})
	key := mustJSON(data) + mustJSON(counts)
	if replicas < n {
		key += mustJSON(owner) // the data lives where this placement put it
	}
	index, parts, err := e.ensureIndex(sc, key, data, counts, nshards, owner)
	for try := 0; err != nil && try < 2; try++ {
		// creating an index is a cluster-wide message exchange; on an overloaded machine it can time out
		// half-way (and its retry then finds the index): start over with the next index name
		time.Sleep(200 * time.Millisecond)
		index, parts, err = e.ensureIndex(sc, key, data, counts, nshards, owner)
	}
	if err != nil {
		return nil, "setup: " + err.Error()
	}
	tab := map[uint64]int{}
	shardNode := map[uint64]int{}
	for s, p := range parts {
		tab[p] = owner[s]
		shardNode[uint64(s)] = owner[s]
	}
	hasher.set(tab)
	// the placement must be what every node computes
	for _, m := range sc.c {
		for s := 0; s < nshards; s++ {
			nodes, err := m.API.ShardNodes(context.Background(), index, uint64(s))
			if err != nil || len(nodes) == 0 || nodes[0].ID != fmt.Sprintf("node%d", owner[s]) {
				return nil, fmt.Sprintf("placement not realised: shard %d nodes %v err %v want node%d", s, nodes, err, owner[s])
			}
		}
	}
	// data that lives only in views other than "standard" (fewer replicas than nodes: a node learns of
	// the other nodes' shards only through their announcements)
	if replicas < n {
		sf, err := e.sparse(sc, data, nshards, owner, tab, sc.c[coord], expect, redParams{Lim: lim, G: c.G, ColsPer: c.ColsPer}, res)
		if err != nil {
			return nil, "setup (sparse index): " + err.Error()
		}
		fails = append(fails, sf...)
	}
	var remoteIDs []string
	for _, r := range remote {
		remoteIDs = append(remoteIDs, fmt.Sprintf("node%d", r))
	}
	delay := time.Duration(c.DelayUs) * time.Microsecond
	if delay <= 0 {
		delay = 400 * time.Microsecond
	}
	ctl.arm(shardNode, locals, remoteIDs, fmt.Sprintf("node%d", coord), delay)
	defer ctl.disarm()
	m := sc.c[coord]
	p := redParams{Lim: lim, G: c.G, ColsPer: c.ColsPer}
	fail := func(q, sym, format string, a ...interface{}) {
		fails = append(fails, sysFail{q, sym, fmt.Sprintf(format, a...)})
	}
	run := func(name, pql string) (interface{}, bool) {
		r, err := query(m, index, pql)
		if res != nil {
			res.Cover("query/" + name)
		}
		if err != nil || len(r) != 1 {
			fail(name, "error", "%s: error %v (results %d)", pql, err, len(r))
			return nil, false
		}
		return r[0], true
	}
	wantStr := func(kind string) string {
		s := specCanon(kind, expect[kind], p)
		if c.Corrupt && kind == "Max" {
			s += "!"
		}
		return s
	}
	for _, q := range []struct{ kind, pql string }{
		{"Sum", "Sum(field=v)"}, {"Min", "Min(field=v)"}, {"Max", "Max(field=v)"}} {
		if r, ok := run(q.kind, q.pql); ok {
			vc, _ := r.(pilosa.ValCount)
			if q.kind == "Max" && os.Getenv("VERIF_DUMP_MAX") != "" {
				// diagnostic: what Max returned under which forced order (used to measure how faithfully
				// the gates impose the order, see design/C17.md)
				fmt.Fprintf(os.Stderr, "DUMPMAX %s\n", mustJSON(map[string]interface{}{"owner": owner, "coord": coord, "locals": locals,
					"remote": remote, "val": vc.Val, "count": vc.Count, "data": data}))
			}
			if got := canonVC(vc); got != wantStr(q.kind) {
				fail(q.kind, "wrong_result", "%s = %s, expected %s", q.pql, got, wantStr(q.kind))
			}
		}
	}
	// TopN without n: every row with its total; the order among equal counts is free
	if r, ok := run("TopN", "TopN(f)"); ok {
		ps, _ := r.([]pilosa.Pair)
		if got := canonPairs(ps); got != wantStr("TopN") {
			fail("TopN", "wrong_result", "TopN(f) = %s, expected %s", got, wantStr("TopN"))
		}
		for i := 1; i < len(ps); i++ {
			if ps[i-1].Count < ps[i].Count {
				fail("TopN", "unsorted", "TopN(f) = %v is not sorted by count", ps)
			}
		}
	}
	// TopN with n: n entries with their true totals, in descending order; when every shard
	// holds at most n rows the candidates are all rows and the counts are the n largest
	want := pairsOf(expect["TopN"])
	maxRows := 0
	{
		per := map[int]map[int]bool{}
		for _, d := range data {
			for _, r := range d.F {
				if per[d.Shard] == nil {
					per[d.Shard] = map[int]bool{}
				}
				per[d.Shard][r] = true
			}
		}
		for _, s := range per {
			if len(s) > maxRows {
				maxRows = len(s)
			}
		}
	}
	for _, k := range []int{1, 2} {
		name := fmt.Sprintf("TopN%d", k)
		if r, ok := run(name, fmt.Sprintf("TopN(f, n=%d)", k)); ok {
			ps, _ := r.([]pilosa.Pair)
			wantLen := k
			if len(want) < k {
				wantLen = len(want)
			}
			if len(ps) != wantLen {
				fail(name, "wrong_result", "TopN(f, n=%d) = %v: %d entries, expected %d", k, ps, len(ps), wantLen)
				continue
			}
			var counts []int
			for i, pr := range ps {
				if want[pr.ID] != pr.Count {
					fail(name, "wrong_result", "TopN(f, n=%d) = %v: row %d has total %d", k, ps, pr.ID, want[pr.ID])
				}
				if i > 0 && ps[i-1].Count < pr.Count {
					fail(name, "unsorted", "TopN(f, n=%d) = %v is not sorted by count", k, ps)
				}
				counts = append(counts, int(pr.Count))
			}
			if maxRows <= k {
				var all []int
				for _, cnt := range want {
					all = append(all, int(cnt))
				}
				sort.Sort(sort.Reverse(sort.IntSlice(all)))
				if !eqInts(counts, all[:wantLen]) {
					fail(name, "wrong_result", "TopN(f, n=%d) = %v: counts %v, the %d largest totals are %v", k, ps, counts, k, all[:wantLen])
				}
			}
		}
	}
	// TopN over the count matrix of field t: n smaller than the rows, several shards per node
	if len(counts) > 0 {
		tot := pairsOf(topn["tot"])
		if r, ok := run("TopNt", "TopN(t)"); ok {
			ps, _ := r.([]pilosa.Pair)
			w := []pilosa.Pair{}
			for id, cnt := range tot {
				w = append(w, pilosa.Pair{ID: id, Count: cnt})
			}
			if got := canonPairs(ps); got != canonPairs(w) {
				fail("TopNt", "wrong_result", "TopN(t) = %s, expected %s (shard x row counts %v)", got, canonPairs(w), counts)
			}
		}
		for k, sureKey := range map[int]string{1: "sure1", 2: "sure2"} {
			name := fmt.Sprintf("TopNt%d", k)
			if r, ok := run(name, fmt.Sprintf("TopN(t, n=%d)", k)); ok {
				ps, _ := r.([]pilosa.Pair)
				if why := topNOK(ps, k, tot, behav.ToInts(topn[sureKey])); why != "" {
					fail(name, "placement_dependent", "TopN(t, n=%d) = %v: %s (shard x row counts %v)", k, ps, why, counts)
				}
			}
		}
	}
	if r, ok := run("Rows", fmt.Sprintf("Rows(f, limit=%d)", lim)); ok {
		ri, _ := r.(pilosa.RowIdentifiers)
		if got := canonRowIDs(ri.Rows); got != wantStr("Rows") {
			fail("Rows", "wrong_result", "Rows(f, limit=%d) = %s, expected %s", lim, got, wantStr("Rows"))
		}
	}
	if r, ok := run("GroupBy", fmt.Sprintf("GroupBy(Rows(f), Rows(g), limit=%d)", lim)); ok {
		gc, _ := r.([]pilosa.GroupCount)
		if got := canonGroups(gc, c.G); got != wantStr("GroupBy") {
			fail("GroupBy", "wrong_result", "GroupBy(Rows(f), Rows(g), limit=%d) = %s, expected %s", lim, got, wantStr("GroupBy"))
		}
	}
	// GroupBy with limit and offset: the page of the merged list; two of the six (limit, offset)
	// pairs per case (all six over the cases)
	{
		pages := behav.ToList(place["pages"])
		h := int(behav.Hash64(mustJSON(owner)+mustJSON(locals)+fmt.Sprint(coord)) % 6)
		for pi, x := range pages {
			if len(pages) == 6 && pi != h && pi != (h+3)%6 {
				continue
			}
			pg := behav.ToMap(x)
			l, o := behav.ToInt(pg["l"]), behav.ToInt(pg["o"])
			pql := fmt.Sprintf("GroupBy(Rows(f), Rows(g), limit=%d, offset=%d)", l, o)
			if r, ok := run("GroupByPage", pql); ok {
				gc, _ := r.([]pilosa.GroupCount)
				want := specCanon("GroupBy", pg["page"], p)
				if got := canonGroups(gc, c.G); got != want {
					fail("GroupByPage", "wrong_result", "%s = %s, expected %s", pql, got, want)
				}
			}
		}
	}
	if r, ok := run("Count", "Count(Row(f=1))"); ok {
		cnt, _ := r.(uint64)
		if got := fmt.Sprintf("n%d", cnt); got != wantStr("Count") {
			fail("Count", "wrong_result", "Count(Row(f=1)) = %s, expected %s", got, wantStr("Count"))
		}
	}
	if r, ok := run("Row", "Row(f=1)"); ok {
		row, _ := r.(*pilosa.Row)
		var cols []uint64
		if row != nil {
			cols = row.Columns()
		}
		if got := canonCols(cols, c.ColsPer); got != wantStr("Row") {
			fail("Row", "wrong_result", "Row(f=1) = %s, expected %s", got, wantStr("Row"))
		}
	}
	// a write whose per-shard answers are OR-ed: ClearRow(g=G) is true iff some shard held the
	// row; the bits are put back (ClearRow reaches only the primary replica, Set reaches all)
	if _, has := expect["Bool"]; has && os.Getenv("VERIF_NO_CLEARROW") == "" {
		if r, ok := run("ClearRow", fmt.Sprintf("ClearRow(g=%d)", c.G)); ok {
			bv, _ := r.(bool)
			if got := fmt.Sprintf("b%v", bv); got != wantStr("Bool") {
				fail("ClearRow", "wrong_result", "ClearRow(g=%d) = %s, expected %s", c.G, got, wantStr("Bool"))
			}
		}
		to, _ := ctl.disarm()
		if to > 0 {
			inconclusive = fmt.Sprintf("arrival order could not be enforced (%d gate timeouts)", to)
		}
		var sb strings.Builder
		for _, d := range data {
			for _, r := range d.G {
				if r == c.G {
					fmt.Fprintf(&sb, "Set(%d, g=%d) ", colOf(d.Col, c.ColsPer), r)
				}
			}
		}
		if sb.Len() > 0 {
			if _, err := query(sc.c[0], index, sb.String()); err != nil {
				return fails, "restoring data: " + err.Error()
			}
		}
		return fails, inconclusive
	}
	if to, _ := ctl.disarm(); to > 0 {
		inconclusive = fmt.Sprintf("arrival order could not be enforced (%d gate timeouts)", to)
	}
	return fails, inconclusive
}

// TestC17System: binding A (system). VERIF_BEH holds behaviours of MapReduce in mode
// "data": a dataset, a placement (cluster size, shard -> node, coordinator) and an
// arrival order; the queries run on a real in-process cluster with that placement and
// the gates forcing that order; every answer must be the specification's.
func TestC17System(t *testing.T) {
	res := behav.NewResult()
	defer finish(res)
	before := pilosaTmpSnapshot()
	defer cleanupPilosaTmp(before)
	pilosa.VerifExecGate = ctl.gate
	env := &sysEnv{t: t, clusters: map[clusterKey]*sysCluster{}, colsPer: behav.EnvInt("VERIF_COLSPER", 2),
		g: behav.EnvInt("VERIF_G", 2), r: behav.EnvInt("VERIF_R", 3)}
	defer env.close()
	report := func(c *sysCase, fails []sysFail) {
		for _, f := range fails {
			res.Fail(behav.Failure{Match: map[string]string{"binding": "system", "query": f.query, "symptom": f.symptom},
				Detail: f.detail + "  [" + placeString(c) + "]", Replay: c})
		}
	}
	if raw, ok := behav.LoadReplay(); ok {
		var c sysCase
		if err := json.Unmarshal(raw, &c); err != nil {
			t.Fatal(err)
		}
		c.Corrupt = false
		res.Evaluations = 1
		// the order is enforced with a sleep between passages; a replay is tried with growing margins
		for _, d := range []int{c.DelayUs, 3000, 10000} {
			c.DelayUs = d
			fails, inc := env.runSystem(&c, nil)
			if len(fails) > 0 {
				report(&c, fails)
				return
			}
			if inc != "" {
				res.SetInconclusive(inc)
			}
		}
		return
	}
	behs := behav.LoadEnv()
	max := behav.EnvInt("VERIF_MAX_CASES", 0)
	var distinct behav.Distinct
	selfTested := false
	skipped, ran, lastSkip := 0, 0, ""
	defer func() {
		// skipped cases make the run inconclusive only when they are more than 2 % (or nothing ran)
		if ran == 0 || skipped*50 > ran+skipped {
			res.SetInconclusive(fmt.Sprintf("%d of %d cases could not be set up / ordered in this environment (last: %s)", skipped, ran+skipped, lastSkip))
		}
	}()
	for i, b := range behs {
		if max > 0 && i >= max {
			break
		}
		c := &sysCase{Beh: b, ColsPer: env.colsPer, G: env.g, R: env.r}
		// replica count: mostly "every node holds everything" (any placement without moving data);
		// a share of the cases runs with fewer replicas, where the data is loaded under the placement
		var nodes int
		for _, st := range b {
			if st.Str("op") == "Place" {
				nodes = st.Int("nodes")
			}
		}
		h := behav.Hash64(mustJSON(b)) % 8
		if nodes >= 2 && h == 0 {
			c.Replicas = 1
		} else if nodes == 3 && h == 1 {
			c.Replicas = 2
		}
		// One environmental hiccup (a cluster message that times out on an overloaded machine, a gate
		// that cannot be ordered in time, a query that errors) must not decide the run: such a case is
		// tried up to 3 times, with a fresh index, a back-off and wider gate margins. A disagreement
		// with the specification is reported at once and never retried away.
		var fails []sysFail
		var inc string
		for attempt := 0; attempt < 3; attempt++ {
			if attempt > 0 {
				time.Sleep(time.Duration(attempt) * 500 * time.Millisecond)
				c.DelayUs = []int{0, 3000, 10000}[attempt]
				res.Cover("retried_env")
			}
			fails, inc = nil, ""
			pv, stack := behav.Protect(func() { fails, inc = env.runSystem(c, res) })
			if pv != nil {
				ctl.disarm()
				if behav.PanicInCode(stack) {
					fails = append(fails, sysFail{"?", "panic", fmt.Sprintf("panic: %v\n%s", pv, stack)})
				} else {
					res.SetInconclusive(fmt.Sprintf("harness panic: %v\n%s", pv, stack))
					return
				}
			}
			envOnly := inc != "" || len(fails) > 0
			for _, f := range fails {
				if f.symptom != "error" {
					envOnly = false
				}
			}
			if !envOnly {
				break
			}
			env.forget(c) // the case's index may be half-built or half-restored: start from a new one
		}
		if inc != "" && realFailures(fails) == 0 {
			// still not set up / not ordered after three attempts: skipped, counted
			skipped++
			res.Cover("skipped_env")
			lastSkip = inc
			continue
		}
		ran++
		inc = ""
		res.CountEval()
		res.Cover(fmt.Sprintf("cluster/%dx%d", nodes, map[bool]int{true: c.Replicas, false: nodes}[c.Replicas > 0]))
		if distinct.Add(mustJSON(b)) {
			res.CountNontrivial()
		}
		if i < 2 {
			res.AddSample(placeString(c))
		}
		report(c, fails)
		if !selfTested && len(fails) == 0 {
			c2 := *c
			c2.Corrupt = true
			f2, inc2 := env.runSystem(&c2, nil)
			if inc2 == "" { // (otherwise the self-test is tried on the next case)
				selfTested = true
				if realFailures(f2) == 0 {
					res.SetInconclusive("binding self-test: a corrupted expected value was not noticed")
				}
				res.Cover("selftest")
			}
		}
	}
}

func realFailures(fails []sysFail) int {
	n := 0
	for _, f := range fails {
		if f.symptom != "error" {
			n++
		}
	}
	return n
}

// forget drops the cached indexes of the case's cluster, so that a retry loads the data anew.
func (e *sysEnv) forget(c *sysCase) {
	for _, sc := range e.clusters {
		for _, name := range sc.indexes {
			_ = sc.c[0].API.DeleteIndex(context.Background(), name) // best effort: frees its files
		}
		sc.indexes = map[string]string{}
		sc.order = nil
	}
}

func placeString(c *sysCase) string {
	var sb strings.Builder
	for _, st := range c.Beh {
		switch st.Str("op") {
		case "Cat":
			fmt.Fprintf(&sb, "catalogue dataset %d; ", st.Int("id"))
		case "Place":
			fmt.Fprintf(&sb, "%d nodes, replicas %d, shard owners %v, coordinator node%d, limit %d; arrivals:", st.Int("nodes"), c.Replicas, st.Ints("owner"), st.Int("coord"), st.Int("lim"))
		case "LocalArrive":
			fmt.Fprintf(&sb, " s%d@n%d", st.Int("shard"), st.Int("node"))
		case "RemoteArrive":
			fmt.Fprintf(&sb, " n%d>coord", st.Int("node"))
		}
	}
	return sb.String()
}
