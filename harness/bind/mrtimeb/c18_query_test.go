package mrtimeb

import (
	"context"
	"encoding/json"
	"fmt"
	"sort"
	"strings"
	"testing"
	"time"

	"github.com/pilosa/pilosa"
	"github.com/pilosa/pilosa/test"
	"verif/harness/behav"
)

// C18, binding A: behaviours of spec/TimeRange.tla on a real server through API.Query.

type tqEnv struct {
	m      *test.Command
	index  string
	loaded map[string][][2]int // field name -> instants
	seed   int64
}

func newTQEnv(seed int64) *tqEnv {
	m := test.MustRunCommand()
	e := &tqEnv{m: m, index: "t", loaded: map[string][][2]int{}, seed: seed}
	if _, err := m.API.CreateIndex(context.Background(), e.index, pilosa.IndexOptions{}); err != nil {
		panic(err)
	}
	return e
}

// column of instant i: alternate shards, so that answers are merged across shards
func tqCol(i int) uint64 { return uint64(i%2)*pilosa.ShardWidth + uint64(i) }

// stamp picks a timestamp inside instant [lo, hi) (hour indexes): the first minute, the
// last minute or one in between.
func stamp(lo, hi int, pick uint64) time.Time {
	a, b := hourTime(lo), hourTime(hi)
	switch pick % 3 {
	case 0:
		return a
	case 1:
		return b.Add(-time.Minute)
	}
	return a.Add(b.Sub(a) / 2).Truncate(time.Minute)
}

func (e *tqEnv) field(q string, nsv, viaAPI bool, inst [][2]int, multi [][]int) (string, error) {
	name := "f" + strings.ToLower(q)
	if nsv {
		name = "n" + strings.ToLower(q)
	} else if viaAPI {
		name = "a" + strings.ToLower(q)
	}
	if _, ok := e.loaded[name]; ok {
		return name, nil
	}
	if _, err := e.m.API.CreateField(context.Background(), e.index, name, pilosa.OptFieldTypeTime(pilosa.TimeQuantum(q), nsv)); err != nil {
		return "", err
	}
	if nsv || viaAPI {
		// the second write path: ONE Field.Import batch holding every bit, ordered so that entries
		// which agree in all units of the quantum (but differ in a coarser unit) are neighbours
		if err := e.importBatch(name, q, inst, multi, viaAPI); err != nil {
			return "", err
		}
		e.loaded[name] = inst
		return name, nil
	}
	var sb strings.Builder
	for i, in := range inst {
		ts := pqlTime(stamp(in[0], in[1], behav.Hash64(fmt.Sprintf("%s/%d/%d", name, i, e.seed))))
		fmt.Fprintf(&sb, "Set(%d, %s=0, %s) Set(%d, %s=%d, %s) ", tqCol(i), name, ts, tqCol(i), name, 1+i, ts)
		if sb.Len() > 60000 || i == len(inst)-1 {
			if _, err := query(e.m, e.index, sb.String()); err != nil {
				return "", fmt.Errorf("loading %s: %v", name, err)
			}
			sb.Reset()
		}
	}
	// columns shared by two or three instants: the same bit set with several timestamps, in
	// ascending order for even columns, descending for odd ones
	for m, set := range multi {
		col := tqCol(len(inst) + m)
		idx := sortedInts(set)
		if m%2 == 1 {
			for i, j := 0, len(idx)-1; i < j; i, j = i+1, j-1 {
				idx[i], idx[j] = idx[j], idx[i]
			}
		}
		for _, i1 := range idx {
			in := inst[i1-1]
			ts := pqlTime(stamp(in[0], in[1], behav.Hash64(fmt.Sprintf("%s/m%d/%d/%d", name, m, i1, e.seed))))
			fmt.Fprintf(&sb, "Set(%d, %s=0, %s) ", col, name, ts)
		}
		if sb.Len() > 60000 || m == len(multi)-1 {
			if _, err := query(e.m, e.index, sb.String()); err != nil {
				return "", fmt.Errorf("loading %s: %v", name, err)
			}
			sb.Reset()
		}
	}
	e.loaded[name] = inst
	return name, nil
}

type impEntry struct {
	row, col uint64
	ts       time.Time
	key      string
}

func (e *tqEnv) importBatch(name, q string, inst [][2]int, multi [][]int, viaAPI bool) error {
	var ents []impEntry
	add := func(row, col uint64, in [2]int, tag string) {
		ts := stamp(in[0], in[1], behav.Hash64(fmt.Sprintf("%s/%s/%d", name, tag, e.seed)))
		key := ""
		for _, u := range q { // the units of the quantum, nothing coarser
			switch u {
			case 'Y':
				key += ts.Format("2006")
			case 'M':
				key += ts.Format("01")
			case 'D':
				key += ts.Format("02")
			case 'H':
				key += ts.Format("15")
			}
		}
		ents = append(ents, impEntry{row, col, ts, key})
	}
	for i, in := range inst {
		add(0, tqCol(i), in, fmt.Sprint(i))
		add(uint64(1+i), tqCol(i), in, fmt.Sprint(i))
	}
	for m, set := range multi {
		for _, i1 := range set {
			add(0, tqCol(len(inst)+m), inst[i1-1], fmt.Sprintf("m%d/%d", m, i1))
		}
	}
	sort.SliceStable(ents, func(a, b int) bool {
		if ents[a].key != ents[b].key {
			return ents[a].key < ents[b].key
		}
		return ents[a].ts.Before(ents[b].ts)
	})
	if viaAPI {
		// the third write path: API.Import, one request per shard, timestamps as Unix nanoseconds
		byShard := map[uint64]*pilosa.ImportRequest{}
		for _, en := range ents {
			sh := en.col / pilosa.ShardWidth
			r := byShard[sh]
			if r == nil {
				r = &pilosa.ImportRequest{Index: e.index, Field: name, Shard: sh}
				byShard[sh] = r
			}
			r.RowIDs = append(r.RowIDs, en.row)
			r.ColumnIDs = append(r.ColumnIDs, en.col)
			r.Timestamps = append(r.Timestamps, en.ts.UnixNano())
		}
		for _, r := range byShard {
			if err := e.m.API.Import(context.Background(), r); err != nil {
				return fmt.Errorf("API.Import %s: %v", name, err)
			}
		}
		return nil
	}
	fld, err := e.m.API.Field(context.Background(), e.index, name)
	if err != nil {
		return err
	}
	rows, cols, tss := make([]uint64, len(ents)), make([]uint64, len(ents)), make([]*time.Time, len(ents))
	for i := range ents {
		rows[i], cols[i] = ents[i].row, ents[i].col
		t := ents[i].ts
		tss[i] = &t
	}
	if err := fld.Import(rows, cols, tss); err != nil {
		return fmt.Errorf("importing %s: %v", name, err)
	}
	return nil
}

type tqCase struct {
	Beh  behav.Behaviour `json:"beh"`
	NSV  bool            `json:"nsv"`
	API  bool            `json:"api"` // loaded through API.Import
	Seed int64           `json:"seed"`
	// Corrupt: binding self-test
	Corrupt bool `json:"corrupt,omitempty"`
}

type tqFail struct{ call, symptom, detail string }

func (e *tqEnv) run(c *tqCase, res *behav.Result) (fails []tqFail, q string, inc string) {
	var inst [][2]int
	var multi [][]int
	var rg behav.Step
	for _, st := range c.Beh {
		switch st.Str("op") {
		case "Field":
			q = st.Str("q")
			for _, x := range behav.ToList(st["inst"]) {
				p := behav.ToInts(x)
				inst = append(inst, [2]int{p[0], p[1]})
			}
			for _, x := range behav.ToList(st["multi"]) {
				multi = append(multi, behav.ToInts(x))
			}
		case "Range":
			rg = st
		}
	}
	if rg == nil || q == "" {
		return nil, q, "behaviour without Field / Range"
	}
	name, err := e.field(q, c.NSV, c.API, inst, multi)
	if err != nil {
		return nil, q, err.Error()
	}
	from, to := rg.Int("from"), rg.Int("to")
	want := sortedInts(rg.Ints("cols"))
	if c.Corrupt {
		want = append(want, 3*len(inst)+5)
	}
	fs, ts := pqlTime(hourTime(from)), pqlTime(hourTime(to))
	fail := func(call, sym, format string, a ...interface{}) {
		fails = append(fails, tqFail{call, sym, fmt.Sprintf(format, a...)})
	}
	colIdx := func(cols []uint64) []int {
		out := []int{}
		for _, col := range cols {
			i := int(col % pilosa.ShardWidth)
			if tqCol(i) != col {
				i = -1
			}
			out = append(out, i)
		}
		sort.Ints(out)
		return out
	}
	// Row(f=0, from, to): the columns whose instant starts in the range
	pql := fmt.Sprintf("Row(%s=0, from='%s', to='%s')", name, fs, ts)
	if res != nil {
		res.Cover("call/Row")
		res.Cover("quantum/" + q)
	}
	if r, err := query(e.m, e.index, pql); err != nil || len(r) != 1 {
		fail("Row", "error", "%s: %v", pql, err)
	} else {
		row, _ := r[0].(*pilosa.Row)
		var cols []uint64
		if row != nil {
			cols = row.Columns()
		}
		if got := colIdx(cols); !eqInts(got, want) {
			fail("Row", "wrong_columns", "%s (quantum %s, hours [%d,%d)) returned instants %v, expected %v", pql, q, from, to, got, want)
		}
	}
	// Row of a single instant's own row
	var own []int
	for _, i := range want {
		if i < len(inst) {
			own = append(own, i)
		}
	}
	if len(own) > 0 && !c.Corrupt {
		i := own[int(behav.Hash64(pql)%uint64(len(own)))]
		p2 := fmt.Sprintf("Row(%s=%d, from='%s', to='%s')", name, 1+i, fs, ts)
		if r, err := query(e.m, e.index, p2); err != nil || len(r) != 1 {
			fail("Row", "error", "%s: %v", p2, err)
		} else if row, _ := r[0].(*pilosa.Row); row == nil || !eqInts(colIdx(row.Columns()), []int{i}) {
			fail("Row", "wrong_columns", "%s returned %v, expected instant %d", p2, row.Columns(), i)
		}
	}
	// Rows(f, from, to): row 0 and the rows of those instants
	wantRows := []int{}
	if len(want) > 0 {
		wantRows = append(wantRows, 0)
		for _, i := range own {
			wantRows = append(wantRows, 1+i)
		}
	}
	p3 := fmt.Sprintf("Rows(%s, from='%s', to='%s')", name, fs, ts)
	if res != nil {
		res.Cover("call/Rows")
	}
	if r, err := query(e.m, e.index, p3); err != nil || len(r) != 1 {
		fail("Rows", "error", "%s: %v", p3, err)
	} else {
		ri, _ := r[0].(pilosa.RowIdentifiers)
		got := []int{}
		for _, x := range ri.Rows {
			got = append(got, int(x))
		}
		if !eqInts(got, wantRows) {
			fail("Rows", "wrong_rows", "%s (quantum %s, hours [%d,%d)) returned rows %v, expected %v", p3, q, from, to, got, wantRows)
		}
	}
	return fails, q, ""
}

// TestC18Query replays the behaviours of TimeRange (VERIF_BEH).
func TestC18Query(t *testing.T) {
	res := behav.NewResult()
	defer finish(res)
	before := pilosaTmpSnapshot()
	defer cleanupPilosaTmp(before)
	// nothing in the property depends on the zone the server process runs in: the whole driver runs
	// with a local zone that is not UTC (set before the server starts)
	oldLocal := time.Local
	time.Local = time.FixedZone("X", -5*3600)
	defer func() { time.Local = oldLocal }()
	report := func(c *tqCase, q string, fails []tqFail) {
		for _, f := range fails {
			res.Fail(behav.Failure{Match: map[string]string{"binding": "query", "call": f.call, "q": q, "symptom": f.symptom},
				Detail: f.detail, Replay: c})
		}
	}
	if raw, ok := behav.LoadReplay(); ok {
		var c tqCase
		if err := json.Unmarshal(raw, &c); err != nil {
			t.Fatal(err)
		}
		c.Corrupt = false
		env := newTQEnv(c.Seed)
		defer env.m.Close()
		res.Evaluations = 1
		fails, q, inc := env.run(&c, nil)
		if inc != "" {
			res.SetInconclusive(inc)
		}
		report(&c, q, fails)
		return
	}
	behs := behav.LoadEnv()
	env := newTQEnv(behav.Seed())
	defer env.m.Close()
	var distinct behav.Distinct
	selfTested := false
	for i, b := range behs {
		c := &tqCase{Beh: b, Seed: behav.Seed(), NSV: behav.Hash64(mustJSON(b))%4 == 0, API: behav.Hash64(mustJSON(b))%4 == 1}
		var fails []tqFail
		var q, inc string
		pv, stack := behav.Protect(func() { fails, q, inc = env.run(c, res) })
		if pv != nil {
			if behav.PanicInCode(stack) {
				fails = append(fails, tqFail{"?", "panic", fmt.Sprintf("panic: %v\n%s", pv, stack)})
			} else {
				res.SetInconclusive(fmt.Sprintf("harness panic: %v\n%s", pv, stack))
				return
			}
		}
		res.CountEval()
		if distinct.Add(mustJSON(b)) {
			res.CountNontrivial()
		}
		if i < 2 {
			res.AddSample(b[len(b)-1])
		}
		if inc != "" {
			res.SetInconclusive(inc)
		}
		report(c, q, fails)
		if !selfTested && len(fails) == 0 && inc == "" {
			selfTested = true
			c2 := *c
			c2.Corrupt = true
			if f2, _, _ := env.run(&c2, nil); len(f2) == 0 {
				res.SetInconclusive("binding self-test: a corrupted expected value was not noticed")
			}
			res.Cover("selftest")
		}
	}
}
