// Package mrtimeb binds spec/MapReduce.tla (C17), spec/TimeViews.tla,
// spec/TimeRange.tla, spec/TraceTimeViews.tla (C18) and spec/TimeClear.tla (C19)
// to the real code: executor.go's map/reduce machinery and reduce functions,
// time.go's view functions, Field.SetBit / Field.ClearBit and API.Query.
package mrtimeb

import (
	"encoding/json"
	"fmt"
	"os"
	"path/filepath"
	"sort"
	"time"

	"github.com/pilosa/pilosa"
	"verif/harness/behav"
)

// colOf maps an abstract column (shard*colsPer + slot) to a concrete column: the slots
// of a shard sit on its edges and in its middle.
func colOf(abs, colsPer int) uint64 {
	shard := uint64(abs / colsPer)
	slot := abs % colsPer
	offs := []uint64{0, pilosa.ShardWidth - 1, pilosa.ShardWidth / 2, 65535, 65536}
	return shard*pilosa.ShardWidth + offs[slot%len(offs)]
}

// absOf is the inverse of colOf (-1 when the column is no image of an abstract column).
func absOf(col uint64, colsPer int) int {
	shard := int(col / pilosa.ShardWidth)
	for slot := 0; slot < colsPer; slot++ {
		if colOf(shard*colsPer+slot, colsPer) == col {
			return shard*colsPer + slot
		}
	}
	return -1
}

func sortedInts(a []int) []int {
	b := append([]int{}, a...)
	sort.Ints(b)
	return b
}

func eqInts(a, b []int) bool {
	if len(a) != len(b) {
		return false
	}
	for i := range a {
		if a[i] != b[i] {
			return false
		}
	}
	return true
}

// hourTime converts an hour index (Unix hours) to a time.
func hourTime(h int) time.Time { return time.Unix(int64(h)*3600, 0).UTC() }

// hourOf converts a time on a full hour to its hour index; ok=false otherwise.
func hourOf(t time.Time) (int, bool) {
	u := t.Unix()
	if u%3600 != 0 || t.Nanosecond() != 0 {
		return int(u / 3600), false
	}
	return int(u / 3600), true
}

// pqlTime renders a time the way PQL wants it.
func pqlTime(t time.Time) string { return t.Format("2006-01-02T15:04") }

func cleanupPilosaTmp(before map[string]bool) {
	m, _ := filepath.Glob(filepath.Join(os.TempDir(), "pilosa-*"))
	for _, p := range m {
		if !before[p] {
			os.RemoveAll(p)
		}
	}
}

func pilosaTmpSnapshot() map[string]bool {
	out := map[string]bool{}
	m, _ := filepath.Glob(filepath.Join(os.TempDir(), "pilosa-*"))
	for _, p := range m {
		out[p] = true
	}
	return out
}

func mustJSON(v interface{}) string {
	b, err := json.Marshal(v)
	if err != nil {
		return fmt.Sprintf("%v", v)
	}
	return string(b)
}

func finish(res *behav.Result) {
	if err := res.Write(); err != nil {
		panic(err)
	}
}
