package mrtimeb

import (
	"bytes"
	"context"
	"encoding/json"
	"fmt"
	"sort"
	"testing"
	"time"

	"github.com/pilosa/pilosa"
	"github.com/pilosa/pilosa/roaring"
	"github.com/pilosa/pilosa/test"
	"verif/harness/behav"
)

// C19, binding A: histories of spec/TimeClear.tla (timestamped sets of a target and a
// sibling column, clears) on a real time field through API.Query; after every step the
// returned flag, the standard view and the time ranges the specification lists must be
// what it says - in particular a cleared column appears in no range.

const c19Row = 5

type c19Env struct {
	m     *test.Command
	index string
	n     int
}

func newC19Env() *c19Env {
	m := test.MustRunCommand()
	e := &c19Env{m: m, index: "c"}
	if _, err := m.API.CreateIndex(context.Background(), e.index, pilosa.IndexOptions{}); err != nil {
		panic(err)
	}
	return e
}

type c19Case struct {
	Beh behav.Behaviour `json:"beh"`
	// Layout: 0 target and sibling in the same shard, 1 sibling in the next shard,
	// 2 target on the last column of its shard.
	Layout  int  `json:"layout"`
	Corrupt bool `json:"corrupt,omitempty"`
}

func c19Col(layout, c int) uint64 {
	switch layout {
	case 1:
		return []uint64{3, pilosa.ShardWidth + 3}[c]
	case 2:
		return []uint64{pilosa.ShardWidth - 1, pilosa.ShardWidth - 2}[c]
	}
	return []uint64{3, 4}[c]
}

type c19Fail struct {
	op, symptom, detail string
	step                int
}

func (e *c19Env) run(c *c19Case, res *behav.Result) (fails []c19Fail, q string, nsv bool, inc string) {
	if len(c.Beh) == 0 {
		return nil, "", false, ""
	}
	q, nsv = c.Beh[0].Str("q"), c.Beh[0].Bool("nsv")
	e.n++
	field := fmt.Sprintf("f%d", e.n)
	ctx := context.Background()
	if _, err := e.m.API.CreateField(ctx, e.index, field, pilosa.OptFieldTypeTime(pilosa.TimeQuantum(q), nsv)); err != nil {
		return nil, q, nsv, "creating field: " + err.Error()
	}
	defer e.m.API.DeleteField(ctx, e.index, field)
	fail := func(step int, op, sym, format string, a ...interface{}) {
		fails = append(fails, c19Fail{op, sym, fmt.Sprintf(format, a...), step})
	}
	colsOf := func(r interface{}) []int {
		row, _ := r.(*pilosa.Row)
		out := []int{}
		if row == nil {
			return out
		}
		for _, col := range row.Columns() {
			switch col {
			case c19Col(c.Layout, 0):
				out = append(out, 0)
			case c19Col(c.Layout, 1):
				out = append(out, 1)
			default:
				out = append(out, -1)
			}
		}
		sort.Ints(out)
		return out
	}
	hist := ""
	for si, st := range c.Beh {
		op := st.Str("op")
		col := st.Int("col")
		var pql string
		via := st.Str("via")
		concrete := c19Col(c.Layout, col)
		switch op {
		case "Set":
			ts := hourTime(st.Int("t")).Add(time.Duration(behav.Hash64(fmt.Sprint(si, st.Int("t")))%60) * time.Minute)
			pql = fmt.Sprintf("Set(%d, %s=%d, %s)", concrete, field, c19Row, pqlTime(ts))
			if via == "import" || via == "views" {
				// the other write paths: an import with the timestamp (Field.Import), or a roaring import
				// that names exactly the time views of the timestamp (API.ImportRoaring)
				var err error
				if via == "import" {
					pql = fmt.Sprintf("Field.Import(row %d, col %d, %s)", c19Row, concrete, pqlTime(ts))
					var fld *pilosa.Field
					if fld, err = e.m.API.Field(ctx, e.index, field); err == nil {
						err = fld.Import([]uint64{c19Row}, []uint64{concrete}, []*time.Time{&ts})
					}
				} else {
					views := map[string][]byte{}
					var names []string
					for _, name := range pilosa.VerifTimeViewsByTime(pilosa.VerifTimeViewStandard, ts, pilosa.TimeQuantum(q)) {
						var buf bytes.Buffer
						if _, err = roaring.NewBitmap(c19Row*pilosa.ShardWidth + concrete%pilosa.ShardWidth).WriteTo(&buf); err != nil {
							break
						}
						key := name[len(pilosa.VerifTimeViewStandard)+1:]
						views[key] = buf.Bytes()
						names = append(names, key)
					}
					pql = fmt.Sprintf("ImportRoaring(row %d, col %d, views %v)", c19Row, concrete, names)
					if err == nil {
						err = e.m.API.ImportRoaring(ctx, e.index, field, concrete/pilosa.ShardWidth, false, &pilosa.ImportRoaringRequest{Views: views})
					}
				}
				hist += pql + "; "
				if res != nil {
					res.Cover("via/" + via)
				}
				if err != nil {
					fail(si, op, "error", "step %d %s: %v", si, pql, err)
					return fails, q, nsv, ""
				}
				pql = ""
			}
		case "Plain":
			pql = ""
			desc := fmt.Sprintf("Field.Import(row %d, col %d, no timestamp)", c19Row, concrete)
			hist += desc + "; "
			fld, err := e.m.API.Field(ctx, e.index, field)
			if err == nil {
				err = fld.Import([]uint64{c19Row}, []uint64{concrete}, nil)
			}
			if res != nil {
				res.Cover("via/plain")
			}
			if err != nil {
				fail(si, op, "error", "step %d %s: %v", si, desc, err)
				return fails, q, nsv, ""
			}
		case "Clear":
			pql = fmt.Sprintf("Clear(%d, %s=%d)", c19Col(c.Layout, col), field, c19Row)
		default:
			return fails, q, nsv, "unknown op " + op
		}
		if res != nil {
			res.Cover("op/" + op)
		}
		if pql != "" {
			hist += pql + "; "
			r, err := query(e.m, e.index, pql)
			if err != nil || len(r) != 1 {
				fail(si, op, "error", "step %d %s: %v", si, pql, err)
				return fails, q, nsv, ""
			}
			if got, _ := r[0].(bool); got != st.Bool("changed") {
				fail(si, op, "changed_flag", "step %d %s returned %v, expected %v  [history: %s]", si, pql, got, st.Bool("changed"), hist)
			}
		}
		obs := behav.ToMap(st["obs"])
		// the standard view
		if r, err := query(e.m, e.index, fmt.Sprintf("Row(%s=%d)", field, c19Row)); err != nil || len(r) != 1 {
			fail(si, op, "error", "step %d Row(%s=%d): %v", si, field, c19Row, err)
		} else if got, want := colsOf(r[0]), sortedInts(behav.ToInts(obs["std"])); !eqInts(got, want) {
			fail(si, op, "standard_view", "after step %d the standard view holds columns %v, expected %v  [history: %s]", si, got, want, hist)
		}
		// the time ranges
		for ri, x := range behav.ToList(obs["ranges"]) {
			rg := behav.ToMap(x)
			a, b := behav.ToInt(rg["a"]), behav.ToInt(rg["b"])
			want := sortedInts(behav.ToInts(rg["cols"]))
			if c.Corrupt && op == "Clear" && ri == 0 {
				want = append(want, 7)
			}
			rq := fmt.Sprintf("Row(%s=%d, from='%s', to='%s')", field, c19Row, pqlTime(hourTime(a)), pqlTime(hourTime(b)))
			r, err := query(e.m, e.index, rq)
			if err != nil || len(r) != 1 {
				fail(si, op, "error", "step %d %s: %v", si, rq, err)
				continue
			}
			if res != nil {
				res.Cover("range_queries")
			}
			if got := colsOf(r[0]); !eqInts(got, want) {
				sym := "range_wrong"
				if op == "Clear" {
					for _, g := range got {
						if g == col {
							sym = "cleared_bit_returned"
						}
					}
				}
				fail(si, op, sym, "after step %d (%s) %s returned columns %v, expected %v  [quantum %s, noStandardView %v; history: %s]",
					si, op, rq, got, want, q, nsv, hist)
				break
			}
			// Rows over the same range, restricted to the column just written
			if ri%16 == 0 {
				rq2 := fmt.Sprintf("Rows(%s, column=%d, from='%s', to='%s')", field, c19Col(c.Layout, col), pqlTime(hourTime(a)), pqlTime(hourTime(b)))
				r2, err := query(e.m, e.index, rq2)
				if err != nil || len(r2) != 1 {
					fail(si, op, "error", "step %d %s: %v", si, rq2, err)
					continue
				}
				ri2, _ := r2[0].(pilosa.RowIdentifiers)
				has := false
				for _, w := range want {
					if w == col {
						has = true
					}
				}
				if (len(ri2.Rows) == 1 && ri2.Rows[0] == c19Row) != has || len(ri2.Rows) > 1 {
					fail(si, op, "rows_wrong", "after step %d (%s) %s returned rows %v, expected row present = %v  [history: %s]", si, op, rq2, ri2.Rows, has, hist)
				}
			}
		}
	}
	return fails, q, nsv, ""
}

// TestC19 replays the behaviours of TimeClear (VERIF_BEH).
func TestC19(t *testing.T) {
	res := behav.NewResult()
	defer finish(res)
	before := pilosaTmpSnapshot()
	defer cleanupPilosaTmp(before)
	env := newC19Env()
	defer env.m.Close()
	report := func(c *c19Case, q string, nsv bool, fails []c19Fail) {
		for _, f := range fails {
			res.Fail(behav.Failure{Match: map[string]string{"op": f.op, "symptom": f.symptom, "nsv": fmt.Sprint(nsv)},
				Detail: f.detail, Replay: c})
		}
	}
	if raw, ok := behav.LoadReplay(); ok {
		var c c19Case
		if err := json.Unmarshal(raw, &c); err != nil {
			t.Fatal(err)
		}
		c.Corrupt = false
		res.Evaluations = 1
		fails, q, nsv, inc := env.run(&c, nil)
		if inc != "" {
			res.SetInconclusive(inc)
		}
		report(&c, q, nsv, fails)
		return
	}
	behs := behav.LoadEnv()
	var distinct behav.Distinct
	selfTested := false
	for i, b := range behs {
		c := &c19Case{Beh: b, Layout: int(behav.Hash64(mustJSON(b)) % 3)}
		var fails []c19Fail
		var q, inc string
		var nsv bool
		pv, stack := behav.Protect(func() { fails, q, nsv, inc = env.run(c, res) })
		if pv != nil {
			if behav.PanicInCode(stack) {
				fails = append(fails, c19Fail{"?", "panic", fmt.Sprintf("panic: %v\n%s", pv, stack), 0})
			} else {
				res.SetInconclusive(fmt.Sprintf("harness panic: %v\n%s", pv, stack))
				return
			}
		}
		res.CountEval()
		res.Cover("quantum/" + q)
		res.Cover(fmt.Sprintf("layout/%d", c.Layout))
		hasClear := false
		for _, st := range b {
			if st.Str("op") == "Clear" {
				hasClear = true
			}
		}
		if hasClear && distinct.Add(mustJSON(b)) {
			res.CountNontrivial()
		}
		if i < 2 {
			res.AddSample(fmt.Sprintf("quantum %s nsv %v steps %d", q, nsv, len(b)))
		}
		if inc != "" {
			res.SetInconclusive(inc)
		}
		report(c, q, nsv, fails)
		if !selfTested && hasClear && len(fails) == 0 && inc == "" {
			selfTested = true
			c2 := *c
			c2.Corrupt = true
			if f2, _, _, _ := env.run(&c2, nil); len(f2) == 0 {
				res.SetInconclusive("binding self-test: a corrupted expected value was not noticed")
			}
			res.Cover("selftest")
		}
	}
}
