package mrtimeb

import (
	"bufio"
	"encoding/json"
	"fmt"
	"math/rand"
	"os"
	"os/exec"
	"path/filepath"
	"strconv"
	"strings"
	"testing"
	"time"

	"github.com/pilosa/pilosa"
	"verif/harness/behav"
)

// C18, binding B: the real viewsByTimeRange / viewsByTime / timeOfView / minMaxViews are
// called over enumerated and random inputs; every call is logged as one JSON line
// (times as hour indexes) and validated by TLC against spec/TraceTimeViews.tla.

var allQuanta = []string{"Y", "YM", "YMD", "YMDH", "M", "MD", "MDH", "D", "DH", "H"}

type viewRec struct {
	Name string `json:"name"`
	U    string `json:"u"`
	Y    int    `json:"y"`
	M    int    `json:"m"`
	D    int    `json:"d"`
	H    int    `json:"h"`
}

// readView reads the digits of a view name. Anything unexpected gives unit "?" (which the
// specification rejects).
func readView(name string) viewRec {
	v := viewRec{Name: name, U: "?", M: 1, D: 1}
	const pre = pilosa.VerifTimeViewStandard + "_"
	if !strings.HasPrefix(name, pre) {
		return v
	}
	ds := name[len(pre):]
	for _, c := range ds {
		if c < '0' || c > '9' {
			return v
		}
	}
	num := func(a, b int) int { n, _ := strconv.Atoi(ds[a:b]); return n }
	switch len(ds) {
	case 4:
		v.U, v.Y = "Y", num(0, 4)
	case 6:
		v.U, v.Y, v.M = "M", num(0, 4), num(4, 6)
	case 8:
		v.U, v.Y, v.M, v.D = "D", num(0, 4), num(4, 6), num(6, 8)
	case 10:
		v.U, v.Y, v.M, v.D, v.H = "H", num(0, 4), num(4, 6), num(6, 8), num(8, 10)
	}
	return v
}

func readViews(names []string) []viewRec {
	out := make([]viewRec, 0, len(names))
	for _, n := range names {
		out = append(out, readView(n))
	}
	return out
}

// traceEvent is one logged call; In holds what is needed to repeat it.
type traceEvent struct {
	Ev    string    `json:"ev"`
	Q     string    `json:"q,omitempty"`
	From  int       `json:"from"`
	To    int       `json:"to"`
	T     int       `json:"t"`
	Min   int       `json:"minute,omitempty"` // minutes past the hour of the timestamp (time events)
	Views []viewRec `json:"views"`
	V     *viewRec  `json:"v,omitempty"`
	Lo    int       `json:"lo"`
	Hi    int       `json:"hi"`
	Err   string    `json:"err"`
	MinV  string    `json:"min"`
	MaxV  string    `json:"max"`
	// minmax input: the names handed to minMaxViews, in that order
	Names []string `json:"names,omitempty"`
	// name input
	Unit string `json:"unit,omitempty"`
}

func evRange(q string, from, to int) traceEvent {
	names := pilosa.VerifTimeViewsByTimeRange(pilosa.VerifTimeViewStandard, hourTime(from), hourTime(to), pilosa.TimeQuantum(q))
	return traceEvent{Ev: "range", Q: q, From: from, To: to, Views: readViews(names)}
}

func evTime(q string, t, minute int) traceEvent {
	ts := hourTime(t).Add(time.Duration(minute) * time.Minute)
	names := pilosa.VerifTimeViewsByTime(pilosa.VerifTimeViewStandard, ts, pilosa.TimeQuantum(q))
	return traceEvent{Ev: "time", Q: q, T: t, Min: minute, Views: readViews(names)}
}

// evName: the name the code gives the unit-u view around hour t, mapped back by timeOfView.
func evName(unit string, t int) traceEvent {
	names := pilosa.VerifTimeViewsByTime(pilosa.VerifTimeViewStandard, hourTime(t), pilosa.TimeQuantum(unit))
	e := traceEvent{Ev: "name", Unit: unit, T: t, Views: []viewRec{}}
	if len(names) != 1 {
		e.V = &viewRec{Name: strings.Join(names, ","), U: "?"}
		return e
	}
	v := readView(names[0])
	e.V = &v
	lo, err1 := pilosa.VerifTimeOfView(names[0], false)
	hi, err2 := pilosa.VerifTimeOfView(names[0], true)
	if err1 != nil {
		e.Err = "timeOfView(" + names[0] + ", false): " + err1.Error()
		return e
	}
	if err2 != nil {
		e.Err = "timeOfView(" + names[0] + ", true): " + err2.Error()
		return e
	}
	var ok1, ok2 bool
	e.Lo, ok1 = hourOf(lo)
	e.Hi, ok2 = hourOf(hi)
	if !ok1 || !ok2 {
		e.Err = fmt.Sprintf("timeOfView(%s) not on the hour: %v %v", names[0], lo, hi)
	}
	return e
}

func evMinMax(q string, names []string) traceEvent {
	in := append([]string{}, names...)
	arg := append([]string{}, names...)
	min, max := pilosa.VerifTimeMinMaxViews(arg, pilosa.TimeQuantum(q))
	return traceEvent{Ev: "minmax", Q: q, Names: in, Views: readViews(in), MinV: min, MaxV: max}
}

// redo repeats the call an event records.
func (e traceEvent) redo() traceEvent {
	switch e.Ev {
	case "range":
		return evRange(e.Q, e.From, e.To)
	case "time":
		return evTime(e.Q, e.T, e.Min)
	case "name":
		return evName(e.Unit, e.T)
	case "minmax":
		return evMinMax(e.Q, e.Names)
	}
	return e
}

func hourIdx(y, m, d, h int) int {
	n, _ := hourOf(time.Date(y, time.Month(m), d, h, 0, 0, 0, time.UTC))
	return n
}

// finestStep returns the start of the next finest-unit instant after hour index t
// (t aligned): the enumeration of aligned times uses the time package, the verdict on
// what the code returns for them does not.
func finestStep(q string, t int) int {
	tt := hourTime(t)
	switch q[len(q)-1] {
	case 'H':
		return t + 1
	case 'D':
		return t + 24
	case 'M':
		n, _ := hourOf(time.Date(tt.Year(), tt.Month()+1, 1, 0, 0, 0, 0, time.UTC))
		return n
	}
	n, _ := hourOf(time.Date(tt.Year()+1, 1, 1, 0, 0, 0, 0, time.UTC))
	return n
}

func genTrace(thorough bool, seed int64, emit func(traceEvent)) {
	rng := rand.New(rand.NewSource(seed*7919 + 17))
	// ---- ranges: aligned starts x bounded lengths
	for _, q := range allQuanta {
		var starts []int
		var lens []int
		switch q[len(q)-1] {
		case 'H':
			edges := [][3]int{{2020, 1, 1}, {2020, 3, 1}, {2021, 3, 1}, {2020, 5, 1}}
			if thorough {
				edges = [][3]int{{2019, 3, 1}, {2020, 1, 1}, {2020, 3, 1}, {2020, 5, 1}, {2020, 12, 1}, {2021, 1, 1}, {2021, 3, 1}}
			}
			for _, e := range edges {
				base := hourIdx(e[0], e[1], e[2], 0) - 24
				for h := 0; h < 48; h++ {
					starts = append(starts, base+h)
				}
			}
			if thorough {
				for l := 1; l <= 30; l++ {
					lens = append(lens, l)
				}
				lens = append(lens, 47, 48, 49)
			} else {
				lens = []int{1, 2, 11, 13, 24, 25, 30, 49}
			}
		case 'D':
			type span struct{ a, b int }
			spans := []span{{hourIdx(2019, 12, 1, 0), hourIdx(2020, 4, 1, 0)}, {hourIdx(2021, 2, 20, 0), hourIdx(2021, 3, 5, 0)}}
			if thorough {
				spans = []span{{hourIdx(2019, 12, 1, 0), hourIdx(2021, 1, 1, 0)}, {hourIdx(2021, 2, 15, 0), hourIdx(2021, 3, 16, 0)}}
			}
			for _, s := range spans {
				for t := s.a; t < s.b; t += 24 {
					starts = append(starts, t)
				}
			}
			if thorough {
				for l := 1; l <= 15; l++ {
					lens = append(lens, l)
				}
				lens = append(lens, 27, 28, 29, 30, 31, 32, 59, 60, 61, 365, 366)
			} else {
				lens = []int{1, 2, 7, 28, 29, 31, 32, 61}
			}
		case 'M':
			for t := hourIdx(2018, 1, 1, 0); t < hourIdx(2022, 1, 1, 0); t = finestStep(q, t) {
				starts = append(starts, t)
			}
			for l := 1; l <= 30; l++ {
				if thorough || l <= 13 || l == 24 || l == 25 {
					lens = append(lens, l)
				}
			}
		case 'Y':
			for y := 2012; y <= 2024; y++ {
				starts = append(starts, hourIdx(y, 1, 1, 0))
			}
			lens = []int{1, 2, 3, 4, 5, 8}
		}
		for _, s := range starts {
			li := 0
			t := s
			for n := 1; li < len(lens); n++ {
				t = finestStep(q, t)
				if n == lens[li] {
					emit(evRange(q, s, t))
					li++
				}
			}
		}
	}
	// ---- random long ranges across month ends, year ends and leap days
	nrand := 400
	if thorough {
		nrand = 6000
	}
	lo, hi := hourIdx(2018, 1, 1, 0), hourIdx(2023, 1, 1, 0)
	for n := 0; n < nrand; {
		q := allQuanta[rng.Intn(len(allQuanta))]
		// an aligned start: walk the finest unit from a random aligned anchor
		var s int
		switch q[len(q)-1] {
		case 'H':
			s = lo + rng.Intn(hi-lo)
		case 'D':
			s = lo + 24*rng.Intn((hi-lo)/24)
		case 'M':
			s = hourIdx(2018+rng.Intn(5), 1+rng.Intn(12), 1, 0)
		default:
			s = hourIdx(2010+rng.Intn(12), 1, 1, 0)
		}
		// length: log-uniform in finest units
		max := map[byte]int{'H': 24 * 500, 'D': 1200, 'M': 60, 'Y': 12}[q[len(q)-1]]
		l := 1 + int(float64(max)*rng.Float64()*rng.Float64()*rng.Float64())
		t := s
		switch q[len(q)-1] {
		case 'H':
			t = s + l
		case 'D':
			t = s + 24*l
		default:
			for i := 0; i < l; i++ {
				t = finestStep(q, t)
			}
		}
		e := evRange(q, s, t)
		if len(e.Views) > 150 {
			continue // keep the events TLC has to interpret small; long decompositions are covered end to end
		}
		emit(e)
		n++
	}
	// ---- viewsByTime: all quanta x times on edges, every hour of a leap day
	var times [][2]int
	for h := 0; h < 24; h++ {
		times = append(times, [2]int{hourIdx(2020, 2, 29, h), (h * 7) % 60})
	}
	for _, d := range [][3]int{{2019, 12, 31}, {2020, 1, 1}, {2021, 2, 28}, {2020, 12, 31}, {2020, 10, 9}} {
		for _, h := range []int{0, 9, 12, 13, 23} {
			times = append(times, [2]int{hourIdx(d[0], d[1], d[2], h), 59})
		}
	}
	for _, q := range allQuanta {
		for _, tm := range times {
			emit(evTime(q, tm[0], tm[1]))
		}
	}
	// ---- timeOfView on every kind of name: all 24 hours, all days of a leap and a common year,
	// all months, assorted years
	for _, d := range [][3]int{{2019, 12, 31}, {2020, 2, 29}, {2021, 6, 15}} {
		for h := 0; h < 24; h++ {
			emit(evName("H", hourIdx(d[0], d[1], d[2], h)))
		}
	}
	dayLo, dayHi := hourIdx(2019, 12, 1, 0), hourIdx(2020, 4, 1, 0)
	if thorough {
		dayLo, dayHi = hourIdx(2019, 1, 1, 0), hourIdx(2022, 1, 1, 0)
	}
	for t := dayLo; t < dayHi; t += 24 {
		emit(evName("D", t))
	}
	for y := 2017; y <= 2024; y++ {
		for m := 1; m <= 12; m++ {
			emit(evName("M", hourIdx(y, m, 1, 0)))
		}
	}
	for _, y := range []int{1, 999, 1000, 1969, 1970, 1999, 2000, 2019, 2020, 2021, 2038, 2100, 2400, 9998} {
		emit(evName("Y", hourIdx(y, 1, 1, 0)))
	}
	// ---- minMaxViews over view lists as a field has them
	for _, q := range allQuanta {
		for k := 0; k < 12; k++ {
			var names []string
			nt := 1 + rng.Intn(4)
			for i := 0; i < nt; i++ {
				t := lo + rng.Intn(hi-lo)
				names = append(names, pilosa.VerifTimeViewsByTime(pilosa.VerifTimeViewStandard, hourTime(t), pilosa.TimeQuantum(q))...)
			}
			// duplicates removed (a field has each view once), order shuffled
			seen := map[string]bool{}
			var uniq []string
			for _, n := range names {
				if !seen[n] {
					seen[n] = true
					uniq = append(uniq, n)
				}
			}
			rng.Shuffle(len(uniq), func(i, j int) { uniq[i], uniq[j] = uniq[j], uniq[i] })
			emit(evMinMax(q, uniq))
		}
		emit(evMinMax(q, nil))
	}
}

// tlcAccepts validates a trace file with TLC (used for replays: one event).
func tlcAccepts(tracePath string) (accepted bool, out string, err error) {
	dir, err := os.MkdirTemp(os.Getenv("VERIF_SCRATCH"), "c18-replay-")
	if err != nil {
		return false, "", err
	}
	defer os.RemoveAll(dir)
	specdir := os.Getenv("VERIF_SPECDIR")
	for _, f := range []string{"TimeViews.tla", "TraceTimeViews.tla", "TraceTimeViews.cfg"} {
		b, err := os.ReadFile(filepath.Join(specdir, f))
		if err != nil {
			return false, "", err
		}
		if err := os.WriteFile(filepath.Join(dir, f), b, 0o644); err != nil {
			return false, "", err
		}
	}
	b, err := os.ReadFile(tracePath)
	if err != nil {
		return false, "", err
	}
	if err := os.WriteFile(filepath.Join(dir, "trace.ndjson"), b, 0o644); err != nil {
		return false, "", err
	}
	cmd := exec.Command("timeout", "300", "tlc", "-metadir", filepath.Join(dir, "meta"), "-config", "TraceTimeViews.cfg",
		"-workers", "1", "-noGenerateSpecTE", "TraceTimeViews.tla")
	cmd.Dir = dir
	ob, _ := cmd.CombinedOutput()
	out = string(ob)
	if strings.Contains(out, "TRACE-ACCEPTED") {
		return true, out, nil
	}
	if strings.Contains(out, "TRACE-REJECTED") {
		return false, out, nil
	}
	return false, out, fmt.Errorf("no verdict from TLC")
}

// TestC18Trace records the trace ($VERIF_TRACE_OUT). In replay mode it repeats one call
// and has TLC validate it.
func TestC18Trace(t *testing.T) {
	res := behav.NewResult()
	defer finish(res)
	if raw, ok := behav.LoadReplay(); ok {
		var e traceEvent
		if err := json.Unmarshal(raw, &e); err != nil {
			t.Fatal(err)
		}
		res.Evaluations = 1
		e2 := e.redo()
		p := filepath.Join(os.Getenv("VERIF_SCRATCH"), "c18-replay-trace.ndjson")
		b, _ := json.Marshal(e2)
		if err := os.WriteFile(p, append(b, '\n'), 0o644); err != nil {
			t.Fatal(err)
		}
		acc, out, err := tlcAccepts(p)
		if err != nil {
			res.SetInconclusive("replay: " + err.Error() + "\n" + out)
			return
		}
		if !acc {
			res.Fail(behav.Failure{Match: map[string]string{"binding": "trace", "event": e.Ev, "q": e.Q, "symptom": "trace_rejected"},
				Detail: "recorded call rejected by TraceTimeViews: " + string(b), Replay: e2})
		}
		return
	}
	out := os.Getenv("VERIF_TRACE_OUT")
	if out == "" {
		t.Fatal("VERIF_TRACE_OUT not set")
	}
	f, err := os.Create(out)
	if err != nil {
		t.Fatal(err)
	}
	w := bufio.NewWriterSize(f, 1<<20)
	corrupt := behav.EnvInt("VERIF_CORRUPT_EVENT", -1) // binding self-test: spoil one recorded result
	n := 0
	genTrace(behav.Thorough(), behav.Seed(), func(e traceEvent) {
		if n == corrupt {
			switch {
			case e.Ev == "range" && len(e.Views) > 0:
				e.Views = e.Views[1:]
			case e.Ev == "name":
				e.Hi++
			default:
				e.Q = "YY"
			}
		}
		b, _ := json.Marshal(e)
		w.Write(b)
		w.WriteByte('\n')
		n++
		res.Cover("event/" + e.Ev)
		if e.Ev == "range" || e.Ev == "time" {
			res.Cover("quantum/" + e.Q)
		}
		if n <= 2 {
			res.AddSample(e)
		}
	})
	if err := w.Flush(); err != nil {
		t.Fatal(err)
	}
	f.Close()
	res.Evaluations = int64(n)
	res.DistinctNontrivial = int64(n)
	res.Validated = 0 // counted by the check when TLC has accepted the trace
}
