package mrtimeb

import (
	"encoding/json"
	"fmt"
	"sort"
	"strings"
	"testing"

	"github.com/pilosa/pilosa"
	"verif/harness/behav"
)

// ---- the reducers, as the executor's reduce closures call them ------------------
//
// Every reduceFn in executor.go has the shape  func(prev, v interface{}) interface{}
// with prev == nil on the first call.  The closures below repeat that shape around the
// real functions (ValCount.add/smaller/larger, Pairs.Add, RowIDs.merge,
// mergeGroupCounts, Row.Merge); Count (uint64 +) and Bool (||) are written inline in
// the executor and are only bound by the system test.

type redKind struct {
	decode func(j interface{}, p redParams) interface{}
	reduce func(prev, v interface{}, p redParams) interface{}
	canon  func(v interface{}, p redParams) string
	real   bool // false: the reducer is an inline closure of the executor, repeated here
}

type redParams struct {
	Lim     int
	G       int // rows of field g (group index -> pair of rows)
	ColsPer int
}

func groupOf(gi, g int) []pilosa.FieldRow {
	return []pilosa.FieldRow{{Field: "f", RowID: uint64((gi-1)/g + 1)}, {Field: "g", RowID: uint64((gi-1)%g + 1)}}
}

func groupIdx(fr []pilosa.FieldRow, g int) int {
	if len(fr) != 2 {
		return -1
	}
	return (int(fr[0].RowID)-1)*g + int(fr[1].RowID)
}

func canonVC(v pilosa.ValCount) string { return fmt.Sprintf("vc(%d,%d)", v.Val, v.Count) }

func canonPairs(ps []pilosa.Pair) string {
	a := append([]pilosa.Pair{}, ps...)
	sort.Slice(a, func(i, j int) bool { return a[i].ID < a[j].ID })
	var sb strings.Builder
	sb.WriteString("pairs[")
	for _, p := range a {
		fmt.Fprintf(&sb, "%d:%d ", p.ID, p.Count)
	}
	sb.WriteString("]")
	return sb.String()
}

func canonRowIDs(r []uint64) string { return fmt.Sprintf("rows%v", append([]uint64{}, r...)) }

func canonGroups(gs []pilosa.GroupCount, g int) string {
	var sb strings.Builder
	sb.WriteString("groups[")
	for _, x := range gs {
		fmt.Fprintf(&sb, "%d:%d ", groupIdx(x.Group, g), x.Count)
	}
	sb.WriteString("]")
	return sb.String()
}

func canonCols(cols []uint64, colsPer int) string {
	a := make([]int, 0, len(cols))
	for _, c := range cols {
		a = append(a, absOf(c, colsPer))
	}
	sort.Ints(a)
	return fmt.Sprintf("cols%v", a)
}

var redKinds = map[string]redKind{}

func init() {
	vc := func(fn func(a, b pilosa.ValCount) pilosa.ValCount) redKind {
		return redKind{
			real: true,
			decode: func(j interface{}, p redParams) interface{} {
				m := behav.ToMap(j)
				return pilosa.ValCount{Val: int64(behav.ToInt(m["val"])), Count: int64(behav.ToInt(m["count"]))}
			},
			reduce: func(prev, v interface{}, p redParams) interface{} {
				other, _ := prev.(pilosa.ValCount)
				return fn(other, v.(pilosa.ValCount))
			},
			canon: func(v interface{}, p redParams) string {
				x, _ := v.(pilosa.ValCount)
				return canonVC(x)
			},
		}
	}
	redKinds["Sum"] = vc(pilosa.VerifReduceAdd)
	redKinds["Min"] = vc(pilosa.VerifReduceSmaller)
	redKinds["Max"] = vc(pilosa.VerifReduceLarger)
	redKinds["TopN"] = redKind{
		real: true,
		decode: func(j interface{}, p redParams) interface{} {
			out := []pilosa.Pair{}
			for _, x := range behav.ToList(j) {
				m := behav.ToMap(x)
				out = append(out, pilosa.Pair{ID: uint64(behav.ToInt(m["id"])), Count: uint64(behav.ToInt(m["n"]))})
			}
			return out
		},
		reduce: func(prev, v interface{}, p redParams) interface{} {
			other, _ := prev.([]pilosa.Pair)
			return pilosa.Pairs(other).Add(v.([]pilosa.Pair))
		},
		canon: func(v interface{}, p redParams) string {
			x, _ := v.([]pilosa.Pair)
			return canonPairs(x)
		},
	}
	redKinds["Rows"] = redKind{
		real: true,
		decode: func(j interface{}, p redParams) interface{} {
			out := pilosa.RowIDs{}
			for _, x := range behav.ToInts(j) {
				out = append(out, uint64(x))
			}
			return out
		},
		reduce: func(prev, v interface{}, p redParams) interface{} {
			other, _ := prev.(pilosa.RowIDs)
			return pilosa.VerifReduceRowIDsMerge(other, v.(pilosa.RowIDs), p.Lim)
		},
		canon: func(v interface{}, p redParams) string {
			x, _ := v.(pilosa.RowIDs)
			return canonRowIDs(x)
		},
	}
	redKinds["GroupBy"] = redKind{
		real: true,
		decode: func(j interface{}, p redParams) interface{} {
			out := []pilosa.GroupCount{}
			for _, x := range behav.ToList(j) {
				m := behav.ToMap(x)
				out = append(out, pilosa.GroupCount{Group: groupOf(behav.ToInt(m["g"]), p.G), Count: uint64(behav.ToInt(m["n"]))})
			}
			return out
		},
		reduce: func(prev, v interface{}, p redParams) interface{} {
			other, _ := prev.([]pilosa.GroupCount)
			return pilosa.VerifReduceGroupCounts(other, v.([]pilosa.GroupCount), p.Lim)
		},
		canon: func(v interface{}, p redParams) string {
			x, _ := v.([]pilosa.GroupCount)
			return canonGroups(x, p.G)
		},
	}
	redKinds["Row"] = redKind{
		real: true,
		decode: func(j interface{}, p redParams) interface{} {
			cols := []uint64{}
			for _, x := range behav.ToInts(j) {
				cols = append(cols, colOf(x, p.ColsPer))
			}
			return pilosa.NewRow(cols...)
		},
		reduce: func(prev, v interface{}, p redParams) interface{} {
			other, _ := prev.(*pilosa.Row)
			if other == nil {
				other = pilosa.NewRow()
			}
			other.Merge(v.(*pilosa.Row))
			return other
		},
		canon: func(v interface{}, p redParams) string {
			x, _ := v.(*pilosa.Row)
			if x == nil {
				return canonCols(nil, p.ColsPer)
			}
			return canonCols(x.Columns(), p.ColsPer)
		},
	}
	redKinds["Count"] = redKind{
		decode: func(j interface{}, p redParams) interface{} { return uint64(behav.ToInt(j)) },
		reduce: func(prev, v interface{}, p redParams) interface{} {
			other, _ := prev.(uint64)
			return other + v.(uint64)
		},
		canon: func(v interface{}, p redParams) string {
			x, _ := v.(uint64)
			return fmt.Sprintf("n%d", x)
		},
	}
	redKinds["Bool"] = redKind{
		decode: func(j interface{}, p redParams) interface{} { b, _ := j.(bool); return b },
		reduce: func(prev, v interface{}, p redParams) interface{} {
			val := v.(bool)
			if prev == nil {
				return val
			}
			return val || prev.(bool)
		},
		canon: func(v interface{}, p redParams) string {
			x, _ := v.(bool)
			return fmt.Sprintf("b%v", x)
		},
	}
}

// specCanon renders a value of the specification in the canonical form.
func specCanon(kind string, j interface{}, p redParams) string {
	k := redKinds[kind]
	return k.canon(k.decode(j, p), p)
}

type lawsCase struct {
	Beh     behav.Behaviour `json:"beh"`
	G       int             `json:"g"`
	ColsPer int             `json:"colsPer"`
	// Corrupt (binding self-test): the expected value of this step index is altered.
	Corrupt int `json:"corrupt,omitempty"`
}

// runLaws replays one behaviour; it returns "" or a description of the first mismatch,
// the reducer kind and the symptom.
func runLaws(c *lawsCase, res *behav.Result) (detail, kind, symptom string) {
	if len(c.Beh) == 0 {
		return "", "", ""
	}
	p := redParams{G: c.G, ColsPer: c.ColsPer}
	if c.Beh[0].Str("op") == "Law" {
		st := c.Beh[0]
		kind = st.Str("kind")
		k, ok := redKinds[kind]
		if !ok {
			return "unknown kind " + kind, kind, "harness"
		}
		p.Lim = st.Int("lim")
		dec := func(name string) interface{} { return k.decode(st[name], p) }
		red := func(a, b interface{}) interface{} { return k.reduce(a, b, p) }
		type chk struct {
			name string
			got  func() interface{}
		}
		checks := []chk{
			{"ab", func() interface{} { return red(dec("a"), dec("b")) }},
			{"ba", func() interface{} { return red(dec("b"), dec("a")) }},
			{"ab_c", func() interface{} { return red(red(dec("a"), dec("b")), dec("c")) }},
			{"a_bc", func() interface{} { return red(dec("a"), red(dec("b"), dec("c"))) }},
			{"ea", func() interface{} { return red(nil, dec("a")) }},
			{"ae", func() interface{} { return red(dec("a"), k.decode(identJSON(kind), p)) }},
		}
		for ci, ch := range checks {
			want := specCanon(kind, st[ch.name], p)
			if c.Corrupt == ci+1 {
				want += "!"
			}
			got := k.canon(ch.got(), p)
			if res != nil {
				res.Cover("law/" + kind + "/" + ch.name)
			}
			if got != want {
				return fmt.Sprintf("law step %s of %s (lim %d): a=%s b=%s c=%s: code %s, specification %s",
					ch.name, kind, p.Lim, mustJSON(st["a"]), mustJSON(st["b"]), mustJSON(st["c"]), got, want), kind, "law_" + ch.name
			}
		}
		return "", kind, ""
	}
	// a fold: Lim, Part x S, Place, arrivals
	var parts = map[int]interface{}{}
	var expect map[string]interface{}
	nacc := map[int]interface{}{}
	var cacc interface{}
	for si, st := range c.Beh {
		switch st.Str("op") {
		case "Lim":
			kind = st.Str("kind")
			p.Lim = st.Int("lim")
		case "Part":
			parts[st.Int("shard")] = st["v"]
		case "Place":
			expect = behav.ToMap(st["expect"])
		case "LocalArrive", "RemoteArrive":
			k, ok := redKinds[kind]
			if !ok {
				return "unknown kind " + kind, kind, "harness"
			}
			var got interface{}
			if st.Str("op") == "LocalArrive" {
				n := st.Int("node")
				nacc[n] = k.reduce(nacc[n], k.decode(parts[st.Int("shard")], p), p)
				got = nacc[n]
			} else {
				n := st.Int("node")
				// the node's response: what its reduce loop holds (nil when it reduced nothing cannot
				// happen: a node answers only for shards it owns)
				cacc = k.reduce(cacc, nacc[n], p)
				got = cacc
			}
			want := specCanon(kind, behav.ToMap(st["acc"])[kind], p)
			if c.Corrupt == si+1 {
				want += "!"
			}
			if res != nil {
				res.Cover("fold/" + kind + "/" + st.Str("op"))
			}
			if g := k.canon(got, p); g != want {
				return fmt.Sprintf("fold of %s (lim %d), step %d %s(node %d, shard %d): accumulator in the code %s, in the specification %s",
					kind, p.Lim, si, st.Str("op"), st.Int("node"), st.Int("shard"), g, want), kind, "fold_" + st.Str("op")
			}
		}
	}
	if expect != nil {
		k := redKinds[kind]
		want := specCanon(kind, expect[kind], p)
		if g := k.canon(cacc, p); g != want {
			return fmt.Sprintf("fold of %s (lim %d): final result in the code %s, expected %s", kind, p.Lim, g, want), kind, "fold_final"
		}
	}
	return "", kind, ""
}

func identJSON(kind string) interface{} {
	switch kind {
	case "Sum", "Min", "Max":
		return map[string]interface{}{"val": 0.0, "count": 0.0}
	case "Count":
		return 0.0
	case "Bool":
		return false
	}
	return []interface{}{}
}

// TestC17Laws: binding A (laws). VERIF_BEH holds behaviours of MapReduce in mode "laws"
// (one Law step) or "parts" (a fold along a placement and an arrival order).
func TestC17Laws(t *testing.T) {
	res := behav.NewResult()
	defer finish(res)
	g, colsPer := behav.EnvInt("VERIF_G", 1), behav.EnvInt("VERIF_COLSPER", 1)
	if raw, ok := behav.LoadReplay(); ok {
		var c lawsCase
		if err := json.Unmarshal(raw, &c); err != nil {
			t.Fatal(err)
		}
		c.Corrupt = 0
		res.Evaluations = 1
		d, kind, sym := runLaws(&c, nil)
		if d != "" {
			res.Fail(behav.Failure{Match: map[string]string{"binding": "laws", "kind": kind, "symptom": sym}, Detail: d, Replay: c})
		}
		return
	}
	behs := behav.LoadEnv()
	var distinct behav.Distinct
	behav.Parallel(len(behs), func(i int) {
		c := &lawsCase{Beh: behs[i], G: g, ColsPer: colsPer}
		d, kind, sym := runLaws(c, res)
		res.CountEval()
		if distinct.Add(mustJSON(behs[i])) {
			res.CountNontrivial()
		}
		if i < 2 {
			res.AddSample(behs[i])
		}
		if d != "" {
			res.Fail(behav.Failure{Match: map[string]string{"binding": "laws", "kind": kind, "symptom": sym}, Detail: d, Replay: c})
		}
	}, func(i int, v interface{}, stack string) {
		if behav.PanicInCode(stack) {
			res.Fail(behav.Failure{Match: map[string]string{"binding": "laws", "symptom": "panic"},
				Detail: fmt.Sprintf("panic: %v\n%s", v, stack), Replay: lawsCase{Beh: behs[i], G: g, ColsPer: colsPer}})
		} else {
			res.SetInconclusive(fmt.Sprintf("harness panic: %v\n%s", v, stack))
		}
	})
	// binding self-test: a corrupted expectation must be noticed
	if len(behs) > 0 {
		c := &lawsCase{Beh: behs[0], G: g, ColsPer: colsPer}
		c.Corrupt = 1
		if c.Beh[0].Str("op") != "Law" {
			c.Corrupt = len(c.Beh) // the last arrival
		}
		if d, _, _ := runLaws(c, nil); d == "" {
			res.SetInconclusive("binding self-test: a corrupted expected value was not noticed")
		}
		res.Cover("selftest")
	}
}
