//go:build verif

// Package attrsyncb binds spec/AttrSync.tla (X03: attribute anti-entropy and cluster-wide
// attribute writes) to real in-process clusters (test.MustNewCluster, 2 or 3 nodes):
// node-local writes go into one node's attribute store (directly, or through a query marked
// remote), QuerySet is a SetRowAttrs / SetColumnAttrs query sent to one node, SyncPass is
// Server.SyncData() on one node.  After every step every store of every node is read back
// (BlockData, on odd variants also the cached Attrs read) and compared with the spec's
// post-state; after a pass and at the end the block checksums of every pair of nodes are
// compared with the spec's relation, and the attr-diff endpoints are called through the
// http InternalClient and compared with the differing blocks' records.
package attrsyncb

import (
	"bytes"
	"context"
	"encoding/json"
	"fmt"
	"math"
	"os"
	"reflect"
	"sort"
	"strconv"
	"strings"
	"sync"
	"testing"
	"time"

	"github.com/pilosa/pilosa"
	pilosahttp "github.com/pilosa/pilosa/http"
	"github.com/pilosa/pilosa/test"
	"github.com/pilosa/pilosa/toml"

	"verif/harness/behav"
)

var profiles = []string{"plain", "zero", "alike", "big"}
var kinds = []string{"col", "rowf", "rowg"}
var allIDs = []uint64{0, 99, 100, 101, 250}

// concrete refines a value tag of the spec to a Go value under a profile.
func concrete(profile, tag string) interface{} {
	type row struct {
		i1, i2 int64
		s      string
		f      float64
	}
	t := map[string]row{
		"plain": {1, 2, "x", 1.5},
		"zero":  {0, 1, "", 0.0},          // proto3 / omitempty zero values
		"alike": {1, -1, "1", 1.0},        // a float equal to an int, a string that looks like one
		"big":   {math.MaxInt64, 1<<53 + 1, "é-長い", -12345.678}, // ints a float64 cannot hold
	}[profile]
	switch tag {
	case "i:1":
		return t.i1
	case "i:2":
		return t.i2
	case "s:x":
		return t.s
	case "b:T":
		return true
	case "b:F":
		return false
	case "f:1":
		return t.f
	}
	panic("unknown value tag " + tag)
}

func pqlLit(v interface{}) string {
	switch x := v.(type) {
	case nil:
		return "null"
	case int64:
		return strconv.FormatInt(x, 10)
	case string:
		return strconv.Quote(x)
	case bool:
		return strconv.FormatBool(x)
	case float64:
		s := strconv.FormatFloat(x, 'f', -1, 64)
		if !strings.Contains(s, ".") {
			s += ".0"
		}
		return s
	}
	panic(fmt.Sprintf("pqlLit %T", v))
}

func show(v interface{}) string {
	if v == nil {
		return "null"
	}
	return fmt.Sprintf("%T %v", v, v)
}

func showAttrs(m map[string]interface{}) string {
	ks := make([]string, 0, len(m))
	for k := range m {
		ks = append(ks, k)
	}
	sort.Strings(ks)
	var s []string
	for _, k := range ks {
		s = append(s, k+": "+show(m[k]))
	}
	return "{" + strings.Join(s, ", ") + "}"
}

func showStore(m map[uint64]map[string]interface{}) string {
	ids := make([]uint64, 0, len(m))
	for id := range m {
		ids = append(ids, id)
	}
	sort.Slice(ids, func(i, j int) bool { return ids[i] < ids[j] })
	var s []string
	for _, id := range ids {
		s = append(s, fmt.Sprintf("%d: %s", id, showAttrs(m[id])))
	}
	return "[" + strings.Join(s, "; ") + "]"
}

// pairs decodes [[k, tag], ...].
func pairs(v interface{}) [][2]string {
	var out [][2]string
	for _, p := range behav.ToList(v) {
		l := behav.ToList(p)
		out = append(out, [2]string{l[0].(string), l[1].(string)})
	}
	return out
}

// state[node 0-based][kind][id] = attrs (ids with content only)
type state []map[string]map[uint64]map[string]interface{}

func decodePost(profile string, n int, v interface{}) state {
	st := make(state, n)
	for i := range st {
		st[i] = map[string]map[uint64]map[string]interface{}{}
		for _, k := range kinds {
			st[i][k] = map[uint64]map[string]interface{}{}
		}
	}
	for _, e := range behav.ToList(v) {
		l := behav.ToList(e)
		node, kind := behav.ToInt(l[0])-1, l[1].(string)
		for _, r := range behav.ToList(l[2]) {
			rl := behav.ToList(r)
			m := map[string]interface{}{}
			for _, p := range pairs(rl[1]) {
				m[p[0]] = concrete(profile, p[1])
			}
			st[node][kind][uint64(behav.ToInt(rl[0]))] = m
		}
	}
	return st
}

type rel struct {
	n1, n2 int
	kind   string
	blk    uint64
	rel    string
}

func decodeRels(v interface{}) []rel {
	var out []rel
	for _, e := range behav.ToList(v) {
		l := behav.ToList(e)
		out = append(out, rel{behav.ToInt(l[0]) - 1, behav.ToInt(l[1]) - 1, l[2].(string), uint64(behav.ToInt(l[3])), l[4].(string)})
	}
	return out
}

// ---- clusters ---------------------------------------------------------------------

const decoy = "decoy"

type clus struct {
	c     test.Cluster
	n     int
	order []int // spec node (0-based, cluster order = sorted node ids) -> index in c
	seq   int
	cli   map[int]*pilosahttp.InternalClient // one http client per node (a new one per call leaks idle connections)
}

func newClus(t testing.TB, n int) (cl *clus, err error) {
	c := test.MustNewCluster(t, n)
	for _, m := range c {
		m.Config.AntiEntropy.Interval = 0 // passes run only when the behaviour says so
		// no periodic complete state exchange: a schema that arrives by push/pull just before
		// the CreateIndex / CreateField message makes that message fail ("already exists")
		m.Config.Gossip.PushPullInterval = toml.Duration(6 * time.Hour)
	}
	if err := c.Start(); err != nil {
		return nil, err
	}
	cl = &clus{c: c, n: n, cli: map[int]*pilosahttp.InternalClient{}}
	for i := range c {
		cl.order = append(cl.order, i)
	}
	sort.Slice(cl.order, func(a, b int) bool { return c[cl.order[a]].API.Node().ID < c[cl.order[b]].API.Node().ID })
	// a second index whose attribute stores are identical on every node: no pass may touch it
	if err := cl.createIndex(decoy); err != nil {
		cl.close()
		return nil, err
	}
	for k := 0; k < n; k++ {
		if err := cl.store(k, decoy, "col").SetAttrs(7, map[string]interface{}{"z": "decoy"}); err != nil {
			cl.close()
			return nil, err
		}
	}
	return cl, nil
}

func (cl *clus) node(k int) *test.Command { return cl.c[cl.order[k]] }

func (cl *clus) close() {
	defer func() { recover() }()
	for _, m := range cl.c {
		defer os.RemoveAll(m.Config.DataDir)
	}
	cl.c.Close()
}

func (cl *clus) createIndex(name string) error {
	ctx := context.Background()
	api := cl.node(0).API
	// (a node that learnt the schema from a status exchange first answers the broadcast
	// with "already exists"; the wait below decides whether every node has everything)
	exists := func(err error) bool { return err != nil && strings.Contains(err.Error(), "already exists") }
	if _, err := api.CreateIndex(ctx, name, pilosa.IndexOptions{}); err != nil && !exists(err) {
		return err
	}
	for _, f := range []string{"f", "g"} {
		if _, err := api.CreateField(ctx, name, f, pilosa.OptFieldTypeSet("ranked", 100)); err != nil && !exists(err) {
			return err
		}
	}
	deadline := time.Now().Add(5 * time.Second)
	for k := 0; k < cl.n; k++ {
		for cl.node(k).Server.Holder().Field(name, "g") == nil {
			if time.Now().After(deadline) {
				return fmt.Errorf("node %d never learnt of index %s", k, name)
			}
			time.Sleep(5 * time.Millisecond)
		}
	}
	return nil
}

func (cl *clus) store(k int, index, kind string) pilosa.AttrStore {
	h := cl.node(k).Server.Holder()
	switch kind {
	case "col":
		return h.Index(index).ColumnAttrStore()
	case "rowf":
		return h.Field(index, "f").RowAttrStore()
	case "rowg":
		return h.Field(index, "g").RowAttrStore()
	}
	panic("kind " + kind)
}

func (cl *clus) query(k int, index, q string, remote, colAttrs bool) (pilosa.QueryResponse, error) {
	return cl.node(k).API.Query(context.Background(), &pilosa.QueryRequest{Index: index, Query: q, Remote: remote, ColumnAttrs: colAttrs})
}

// ---- one case ---------------------------------------------------------------------

// Case is one behaviour under a value profile and a variant (bit 0: also read through the
// cached Attrs path after every step; bit 1: node-local writes through remote queries
// instead of the store; bit 2: a QuerySet on a row store is mixed with a read call, so
// that executeSetRowAttrs runs instead of the bulk path).
type Case struct {
	Beh      behav.Behaviour `json:"beh"`
	Profile  string          `json:"profile"`
	Variant  int             `json:"variant"`
	Selftest int             `json:"selftest,omitempty"`
	idx      int
	applied  bool // self-test: an expectation was falsified
	retried  bool
}

type mismatch struct {
	match  map[string]string
	detail string
}

func setCall(kind string, id uint64, upd [][2]string, profile string) string {
	var args []string
	for _, p := range upd {
		if p[1] == "null" {
			args = append(args, p[0]+"=null")
		} else {
			args = append(args, p[0]+"="+pqlLit(concrete(profile, p[1])))
		}
	}
	switch kind {
	case "col":
		return fmt.Sprintf("SetColumnAttrs(%d, %s)", id, strings.Join(args, ", "))
	case "rowf":
		return fmt.Sprintf("SetRowAttrs(f, %d, %s)", id, strings.Join(args, ", "))
	}
	return fmt.Sprintf("SetRowAttrs(g, %d, %s)", id, strings.Join(args, ", "))
}

func sameAttrs(got, want map[string]interface{}) bool {
	if len(got) != len(want) {
		return false
	}
	for k, w := range want {
		g, ok := got[k]
		if !ok || !reflect.DeepEqual(g, w) {
			return false
		}
	}
	return true
}

// readStore returns the records of a store through BlockData (blocks 0..3).
func readStore(s pilosa.AttrStore) (content map[uint64]map[string]interface{}, ghosts map[uint64]bool, foreign string, err error) {
	content, ghosts = map[uint64]map[string]interface{}{}, map[uint64]bool{}
	for b := uint64(0); b <= 3; b++ {
		m, err := s.BlockData(b)
		if err != nil {
			return nil, nil, "", err
		}
		for id, a := range m {
			if id/100 != b {
				foreign = fmt.Sprintf("BlockData(%d) lists id %d", b, id)
			}
			if len(a) == 0 {
				ghosts[id] = true
			} else {
				content[id] = a
			}
		}
	}
	return content, ghosts, foreign, nil
}

func describe(cs *Case, upto int) string {
	var s []string
	for i, st := range cs.Beh {
		if i > upto {
			break
		}
		switch st.Str("op") {
		case "Init":
			s = append(s, fmt.Sprintf("%d nodes", st.Int("nodes")))
		case "Write", "QuerySet":
			var u []string
			for _, p := range pairs(st["upd"]) {
				v := "null"
				if p[1] != "null" {
					v = show(concrete(cs.Profile, p[1]))
				}
				u = append(u, p[0]+"="+v)
			}
			s = append(s, fmt.Sprintf("%s(node %d, %s, id %d, %s)", st.Str("op"), st.Int("n"), st.Str("st"), st.Int("id"), strings.Join(u, ", ")))
		case "SyncPass":
			s = append(s, fmt.Sprintf("SyncPass(node %d)", st.Int("n")))
		}
	}
	return fmt.Sprintf("profile %s, variant %d: %s", cs.Profile, cs.Variant, strings.Join(s, " -> "))
}

func runCase(cl *clus, cs *Case, cover func(string)) (*mismatch, error) {
	n := cs.Beh[0].Int("nodes")
	if n != cl.n {
		return nil, fmt.Errorf("case for %d nodes on a cluster of %d", n, cl.n)
	}
	cl.seq++
	index := fmt.Sprintf("x%d", cl.seq)
	if err := cl.createIndex(index); err != nil {
		return nil, err
	}
	defer cl.node(0).API.DeleteIndex(context.Background(), index)
	// bits for the column-attribute read path; wait until every node knows shard 0
	var sets []string
	for _, id := range allIDs {
		sets = append(sets, fmt.Sprintf("Set(%d, f=0)", id))
	}
	if _, err := cl.query(0, index, strings.Join(sets, " "), false, false); err != nil {
		return nil, err
	}
	deadline := time.Now().Add(5 * time.Second)
	for k := 0; k < n; k++ {
		for {
			resp, err := cl.query(k, index, "Row(f=0)", false, false)
			if err == nil {
				if r, ok := resp.Results[0].(*pilosa.Row); ok && len(r.Columns()) == len(allIDs) {
					break
				}
			}
			if time.Now().After(deadline) {
				return nil, fmt.Errorf("node %d never saw shard 0 of %s", k, index)
			}
			time.Sleep(5 * time.Millisecond)
		}
	}

	self := cs.Selftest
	var harnessErr error // descriptor exhaustion etc. in the harness process: never a verdict
	corrupt := func(kind string) bool { // falsify one expectation of the given kind (binding self-test)
		if self == 0 {
			return false
		}
		return map[int]string{1: "post", 2: "rel", 3: "diff", 4: "query"}[(self-1)%4+1] == kind
	}
	mk := func(i int, sym string, extra map[string]string, format string, a ...interface{}) *mismatch {
		st := cs.Beh[i]
		m := map[string]string{"op": st.Str("op"), "symptom": sym, "nodes": fmt.Sprint(n)}
		if st.Has("st") {
			m["kind"] = st.Str("st")
		}
		for k, v := range extra {
			m[k] = v
		}
		return &mismatch{match: m, detail: fmt.Sprintf("step %d of [%s]: ", i, describe(cs, i)) + fmt.Sprintf(format, a...)}
	}

	// compare every store of every node with the spec's post-state
	verify := func(i int, want state, changedNode int) *mismatch {
		op := cs.Beh[i].Str("op")
		for k := 0; k < n; k++ {
			for _, kind := range kinds {
				got, _, foreign, err := readStore(cl.store(k, index, kind))
				if err != nil {
					return mk(i, "read_error", nil, "BlockData on node %d: %v", k+1, err)
				}
				if foreign != "" {
					return mk(i, "foreign_id", map[string]string{"kind": kind}, "node %d %s: %s", k+1, kind, foreign)
				}
				w := want[k][kind]
				ok := len(got) == len(w)
				for id, a := range w {
					if !sameAttrs(got[id], a) {
						ok = false
					}
				}
				if !ok {
					sym := map[string]string{"Write": "local_write_wrong", "QuerySet": "query_set_not_everywhere", "SyncPass": "pass_wrong_state", "Final": "final_wrong_state"}[op]
					if op == "Write" && k != changedNode {
						sym = "local_write_leaked"
					}
					if op == "SyncPass" && k != changedNode {
						sym = "pass_changed_another_node"
					}
					return mk(i, sym, map[string]string{"kind": kind}, "node %d %s holds %s, want %s", k+1, kind, showStore(got), showStore(w))
				}
				if cs.Variant&1 == 1 { // the cached read path
					for _, id := range allIDs {
						a, err := cl.store(k, index, kind).Attrs(id)
						if err != nil {
							return mk(i, "read_error", nil, "Attrs(%d) on node %d: %v", id, k+1, err)
						}
						if !sameAttrs(a, w[id]) {
							return mk(i, "stale_attrs_read", map[string]string{"kind": kind}, "node %d %s: Attrs(%d) = %s, want %s (BlockData agrees with the spec)", k+1, kind, id, showAttrs(a), showAttrs(w[id]))
						}
					}
				}
			}
		}
		return nil
	}

	sums := func(k int, kind string) (map[uint64][]byte, error) {
		bs, err := cl.store(k, index, kind).Blocks()
		if err != nil {
			return nil, err
		}
		m := map[uint64][]byte{}
		for _, b := range bs {
			m[b.ID] = b.Checksum
		}
		return m, nil
	}
	verifyRels := func(i int, rels []rel) *mismatch {
		cache := map[string]map[uint64][]byte{}
		get := func(k int, kind string) (map[uint64][]byte, error) {
			key := fmt.Sprint(k, kind)
			if m, ok := cache[key]; ok {
				return m, nil
			}
			m, err := sums(k, kind)
			cache[key] = m
			return m, err
		}
		for _, r := range rels {
			if r.n1 >= r.n2 {
				continue
			}
			a, err := get(r.n1, r.kind)
			if err != nil {
				return mk(i, "read_error", nil, "Blocks: %v", err)
			}
			b, err := get(r.n2, r.kind)
			if err != nil {
				return mk(i, "read_error", nil, "Blocks: %v", err)
			}
			ca, oka := a[r.blk]
			cb, okb := b[r.blk]
			same := (!oka && !okb) || (oka && okb && bytes.Equal(ca, cb))
			want := r.rel
			if corrupt("rel") && want != "free" {
				want = map[string]string{"eq": "ne", "ne": "eq"}[want]
				self = 0
			}
			if want == "eq" && !same {
				return mk(i, "checksums_differ", map[string]string{"kind": r.kind}, "nodes %d and %d hold the same %s attributes in block %d but report checksums %x / %x", r.n1+1, r.n2+1, r.kind, r.blk, ca, cb)
			}
			if want == "ne" && same {
				return mk(i, "checksums_equal", map[string]string{"kind": r.kind}, "nodes %d and %d hold different %s attributes in block %d but report the same checksum %x", r.n1+1, r.n2+1, r.kind, r.blk, ca)
			}
			cover("rel_" + r.rel)
		}
		return nil
	}

	// the attr-diff endpoints through the http client: n2's records of the blocks that differ from n1's
	verifyDiff := func(i int, want state, rels []rel) *mismatch {
		relOf := map[string]string{}
		for _, r := range rels {
			relOf[fmt.Sprint(r.n1, r.n2, r.kind, r.blk)] = r.rel
		}
		ctx := context.Background()
		for n1 := 0; n1 < n; n1++ {
			for n2 := 0; n2 < n; n2++ {
				if n1 == n2 {
					continue
				}
				for _, kind := range kinds {
					blks, err := cl.store(n1, index, kind).Blocks()
					if err != nil {
						return mk(i, "read_error", nil, "Blocks: %v", err)
					}
					uri := cl.node(n2).API.Node().URI
					var m map[uint64]map[string]interface{}
					switch kind {
					case "col":
						m, err = cl.client(n1).ColumnAttrDiff(ctx, &uri, index, blks)
					case "rowf":
						m, err = cl.client(n1).RowAttrDiff(ctx, &uri, index, "f", blks)
					default:
						m, err = cl.client(n1).RowAttrDiff(ctx, &uri, index, "g", blks)
					}
					if resourceErr(err) {
						harnessErr = err
						return nil
					}
					if err != nil {
						return mk(i, "diff_error", map[string]string{"kind": kind}, "attr diff of node %d against node %d: %v", n1+1, n2+1, err)
					}
					w := want[n2][kind]
					if corrupt("diff") && len(w) > 0 {
						w = map[uint64]map[string]interface{}{}
						for id, a := range want[n2][kind] {
							w[id] = a
						}
						w[777] = map[string]interface{}{"a": int64(5)}
						relOf[fmt.Sprint(n1, n2, kind, 7)] = "ne"
						self = 0
					}
					for id, a := range m {
						r := relOf[fmt.Sprint(n1, n2, kind, id/100)]
						if r == "eq" || r == "" {
							return mk(i, "diff_returns_equal_block", map[string]string{"kind": kind}, "node %d answers node %d's %s checksums with id %d of block %d, which is identical on both", n2+1, n1+1, kind, id, id/100)
						}
						if !sameAttrs(a, w[id]) {
							return mk(i, "diff_wrong_attrs", map[string]string{"kind": kind}, "node %d answers node %d's %s checksums with id %d = %s, but holds %s", n2+1, n1+1, kind, id, showAttrs(a), showAttrs(w[id]))
						}
					}
					for id, a := range w {
						if relOf[fmt.Sprint(n1, n2, kind, id/100)] == "ne" {
							if _, ok := m[id]; !ok {
								return mk(i, "diff_misses_record", map[string]string{"kind": kind}, "node %d holds %s id %d = %s in block %d, which differs from node %d's, but the diff lacks it (diff = %s)", n2+1, kind, id, showAttrs(a), id/100, n1+1, showStore(m))
							}
							cover("diff_record")
						}
					}
				}
			}
		}
		return nil
	}

	// read through queries at every node
	verifyQuery := func(i int, kind string, id uint64, want state) *mismatch {
		for k := 0; k < n; k++ {
			w := want[k][kind][id]
			var got map[string]interface{}
			if kind == "col" {
				resp, err := cl.query(k, index, "Row(f=0)", false, true)
				if err != nil {
					return mk(i, "query_error", nil, "Row(f=0) with column attrs at node %d: %v", k+1, err)
				}
				for _, cs := range resp.ColumnAttrSets {
					if cs.ID == id {
						got = cs.Attrs
					}
				}
			} else {
				resp, err := cl.query(k, index, fmt.Sprintf("Row(%s=%d)", kind[3:], id), false, false)
				if err != nil {
					return mk(i, "query_error", nil, "Row at node %d: %v", k+1, err)
				}
				got = resp.Results[0].(*pilosa.Row).Attrs
			}
			if corrupt("query") && len(w) > 0 {
				w = map[string]interface{}{"zz": true}
				self = 0
			}
			if !sameAttrs(got, w) {
				return mk(i, "query_read_wrong", map[string]string{"kind": kind}, "a query at node %d reads %s id %d = %s, want %s", k+1, kind, id, showAttrs(got), showAttrs(w))
			}
		}
		return nil
	}

	nontrivial := false
	for i := 1; i < len(cs.Beh); i++ {
		st := cs.Beh[i]
		op := st.Str("op")
		want := decodePost(cs.Profile, n, st["post"])
		if corrupt("post") && (i == len(cs.Beh)-1 || (self > 4 && op == "SyncPass")) {
			// falsify one expected record
			k := (self / 4) % n
			kind := kinds[(self/8)%3]
			if a, ok := want[k][kind][100]; ok && len(a) > 0 {
				delete(want[k][kind], 100)
			} else {
				want[k][kind][100] = map[string]interface{}{"a": int64(41)}
			}
			self = 0
		}
		changed := -1
		switch op {
		case "Write":
			k, kind, id := st.Int("n")-1, st.Str("st"), uint64(st.Int("id"))
			changed = k
			upd := pairs(st["upd"])
			if cs.Variant&2 == 2 {
				if _, err := cl.query(k, index, setCall(kind, id, upd, cs.Profile), true, false); err != nil {
					return mk(i, "write_error", nil, "remote-marked query at node %d: %v", k+1, err), nil
				}
				cover("write_remote_query")
			} else {
				m := map[string]interface{}{}
				for _, p := range upd {
					if p[1] == "null" {
						m[p[0]] = nil
					} else {
						m[p[0]] = concrete(cs.Profile, p[1])
					}
				}
				if err := cl.store(k, index, kind).SetAttrs(id, m); err != nil {
					return mk(i, "write_error", nil, "SetAttrs on node %d: %v", k+1, err), nil
				}
				cover("write_store")
			}
		case "QuerySet":
			k, kind, id := st.Int("n")-1, st.Str("st"), uint64(st.Int("id"))
			q := setCall(kind, id, pairs(st["upd"]), cs.Profile)
			if cs.Variant&4 == 4 && kind != "col" {
				q += " Count(Row(f=1))"
				cover("queryset_single_path")
			} else {
				cover("queryset_" + map[bool]string{true: "col", false: "bulk_path"}[kind == "col"])
			}
			if _, err := cl.query(k, index, q, false, false); err != nil {
				return mk(i, "query_error", nil, "%s at node %d: %v", q, k+1, err), nil
			}
			nontrivial = true
		case "SyncPass":
			k := st.Int("n") - 1
			changed = k
			if err := cl.node(k).Server.SyncData(); resourceErr(err) {
				return nil, err
			} else if err != nil {
				return mk(i, "sync_error", nil, "SyncData on node %d: %v", k+1, err), nil
			}
			if st.Bool("changed") {
				nontrivial = true
				cover("pass_changed")
			} else {
				cover("pass_noop")
			}
			if st.Bool("conv") {
				cover("all_synced_agree_" + fmt.Sprint(st.Bool("agree")))
			}
		case "Final":
			if st.Bool("conv") {
				cover("final_all_synced_agree_" + fmt.Sprint(st.Bool("agree")))
			} else {
				cover("final_not_all_synced")
			}
		}
		if mm := verify(i, want, changed); mm != nil {
			return mm, nil
		}
		if op == "QuerySet" {
			if mm := verifyQuery(i, st.Str("st"), uint64(st.Int("id")), want); mm != nil {
				return mm, nil
			}
		}
		if op == "SyncPass" || op == "Final" {
			rels := decodeRels(st["rels"])
			if mm := verifyRels(i, rels); mm != nil {
				return mm, nil
			}
			if op == "Final" {
				if mm := verifyDiff(i, want, rels); mm != nil {
					return mm, nil
				}
				if harnessErr != nil {
					return nil, harnessErr
				}
				// the other index must not have been touched by any pass
				for k := 0; k < n; k++ {
					for _, kind := range kinds {
						got, ghosts, _, err := readStore(cl.store(k, decoy, kind))
						if err != nil {
							return nil, err
						}
						w := map[uint64]map[string]interface{}{}
						if kind == "col" {
							w[7] = map[string]interface{}{"z": "decoy"}
						}
						if !reflect.DeepEqual(got, w) || len(ghosts) > 0 {
							return mk(i, "other_index_touched", map[string]string{"kind": kind}, "node %d: the %s store of another index, identical on all nodes, now holds %s (ghosts %v), want %s", k+1, kind, showStore(got), ghosts, showStore(w)), fmt.Errorf("decoy")
						}
					}
				}
			}
		}
	}
	if nontrivial {
		cover("nontrivial")
	}
	cs.applied = self == 0
	return nil, nil
}

// ---- driver -----------------------------------------------------------------------

type pool struct {
	mu   sync.Mutex
	t    testing.TB
	free map[int][]*clus
}

func (p *pool) get(n int) (*clus, error) {
	p.mu.Lock()
	if l := p.free[n]; len(l) > 0 {
		cl := l[len(l)-1]
		p.free[n] = l[:len(l)-1]
		p.mu.Unlock()
		return cl, nil
	}
	p.mu.Unlock()
	return newClus(p.t, n)
}

func (p *pool) put(cl *clus) {
	p.mu.Lock()
	p.free[cl.n] = append(p.free[cl.n], cl)
	p.mu.Unlock()
}

func (p *pool) closeAll() {
	for _, l := range p.free {
		for _, cl := range l {
			cl.close()
		}
	}
}

func one(res *behav.Result, p *pool, cs *Case) {
	n := cs.Beh[0].Int("nodes")
	cl, err := p.get(n)
	if err != nil {
		res.SetInconclusive("cluster: " + err.Error())
		return
	}
	var mm *mismatch
	done := make(chan struct{})
	var pv interface{}
	var stack string
	go func() {
		defer close(done)
		pv, stack = behav.Protect(func() { mm, err = runCase(cl, cs, res.Cover) })
	}()
	select {
	case <-done:
	case <-time.After(120 * time.Second):
		res.Fail(behav.Failure{Match: map[string]string{"symptom": "hang", "nodes": fmt.Sprint(n)},
			Detail: "no progress for 120 s in [" + describe(cs, len(cs.Beh)) + "]", Replay: cs})
		return // the cluster is abandoned
	}
	res.CountEval()
	if pv != nil {
		cl.close()
		if !behav.PanicInCode(stack) {
			res.SetInconclusive(fmt.Sprintf("harness panic: %v\n%s", pv, stack))
			return
		}
		res.Fail(behav.Failure{Match: map[string]string{"symptom": "panic", "nodes": fmt.Sprint(n)},
			Detail: fmt.Sprintf("panic %v in [%s]\n%s", pv, describe(cs, len(cs.Beh)), stack), Replay: cs})
		return
	}
	if mm != nil {
		cl.close() // never reuse a cluster a failing case ran on
		if cs.Selftest != 0 {
			res.Cover("selftest_detected")
			return
		}
		res.Fail(behav.Failure{Match: mm.match, Detail: mm.detail, Replay: cs})
		return
	}
	if err != nil {
		cl.close()
		if !cs.retried { // a set-up problem (schema propagation under load): once more on a fresh cluster
			cs.retried = true
			res.Cover("setup_retry")
			one(res, p, cs)
			return
		}
		res.SetInconclusive("harness: " + err.Error())
		return
	}
	if cs.Selftest != 0 && !cs.applied {
		res.Cover("selftest_not_applicable")
	} else if cs.Selftest != 0 {
		res.Cover("selftest_missed")
		res.AddSample(map[string]interface{}{"selftest_missed": cs.Selftest, "case": describe(cs, len(cs.Beh))})
	}
	p.put(cl)
}

func TestAttrSync(t *testing.T) {
	res := behav.NewResult()
	defer func() {
		if err := res.Write(); err != nil {
			t.Fatal(err)
		}
	}()
	p := &pool{t: t, free: map[int][]*clus{}}
	defer p.closeAll()
	if raw, ok := behav.LoadReplay(); ok {
		var cs Case
		if err := json.Unmarshal(raw, &cs); err != nil || len(cs.Beh) == 0 {
			res.SetInconclusive("unreadable replay payload")
			return
		}
		one(res, p, &cs)
		return
	}
	seed := behav.Seed()
	behs := behav.LoadEnv()
	nprof := behav.EnvInt("VERIF_NPROFILES", 1)
	selftest := behav.EnvInt("VERIF_SELFTEST", 0) != 0
	var cases []*Case
	for i, b := range behs {
		if len(b) < 2 || b[0].Str("op") != "Init" {
			res.SetInconclusive("malformed behaviour " + behav.JSON(b))
			return
		}
		for j := 0; j < nprof; j++ {
			h := behav.Hash64(fmt.Sprint(seed, i, j))
			cs := &Case{Beh: b, Profile: profiles[(i+j+int(seed))%len(profiles)], Variant: int(h % 8), idx: len(cases)}
			if selftest {
				cs.Selftest = 1 + int(h>>8)%64
			}
			cases = append(cases, cs)
		}
	}
	if max := behav.EnvInt("VERIF_MAXCASES", 0); max > 0 && len(cases) > max {
		cases = cases[:max]
	}
	workers := behav.EnvInt("VERIF_WORKERS", 4)
	var distinct behav.Distinct
	behav.Parallel(workers, func(w int) {
		for i := w; i < len(cases); i += workers {
			cs := cases[i]
			if distinct.Add(behav.JSON(cs.Beh) + cs.Profile + fmt.Sprint(cs.Variant)) {
				res.CountNontrivial()
			}
			res.Cover("profile_" + cs.Profile)
			res.Cover(fmt.Sprintf("nodes_%d", cs.Beh[0].Int("nodes")))
			one(res, p, cs)
			if i < 3 {
				res.AddSample(describe(cs, len(cs.Beh)))
			}
		}
	}, func(i int, v interface{}, stack string) {
		res.SetInconclusive(fmt.Sprintf("driver panic: %v\n%s", v, stack))
	})
}

func (cl *clus) client(k int) *pilosahttp.InternalClient {
	if c, ok := cl.cli[k]; ok {
		return c
	}
	c := cl.node(k).Client()
	cl.cli[k] = c
	return c
}

// resourceErr recognises errors of the harness process itself (descriptor exhaustion), which
// say nothing about the code under test.
func resourceErr(err error) bool {
	return err != nil && (strings.Contains(err.Error(), "too many open files") || strings.Contains(err.Error(), "cannot assign requested address"))
}
