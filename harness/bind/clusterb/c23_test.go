package clusterb

import (
	"bytes"
	"context"
	"fmt"
	"go/ast"
	"go/parser"
	"go/token"
	"os"
	"path/filepath"
	"reflect"
	"sort"
	"strings"
	"testing"
	"time"

	"github.com/pilosa/pilosa"
	"github.com/pilosa/pilosa/roaring"
	"github.com/pilosa/pilosa/test"

	"verif/harness/behav"
)

// c23Case identifies one event of the C23 streams for replay.
type c23Case struct {
	Kind    string `json:"kind"` // "call" | "gate" | "entry"
	State   string `json:"state,omitempty"`
	Method  string `json:"method,omitempty"`
	Variant string `json:"variant,omitempty"`
	Gate    string `json:"gate,omitempty"`
}

var c23States = []string{"STARTING", "NORMAL", "DEGRADED", "RESIZING"}

// c23Call is one benign invocation of an exported API method.
type c23Call struct {
	Method  string
	Variant string
	Fn      func(api *pilosa.API) error
}

func c23RepoDir() string {
	if d := os.Getenv("VERIF_REPO"); d != "" {
		return d
	}
	return "/repo"
}

// ---- fixture: schema and data every call finds in place (made through the holder, not the API)

func c23Fixture(h *pilosa.Holder) error {
	for _, n := range []string{"fresh", "applied"} {
		if h.Index(n) != nil {
			if err := h.DeleteIndex(n); err != nil {
				return err
			}
		}
	}
	if ix := h.Index("i"); ix != nil && ix.Field("freshf") != nil {
		if err := ix.DeleteField("freshf"); err != nil {
			return err
		}
	}
	idx, err := h.CreateIndexIfNotExists("i", pilosa.IndexOptions{TrackExistence: true})
	if err != nil {
		return err
	}
	if _, err := h.CreateIndexIfNotExists("gone", pilosa.IndexOptions{}); err != nil {
		return err
	}
	f, err := idx.CreateFieldIfNotExists("f", pilosa.OptFieldTypeSet(pilosa.CacheTypeRanked, 100))
	if err != nil {
		return err
	}
	v, err := idx.CreateFieldIfNotExists("v", pilosa.OptFieldTypeInt(-10, 100))
	if err != nil {
		return err
	}
	tf, err := idx.CreateFieldIfNotExists("t", pilosa.OptFieldTypeTime(pilosa.TimeQuantum("Y")))
	if err != nil {
		return err
	}
	if _, err := idx.CreateFieldIfNotExists("delf", pilosa.OptFieldTypeSet(pilosa.CacheTypeRanked, 100)); err != nil {
		return err
	}
	for _, bit := range [][2]uint64{{1, 1}, {1, pilosa.ShardWidth + 2}, {2, 1}} {
		if _, err := f.SetBit(bit[0], bit[1], nil); err != nil {
			return err
		}
	}
	if _, err := v.SetValue(1, 7); err != nil {
		return err
	}
	ts := time.Date(2019, 3, 4, 0, 0, 0, 0, time.UTC)
	if _, err := tf.SetBit(1, 1, &ts); err != nil {
		return err
	}
	if err := f.AddRemoteAvailableShards(roaring.NewBitmap(5)); err != nil {
		return err
	}
	if err := f.RowAttrStore().SetAttrs(1, map[string]interface{}{"a": "x"}); err != nil {
		return err
	}
	return idx.ColumnAttrStore().SetAttrs(1, map[string]interface{}{"c": int64(3)})
}

// c23Digest summarises schema and data of the holder; it only reads.
func c23Digest(h *pilosa.Holder) string {
	var sb strings.Builder
	sb.Write(mustJSON(h.Schema()))
	frs := pilosa.VerifClusterFragments(h)
	names := make([]string, 0, len(frs))
	for n := range frs {
		names = append(names, n)
	}
	sort.Strings(names)
	for _, n := range names {
		l := frs[n]
		sort.Slice(l, func(a, b int) bool {
			return fmt.Sprint(l[a]) < fmt.Sprint(l[b])
		})
		fmt.Fprint(&sb, n, l)
	}
	for _, idx := range h.Indexes() {
		fields := idx.Fields()
		sort.Slice(fields, func(a, b int) bool { return fields[a].Name() < fields[b].Name() })
		for _, f := range fields {
			vs := pilosa.VerifClusterFieldViews(f)
			sort.Strings(vs)
			fmt.Fprint(&sb, "|", idx.Name(), "/", f.Name(), vs, f.AvailableShards().Slice())
			if f.Type() == pilosa.FieldTypeInt {
				for _, c := range []uint64{0, 1, 2, 3, 4, 5} { // shard 0 only: Value creates the fragment it reads
					val, ok, _ := f.Value(c)
					fmt.Fprint(&sb, " ", val, ok)
				}
				continue
			}
			for r := uint64(0); r < 6; r++ {
				if row, err := f.Row(r); err == nil && row != nil {
					fmt.Fprint(&sb, " r", r, row.Columns())
				}
				m, _ := f.RowAttrStore().Attrs(r)
				fmt.Fprint(&sb, mustJSONString(m))
			}
		}
		for c := uint64(0); c < 6; c++ {
			m, _ := idx.ColumnAttrStore().Attrs(c)
			fmt.Fprint(&sb, mustJSONString(m))
		}
	}
	return sb.String()
}

func mustJSONString(v interface{}) string { return string(mustJSON(v)) }

func c23RoaringData() []byte {
	b := roaring.NewBitmap(3*pilosa.ShardWidth + 9) // row 3, column 9 of shard 0
	var buf bytes.Buffer
	if _, err := b.WriteTo(&buf); err != nil {
		panic(err)
	}
	return buf.Bytes()
}

// c23Calls lists a benign invocation (or several) of every exported API method that is a
// request entry point.
func c23Calls() []c23Call {
	ctx := context.Background()
	e := func(_ interface{}, err error) error { return err }
	return []c23Call{
		{"Query", "read", func(a *pilosa.API) error {
			return e(a.Query(ctx, &pilosa.QueryRequest{Index: "i", Query: "Count(Row(f=1))"}))
		}},
		{"Query", "write", func(a *pilosa.API) error {
			return e(a.Query(ctx, &pilosa.QueryRequest{Index: "i", Query: "Set(7, f=4)"}))
		}},
		{"CreateIndex", "", func(a *pilosa.API) error { return e(a.CreateIndex(ctx, "fresh", pilosa.IndexOptions{})) }},
		{"Index", "", func(a *pilosa.API) error { return e(a.Index(ctx, "i")) }},
		{"DeleteIndex", "", func(a *pilosa.API) error { return a.DeleteIndex(ctx, "gone") }},
		{"CreateField", "", func(a *pilosa.API) error {
			return e(a.CreateField(ctx, "i", "freshf", pilosa.OptFieldTypeSet(pilosa.CacheTypeRanked, 10)))
		}},
		{"Field", "", func(a *pilosa.API) error { return e(a.Field(ctx, "i", "f")) }},
		{"ImportRoaring", "", func(a *pilosa.API) error {
			return a.ImportRoaring(ctx, "i", "f", 0, false, &pilosa.ImportRoaringRequest{Views: map[string][]byte{"": c23RoaringData()}})
		}},
		{"ImportRoaring", "remote", func(a *pilosa.API) error {
			return a.ImportRoaring(ctx, "i", "f", 0, true, &pilosa.ImportRoaringRequest{Views: map[string][]byte{"": c23RoaringData()}})
		}},
		{"DeleteField", "", func(a *pilosa.API) error { return a.DeleteField(ctx, "i", "delf") }},
		{"DeleteAvailableShard", "", func(a *pilosa.API) error { return a.DeleteAvailableShard(ctx, "i", "f", 5) }},
		{"ExportCSV", "", func(a *pilosa.API) error { return a.ExportCSV(ctx, "i", "f", 0, &bytes.Buffer{}) }},
		{"ShardNodes", "", func(a *pilosa.API) error { return e(a.ShardNodes(ctx, "i", 0)) }},
		{"FragmentBlockData", "", func(a *pilosa.API) error {
			body, err := a.Serializer.Marshal(&pilosa.BlockDataRequest{Index: "i", Field: "f", View: "standard", Shard: 0, Block: 0})
			if err != nil {
				panic(err)
			}
			return e(a.FragmentBlockData(ctx, bytes.NewReader(body)))
		}},
		{"FragmentBlocks", "", func(a *pilosa.API) error { return e(a.FragmentBlocks(ctx, "i", "f", "standard", 0)) }},
		{"FragmentData", "", func(a *pilosa.API) error { return e(a.FragmentData(ctx, "i", "f", "standard", 0)) }},
		{"Hosts", "", func(a *pilosa.API) error { a.Hosts(ctx); return nil }},
		{"Node", "", func(a *pilosa.API) error { a.Node(); return nil }},
		{"RecalculateCaches", "", func(a *pilosa.API) error { return a.RecalculateCaches(ctx) }},
		{"ClusterMessage", "", func(a *pilosa.API) error {
			body, err := pilosa.MarshalInternalMessage(&pilosa.RecalculateCaches{}, a.Serializer)
			if err != nil {
				panic(err)
			}
			return a.ClusterMessage(ctx, bytes.NewReader(body))
		}},
		{"Schema", "", func(a *pilosa.API) error { a.Schema(ctx); return nil }},
		{"ApplySchema", "", func(a *pilosa.API) error {
			return a.ApplySchema(ctx, &pilosa.Schema{Indexes: []*pilosa.IndexInfo{{Name: "applied"}}}, true)
		}},
		{"Views", "", func(a *pilosa.API) error { return e(a.Views(ctx, "i", "t")) }},
		{"DeleteView", "", func(a *pilosa.API) error { return a.DeleteView(ctx, "i", "t", "standard_2019") }},
		{"IndexAttrDiff", "", func(a *pilosa.API) error { return e(a.IndexAttrDiff(ctx, "i", nil)) }},
		{"FieldAttrDiff", "", func(a *pilosa.API) error { return e(a.FieldAttrDiff(ctx, "i", "f", nil)) }},
		{"Import", "", func(a *pilosa.API) error {
			return a.Import(ctx, &pilosa.ImportRequest{Index: "i", Field: "f", Shard: 0, RowIDs: []uint64{5}, ColumnIDs: []uint64{6}})
		}},
		{"ImportValue", "", func(a *pilosa.API) error {
			return a.ImportValue(ctx, &pilosa.ImportValueRequest{Index: "i", Field: "v", Shard: 0, ColumnIDs: []uint64{4}, Values: []int64{5}})
		}},
		{"MaxShards", "", func(a *pilosa.API) error { a.MaxShards(ctx); return nil }},
		{"AvailableShardsByIndex", "", func(a *pilosa.API) error { a.AvailableShardsByIndex(ctx); return nil }},
		{"StatsWithTags", "", func(a *pilosa.API) error { a.StatsWithTags(nil); return nil }},
		{"LongQueryTime", "", func(a *pilosa.API) error { a.LongQueryTime(); return nil }},
		{"SetCoordinator", "", func(a *pilosa.API) error { return third(a.SetCoordinator(ctx, a.Node().ID)) }},
		{"RemoveNode", "", func(a *pilosa.API) error { return e(a.RemoveNode("no-such-node")) }},
		{"ResizeAbort", "", func(a *pilosa.API) error { return a.ResizeAbort() }},
		{"GetTranslateData", "", func(a *pilosa.API) error {
			rc, err := a.GetTranslateData(ctx, 0)
			if rc != nil {
				rc.Close()
			}
			return err
		}},
		{"State", "", func(a *pilosa.API) error { a.State(); return nil }},
		{"Version", "", func(a *pilosa.API) error { a.Version(); return nil }},
		{"Info", "", func(a *pilosa.API) error { a.Info(); return nil }},
		{"TranslateKeys", "", func(a *pilosa.API) error { return e(a.TranslateKeys(bytes.NewReader(nil))) }},
	}
}

func third(_, _ interface{}, err error) error { return err }

// c23NotCalled are exported methods that are not request entry points (never invoked).
var c23NotCalled = map[string]bool{"Close": true}

// ---- go/ast walk of api.go

type c23Entry struct {
	Method string
	Gate   string
	Guard  bool
	Pre    []string
}

func callName(c *ast.CallExpr) string {
	switch f := c.Fun.(type) {
	case *ast.SelectorExpr:
		if x, ok := f.X.(*ast.Ident); ok {
			return x.Name + "." + f.Sel.Name
		}
		return "?." + f.Sel.Name
	case *ast.Ident:
		return f.Name
	}
	return "?"
}

// c23Walk returns, for every exported method of *API in api.go, the first gate consulted,
// and the names of the apiMethod constants.
func c23Walk(repo string) (entries []c23Entry, consts []string, err error) {
	fset := token.NewFileSet()
	file, err := parser.ParseFile(fset, filepath.Join(repo, "api.go"), nil, 0)
	if err != nil {
		return nil, nil, err
	}
	for _, d := range file.Decls {
		switch d := d.(type) {
		case *ast.GenDecl:
			if d.Tok != token.CONST {
				continue
			}
			isAPI := false
			for _, sp := range d.Specs {
				vs := sp.(*ast.ValueSpec)
				if id, ok := vs.Type.(*ast.Ident); ok && id.Name == "apiMethod" {
					isAPI = true
				}
			}
			if isAPI {
				for _, sp := range d.Specs {
					for _, n := range sp.(*ast.ValueSpec).Names {
						consts = append(consts, n.Name)
					}
				}
			}
		case *ast.FuncDecl:
			if d.Recv == nil || len(d.Recv.List) != 1 || !d.Name.IsExported() || d.Body == nil {
				continue
			}
			st, ok := d.Recv.List[0].Type.(*ast.StarExpr)
			if !ok {
				continue
			}
			if id, ok := st.X.(*ast.Ident); !ok || id.Name != "API" {
				continue
			}
			recv := "api"
			if len(d.Recv.List[0].Names) == 1 {
				recv = d.Recv.List[0].Names[0].Name
			}
			en := c23Entry{Method: d.Name.Name, Pre: []string{}}
			for _, stmt := range d.Body.List {
				var gateCall *ast.CallExpr
				var calls []string
				ast.Inspect(stmt, func(n ast.Node) bool {
					if c, ok := n.(*ast.CallExpr); ok {
						name := callName(c)
						if name == recv+".validate" && gateCall == nil {
							gateCall = c
						} else if gateCall == nil {
							calls = append(calls, name)
						}
					}
					return true
				})
				if gateCall == nil {
					en.Pre = append(en.Pre, calls...)
					continue
				}
				en.Pre = append(en.Pre, calls...)
				if len(gateCall.Args) == 1 {
					if id, ok := gateCall.Args[0].(*ast.Ident); ok {
						en.Gate = id.Name
					} else {
						en.Gate = "?"
					}
				}
				// guard: `if err := api.validate(X); err != nil { ...; return ... }` as a
				// top-level statement of the method
				if ifs, ok := stmt.(*ast.IfStmt); ok && ifs.Init != nil && len(ifs.Body.List) > 0 {
					initHas := false
					ast.Inspect(ifs.Init, func(n ast.Node) bool {
						if n == ast.Node(gateCall) {
							initHas = true
						}
						return true
					})
					_, ret := ifs.Body.List[len(ifs.Body.List)-1].(*ast.ReturnStmt)
					en.Guard = initHas && ret
				}
				break
			}
			if en.Gate == "" {
				en.Pre = []string{}
			}
			entries = append(entries, en)
		}
	}
	sort.Slice(entries, func(a, b int) bool { return entries[a].Method < entries[b].Method })
	return entries, consts, nil
}

// ---- the run

type c23Server struct {
	cmd *test.Command
	vc  *pilosa.VerifCluster
	h   *pilosa.Holder
}

func newC23Server() *c23Server {
	cmd := test.MustRunCommand()
	return &c23Server{cmd: cmd, vc: pilosa.VerifClusterOfAPI(cmd.API), h: pilosa.VerifClusterHolderOfAPI(cmd.API)}
}

func (s *c23Server) close() {
	s.vc.ForceState("NORMAL")
	s.cmd.Close()
	os.RemoveAll(s.cmd.Config.DataDir)
}

// call forces the state, performs one call and returns its event.
func (s *c23Server) call(c c23Call, state string, cn int) (map[string]interface{}, error) {
	s.vc.ForceState("NORMAL")
	if err := c23Fixture(s.h); err != nil {
		return nil, fmt.Errorf("fixture: %v", err)
	}
	s.vc.ForceState(state)
	before := c23Digest(s.h)
	var err error
	pv, stack := behav.Protect(func() { err = c.Fn(s.cmd.API) })
	after := c23Digest(s.h)
	if before != after && os.Getenv("VERIF_C23_DEBUG") != "" {
		k := 0
		for k < len(before) && k < len(after) && before[k] == after[k] {
			k++
		}
		lo := k - 200
		if lo < 0 {
			lo = 0
		}
		fmt.Fprintf(os.Stderr, "DIGEST %s %s differs at %d:\n  before ...%s\n  after  ...%s\n", c.Method, state, k, before[lo:minInt(k+200, len(before))], after[lo:minInt(k+200, len(after))])
	}
	out := "ok"
	if pv != nil {
		if !behav.PanicInCode(stack) {
			panic(fmt.Sprintf("%v\n%s", pv, stack))
		}
		out = "panic"
		err = fmt.Errorf("%v", pv)
	} else if pilosa.VerifClusterIsMethodNotAllowed(err) {
		out = "refused"
	} else if err != nil {
		out = "err"
	}
	ev := map[string]interface{}{"ev": "call", "c": cn, "m": c.Method, "v": c.Variant, "st": state, "out": out, "touched": before != after}
	if err != nil {
		ev["e"] = tail(err.Error(), 120)
	}
	return ev, nil
}

func c23Failure(c *c23Case, symptom, detail string) behav.Failure {
	return behav.Failure{Match: map[string]string{"symptom": symptom, "kind": c.Kind, "method": c.Method, "state": c.State, "gate": c.Gate},
		Detail: detail, Replay: c}
}

// TestC23 records the three C23 streams. VERIF_TRACE_OUT: trace path base.
func TestC23(t *testing.T) {
	res := behav.NewResult()
	defer func() {
		if err := res.Write(); err != nil {
			t.Fatal(err)
		}
	}()
	calls := c23Calls()
	entries, consts, err := c23Walk(c23RepoDir())
	if err != nil {
		res.SetInconclusive("cannot parse api.go: " + err.Error())
		return
	}

	if raw, ok := behav.LoadReplay(); ok {
		var c c23Case
		if err := jsonUnmarshal(raw, &c); err != nil {
			t.Fatal(err)
		}
		res.Evaluations = 1
		var ev map[string]interface{}
		switch c.Kind {
		case "entry":
			for _, en := range entries {
				if en.Method == c.Method {
					ev = map[string]interface{}{"ev": "entry", "c": 0, "m": en.Method, "gate": en.Gate, "guard": en.Guard, "pre": en.Pre}
				}
			}
		case "gate":
			s := newC23Server()
			defer s.close()
			s.vc.ForceState(c.State)
			verr, known := pilosa.VerifClusterValidate(s.cmd.API, c.Gate)
			if known {
				ev = map[string]interface{}{"ev": "gate", "c": 0, "g": c.Gate, "st": c.State, "ok": verr == nil}
			}
		case "call":
			s := newC23Server()
			defer s.close()
			for _, cl := range calls {
				if cl.Method == c.Method && cl.Variant == c.Variant {
					var herr error
					pv, stack := behav.Protect(func() { ev, herr = s.call(cl, c.State, 0) })
					if pv != nil {
						if behav.PanicInCode(stack) {
							res.Fail(c23Failure(&c, "panic", fmt.Sprintf("panic in %s: %v\n%s", c.Method, pv, tail(stack, 1500))))
						} else {
							res.SetInconclusive(fmt.Sprintf("harness panic: %v\n%s", pv, stack))
						}
						return
					}
					if herr != nil {
						res.SetInconclusive(herr.Error())
						return
					}
				}
			}
		}
		if ev == nil {
			res.SetInconclusive("replay: the case no longer exists: " + behav.JSON(c))
			return
		}
		line := mustJSON(ev)
		ok, _, out, err := tlcValidate("TraceApiGate", [][]byte{line})
		if err != nil {
			res.SetInconclusive("trace validation: " + err.Error() + "\n" + tail(out, 1500))
			return
		}
		if !ok {
			res.Fail(c23Failure(&c, "trace_rejected", "rejected by TraceApiGate: "+string(line)))
		}
		return
	}

	base := os.Getenv("VERIF_TRACE_OUT")
	if base == "" {
		base = filepath.Join(os.TempDir(), "c23trace")
	}
	tw, err := newTraceWriter(base, 1<<30)
	if err != nil {
		t.Fatal(err)
	}
	defer tw.Close()
	corrupt := os.Getenv("VERIF_CORRUPT")

	// stream 0: what exists
	var all []string
	typ := reflect.TypeOf(&pilosa.API{})
	for k := 0; k < typ.NumMethod(); k++ {
		if n := typ.Method(k).Name; !strings.HasPrefix(n, "Verif") { // access wrappers of build tag verif
			all = append(all, n)
		}
	}
	tw.Event(map[string]interface{}{"ev": "methods", "all": all})
	tw.Event(map[string]interface{}{"ev": "gates", "all": consts})
	have := map[string]bool{}
	for _, c := range calls {
		have[c.Method] = true
	}
	for _, m := range all {
		if !have[m] && !c23NotCalled[m] {
			res.SetInconclusive("driver stale: no benign call for exported API method " + m)
		}
	}
	walked := map[string]bool{}
	// stream 1: source shape of every entry point
	for _, en := range entries {
		walked[en.Method] = true
		cn := tw.Case(&c23Case{Kind: "entry", Method: en.Method})
		tw.Event(map[string]interface{}{"ev": "entry", "c": cn, "m": en.Method, "gate": en.Gate, "guard": en.Guard, "pre": en.Pre})
		res.CountEval()
		res.Cover("entry")
		if en.Gate != "" {
			res.CountNontrivial()
		}
	}
	for _, m := range all {
		if !walked[m] {
			res.SetInconclusive("exported API method " + m + " is not declared in api.go (go/ast walk covers api.go only)")
		}
	}

	tw.NewChunk()
	s := newC23Server()
	defer s.close()
	// stream 2: the gate itself, every constant in every state
	table := pilosa.VerifClusterGateTable()
	res.Coverage["gate_table"] = table
	for _, st := range c23States {
		s.vc.ForceState(st)
		for _, g := range consts {
			verr, known := pilosa.VerifClusterValidate(s.cmd.API, g)
			if !known {
				res.SetInconclusive("apiMethod constant " + g + " has no String() name (stringer not regenerated?)")
				continue
			}
			cn := tw.Case(&c23Case{Kind: "gate", State: st, Gate: g})
			ok := verr == nil
			if corrupt == "gate" && st == "RESIZING" && g == "apiImport" {
				ok = true
			}
			tw.Event(map[string]interface{}{"ev": "gate", "c": cn, "g": g, "st": st, "ok": ok})
			res.CountEval()
			res.Cover("gate")
		}
	}
	// stream 3: every entry point in every state (own chunk: own TLC verdict)
	tw.NewChunk()
	order := append([]string(nil), c23States...)
	if behav.Seed()%2 == 1 {
		order = []string{"RESIZING", "DEGRADED", "NORMAL", "STARTING"}
	}
	for _, st := range order {
		for _, c := range calls {
			cs := &c23Case{Kind: "call", State: st, Method: c.Method, Variant: c.Variant}
			cn := tw.Case(cs)
			var ev map[string]interface{}
			var herr error
			pv, stack := behav.Protect(func() { ev, herr = s.call(c, st, cn) })
			if pv != nil {
				if behav.PanicInCode(stack) {
					res.Fail(c23Failure(cs, "panic", fmt.Sprintf("panic in %s (%s): %v\n%s", c.Method, st, pv, tail(stack, 1500))))
				} else {
					res.SetInconclusive(fmt.Sprintf("harness panic: %v\n%s", pv, stack))
				}
				continue
			}
			if herr != nil {
				res.SetInconclusive(herr.Error())
				continue
			}
			if corrupt == "call" && st == "STARTING" && c.Method == "Import" {
				ev["out"] = "ok"
			}
			if corrupt == "touched" && st == "RESIZING" && c.Method == "ImportRoaring" {
				ev["touched"] = true
			}
			tw.Event(ev)
			res.CountEval()
			res.CountNontrivial()
			res.Cover("call:" + st + ":" + ev["out"].(string))
			if ev["touched"].(bool) {
				res.Cover("touched:" + st)
			}
			if cn%37 == 0 {
				res.AddSample(ev)
			}
		}
	}
	res.Coverage["trace_files"] = tw.files
}
