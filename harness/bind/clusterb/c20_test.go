package clusterb

import (
	"crypto/sha1"
	"encoding/hex"
	"fmt"
	"math/rand"
	"os"
	"path/filepath"
	"sort"
	"strings"
	"testing"

	"github.com/pilosa/pilosa"

	"verif/harness/behav"
)

const c20PartN = 256

// c20Env is what every case of a run shares: the id universe, the URI hosts (ordered
// against the ids), the indexes and their shard lists.
type c20Env struct {
	Seed     int64               `json:"seed"`
	Universe []string            `json:"universe"` // ascending (Go string order = byte order)
	Hosts    map[string]string   `json:"hosts"`
	Indexes  []string            `json:"indexes"`
	Shards   map[string][]uint64 `json:"-"`
}

// c20Case is one real cluster: a history of joins/leaves, a replica count and a local node.
type c20Case struct {
	Seed int64    `json:"seed"`
	Ord  []string `json:"ord"`
	Opk  []int    `json:"opk"` // 1 join, 0 leave
	R    int      `json:"r"`
	Self string   `json:"self"`
	Via  string   `json:"via"` // "basic": addNodeBasicSorted/removeNodeBasicSorted; "node": addNode/removeNode (topology)
	Help int      `json:"help"` // 0: no helper event; k: helpers on index k
	Full bool     `json:"full,omitempty"` // a variant that logs its whole partition table
	Hist bool     `json:"hist,omitempty"` // from a TLC-generated history (spec/PlacementHist.tla)
	// Want, when set, is the member set the specification's history has at this point
	Want []string `json:"want,omitempty"`
	// Prev, when set, is the canonical configuration logged just before this one (same id
	// set and replica count): the replay logs it first so that TLC compares the two.
	Prev *c20Case `json:"prev,omitempty"`
}

var c20IDPool = []string{"node0", "node1", "node10", "node2", "Node3", "a", "ab", "abc", "b", "B", "10", "9", "09",
	"n-1", "n_1", "n.1", "z", "Z9", "0", "00", "f3a9", "F3A9", "e7c1d2", "x"}

func newC20Env(seed int64) *c20Env {
	rng := rand.New(rand.NewSource(seed*7919 + 20))
	ids := append([]string(nil), c20IDPool...)
	rng.Shuffle(len(ids), func(a, b int) { ids[a], ids[b] = ids[b], ids[a] })
	u := ids[:8]
	sort.Strings(u)
	env := &c20Env{Seed: seed, Universe: u, Hosts: map[string]string{}, Shards: map[string][]uint64{}}
	for k, id := range u {
		env.Hosts[id] = fmt.Sprintf("host%02d", 50-k) // URI order is the reverse of id order
	}
	env.Indexes = []string{"i", fmt.Sprintf("idx%d", rng.Intn(1000))}
	v := pilosa.VerifClusterNew(pilosa.VerifClusterOptions{ReplicaN: 1})
	for _, ix := range env.Indexes {
		covered := map[int]bool{}
		var shards []uint64
		extra := 0
		for s := uint64(0); len(covered) < c20PartN && s < 1<<20; s++ {
			sh := s
			if s%97 == 96 {
				sh = s + 1<<40 // a few shards beyond 32 bits
			}
			p := v.Partition(ix, sh)
			if !covered[p] {
				covered[p] = true
				shards = append(shards, sh)
			} else if extra < 44 && rng.Intn(8) == 0 {
				extra++
				shards = append(shards, sh)
			}
		}
		sort.Slice(shards, func(a, b int) bool { return shards[a] < shards[b] })
		env.Shards[ix] = shards
	}
	return env
}

func (env *c20Env) node(id string) *pilosa.Node { return pilosa.VerifClusterNode(id, env.Hosts[id]) }

// header writes the universe, the observed jump hash and the observed partitions.
func (env *c20Env) header(add func(interface{})) {
	add(map[string]interface{}{"ev": "universe", "ids": env.Universe, "nidx": len(env.Indexes)})
	v := pilosa.VerifClusterNew(pilosa.VerifClusterOptions{ReplicaN: 1})
	for n := 1; n <= len(env.Universe); n++ {
		h := make([]int, c20PartN)
		for p := range h {
			h[p] = v.Hash(uint64(p), n)
		}
		add(map[string]interface{}{"ev": "hash", "n": n, "h": h})
	}
	for k, ix := range env.Indexes {
		ps := make([]int, len(env.Shards[ix]))
		for j, s := range env.Shards[ix] {
			ps[j] = v.Partition(ix, s)
		}
		add(map[string]interface{}{"ev": "parts", "ix": k + 1, "ps": ps})
	}
}

type c20Group struct {
	O  []string `json:"o"`
	Ps []int    `json:"ps,omitempty"`
	Js []int    `json:"js,omitempty"`
}

// groupBy groups keys 0..n-1 (or 1..n) by the owner sequence observed for them.
func groupBy(n int, base int, owners func(k int) []string, asJs bool) []c20Group {
	idx := map[string]int{}
	var out []c20Group
	for k := 0; k < n; k++ {
		o := owners(k)
		key := strings.Join(o, "\x00") + fmt.Sprint("#", len(o))
		g, ok := idx[key]
		if !ok {
			g = len(out)
			idx[key] = g
			if o == nil {
				o = []string{}
			}
			out = append(out, c20Group{O: o})
		}
		if asJs {
			out[g].Js = append(out[g].Js, k+base)
		} else {
			out[g].Ps = append(out[g].Ps, k+base)
		}
	}
	return out
}

// build assembles the real cluster of a case. dir is used for the topology file.
func (env *c20Env) build(c *c20Case, dir string) (*pilosa.VerifCluster, error) {
	o := pilosa.VerifClusterOptions{ReplicaN: c.R}
	if c.Via == "node" {
		o.Path = dir
	}
	v := pilosa.VerifClusterNew(o)
	for k, id := range c.Ord {
		switch {
		case c.Opk[k] == 2:
			env.observe(v)
		case c.Via == "node" && c.Opk[k] == 1:
			if err := v.Join(env.node(id)); err != nil {
				return nil, err
			}
		case c.Via == "node":
			if err := v.Leave(id); err != nil {
				return nil, err
			}
		case c.Opk[k] == 1:
			v.JoinBasic(env.node(id))
		default:
			v.LeaveBasic(id)
		}
	}
	v.SetSelf(c.Self)
	return v, nil
}

// observe makes the cluster compute owners the way requests do (an "obs" step of a
// history): every partition, and the per-shard helpers on a few shards. The answers are
// dropped; what matters is that computing them must not change later answers.
func (env *c20Env) observe(v *pilosa.VerifCluster) {
	for p := 0; p < c20PartN; p++ {
		v.PartitionNodes(p)
	}
	ix := env.Indexes[0]
	shards := env.Shards[ix][:8]
	for _, s := range shards {
		v.ShardNodes(ix, s)
	}
	for _, id := range v.NodeIDs() {
		v.OwnsShard(id, ix, shards[0])
		v.ContainsShards(ix, shards, id)
	}
}

// histGroups turns TLC-generated membership histories (spec/PlacementHist.tla) into
// cases: every "obs" step and the end of every history is an observation point; the case of
// an observation point is the history prefix up to it (earlier obs steps included, they are
// replayed as owner computations). Cases are grouped by (resulting id set, replicas) behind
// the canonical case, a cluster built afresh from exactly that id set. It also replays each
// history once comparing the member set after every step with the specification's.
func (env *c20Env) histGroups(behs []behav.Behaviour, res *behav.Result, emit func(group []*c20Case)) {
	type grp struct {
		canon *c20Case
		cases []*c20Case
	}
	groups := map[string]*grp{}
	var order []string
	seen := map[string]bool{}
	for bi, b := range behs {
		if len(b) == 0 {
			continue
		}
		rng := rand.New(rand.NewSource(env.Seed*6700417 + int64(bi)))
		perm := rng.Perm(len(env.Universe))
		id := func(k int) string { return env.Universe[perm[k-1]] }
		r := b[0].Int("r")
		via := "basic"
		if bi%3 == 0 {
			via = "node"
		}
		var ord []string
		var opk []int
		for si, st := range b {
			switch st.Str("op") {
			case "join":
				ord, opk = append(ord, id(st.Int("k"))), append(opk, 1)
			case "leave":
				ord, opk = append(ord, id(st.Int("k"))), append(opk, 0)
			case "obs":
				ord, opk = append(ord, ""), append(opk, 2)
			}
			var want []string
			for _, k := range st.Ints("m") {
				want = append(want, id(k))
			}
			sort.Strings(want)
			// observation points: right after an obs step's predecessor state, i.e. the
			// prefix before the obs (the obs itself is the recording), and the end
			isObs := st.Str("op") == "obs"
			if !isObs && si != len(b)-1 {
				continue
			}
			pord, popk := ord, opk
			if isObs { // the recording replaces the obs step
				pord, popk = ord[:len(ord)-1], opk[:len(opk)-1]
			}
			key := fmt.Sprint(pord, popk, r, via)
			if seen[key] || len(want) == 0 {
				continue
			}
			seen[key] = true
			gk := fmt.Sprint(want, r)
			g := groups[gk]
			if g == nil {
				g = &grp{canon: &c20Case{Seed: env.Seed, Ord: want, Opk: ones(len(want)), R: r, Self: want[0], Via: "basic", Hist: true}}
				groups[gk] = g
				order = append(order, gk)
			}
			help := 0
			if si == len(b)-1 && bi%4 == 0 {
				help = 1 + bi%len(env.Indexes)
			}
			g.cases = append(g.cases, &c20Case{Seed: env.Seed, Ord: append([]string(nil), pord...), Opk: append([]int(nil), popk...),
				R: r, Self: want[(si+bi)%len(want)], Via: via, Help: help, Prev: g.canon, Hist: true, Want: want})
		}
	}
	for _, gk := range order {
		g := groups[gk]
		emit(append([]*c20Case{g.canon}, g.cases...))
	}
}

// c20Answers is what all ownership helpers answered for one shard (or for all shards of
// a group that got identical answers).
type c20Answers struct {
	Js   []int      `json:"js"`
	Sn   []string   `json:"sn"`   // ShardNodes
	Own  []string   `json:"own"`  // asked ids for which ownsShard is true
	Cont []string   `json:"cont"` // asked ids whose containsShards list has the shard (with multiplicity)
	Vso  bool       `json:"vso"`  // validateShardOwnership accepts on the local node
	Sbn  [][]string `json:"sbn"`  // per candidate set: the nodes shardsByNode routed the shard to
}

func digest(v interface{}) string {
	h := sha1.Sum(mustJSON(v))
	return hex.EncodeToString(h[:8])
}

// events runs one case on the real code and returns its events. A variant (c.Prev set)
// logs the digest of its partition table instead of the table ("same" event).
func (env *c20Env) events(c *c20Case, cn int, dir string) ([]interface{}, error) {
	v, err := env.build(c, dir)
	if err != nil {
		return nil, err
	}
	ring := v.NodeIDs()
	if c.Want != nil {
		got := append([]string(nil), ring...)
		sort.Strings(got)
		if fmt.Sprint(got) != fmt.Sprint(c.Want) {
			return nil, fmt.Errorf("after the history %v/%v the cluster's members are %v, the specification's %v", c.Ord, c.Opk, ring, c.Want)
		}
	}
	g := groupBy(c20PartN, 0, func(p int) []string { return v.PartitionNodes(p) }, false)
	own := map[string]interface{}{"ev": "own", "c": cn, "ord": c.Ord, "opk": c.Opk, "ring": ring, "r": c.R, "self": c.Self,
		"gd": digest(g)}
	if c.Prev == nil || c.Full {
		own["g"] = g
	} else {
		own["ev"] = "same"
	}
	evs := []interface{}{own}
	if c.Help == 0 {
		return evs, nil
	}
	ix := env.Indexes[c.Help-1]
	shards := env.Shards[ix]
	pos := map[uint64]int{}
	for j, s := range shards {
		pos[s] = j
	}
	asked := append([]string(nil), ring...)
	for _, id := range env.Universe { // one id that is not a member
		if !contains(ring, id) {
			asked = append(asked, id)
			break
		}
	}
	ans := make([]c20Answers, len(shards))
	for j, s := range shards {
		ans[j].Sn = v.ShardNodes(ix, s)
		ans[j].Own, ans[j].Cont = []string{}, []string{}
		ans[j].Vso = v.ValidateShardOwnership(ix, s) == nil
	}
	for _, id := range asked {
		for j, s := range shards {
			if v.OwnsShard(id, ix, s) {
				ans[j].Own = append(ans[j].Own, id)
			}
		}
		for _, s := range v.ContainsShards(ix, shards, id) {
			j, ok := pos[s]
			if !ok {
				return nil, fmt.Errorf("containsShards returned shard %d that was not in the available shards", s)
			}
			ans[j].Cont = append(ans[j].Cont, id)
		}
	}
	rng := rand.New(rand.NewSource(c.Seed ^ int64(len(ring))<<8 ^ int64(c.R)))
	avails := [][]string{ring, {ring[rng.Intn(len(ring))]}}
	if len(ring) > 2 {
		var sub []string
		for _, id := range ring {
			if rng.Intn(2) == 0 {
				sub = append(sub, id)
			}
		}
		if len(sub) > 0 {
			avails = append(avails, sub)
		}
	}
	errs := make([]bool, len(avails))
	for j := range ans {
		ans[j].Sbn = make([][]string, len(avails))
		for a := range avails {
			ans[j].Sbn[a] = []string{}
		}
	}
	for a, av := range avails {
		m, err := v.ShardsByNode(av, ix, shards)
		errs[a] = err != nil
		ids := make([]string, 0, len(m))
		for id := range m {
			ids = append(ids, id)
		}
		sort.Strings(ids)
		for _, id := range ids {
			for _, s := range m[id] {
				j, ok := pos[s]
				if !ok {
					return nil, fmt.Errorf("shardsByNode returned shard %d that was not asked for", s)
				}
				ans[j].Sbn[a] = append(ans[j].Sbn[a], id)
			}
		}
	}
	// group the shards by identical answers (lossless)
	idx := map[string]int{}
	var q []*c20Answers
	for j := range ans {
		key := string(mustJSON(ans[j]))
		k, ok := idx[key]
		if !ok {
			k = len(q)
			idx[key] = k
			a := ans[j]
			q = append(q, &a)
		}
		q[k].Js = append(q[k].Js, j+1)
	}
	help := map[string]interface{}{"ev": "help", "c": cn, "ring": ring, "r": c.R, "self": c.Self, "ix": c.Help,
		"asked": asked, "avail": avails, "err": errs, "q": q}
	return append(evs, help), nil
}

func contains(l []string, s string) bool {
	for _, x := range l {
		if x == s {
			return true
		}
	}
	return false
}

func pick(u []string, idx []int) []string {
	out := make([]string, len(idx))
	for k, i := range idx {
		out[k] = u[i]
	}
	return out
}

func ones(n int) []int {
	o := make([]int, n)
	for i := range o {
		o[i] = 1
	}
	return o
}

// c20Cases enumerates the configurations of a run, grouped: each group is one id set and
// replica count, canonical configuration first, then its variants (other join orders /
// histories, other local nodes).
func (env *c20Env) c20Cases(thorough bool, emit func(group []*c20Case)) {
	rng := rand.New(rand.NewSource(env.Seed*104729 + 1))
	maxN, permAll, selfMod := 5, 4, 5
	if thorough {
		maxN, permAll, selfMod = 8, 6, 2
	}
	for si, set := range subsetsBySize(len(env.Universe), maxN) {
		M := pick(env.Universe, set)
		n := len(M)
		rPerm := (si*7 + int(env.Seed)) % 10
		for r := 0; r <= 9; r++ {
			help := 0
			if thorough || (r+si)%4 == 0 {
				help = 1 + (r+si)%len(env.Indexes)
			}
			canon := &c20Case{Seed: env.Seed, Ord: M, Opk: ones(n), R: r, Self: M[(r+si)%n], Via: "basic", Help: help}
			group := []*c20Case{canon}
			variant := func(ord []string, opk []int, self, via string, help int) {
				group = append(group, &c20Case{Seed: env.Seed, Ord: ord, Opk: opk, R: r, Self: self, Via: via, Help: help, Prev: canon})
			}
			// other local nodes
			if (r+si)%selfMod == 0 {
				for k, id := range M {
					if id != canon.Self {
						h := 0
						if k%2 == 0 {
							h = 1 + k%len(env.Indexes)
						}
						variant(M, ones(n), id, "basic", h)
						group[len(group)-1].Full = true
					}
				}
			}
			if r == rPerm && n > 1 {
				// join orders
				if n <= permAll {
					permutations(n, func(p []int) {
						ord := pick(M, p)
						via := "basic"
						if n <= 3 {
							via = "node"
						}
						variant(ord, ones(n), ord[0], via, 0)
					})
				} else {
					for t := 0; t < 12; t++ {
						ord := append([]string(nil), M...)
						rng.Shuffle(n, func(a, b int) { ord[a], ord[b] = ord[b], ord[a] })
						via := "basic"
						if t%4 == 0 {
							via = "node"
						}
						variant(ord, ones(n), ord[rng.Intn(n)], via, 0)
					}
				}
			}
			if r == (rPerm+1)%10 {
				// histories that END with a leave (nothing re-sorts afterwards) and compute
				// owners on the way: M and outsiders join, obs, the outsiders leave
				var outsiders []string
				for _, id := range env.Universe {
					if !contains(M, id) {
						outsiders = append(outsiders, id)
					}
				}
				for t := 0; t < 3 && len(outsiders) > 0; t++ {
					xs := []string{outsiders[rng.Intn(len(outsiders))]}
					if t == 2 && len(outsiders) > 1 {
						xs = outsiders[:2]
					}
					ord := append(append([]string(nil), M...), xs...)
					rng.Shuffle(len(ord), func(a, b int) { ord[a], ord[b] = ord[b], ord[a] })
					opk := ones(len(ord))
					if t > 0 { // compute owners while only the first node is there, and with everybody
						ord = append([]string{ord[0], ""}, ord[1:]...)
						opk = append([]int{1, 2}, opk[1:]...)
						ord, opk = append(ord, ""), append(opk, 2)
					}
					for _, x := range xs {
						ord, opk = append(ord, x), append(opk, 0)
					}
					via := "basic"
					if t == 1 {
						via = "node"
					}
					variant(ord, opk, M[rng.Intn(n)], via, 1+t%len(env.Indexes))
				}
				// histories with leaves and re-joins reaching the same id set
				for t := 0; t < 4; t++ {
					ord := append([]string(nil), M...)
					rng.Shuffle(n, func(a, b int) { ord[a], ord[b] = ord[b], ord[a] })
					opk := ones(n)
					// an outsider joins somewhere and leaves later
					var outs []string
					for _, id := range env.Universe {
						if !contains(M, id) {
							outs = append(outs, id)
						}
					}
					if len(outs) > 0 {
						x := outs[rng.Intn(len(outs))]
						at := rng.Intn(len(ord) + 1)
						ord = append(ord[:at], append([]string{x}, ord[at:]...)...)
						opk = append(opk, 1)
						at2 := at + 1 + rng.Intn(len(ord)-at)
						ord = append(ord[:at2], append([]string{x}, ord[at2:]...)...)
						opk = append(opk[:at2], append([]int{0}, opk[at2:]...)...)
					}
					// a member leaves and re-joins at the end
					y := M[rng.Intn(n)]
					ord = append(ord, y, y)
					opk = append(opk, 0, 1)
					via := "basic"
					if t%2 == 0 {
						via = "node"
					}
					variant(ord, opk, M[rng.Intn(n)], via, 1+t%len(env.Indexes))
				}
			}
			emit(group)
		}
	}
}

func c20Failure(c *c20Case, env *c20Env, symptom, ev, detail string) behav.Failure {
	return behav.Failure{
		Match:  map[string]string{"symptom": symptom, "event": ev, "n": fmt.Sprint(len(uniq(c.Ord))), "r": fmt.Sprint(c.R), "via": c.Via},
		Detail: detail,
		Replay: c,
	}
}

func uniq(l []string) []string {
	m := map[string]bool{}
	var o []string
	for _, s := range l {
		if !m[s] {
			m[s] = true
			o = append(o, s)
		}
	}
	return o
}

// TestC20 records what the real placement code computes. Environment: VERIF_TRACE_OUT
// (base path of the trace chunks), VERIF_CORRUPT (self-test: corrupt one recorded field).
func TestC20(t *testing.T) {
	res := behav.NewResult()
	defer func() {
		if err := res.Write(); err != nil {
			t.Fatal(err)
		}
	}()
	scratch := os.Getenv("VERIF_SCRATCH")
	if scratch == "" {
		scratch = os.TempDir()
	}
	dir, err := os.MkdirTemp(scratch, "c20-")
	if err != nil {
		t.Fatal(err)
	}
	defer os.RemoveAll(dir)
	topoDir := func() string {
		d, _ := os.MkdirTemp(dir, "topo-")
		return d
	}

	if raw, ok := behav.LoadReplay(); ok {
		var c c20Case
		if err := jsonUnmarshal(raw, &c); err != nil {
			t.Fatal(err)
		}
		env := newC20Env(c.Seed)
		var lines [][]byte
		env.header(func(v interface{}) { lines = append(lines, mustJSON(v)) })
		res.Evaluations = 1
		seq := []*c20Case{&c}
		if c.Prev != nil {
			seq = []*c20Case{c.Prev, &c}
		}
		for _, cc := range seq {
			var evs []interface{}
			var herr error
			pv, stack := behav.Protect(func() { evs, herr = env.events(cc, 0, topoDir()) })
			if pv != nil {
				if behav.PanicInCode(stack) {
					res.Fail(c20Failure(&c, env, "panic", "own", fmt.Sprintf("panic: %v\n%s", pv, tail(stack, 1500))))
				} else {
					res.SetInconclusive(fmt.Sprintf("harness panic: %v\n%s", pv, stack))
				}
				return
			}
			if herr != nil {
				res.Fail(c20Failure(&c, env, "helper_error", "help", herr.Error()))
				return
			}
			for _, e := range evs {
				lines = append(lines, mustJSON(e))
			}
		}
		ok, prefix, out, err := tlcValidate("TracePlacement", lines)
		if err != nil {
			res.SetInconclusive("trace validation: " + err.Error() + "\n" + tail(out, 1500))
			return
		}
		if !ok {
			ev := string(lines[minInt(prefix, len(lines)-1)])
			res.Fail(c20Failure(&c, env, "trace_rejected", evName(ev), "recorded placement rejected by TracePlacement at event "+fmt.Sprint(prefix)+": "+tail(ev, 1200)))
		}
		return
	}

	base := os.Getenv("VERIF_TRACE_OUT")
	if base == "" {
		base = filepath.Join(dir, "trace")
	}
	env := newC20Env(behav.Seed())
	tw, err := newTraceWriter(base, behav.EnvInt("VERIF_CHUNK_BYTES", 8<<20))
	if err != nil {
		t.Fatal(err)
	}
	defer tw.Close()
	env.header(tw.Header)
	corrupt := os.Getenv("VERIF_CORRUPT")
	var distinct behav.Distinct
	corrupted := false
	ngroups := 0
	maxGroups := behav.EnvInt("VERIF_MAXGROUPS", 1<<30)
	emitGroup := func(group []*c20Case) {
		if ngroups >= maxGroups {
			return
		}
		tw.Break()
		ngroups++
		for _, c := range group {
			cn := tw.Case(c)
			var evs []interface{}
			var herr error
			pv, stack := behav.Protect(func() { evs, herr = env.events(c, cn, topoDir()) })
			if pv != nil {
				if behav.PanicInCode(stack) {
					res.Fail(c20Failure(c, env, "panic", "own", fmt.Sprintf("panic: %v\n%s", pv, tail(stack, 1500))))
				} else {
					res.SetInconclusive(fmt.Sprintf("harness panic: %v\n%s", pv, stack))
				}
				continue
			}
			if herr != nil {
				res.Fail(c20Failure(c, env, "helper_error", "help", herr.Error()))
				continue
			}
			for _, e := range evs {
				m := e.(map[string]interface{})
				if corrupt != "" && !corrupted {
					corrupted = corruptC20(m, corrupt)
				}
				tw.Event(m)
				res.CountEval()
				res.Cover("event:" + m["ev"].(string))
			}
			res.Cover("via:" + c.Via)
			res.Cover(fmt.Sprintf("n:%d", len(uniq(c.Ord))))
			if distinct.Add(behav.JSON(c.Ord)+behav.JSON(c.Opk)+fmt.Sprint(c.R, c.Self, c.Via, c.Help)) && len(uniq(c.Ord)) > 1 {
				res.CountNontrivial()
			}
			if cn%997 == 0 {
				res.AddSample(c)
			}
			if c.Hist {
				res.Cover("history_observation")
			}
		}
	}
	// membership histories generated by TLC from spec/PlacementHist.tla
	if os.Getenv("VERIF_BEH") != "" && corrupt == "" {
		env.histGroups(behav.LoadEnv(), res, emitGroup)
		tw.NewChunk()
	}
	env.c20Cases(behav.Thorough(), emitGroup)
	res.Coverage["trace_files"] = tw.files
	res.Coverage["cases"] = tw.ncases
	res.Coverage["universe"] = env.Universe
}

// corruptC20 damages one recorded field (binding self-test: TLC must reject); it reports
// whether it changed something.
func corruptC20(m map[string]interface{}, what string) bool {
	switch what {
	case "ring":
		if r := m["ring"].([]string); m["ev"] == "same" && len(r) > 1 {
			r = append([]string(nil), r...)
			r[0], r[1] = r[1], r[0]
			m["ring"] = r
			return true
		}
	case "owner":
		if m["ev"] == "own" {
			g := m["g"].([]c20Group)
			if len(g) > 1 && len(g[0].Ps) > 1 {
				p := g[0].Ps[len(g[0].Ps)-1]
				g[0].Ps = g[0].Ps[:len(g[0].Ps)-1]
				g[1].Ps = append(g[1].Ps, p)
				return true
			}
		}
	case "owns":
		if m["ev"] == "help" {
			q := m["q"].([]*c20Answers)
			if len(q) > 0 && len(q[0].Own) > 0 {
				q[0].Own = q[0].Own[1:]
				return true
			}
		}
	case "digest":
		if m["ev"] == "same" {
			m["gd"] = "0000"
			return true
		}
	}
	return false
}
