package clusterb

import (
	"context"
	"fmt"
	"math/rand"
	"os"
	"path/filepath"
	"sort"
	"testing"
	"time"

	"github.com/pilosa/pilosa"
	"github.com/pilosa/pilosa/roaring"
	"github.com/pilosa/pilosa/test"

	"verif/harness/behav"
)

// modHasher places partition p on ring position p mod n (as the repository's test hasher).
type modHasher struct{}

func (modHasher) Hash(key uint64, n int) int {
	if n <= 0 {
		return -1
	}
	return int(key % uint64(n))
}

// c21Case is one configuration: a cluster, one node added or removed, and what is asked.
type c21Case struct {
	Kind   string   `json:"kind"` // "plan" | "job" | "clean"
	Seed   int64    `json:"seed"`
	Old    []string `json:"old"` // members before, in join order
	Act    string   `json:"act"` // "add" | "remove"
	Node   string   `json:"node"`
	R      int      `json:"r"`
	Hasher string   `json:"hasher"` // "jump" | "mod"
	// plan: shards with data; the index is named after the shard set
	Shards []uint64 `json:"shards,omitempty"`
	Index  string   `json:"index,omitempty"`
	// job: which fixture holder (0: no index, 1: one index, 2: two indexes)
	Holder int `json:"holder,omitempty"`
	// clean: local node, path ("state": RESIZING -> NORMAL; "direct": CleanHolder), the
	// shards that have fragments before
	Self string   `json:"self,omitempty"`
	Via  string   `json:"via,omitempty"`
	Have []uint64 `json:"have,omitempty"`
	// scenario: real servers: N0 nodes node0.. (node0 coordinator), then the steps
	N0    int        `json:"n0,omitempty"`
	Steps []realStep `json:"steps,omitempty"`
}

// realStep is one resize of a scenario on real servers.
type realStep struct {
	Act  string `json:"act"`  // "add" | "remove"
	Node string `json:"node"` // node id
}

type c21Env struct {
	seed     int64
	universe []string
	hosts    map[string]string
	dir      string
	planH    *pilosa.Holder
	planIdx  map[string]*pilosa.Index
	jobH     map[int]*pilosa.Holder
	cleanH   *pilosa.Holder
}

var c21Views = []string{"standard", "standard_2019"}
var c21Fields = []string{"f0", "f1"}

func newC21Env(seed int64, dir string) *c21Env {
	rng := rand.New(rand.NewSource(seed*7919 + 21))
	ids := append([]string(nil), c20IDPool...)
	rng.Shuffle(len(ids), func(a, b int) { ids[a], ids[b] = ids[b], ids[a] })
	u := ids[:7]
	sort.Strings(u)
	env := &c21Env{seed: seed, universe: u, hosts: map[string]string{}, dir: dir, planIdx: map[string]*pilosa.Index{}, jobH: map[int]*pilosa.Holder{}}
	for k, id := range u {
		env.hosts[id] = fmt.Sprintf("host%02d", 50-k)
	}
	return env
}

func (env *c21Env) node(id string) *pilosa.Node { return pilosa.VerifClusterNode(id, env.hosts[id]) }

func (env *c21Env) close() {
	for _, h := range []*pilosa.Holder{env.planH, env.cleanH, env.jobH[0], env.jobH[1], env.jobH[2]} {
		if h != nil {
			h.Close()
		}
	}
}

func openHolder(path string) *pilosa.Holder {
	h := pilosa.NewHolder()
	h.Path = path
	if err := h.Open(); err != nil {
		panic(err)
	}
	return h
}

// schemaIndex creates an index with the given fields x views whose shards with data are
// `shards`: views exist, availability is recorded, no fragment is needed for planning.
func schemaIndex(h *pilosa.Holder, name string, fields, views []string, shards []uint64) *pilosa.Index {
	idx, err := h.CreateIndexIfNotExists(name, pilosa.IndexOptions{})
	if err != nil {
		panic(err)
	}
	for _, fn := range fields {
		f, err := idx.CreateFieldIfNotExists(fn, pilosa.OptFieldTypeTime(pilosa.TimeQuantum("Y")))
		if err != nil {
			panic(err)
		}
		for _, v := range views {
			if err := pilosa.VerifClusterCreateView(f, v); err != nil {
				panic(err)
			}
		}
		if err := f.AddRemoteAvailableShards(roaring.NewBitmap(shards...)); err != nil {
			panic(err)
		}
	}
	return idx
}

func shardKey(shards []uint64) string {
	m := 0
	for _, s := range shards {
		m |= 1 << s
	}
	return fmt.Sprintf("p%d", m)
}

func (env *c21Env) planIndex(name string, shards []uint64) *pilosa.Index {
	if env.planH == nil {
		env.planH = openHolder(filepath.Join(env.dir, "planh"))
	}
	if idx := env.planIdx[name]; idx != nil {
		return idx
	}
	idx := schemaIndex(env.planH, name, c21Fields, c21Views, shards)
	env.planIdx[name] = idx
	return idx
}

func (env *c21Env) jobHolder(k int) *pilosa.Holder {
	if h := env.jobH[k]; h != nil {
		return h
	}
	h := openHolder(filepath.Join(env.dir, fmt.Sprintf("jobh%d", k)))
	switch k {
	case 1:
		schemaIndex(h, "ja", c21Fields, c21Views, []uint64{0, 1, 2, 3, 4, 5, 6, 7})
	case 2:
		schemaIndex(h, "jb", c21Fields, c21Views, []uint64{1, 4, 6})
		schemaIndex(h, "jc", []string{"g"}, []string{"standard"}, []uint64{0, 2, 3, 7})
	}
	env.jobH[k] = h
	return h
}

func (env *c21Env) hasher(name string) pilosa.Hasher {
	if name == "mod" {
		return modHasher{}
	}
	return nil
}

// clusters builds the cluster before the action and the one after it.
func (env *c21Env) clusters(c *c21Case, h *pilosa.Holder) (from, to *pilosa.VerifCluster) {
	from = pilosa.VerifClusterNew(pilosa.VerifClusterOptions{ReplicaN: c.R, Hasher: env.hasher(c.Hasher), Holder: h})
	for _, id := range c.Old {
		from.JoinBasic(env.node(id))
	}
	to = from.Clone()
	if c.Act == "add" {
		to.JoinBasic(env.node(c.Node))
	} else {
		to.LeaveBasic(c.Node)
	}
	return from, to
}

type c21Group struct {
	N string          `json:"n"`
	I int             `json:"i,omitempty"`
	S uint64          `json:"s"`
	E [][]interface{} `json:"e"`
}

type c21IndexRec struct {
	Name   string     `json:"name"`
	FV     [][]string `json:"fv"`
	Shards []uint64   `json:"shards"`
	OO     [][]string `json:"oo"`
	NO     [][]string `json:"no"`
}

func indexRec(idx *pilosa.Index, from, to *pilosa.VerifCluster) *c21IndexRec {
	rec := &c21IndexRec{Name: idx.Name(), FV: [][]string{}, Shards: []uint64{}, OO: [][]string{}, NO: [][]string{}}
	fields := idx.Fields()
	sort.Slice(fields, func(a, b int) bool { return fields[a].Name() < fields[b].Name() })
	for _, f := range fields {
		vs := pilosa.VerifClusterFieldViews(f)
		sort.Strings(vs)
		for _, v := range vs {
			rec.FV = append(rec.FV, []string{f.Name(), v})
		}
	}
	for _, s := range idx.AvailableShards().Slice() {
		rec.Shards = append(rec.Shards, s)
		rec.OO = append(rec.OO, nonNil(from.ShardNodes(idx.Name(), s)))
		rec.NO = append(rec.NO, nonNil(to.ShardNodes(idx.Name(), s)))
	}
	return rec
}

func nonNil(l []string) []string {
	if l == nil {
		return []string{}
	}
	return l
}

// groups turns resize sources (by target node) into plan groups of one index record.
func planGroups(sources map[string][]*pilosa.ResizeSource, recs []*c21IndexRec) []c21Group {
	type key struct {
		n string
		i int
		s uint64
	}
	idx := map[key]int{}
	out := []c21Group{}
	targets := make([]string, 0, len(sources))
	for n := range sources {
		targets = append(targets, n)
	}
	sort.Strings(targets)
	for _, n := range targets {
		for _, src := range sources[n] {
			ri := 0
			for k, r := range recs {
				if r.Name == src.Index {
					ri = k + 1
				}
			}
			fv := 0
			if ri > 0 {
				for k, p := range recs[ri-1].FV {
					if p[0] == src.Field && p[1] == src.View {
						fv = k + 1
					}
				}
			}
			sn := ""
			if src.Node != nil {
				sn = src.Node.ID
			}
			k := key{n, ri, src.Shard}
			g, ok := idx[k]
			if !ok {
				g = len(out)
				idx[k] = g
				out = append(out, c21Group{N: n, I: ri, S: src.Shard, E: [][]interface{}{}})
			}
			out[g].E = append(out[g].E, []interface{}{fv, sn})
		}
	}
	return out
}

// events runs one case on the real code.
func (env *c21Env) events(c *c21Case, cn int) map[string]interface{} {
	switch c.Kind {
	case "plan":
		idx := env.planIndex(c.Index, c.Shards)
		from, to := env.clusters(c, env.planH)
		rec := indexRec(idx, from, to)
		sources, err := from.FragSources(to, idx)
		ev := map[string]interface{}{"ev": "plan", "c": cn, "act": c.Act, "node": c.Node, "old": from.NodeIDs(), "r": c.R,
			"fv": rec.FV, "shards": rec.Shards, "oo": rec.OO, "no": rec.NO, "refused": err != nil, "p": planGroups(sources, []*c21IndexRec{rec})}
		for k := range ev["p"].([]c21Group) {
			ev["p"].([]c21Group)[k].I = 0
		}
		return ev
	case "job":
		h := env.jobHolder(c.Holder)
		from, to := env.clusters(c, h)
		from.SetSelf(c.Old[0])
		from.SetCoordinator(c.Old[0])
		recs := []*c21IndexRec{}
		idxs := h.Indexes()
		sort.Slice(idxs, func(a, b int) bool { return idxs[a].Name() < idxs[b].Name() })
		for _, idx := range idxs {
			recs = append(recs, indexRec(idx, from, to))
		}
		var n *pilosa.Node
		action := pilosa.VerifClusterActionAdd
		if c.Act == "add" {
			n = env.node(c.Node)
		} else {
			action = pilosa.VerifClusterActionRemove
			n = from.NodeByID(c.Node)
		}
		sources, done, err := from.ResizeJob(action, n)
		if done == nil {
			done = map[string]bool{}
		}
		return map[string]interface{}{"ev": "job", "c": cn, "act": c.Act, "node": c.Node, "old": from.NodeIDs(), "r": c.R,
			"ix": recs, "refused": err != nil, "p": planGroups(sources, recs), "done": done}
	case "clean":
		h := env.cleanHolder()
		// every shard of c.Have has all its fragments before the cleanup
		idx := h.Index("c")
		for _, fn := range c21Fields {
			f := idx.Field(fn)
			for _, v := range c21Views {
				for _, s := range c.Have {
					if err := pilosa.VerifClusterCreateFragment(f, v, s); err != nil {
						panic(err)
					}
				}
			}
		}
		from, to := env.clusters(c, h)
		to.SetSelf(c.Self)
		self := to.NodeByID(c.Self)
		shards := idx.AvailableShards().Slice()
		own := [][]string{}
		for _, s := range shards {
			own = append(own, nonNil(to.ShardNodes("c", s)))
		}
		before := fragList(h)
		ids := to.NodeIDs()
		switch c.Via {
		case "state":
			to.ForceState("RESIZING")
			to.SetState("NORMAL")
		case "merge":
			// the follower's path: this node still has the old member list and is RESIZING;
			// the coordinator's final ClusterStatus (new members, NORMAL) arrives
			coord := ""
			for _, id := range ids {
				if id != c.Self {
					coord = id
					break
				}
			}
			d, err := os.MkdirTemp(env.dir, "topo-")
			if err != nil {
				panic(err)
			}
			from.SetPath(d)
			from.SetSelf(c.Self)
			from.SetCoordinator(coord)
			from.ForceState("RESIZING")
			var nodes []*pilosa.Node
			for _, id := range ids {
				n := env.node(id)
				n.IsCoordinator = id == coord
				nodes = append(nodes, n)
			}
			if err := from.MergeClusterStatus("NORMAL", nodes); err != nil {
				panic(err)
			}
			os.RemoveAll(d)
			ids = from.NodeIDs()
		default:
			if err := to.CleanHolder(self, h); err != nil {
				panic(err)
			}
		}
		after := fragList(h)
		return map[string]interface{}{"ev": "clean", "c": cn, "ids": ids, "r": c.R, "self": c.Self, "via": c.Via,
			"ix": []interface{}{map[string]interface{}{"name": "c", "shards": shards, "own": own}}, "before": before, "after": after}
	}
	panic("unknown kind " + c.Kind)
}

func (env *c21Env) cleanHolder() *pilosa.Holder {
	if env.cleanH == nil {
		env.cleanH = openHolder(filepath.Join(env.dir, "cleanh"))
		idx, err := env.cleanH.CreateIndexIfNotExists("c", pilosa.IndexOptions{})
		if err != nil {
			panic(err)
		}
		ts := time.Date(2019, 3, 4, 0, 0, 0, 0, time.UTC)
		for _, fn := range c21Fields {
			f, err := idx.CreateFieldIfNotExists(fn, pilosa.OptFieldTypeTime(pilosa.TimeQuantum("Y")))
			if err != nil {
				panic(err)
			}
			if _, err := f.SetBit(1, 3, &ts); err != nil { // real data in shard 0, both views
				panic(err)
			}
			// shards 6 and 7 have data somewhere in the cluster
			if err := f.AddRemoteAvailableShards(roaring.NewBitmap(6, 7)); err != nil {
				panic(err)
			}
		}
	}
	return env.cleanH
}

func fragList(h *pilosa.Holder) [][]interface{} {
	out := [][]interface{}{}
	frs := pilosa.VerifClusterFragments(h)["c"]
	sort.Slice(frs, func(a, b int) bool { return fmt.Sprint(frs[a]) < fmt.Sprint(frs[b]) })
	for _, f := range frs {
		out = append(out, []interface{}{1, f.Field, f.View, f.Shard})
	}
	return out
}

// realResize runs a completed resize on real servers: a one-node cluster with data in
// c.Have joins a second node (id c.Node) over gossip; when both are NORMAL again the
// fragments left on the first node are logged as a clean event. It returns skipped != ""
// when the servers did not get there in time (not a verdict, not inconclusive).
func realResize(t testing.TB, c *c21Case, cn int) (ev map[string]interface{}, skipped string) {
	// choose shards with data so that some stay on the first node and some move away
	// (the placement of a scratch cluster object is used only to choose inputs)
	probe := pilosa.VerifClusterNew(pilosa.VerifClusterOptions{ReplicaN: c.R})
	probe.JoinBasic(pilosa.VerifClusterNode("node0", "h0"))
	probe.JoinBasic(pilosa.VerifClusterNode(c.Node, "h1"))
	var stay, move []uint64
	for s := uint64(0); s < 64; s++ {
		if contains(probe.ShardNodes("c", s), "node0") {
			if len(stay) < 3 {
				stay = append(stay, s)
			}
		} else if len(move) < 3 {
			move = append(move, s)
		}
	}
	c.Have = append(append([]uint64{}, stay...), move...)
	sort.Slice(c.Have, func(a, b int) bool { return c.Have[a] < c.Have[b] })
	clus := test.MustNewCluster(t, 1)
	m0 := clus[0]
	m0.Config.Cluster.ReplicaN = c.R
	if err := m0.Start(); err != nil {
		return nil, "first node did not start: " + err.Error()
	}
	defer func() { m0.Close(); os.RemoveAll(m0.Config.DataDir) }()
	ctx := context.Background()
	if _, err := m0.API.CreateIndex(ctx, "c", pilosa.IndexOptions{}); err != nil {
		return nil, "create index: " + err.Error()
	}
	for _, fn := range c21Fields {
		if _, err := m0.API.CreateField(ctx, "c", fn, pilosa.OptFieldTypeTime(pilosa.TimeQuantum("Y"))); err != nil {
			return nil, "create field: " + err.Error()
		}
		for _, s := range c.Have {
			q := fmt.Sprintf("Set(%d, %s=1, 2019-03-04T00:00)", s*pilosa.ShardWidth+1, fn)
			if _, err := m0.API.Query(ctx, &pilosa.QueryRequest{Index: "c", Query: q}); err != nil {
				return nil, "set: " + err.Error()
			}
		}
	}
	h0 := pilosa.VerifClusterHolderOfAPI(m0.API)
	before := fragList(h0)
	m1 := test.NewCommandNode(false)
	if err := os.WriteFile(filepath.Join(m1.Config.DataDir, ".id"), []byte(c.Node), 0o600); err != nil {
		return nil, err.Error()
	}
	m1.Config.Gossip.Port = "0"
	m1.Config.Gossip.Seeds = []string{m0.GossipAddress()}
	m1.Config.Cluster.ReplicaN = c.R
	defer os.RemoveAll(m1.Config.DataDir)
	if err := m1.Start(); err != nil {
		return nil, "second node did not start: " + err.Error()
	}
	defer m1.Close()
	vc := pilosa.VerifClusterOfAPI(m0.API)
	deadline := time.Now().Add(40 * time.Second)
	for {
		if len(vc.NodeIDs()) == 2 && m0.API.State() == "NORMAL" && m1.API.State() == "NORMAL" {
			break
		}
		if time.Now().After(deadline) {
			return nil, fmt.Sprintf("resize not completed in 40s: members %v, states %s/%s", vc.NodeIDs(), m0.API.State(), m1.API.State())
		}
		time.Sleep(20 * time.Millisecond)
	}
	time.Sleep(100 * time.Millisecond) // the cleaner runs under the state change; let the follower settle
	idx := h0.Index("c")
	shards := idx.AvailableShards().Slice()
	own := [][]string{}
	for _, s := range shards {
		own = append(own, nonNil(vc.ShardNodes("c", s)))
	}
	after := fragList(h0)
	return map[string]interface{}{"ev": "clean", "c": cn, "ids": vc.NodeIDs(), "r": c.R, "self": m0.API.Node().ID, "via": "real",
		"ix": []interface{}{map[string]interface{}{"name": "c", "shards": shards, "own": own}}, "before": before, "after": after,
		"other": len(fragList(pilosa.VerifClusterHolderOfAPI(m1.API)))}, ""
}

// realScenario runs completed resizes on real in-process servers: c.N0 nodes with c.R
// replicas and data in c.Have (2 time fields x 2 views), then each step adds a node over
// gossip or removes one through the coordinator's API.RemoveNode. After every resize, when
// all remaining nodes are NORMAL with the new member list, one "resized" event per remaining
// node logs its fragments before and after, the fragments that existed anywhere before, and
// the owners by its own cluster object. skipped != "" when the servers did not get there in
// time (not a verdict).
func realScenario(t testing.TB, c *c21Case, cn int) (evs []map[string]interface{}, skipped string) {
	clus := test.MustNewCluster(t, c.N0)
	nodes := map[string]*test.Command{}
	var dirs []string
	defer func() {
		for _, m := range nodes {
			m.Close()
		}
		for _, d := range dirs {
			os.RemoveAll(d)
		}
	}()
	for k, m := range clus {
		m.Config.Cluster.ReplicaN = c.R
		dirs = append(dirs, m.Config.DataDir)
		nodes[fmt.Sprintf("node%d", k)] = m
	}
	if err := clus.Start(); err != nil {
		return nil, "cluster did not start: " + err.Error()
	}
	m0 := clus[0]
	settled := func(n int) string {
		deadline := time.Now().Add(45 * time.Second)
		for {
			ok := len(nodes) == n
			for _, m := range nodes {
				if m.API.State() != "NORMAL" || len(pilosa.VerifClusterOfAPI(m.API).NodeIDs()) != n {
					ok = false
				}
			}
			if ok {
				time.Sleep(150 * time.Millisecond) // cleanup runs under the state change; let followers finish
				return ""
			}
			if time.Now().After(deadline) {
				st := ""
				for id, m := range nodes {
					st += fmt.Sprintf(" %s:%s%v", id, m.API.State(), pilosa.VerifClusterOfAPI(m.API).NodeIDs())
				}
				return "resize not completed in 45s:" + st
			}
			time.Sleep(20 * time.Millisecond)
		}
	}
	if why := settled(c.N0); why != "" {
		return nil, why
	}
	ctx := context.Background()
	if _, err := m0.API.CreateIndex(ctx, "c", pilosa.IndexOptions{}); err != nil {
		return nil, "create index: " + err.Error()
	}
	for _, fn := range c21Fields {
		if _, err := m0.API.CreateField(ctx, "c", fn, pilosa.OptFieldTypeTime(pilosa.TimeQuantum("Y"))); err != nil {
			return nil, "create field: " + err.Error()
		}
		for _, s := range c.Have {
			q := fmt.Sprintf("Set(%d, %s=1, 2019-03-04T00:00)", s*pilosa.ShardWidth+1, fn)
			if _, err := m0.API.Query(ctx, &pilosa.QueryRequest{Index: "c", Query: q}); err != nil {
				return nil, "set: " + err.Error()
			}
		}
	}
	key := func(f []interface{}) string { return fmt.Sprint(f...) }
	for si, st := range c.Steps {
		before := map[string][][]interface{}{}
		all := [][]interface{}{}
		seen := map[string]bool{}
		for id, m := range nodes {
			before[id] = fragList(pilosa.VerifClusterHolderOfAPI(m.API))
			for _, f := range before[id] {
				if !seen[key(f)] {
					seen[key(f)] = true
					all = append(all, f)
				}
			}
		}
		sort.Slice(all, func(a, b int) bool { return key(all[a]) < key(all[b]) })
		if st.Act == "add" {
			m := test.NewCommandNode(false)
			dirs = append(dirs, m.Config.DataDir)
			if err := os.WriteFile(filepath.Join(m.Config.DataDir, ".id"), []byte(st.Node), 0o600); err != nil {
				return evs, err.Error()
			}
			m.Config.Gossip.Port = "0"
			m.Config.Gossip.Seeds = []string{m0.GossipAddress()}
			m.Config.Cluster.ReplicaN = c.R
			if err := m.Start(); err != nil {
				return evs, "joining node did not start: " + err.Error()
			}
			nodes[st.Node] = m
			before[st.Node] = [][]interface{}{}
		} else {
			gone := nodes[st.Node]
			if _, err := m0.API.RemoveNode(st.Node); err != nil {
				return evs, "RemoveNode: " + err.Error()
			}
			delete(nodes, st.Node)
			defer gone.Close()
		}
		if why := settled(len(nodes)); why != "" {
			return evs, why
		}
		ids := make([]string, 0, len(nodes))
		for id := range nodes {
			ids = append(ids, id)
		}
		sort.Strings(ids)
		for _, id := range ids {
			m := nodes[id]
			vc := pilosa.VerifClusterOfAPI(m.API)
			h := pilosa.VerifClusterHolderOfAPI(m.API)
			shards := []uint64{}
			own := [][]string{}
			if idx := h.Index("c"); idx != nil {
				shards = idx.AvailableShards().Slice()
			}
			for _, s := range shards {
				own = append(own, nonNil(vc.ShardNodes("c", s)))
			}
			evs = append(evs, map[string]interface{}{"ev": "resized", "c": cn, "step": si, "act": st.Act, "node": st.Node,
				"ids": vc.NodeIDs(), "r": c.R, "self": id,
				"ix":     []interface{}{map[string]interface{}{"name": "c", "shards": shards, "own": own}},
				"before": before[id], "after": fragList(h), "all": all})
		}
	}
	return evs, ""
}

func subsetOf(mask int) []uint64 {
	var s []uint64
	for b := 0; b < 8; b++ {
		if mask&(1<<uint(b)) != 0 {
			s = append(s, uint64(b))
		}
	}
	return s
}

// c21Cases enumerates the configurations.
func (env *c21Env) c21Cases(thorough bool, emit func(*c21Case)) {
	rng := rand.New(rand.NewSource(env.seed*15485863 + 3))
	nSub, jobMod, combo, ac := 1, 4, 0, 0
	if thorough {
		nSub, jobMod = 5, 1
	}
	full := []uint64{0, 1, 2, 3, 4, 5, 6, 7}
	exhaustiveDone := map[string]bool{}
	seenClean := map[string]bool{}
	for _, set := range subsetsBySize(len(env.universe), 6) {
		old := pick(env.universe, set)
		type actn struct{ act, node string }
		var acts []actn
		for _, id := range old {
			acts = append(acts, actn{"remove", id})
		}
		if len(old) <= 5 {
			for _, id := range env.universe {
				if !contains(old, id) {
					acts = append(acts, actn{"add", id})
				}
			}
		}
		for _, a := range acts {
			ac++
			for r := 1; r <= 4; r++ {
				combo = ac + r // varies the replica count of what is selected below
				hasher := "jump"
				if (ac+2*r)%4 == 0 {
					hasher = "mod"
				}
				ord := append([]string(nil), old...)
				rng.Shuffle(len(ord), func(x, y int) { ord[x], ord[y] = ord[y], ord[x] })
				base := c21Case{Seed: env.seed, Old: ord, Act: a.act, Node: a.node, R: r, Hasher: hasher}
				plan := func(shards []uint64) {
					c := base
					c.Kind, c.Shards, c.Index = "plan", shards, shardKey(shards)
					emit(&c)
				}
				plan(full)
				for k := 0; k < nSub; k++ {
					if m := 1 + rng.Intn(254); m != 255 {
						plan(subsetOf(m))
					}
				}
				// one configuration per (size, action, replicas): every shard set
				ek := fmt.Sprint(len(old), a.act, r)
				if thorough && !exhaustiveDone[ek] && rng.Intn(3) == 0 {
					exhaustiveDone[ek] = true
					for m := 1; m < 255; m++ {
						plan(subsetOf(m))
					}
				}
				if combo%jobMod == 0 {
					c := base
					c.Kind, c.Holder = "job", 1+(combo/jobMod)%2
					if combo%(jobMod*16) == 0 {
						c.Holder = 0
					}
					emit(&c)
				}
				// cleanup on the members of the resulting cluster
				var newIDs []string
				for _, id := range old {
					if !(a.act == "remove" && id == a.node) {
						newIDs = append(newIDs, id)
					}
				}
				if a.act == "add" {
					newIDs = append(newIDs, a.node)
				}
				sort.Strings(newIDs)
				// the follower's path (mergeClusterStatus) depends on the action, not only on the
				// resulting cluster: a surviving non-coordinator learns the end of the resize
				if len(newIDs) >= 2 && (thorough || (ac+r)%6 == 0 || (a.act == "remove" && r >= 2 && (ac+r)%4 == 1)) {
					survivors := newIDs
					if a.act == "add" { // the joiner has no old member list of its own here
						survivors = nil
						for _, id := range newIDs {
							if id != a.node {
								survivors = append(survivors, id)
							}
						}
					}
					if !thorough && len(survivors) > 0 {
						survivors = []string{survivors[rng.Intn(len(survivors))]}
					}
					for _, self := range survivors {
						c := base
						c.Kind, c.Self, c.Via = "clean", self, "merge"
						c.Have = subsetOf(63)
						emit(&c)
					}
				}
				ck := fmt.Sprint(newIDs, r, hasher)
				if len(newIDs) > 0 && !seenClean[ck] {
					seenClean[ck] = true
					selves := newIDs
					if !thorough {
						selves = []string{newIDs[rng.Intn(len(newIDs))]}
					}
					for k, self := range selves {
						c := base
						c.Kind, c.Self, c.Via = "clean", self, "state"
						if (combo+k)%3 == 0 {
							c.Via = "direct"
						}
						c.Have = subsetOf(63) // fragments of shards 0..5 exist before every cleanup (replayable)
						emit(&c)
					}
				}
			}
		}
	}
}

func c21Failure(c *c21Case, symptom, detail string) behav.Failure {
	n := len(c.Old)
	if n == 0 {
		n = c.N0
	}
	return behav.Failure{Match: map[string]string{"symptom": symptom, "kind": c.Kind, "act": c.Act, "n": fmt.Sprint(n),
		"r": fmt.Sprint(c.R), "hasher": c.Hasher}, Detail: detail, Replay: c}
}

// TestC21 records plans, jobs and cleanups of the real code. VERIF_TRACE_OUT: trace base.
func TestC21(t *testing.T) {
	res := behav.NewResult()
	defer func() {
		if err := res.Write(); err != nil {
			t.Fatal(err)
		}
	}()
	scratch := os.Getenv("VERIF_SCRATCH")
	if scratch == "" {
		scratch = os.TempDir()
	}
	dir, err := os.MkdirTemp(scratch, "c21-")
	if err != nil {
		t.Fatal(err)
	}
	defer os.RemoveAll(dir)

	run := func(env *c21Env, c *c21Case, cn int) (ev map[string]interface{}, fail *behav.Failure, harness string) {
		pv, stack := behav.Protect(func() {
			if c.Kind == "real" {
				var skipped string
				if ev, skipped = realResize(t, c, cn); skipped != "" {
					res.Cover("real_resize_skipped")
					res.Coverage["real_resize_skip_reason"] = skipped
				}
				return
			}
			ev = env.events(c, cn)
		})
		if pv != nil {
			if behav.PanicInCode(stack) {
				f := c21Failure(c, "panic", fmt.Sprintf("panic: %v\n%s", pv, tail(stack, 1800)))
				return nil, &f, ""
			}
			return nil, nil, fmt.Sprintf("harness panic: %v\n%s", pv, stack)
		}
		return ev, nil, ""
	}

	if raw, ok := behav.LoadReplay(); ok {
		var c c21Case
		if err := jsonUnmarshal(raw, &c); err != nil {
			t.Fatal(err)
		}
		env := newC21Env(c.Seed, dir)
		defer env.close()
		res.Evaluations = 1
		if c.Kind == "scenario" {
			var evs []map[string]interface{}
			var skipped string
			pv, stack := behav.Protect(func() { evs, skipped = realScenario(t, &c, 0) })
			if pv != nil && behav.PanicInCode(stack) {
				res.Fail(c21Failure(&c, "panic", fmt.Sprintf("panic: %v\n%s", pv, tail(stack, 1800))))
				return
			}
			if pv != nil || len(evs) == 0 {
				res.SetInconclusive(fmt.Sprintf("replay: the real scenario did not complete: %v %s", pv, skipped))
				return
			}
			var lines [][]byte
			for _, ev := range evs {
				lines = append(lines, mustJSON(ev))
			}
			ok, prefix, out, err := tlcValidate("TraceResizePlanC21", lines)
			if err != nil {
				res.SetInconclusive("trace validation: " + err.Error() + "\n" + tail(out, 1500))
				return
			}
			if !ok {
				res.Fail(c21Failure(&c, "trace_rejected", "rejected by TraceResizePlanC21: "+tail(string(lines[minInt(prefix, len(lines)-1)]), 1500)))
			}
			return
		}
		ev, fail, harness := run(env, &c, 0)
		if harness != "" {
			res.SetInconclusive(harness)
			return
		}
		if fail != nil {
			res.Fail(*fail)
			return
		}
		if ev == nil {
			res.SetInconclusive("replay: the real resize did not complete")
			return
		}
		line := mustJSON(ev)
		ok, _, out, err := tlcValidate("TraceResizePlanC21", [][]byte{line})
		if err != nil {
			res.SetInconclusive("trace validation: " + err.Error() + "\n" + tail(out, 1500))
			return
		}
		if !ok {
			f := c21Failure(&c, "trace_rejected", "rejected by TraceResizePlanC21: "+tail(string(line), 1500))
			res.Fail(f)
		}
		return
	}

	base := os.Getenv("VERIF_TRACE_OUT")
	if base == "" {
		base = filepath.Join(dir, "trace")
	}
	env := newC21Env(behav.Seed(), dir)
	defer env.close()
	tw, err := newTraceWriter(base, behav.EnvInt("VERIF_CHUNK_BYTES", 7<<20))
	if err != nil {
		t.Fatal(err)
	}
	defer tw.Close()
	corrupt := os.Getenv("VERIF_CORRUPT")
	corrupted := false
	maxCases := behav.EnvInt("VERIF_MAXCASES", 1<<30)
	var distinct behav.Distinct
	n := 0
	env.c21Cases(behav.Thorough(), func(c *c21Case) {
		if n >= maxCases {
			return
		}
		n++
		tw.Break()
		cn := tw.Case(c)
		ev, fail, harness := run(env, c, cn)
		if harness != "" {
			res.SetInconclusive(harness)
			return
		}
		if fail != nil {
			res.Fail(*fail)
			return
		}
		if corrupt != "" && !corrupted {
			corrupted = corruptC21(ev, corrupt)
		}
		tw.Event(ev)
		res.CountEval()
		res.Cover("event:" + c.Kind)
		res.Cover(fmt.Sprintf("%s:n%d:r%d", c.Act, len(c.Old), c.R))
		if r, ok := ev["refused"].(bool); ok && r {
			res.Cover("refused:" + c.Kind)
		}
		if c.Kind == "clean" && len(ev["after"].([][]interface{})) < len(ev["before"].([][]interface{})) {
			res.Cover("clean:removed_some")
		}
		if c.Kind == "clean" {
			res.Cover("clean:via_" + c.Via)
		}
		if p, ok := ev["p"].([]c21Group); ok && len(p) > 0 {
			if distinct.Add(behav.JSON(c)) {
				res.CountNontrivial()
			}
		}
		if cn%1499 == 0 {
			res.AddSample(c)
		}
	})
	// completed resizes on real servers (gossip join), cleanup observed on the first node
	reals := []c21Case{{Kind: "real", Seed: behav.Seed(), Old: []string{"node0"}, Act: "add", Node: "aaa", R: 1, Hasher: "jump", Have: []uint64{0, 1, 2, 3, 4, 5}}}
	if behav.Thorough() {
		reals = append(reals,
			c21Case{Kind: "real", Seed: behav.Seed(), Old: []string{"node0"}, Act: "add", Node: "zzz", R: 1, Hasher: "jump", Have: []uint64{0, 1, 2, 3, 5, 7}},
			c21Case{Kind: "real", Seed: behav.Seed(), Old: []string{"node0"}, Act: "add", Node: "aaa", R: 2, Hasher: "jump", Have: []uint64{0, 2, 4, 6}})
	}
	if maxCases == 1<<30 || os.Getenv("VERIF_REAL") != "" {
		for k := range reals {
			c := &reals[k]
			cn := tw.Case(c)
			ev, fail, harness := run(env, c, cn)
			if harness != "" {
				res.Cover("real_resize_skipped")
				res.Coverage["real_resize_skip_reason"] = tail(harness, 300)
				continue
			}
			if fail != nil {
				res.Fail(*fail)
				continue
			}
			if ev == nil {
				continue
			}
			tw.Event(ev)
			res.CountEval()
			res.Cover("event:clean_real")
			if len(ev["after"].([][]interface{})) < len(ev["before"].([][]interface{})) {
				res.Cover("clean_real:removed_some")
			}
		}
	}
	// completed resizes on real multi-node clusters, including node removal
	scen := []c21Case{
		{Kind: "scenario", Seed: behav.Seed(), N0: 3, R: 2, Have: []uint64{0, 1, 2, 3, 4, 5}, Steps: []realStep{{"remove", "node2"}}},
		{Kind: "scenario", Seed: behav.Seed(), N0: 2, R: 2, Have: []uint64{0, 1, 2, 3, 4, 5}, Steps: []realStep{{"add", "node1b"}, {"remove", "node1"}}},
	}
	if behav.Thorough() {
		scen = append(scen,
			c21Case{Kind: "scenario", Seed: behav.Seed(), N0: 4, R: 2, Have: []uint64{0, 1, 2, 3, 4, 5, 6, 7}, Steps: []realStep{{"remove", "node1"}, {"remove", "node3"}}},
			c21Case{Kind: "scenario", Seed: behav.Seed(), N0: 3, R: 3, Have: []uint64{0, 2, 5}, Steps: []realStep{{"remove", "node1"}, {"add", "aaa"}}},
			c21Case{Kind: "scenario", Seed: behav.Seed(), N0: 4, R: 3, Have: []uint64{1, 3, 4, 6}, Steps: []realStep{{"remove", "node2"}}})
	}
	if maxCases == 1<<30 || os.Getenv("VERIF_REAL") != "" {
		tw.NewChunk()
		for k := range scen {
			c := &scen[k]
			c.Act, c.Node, c.Hasher = c.Steps[0].Act, c.Steps[0].Node, "jump"
			cn := tw.Case(c)
			var evs []map[string]interface{}
			var skipped string
			pv, stack := behav.Protect(func() { evs, skipped = realScenario(t, c, cn) })
			if pv != nil {
				if behav.PanicInCode(stack) {
					res.Fail(c21Failure(c, "panic", fmt.Sprintf("panic: %v\n%s", pv, tail(stack, 1800))))
				} else {
					skipped = fmt.Sprintf("harness panic: %v", pv)
				}
			}
			if skipped != "" {
				res.Cover("real_scenario_incomplete")
				res.Coverage["real_scenario_skip_reason"] = tail(skipped, 400)
			}
			for _, ev := range evs {
				tw.Event(ev)
				res.CountEval()
				res.Cover("event:resized_" + ev["act"].(string))
				if len(ev["after"].([][]interface{})) > len(ev["before"].([][]interface{})) {
					res.Cover("resized:received_some")
				}
			}
		}
	}
	res.Coverage["trace_files"] = tw.files
	res.Coverage["cases"] = tw.ncases
	res.Coverage["universe"] = env.universe
}

// corruptC21 damages one recorded field (binding self-test).
func corruptC21(ev map[string]interface{}, what string) bool {
	switch what {
	case "source": // a source that did not own the shard
		if p, ok := ev["p"].([]c21Group); ok && ev["ev"] == "plan" && len(p) > 0 && len(p[0].E) > 0 {
			p[0].E[0][1] = "nobody"
			return true
		}
	case "missing": // drop one entry of the plan
		if p, ok := ev["p"].([]c21Group); ok && ev["ev"] == "plan" && len(p) > 0 && len(p[0].E) > 0 {
			p[0].E = p[0].E[1:]
			return true
		}
	case "refused":
		if p, ok := ev["p"].([]c21Group); ok && ev["ev"] == "plan" && len(p) > 0 && ev["refused"] == false {
			ev["refused"] = true
			ev["p"] = []c21Group{}
			return true
		}
	}
	return false
}
