// Package clusterb binds the cluster-level specifications (Placement, ResizePlanC21,
// ApiGate) to the real code by trace validation (binding B): the drivers enumerate
// configurations, log what the real code computed as ndjson events, and TLC validates
// every event against the specification (checks/c20.py, c21.py, c23.py). In replay mode
// a driver re-executes one case, writes its events and runs TLC itself.
package clusterb

import (
	"bufio"
	"encoding/json"
	"fmt"
	"os"
	"os/exec"
	"path/filepath"
	"sort"
	"strings"
)

// traceWriter writes events to numbered chunk files <base>-NNN.ndjson, each starting
// with the same header lines, and the replay payload of every case to <base>.cases.
type traceWriter struct {
	base     string
	header   [][]byte
	maxBytes int
	chunk    int
	f        *os.File
	w        *bufio.Writer
	bytes    int
	cases    *os.File
	cw       *bufio.Writer
	ncases   int
	nevents  int
	files    []string
}

func newTraceWriter(base string, maxBytes int) (*traceWriter, error) {
	c, err := os.Create(base + ".cases")
	if err != nil {
		return nil, err
	}
	return &traceWriter{base: base, maxBytes: maxBytes, cases: c, cw: bufio.NewWriterSize(c, 1<<20)}, nil
}

func mustJSON(v interface{}) []byte {
	b, err := json.Marshal(v)
	if err != nil {
		panic(err)
	}
	return b
}

// Header adds a header line (must be called before the first event).
func (t *traceWriter) Header(v interface{}) { t.header = append(t.header, mustJSON(v)) }

func (t *traceWriter) open() {
	name := fmt.Sprintf("%s-%03d.ndjson", t.base, t.chunk)
	f, err := os.Create(name)
	if err != nil {
		panic(err)
	}
	t.f, t.w, t.bytes = f, bufio.NewWriterSize(f, 1<<20), 0
	t.files = append(t.files, name)
	for _, h := range t.header {
		t.w.Write(h)
		t.w.WriteByte('\n')
	}
}

// Break allows a new chunk to start here (events between two Breaks stay together).
func (t *traceWriter) Break() {
	if t.f != nil && t.bytes >= t.maxBytes {
		t.w.Flush()
		t.f.Close()
		t.f = nil
		t.chunk++
	}
}

// NewChunk starts a new chunk file (independent TLC verdict) at the next event.
func (t *traceWriter) NewChunk() {
	if t.f != nil {
		t.w.Flush()
		t.f.Close()
		t.f = nil
		t.chunk++
	}
}

// Event appends one event line.
func (t *traceWriter) Event(v interface{}) {
	if t.f == nil {
		t.open()
	}
	b := mustJSON(v)
	t.w.Write(b)
	t.w.WriteByte('\n')
	t.bytes += len(b) + 1
	t.nevents++
}

// Case stores a replay payload and returns its number (the "c" field of its events).
func (t *traceWriter) Case(v interface{}) int {
	t.cw.Write(mustJSON(v))
	t.cw.WriteByte('\n')
	t.ncases++
	return t.ncases - 1
}

func (t *traceWriter) Close() {
	if t.f != nil {
		t.w.Flush()
		t.f.Close()
		t.f = nil
	}
	t.cw.Flush()
	t.cases.Close()
}

// tlcValidate runs TLC on module/module.cfg with the given trace lines; it returns
// whether the trace was accepted and, if not, the number of accepted events.
func tlcValidate(module string, lines [][]byte) (accepted bool, prefix int, out string, err error) {
	specdir := os.Getenv("VERIF_SPECDIR")
	if specdir == "" {
		specdir = "/verif/spec"
	}
	work, err := os.MkdirTemp(os.Getenv("VERIF_SCRATCH"), "clustertlc-")
	if err != nil {
		return false, 0, "", err
	}
	defer os.RemoveAll(work)
	files, _ := filepath.Glob(filepath.Join(specdir, "*.tla"))
	for _, f := range append(files, filepath.Join(specdir, module+".cfg")) {
		b, e := os.ReadFile(f)
		if e != nil {
			return false, 0, "", e
		}
		if e := os.WriteFile(filepath.Join(work, filepath.Base(f)), b, 0o644); e != nil {
			return false, 0, "", e
		}
	}
	var sb strings.Builder
	for _, l := range lines {
		sb.Write(l)
		sb.WriteByte('\n')
	}
	if e := os.WriteFile(filepath.Join(work, "trace.ndjson"), []byte(sb.String()), 0o644); e != nil {
		return false, 0, "", e
	}
	cmd := exec.Command("timeout", "300", "tlc", "-workers", "1", "-metadir", filepath.Join(work, "meta"),
		"-noGenerateSpecTE", "-config", module+".cfg", module+".tla")
	cmd.Dir = work
	cmd.Env = append(os.Environ(), "JAVA_TOOL_OPTIONS=-Xss64m")
	b, _ := cmd.CombinedOutput()
	out = string(b)
	if strings.Contains(out, "TRACE-ACCEPTED") {
		return true, len(lines), out, nil
	}
	if i := strings.Index(out, "TRACE-REJECTED"); i >= 0 {
		fmt.Sscanf(out[i:], "TRACE-REJECTED %d", &prefix)
		return false, prefix, out, nil
	}
	return false, 0, out, fmt.Errorf("TLC gave no verdict on the trace")
}

func tail(s string, n int) string {
	if len(s) > n {
		return s[len(s)-n:]
	}
	return s
}

// ---- small combinatorics

// subsetsBySize returns all non-empty subsets of 0..n-1 (as ascending index lists) with
// at most maxSize elements, ordered by size then lexicographically.
func subsetsBySize(n, maxSize int) [][]int {
	var out [][]int
	for mask := 1; mask < 1<<uint(n); mask++ {
		var s []int
		for b := 0; b < n; b++ {
			if mask&(1<<uint(b)) != 0 {
				s = append(s, b)
			}
		}
		if len(s) <= maxSize {
			out = append(out, s)
		}
	}
	sort.SliceStable(out, func(a, b int) bool {
		if len(out[a]) != len(out[b]) {
			return len(out[a]) < len(out[b])
		}
		for k := range out[a] {
			if out[a][k] != out[b][k] {
				return out[a][k] < out[b][k]
			}
		}
		return false
	})
	return out
}

// permutations calls fn with every permutation of 0..n-1 (the slice is reused).
func permutations(n int, fn func(p []int)) {
	p := make([]int, n)
	for i := range p {
		p[i] = i
	}
	var rec func(k int)
	rec = func(k int) {
		if k == n {
			fn(p)
			return
		}
		for i := k; i < n; i++ {
			p[k], p[i] = p[i], p[k]
			rec(k + 1)
			p[k], p[i] = p[i], p[k]
		}
	}
	rec(0)
}

func jsonUnmarshal(b []byte, v interface{}) error { return json.Unmarshal(b, v) }

func minInt(a, b int) int {
	if a < b {
		return a
	}
	return b
}

// evName extracts the "ev" field of an event line.
func evName(line string) string {
	var m struct {
		Ev string `json:"ev"`
	}
	_ = json.Unmarshal([]byte(line), &m)
	return m.Ev
}
