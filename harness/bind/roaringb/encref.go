package roaringb

import (
	"bytes"
	"encoding/binary"
)

// EncodePilosaRef is the harness's own encoder for Pilosa's roaring file format
// (roaring/roaring.go writeToUnoptimized: magic 12348, version 0, flags byte, key count,
// per container key u64 / type u16 / N-1 u16, offsets u32, then container data; run
// containers store a u16 run count then (start,last) pairs).  Independent of the code
// under test, so import payloads do not depend on Bitmap.WriteTo being right.
// style: "min" smallest encoding per container; "noruns" arrays (N <= 4096) and bitmaps
// only; "runs" run containers wherever the container has at most 2048 runs;
// "bitmaps" bitmap containers everywhere.
func EncodePilosaRef(vals []uint64, flags byte, style string) []byte {
	type cont struct {
		key  uint64
		vals []uint16
		typ  uint16 // 1 array 2 bitmap 3 run
	}
	var conts []*cont
	for _, v := range vals {
		k := v >> 16
		if len(conts) == 0 || conts[len(conts)-1].key != k {
			conts = append(conts, &cont{key: k})
		}
		c := conts[len(conts)-1]
		c.vals = append(c.vals, uint16(v))
	}
	size := func(c *cont, typ uint16) int {
		switch typ {
		case 1:
			return 2 * len(c.vals)
		case 2:
			return 8192
		default:
			return 2 + 4*len(runsOf(c.vals))
		}
	}
	for _, c := range conts {
		nr := len(runsOf(c.vals))
		switch style {
		case "noruns":
			c.typ = 2
			if len(c.vals) <= 4096 {
				c.typ = 1
			}
		case "runs":
			if nr <= 2048 {
				c.typ = 3
			} else if len(c.vals) <= 4096 {
				c.typ = 1
			} else {
				c.typ = 2
			}
		case "bitmaps":
			c.typ = 2
		default: // min
			c.typ = 2
			best := 8192
			if len(c.vals) <= 4096 && 2*len(c.vals) < best {
				c.typ, best = 1, 2*len(c.vals)
			}
			if nr <= 2048 && 2+4*nr < best {
				c.typ = 3
			}
		}
	}
	var buf bytes.Buffer
	le := binary.LittleEndian
	w := func(v interface{}) { binary.Write(&buf, le, v) }
	w(uint16(12348))
	w(uint8(0))
	w(flags)
	w(uint32(len(conts)))
	for _, c := range conts {
		w(c.key)
		w(c.typ)
		w(uint16(len(c.vals) - 1))
	}
	off := 8 + len(conts)*16
	for _, c := range conts {
		w(uint32(off))
		off += size(c, c.typ)
	}
	for _, c := range conts {
		switch c.typ {
		case 1:
			for _, v := range c.vals {
				w(v)
			}
		case 2:
			var words [1024]uint64
			for _, v := range c.vals {
				words[v/64] |= 1 << (v % 64)
			}
			w(words[:])
		case 3:
			r := runsOf(c.vals)
			w(uint16(len(r)))
			for _, x := range r {
				w(x[0])
				w(x[0] + x[1]) // last
			}
		}
	}
	return buf.Bytes()
}

// EncStyles lists the reference encoder's container-choice styles.
var EncStyles = []string{"min", "noruns", "runs", "bitmaps"}
