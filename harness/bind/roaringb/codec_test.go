package roaringb

import (
	"bytes"
	"encoding/json"
	"fmt"
	"testing"

	"github.com/pilosa/pilosa/roaring"

	"verif/harness/behav"
	"verif/harness/gamma"
)

// codecCase is a self-contained replay of one RoaringCodec behaviour.
type codecCase struct {
	Beh    behav.Behaviour `json:"beh"`
	Inner  string          `json:"inner"`
	KeySet string          `json:"keyset"`
	K      int             `json:"k"`
	M      int             `json:"m"`
	Seed   int64           `json:"seed"`
	Style  string          `json:"style"`
}

// manyKeys is a profile outside the K x M container layout: abstract element i is a
// block of 65536/n containers holding one value each, so that the union of all
// elements has 2^16 containers (the official format's maximum).
func manyKeys(n int, seed int64) *gamma.Profile {
	p := &gamma.Profile{Name: fmt.Sprintf("manykeys/%d", n), K: n, M: 1, Inner: "manykeys", KeySet: "all16", Seed: seed}
	per := 65536 / n
	p.Blocks = make([][]uint64, n)
	p.Keys = make([]uint64, n)
	for i := 0; i < n; i++ {
		lo, hi := i*per, (i+1)*per
		if i == n-1 {
			hi = 65536
		}
		p.Keys[i] = uint64(lo)
		for k := lo; k < hi; k++ {
			low := uint64((k*7 + int(seed)) % 65536)
			p.Blocks[i] = append(p.Blocks[i], uint64(k)<<16|low)
		}
	}
	return p
}

func (c *codecCase) profile() *gamma.Profile {
	if c.Inner == "manykeys" {
		return manyKeys(c.K*c.M, c.Seed)
	}
	return gamma.Cached(c.Inner, c.KeySet, c.K, c.M, c.Seed)
}

// encodeAs produces bytes for the set in the requested format; the second result is the
// format actually used (official falls back to pilosa_ref for values >= 2^32 or the empty set).
func encodeAs(vals []uint64, format, style string, flags byte) ([]byte, string) {
	switch format {
	case "pilosa":
		b := roaring.NewBitmap()
		b.DirectAddN(cp(vals)...)
		b.Flags = flags
		var buf bytes.Buffer
		if _, err := b.WriteTo(&buf); err != nil {
			panic(err)
		}
		return buf.Bytes(), "pilosa"
	case "official", "official_runs":
		if OfficialOK(vals) && len(vals) > 0 {
			d, used := EncodeOfficial(vals, format == "official_runs")
			if used {
				return d, "official_runs"
			}
			return d, "official"
		}
		return EncodePilosaRef(vals, flags, style), "pilosa_ref"
	default:
		return EncodePilosaRef(vals, flags, style), "pilosa_ref"
	}
}

func rowsOf(vals []uint64, rowSize uint64, sign int) map[uint64]int {
	out := map[uint64]int{}
	for _, v := range vals {
		r := uint64(0)
		if rowSize != 0 {
			r = (v >> 16) / rowSize
		}
		out[r] += sign
	}
	return out
}

func runCodec(c *codecCase, cov func(string)) (what, detail string) {
	p := c.profile()
	st := c.Beh[0]
	op := st.Str("op")
	args := behav.ToList(st["args"])
	src := p.Set(st.Ints("Src"))
	tgt := p.Set(st.Ints("Tgt"))
	want := p.Set(st.Ints("rs"))
	changedSet := p.Set(st.Ints("ch"))
	switch op {
	case "RoundTrip":
		flags := byte(behav.ToInt(args[0]))
		kind := args[1].(string)
		prov := args[2].(string)
		bb := Build(src, prov)
		bb.B.Flags = flags
		if cov != nil {
			cov("roundtrip:" + ContainerTypes(bb.B) + "/" + bb.Prov)
		}
		var buf bytes.Buffer
		if _, err := bb.B.WriteTo(&buf); err != nil {
			return "error", "WriteTo: " + err.Error()
		}
		enc := append([]byte(nil), buf.Bytes()...)
		for round := 0; round < 2; round++ {
			d := newKind(kind)
			if err := d.UnmarshalBinary(buf.Bytes()); err != nil {
				return "decode_error", "UnmarshalBinary of WriteTo output: " + err.Error()
			}
			if got := d.Slice(); !gamma.Equal(src, got) {
				return "roundtrip_set", fmt.Sprintf("decode(encode(S)) (round %d): %s", round, gamma.Diff(src, got))
			}
			if got := d.Count(); got != uint64(len(src)) {
				return "roundtrip_count", fmt.Sprintf("decode(encode(S)).Count() = %d, want %d", got, len(src))
			}
			if d.Flags != flags {
				return "roundtrip_flags", fmt.Sprintf("decoded flags = %d, want %d", d.Flags, flags)
			}
			if !bytes.Equal(enc, buf.Bytes()) {
				return "input_mutated", "UnmarshalBinary modified the input bytes"
			}
			// second round: re-encode the decoded bitmap and decode that
			var buf2 bytes.Buffer
			if _, err := d.WriteTo(&buf2); err != nil {
				return "error", "WriteTo of decoded: " + err.Error()
			}
			buf = buf2
			enc = append([]byte(nil), buf.Bytes()...)
		}
		// the source itself is unchanged by encoding
		if got := bb.B.Slice(); !gamma.Equal(src, got) {
			return "source_changed", "WriteTo changed the source: " + gamma.Diff(src, got)
		}
	case "Decode":
		format, kind := args[0].(string), args[1].(string)
		data, used := encodeAs(src, format, c.Style, 0)
		if cov != nil {
			cov("decode:" + used)
		}
		orig := append([]byte(nil), data...)
		for round := 0; round < 2; round++ {
			d := newKind(kind)
			if err := d.UnmarshalBinary(data); err != nil {
				return "decode_error", fmt.Sprintf("UnmarshalBinary(%s bytes) round %d: %v", used, round, err)
			}
			if got := d.Slice(); !gamma.Equal(src, got) {
				return "decode_set", fmt.Sprintf("decode of %s bytes (round %d): %s", used, round, gamma.Diff(src, got))
			}
			if got := d.Count(); got != uint64(len(src)) {
				return "decode_count", fmt.Sprintf("decode of %s bytes: Count() = %d, want %d", used, got, len(src))
			}
			if !bytes.Equal(orig, data) {
				return "input_mutated", fmt.Sprintf("UnmarshalBinary modified the %s input bytes", used)
			}
		}
	case "Import":
		format, kind := args[0].(string), args[1].(string)
		clear := args[2].(bool)
		rowSize := uint64(behav.ToInt(args[3]))
		data, used := encodeAs(src, format, c.Style, 0)
		orig := append([]byte(nil), data...)
		t := newKind(kind)
		t.DirectAddN(cp(tgt)...)
		tp := "plain"
		if len(args) > 4 {
			tp = args[4].(string)
		}
		var held *roaring.Bitmap
		switch tp {
		case "optimized":
			t.Optimize()
		case "shared":
			// a derived value is outstanding (what fragment.row does): the target's
			// containers are frozen and shared with it
			if p.Keys[p.K-1] < 1<<48-1 && c.Inner != "manykeys" {
				held = t.OffsetRange(0, 0, (p.Keys[p.K-1]+1)<<16)
			} else {
				held = t.Freeze()
			}
		}
		if cov != nil {
			cov("import:" + used + ":" + kind + ":" + ContainerTypes(t))
		}
		changed, rowSet, err := t.ImportRoaringBits(data, clear, false, rowSize)
		if err != nil {
			return "import_error", fmt.Sprintf("ImportRoaringBits(%s): %v", used, err)
		}
		if changed != len(changedSet) {
			return "import_changed", fmt.Sprintf("ImportRoaringBits(%s, clear=%v) changed = %d, want %d", used, clear, changed, len(changedSet))
		}
		sign := 1
		if clear {
			sign = -1
		}
		if wr := rowsOf(changedSet, rowSize, sign); !rowsEqual(wr, rowSet) {
			return "import_rowset", fmt.Sprintf("ImportRoaringBits rowSize=%d rowSet = %v, want %v", rowSize, rowSet, wr)
		}
		if !bytes.Equal(orig, data) {
			return "input_mutated", fmt.Sprintf("ImportRoaringBits modified the %s payload", used)
		}
		if got := t.Slice(); !gamma.Equal(want, got) {
			return "import_set", fmt.Sprintf("after import(%s, clear=%v): %s", used, clear, gamma.Diff(want, got))
		}
		if got := t.Count(); got != uint64(len(want)) {
			return "import_count", fmt.Sprintf("after import Count() = %d, want %d", got, len(want))
		}
		if held != nil {
			if got := held.Slice(); !gamma.Equal(tgt, got) {
				return "import_changed_derived", "a value derived from the target before the import changed: " + gamma.Diff(tgt, got)
			}
		}
		// equal to decode-then-merge on the real code as well
		scribble(data) // the payload must not be referenced any more
		if got := t.Slice(); !gamma.Equal(want, got) {
			return "import_aliases_payload", "target changed when the payload buffer was overwritten: " + gamma.Diff(want, got)
		}
	default:
		return "harness", "unknown op " + op
	}
	return "", ""
}

func TestC04(t *testing.T) {
	res := behav.NewResult()
	defer func() {
		if err := res.Write(); err != nil {
			t.Fatal(err)
		}
	}()
	exec := func(c *codecCase, cov func(string)) {
		var what, detail string
		pv, stack := behav.Protect(func() { what, detail = runCodec(c, cov) })
		if pv != nil {
			if !behav.PanicInCode(stack) {
				res.SetInconclusive(fmt.Sprintf("harness panic: %v\n%s", pv, stack))
				return
			}
			what, detail = "panic", fmt.Sprintf("panic: %v\n%s", pv, firstLines(stack, 40))
		}
		if what == "harness" {
			res.SetInconclusive(detail)
			return
		}
		if what != "" {
			st := c.Beh[0]
			format := ""
			if a := behav.ToList(st["args"]); len(a) > 0 {
				if s, ok := a[0].(string); ok {
					format = s
				}
			}
			res.Fail(behav.Failure{
				Match:  map[string]string{"op": st.Str("op"), "symptom": what, "format": format, "inner": c.Inner},
				Detail: fmt.Sprintf("%s%s profile %s/%s style %s Src=%v Tgt=%v: %s", st.Str("op"), behav.JSON(st["args"]), c.Inner, c.KeySet, c.Style, st.Ints("Src"), st.Ints("Tgt"), detail),
				Replay: c,
			})
		}
	}
	if raw, ok := behav.LoadReplay(); ok {
		var c codecCase
		if err := json.Unmarshal(raw, &c); err != nil {
			t.Fatal(err)
		}
		res.Evaluations = 1
		exec(&c, nil)
		return
	}
	behs := behav.LoadEnv()
	K, M := behav.EnvInt("VERIF_K", 2), behav.EnvInt("VERIF_M", 2)
	seed := behav.Seed()
	inners := []string{"edge", "array", "thresh", "comb", "runs", "runthresh", "longruns", "full", "mixed"}
	var profs []profSel
	if behav.Thorough() {
		for i, in := range inners {
			profs = append(profs, profSel{inner: in, keyset: []string{"low", "gap", "spread", "high"}[i%4]})
		}
		profs = append(profs, profSel{inner: "manykeys", keyset: "all16"})
	} else {
		// runthresh: thousands of runs (not stashed inside the Container struct, so a decoder
		// that rewrites runs in place rewrites the caller's buffer); thresh: 4095/4096/4097
		profs = []profSel{{inner: "thresh", keyset: "low"}, {inner: "runthresh", keyset: "gap"},
			{inner: inners[int(seed)%len(inners)], keyset: []string{"low", "spread", "high", "gap"}[int(seed)%4]}}
		if K*M <= 3 {
			profs = append(profs, profSel{inner: "manykeys", keyset: "all16"})
		}
	}
	var distinct behav.Distinct
	total := len(behs) * len(profs)
	behav.Parallel(total, func(i int) {
		bi, pi := i/len(profs), i%len(profs)
		if profs[pi].inner == "manykeys" && behs[bi][0].Str("op") == "Import" && bi%120 != int(seed)%120 {
			return // 2^16-container imports are slow: a seeded 1/120 sample of the import behaviours
		}
		ps := profs[pi]
		if !behav.Thorough() && pi == 2 {
			ps = rotProf(bi, seed) // quick tier: the third profile rotates over all shapes and key placements
		}
		c := &codecCase{Beh: behs[bi], Inner: ps.inner, KeySet: ps.keyset, K: K, M: M, Seed: seed,
			Style: EncStyles[(bi+pi+int(seed))%len(EncStyles)]}
		exec(c, res.Cover)
		res.CountEval()
		st := c.Beh[0]
		if len(st.Ints("Src")) > 0 && distinct.Add(fmt.Sprintf("%s|%s|%v|%v|%d", st.Str("op"), behav.JSON(st["args"]), st.Ints("Src"), st.Ints("Tgt"), pi)) {
			res.CountNontrivial()
		}
		if i%(total/5+1) == 0 {
			res.AddSample(map[string]interface{}{"op": st.Str("op"), "args": st["args"], "Src": st["Src"], "Tgt": st["Tgt"], "profile": c.Inner + "/" + c.KeySet})
		}
	}, nil)
}
