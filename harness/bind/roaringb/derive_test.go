package roaringb

import (
	"bytes"
	"encoding/json"
	"fmt"
	"testing"

	"github.com/pilosa/pilosa/roaring"

	"verif/harness/behav"
	"verif/harness/gamma"
)

// deriveCase is a self-contained replay of one RoaringDerive behaviour.
type deriveCase struct {
	Beh    behav.Behaviour `json:"beh"`
	Inner  string          `json:"inner"`
	KeySet string          `json:"keyset"`
	K      int             `json:"k"`
	M      int             `json:"m"`
	Seed   int64           `json:"seed"`
	Style  string          `json:"style"`
}

func isDead(v []int) bool { return len(v) == 1 && v[0] == -2 }

// buildSrc builds the source with its provenance; buf is the byte buffer its
// containers may point into (nil when heap-backed).
func buildSrc(vals []uint64, prov string) (*roaring.Bitmap, []byte) {
	switch prov {
	case "mapped", "btree_mapped":
		data := EncodePilosa(vals)
		var b *roaring.Bitmap
		if prov == "mapped" {
			b = roaring.NewBitmap()
		} else {
			b = roaring.NewFileBitmap()
		}
		if err := b.UnmarshalBinary(data); err != nil {
			panic(fmt.Sprintf("UnmarshalBinary of own encoding failed: %v", err))
		}
		return b, data
	default:
		bb := Build(vals, prov)
		return bb.B, bb.Buf
	}
}

func scribble(buf []byte) {
	for i := range buf {
		buf[i] = 0xFF
	}
}

func runDerive(c *deriveCase, cov func(string)) (step int, op string, what string, detail string) {
	p := gamma.Cached(c.Inner, c.KeySet, c.K, c.M, c.Seed)
	init := c.Beh[0]
	probes, probeOwner := p.Probes()
	vals := map[string]*roaring.Bitmap{}
	var srcBuf []byte
	first := true
	check := func(i int, op string, st behav.Step) (string, string) {
		for _, name := range []string{"src", "oth", "d1", "d2"} {
			want := st.Ints(name)
			if isDead(want) {
				continue
			}
			if name == "src" && !st.Bool("srcAlive") {
				continue
			}
			b := vals[name]
			if b == nil {
				return "harness", fmt.Sprintf("value %s missing at step %d", name, i)
			}
			if i < len(c.Beh)-1 {
				// intermediate steps: count and membership at the probe values of every block
				if got, wn := b.Count(), p.Size(want); got != wn {
					return "count_" + name, fmt.Sprintf("after %s%s value %s: Count() = %d, want %d", op, behav.JSON(st["args"]), name, got, wn)
				}
				in := map[int]bool{}
				for _, x := range want {
					in[x] = true
				}
				for pi, v := range probes {
					w := probeOwner[pi] >= 0 && in[probeOwner[pi]]
					if b.Contains(v) != w {
						return "changed_" + name, fmt.Sprintf("after %s%s value %s: Contains(%d) = %v, want %v", op, behav.JSON(st["args"]), name, v, !w, w)
					}
				}
				continue
			}
			w := p.Set(want)
			if got := b.Slice(); !gamma.Equal(w, got) {
				return "changed_" + name, fmt.Sprintf("after %s%s value %s: %s", op, behav.JSON(st["args"]), name, gamma.Diff(w, got))
			}
			if got := b.Count(); got != uint64(len(w)) {
				return "count_" + name, fmt.Sprintf("after %s%s value %s: Count() = %d, want %d", op, behav.JSON(st["args"]), name, got, len(w))
			}
		}
		return "", ""
	}
	for i, st := range c.Beh {
		op := st.Str("op")
		args := behav.ToList(st["args"])
		if first {
			// the first record (op "Init") carries the initial contents
			if op != "Init" {
				return i, op, "harness", "behaviour does not start with Init"
			}
			vals["src"], srcBuf = buildSrc(p.Set(init.Ints("src")), st.Str("prov"))
			vals["oth"] = Build(p.Set(init.Ints("oth")), "fresh").B
			first = false
			continue
		}
		if cov != nil {
			cov("op:" + op)
		}
		switch op {
		case "Derive":
			slot, kind, from := args[0].(string), args[1].(string), args[2].(string)
			x := vals[from]
			if cov != nil {
				cov("derive:" + kind + ":" + st.Str("prov"))
			}
			var d *roaring.Bitmap
			switch kind {
			case "Clone":
				d = x.Clone()
			case "Freeze":
				d = x.Freeze()
			case "Union":
				d = x.Union(vals["oth"])
			case "Union3":
				d = x.Union(vals["oth"], vals["oth"])
			case "Intersect":
				d = x.Intersect(vals["oth"])
			case "Difference":
				d = x.Difference(vals["oth"])
			case "Xor":
				d = x.Xor(vals["oth"])
			case "OffsetRange":
				end := (p.Keys[p.K-1] + 1) << 16
				d = x.OffsetRange(0, 0, end)
			default:
				return i, op, "harness", "unknown derive kind " + kind
			}
			vals[slot] = d
		case "Add", "Remove":
			t := args[0].(string)
			x := behav.ToInt(args[1])
			var err error
			if op == "Add" {
				_, err = vals[t].Add(cp(p.Blocks[x])...)
			} else {
				_, err = vals[t].Remove(cp(p.Blocks[x])...)
			}
			if err != nil {
				return i, op, "error", err.Error()
			}
		case "AddN", "RemoveN", "ImportSet", "ImportClear":
			t := args[0].(string)
			T := p.Set(behav.ToInts(args[1]))
			var err error
			switch op {
			case "AddN":
				_, err = vals[t].AddN(cp(T)...)
			case "RemoveN":
				_, err = vals[t].RemoveN(cp(T)...)
			default:
				data := EncodePilosaRef(T, 0, c.Style)
				_, _, err = vals[t].ImportRoaringBits(data, op == "ImportClear", false, 0)
				scribble(data) // the payload buffer is the caller's; it may be reused
			}
			if err != nil {
				return i, op, "error", err.Error()
			}
		case "Optimize":
			vals[args[0].(string)].Optimize()
		case "UnionInPlace":
			vals[args[0].(string)].UnionInPlace(vals[args[1].(string)])
		case "Remap":
			var nb bytes.Buffer
			if _, err := vals["src"].WriteTo(&nb); err != nil {
				return i, op, "error", err.Error()
			}
			newBuf := nb.Bytes()
			if _, err := vals["src"].RemapRoaringStorage(newBuf); err != nil {
				return i, op, "error", "RemapRoaringStorage: " + err.Error()
			}
			scribble(srcBuf)
			srcBuf = newBuf
		case "Drop":
			// fragment.closeStorage: unmap (RemapRoaringStorage(nil)), then the mapping is gone
			if _, err := vals["src"].RemapRoaringStorage(nil); err != nil {
				return i, op, "error", "RemapRoaringStorage(nil): " + err.Error()
			}
			scribble(srcBuf)
			srcBuf = nil
			vals["src"] = nil
		default:
			return i, op, "harness", "unknown op " + op
		}
		if what, detail := check(i, op, st); what != "" {
			return i, op, what, detail
		}
	}
	return -1, "", "", ""
}

func TestC03(t *testing.T) {
	res := behav.NewResult()
	defer func() {
		if err := res.Write(); err != nil {
			t.Fatal(err)
		}
	}()
	exec := func(c *deriveCase, cov func(string)) {
		var step int
		var op, what, detail string
		pv, stack := behav.Protect(func() { step, op, what, detail = runDerive(c, cov) })
		if pv != nil {
			if !behav.PanicInCode(stack) {
				res.SetInconclusive(fmt.Sprintf("harness panic: %v\n%s", pv, stack))
				return
			}
			what, detail = "panic", fmt.Sprintf("panic: %v\n%s", pv, firstLines(stack, 40))
		}
		if what == "harness" {
			res.SetInconclusive(detail)
			return
		}
		if what != "" {
			kind := ""
			for _, st := range c.Beh {
				if st.Str("op") == "Derive" {
					kind += behav.ToList(st["args"])[1].(string) + "+"
				}
			}
			res.Fail(behav.Failure{
				Match:  map[string]string{"op": op, "symptom": what, "derive": kind, "prov": c.Beh[0].Str("prov")},
				Detail: fmt.Sprintf("step %d profile %s/%s prov %s: %s\nhistory: %s", step, c.Inner, c.KeySet, c.Beh[0].Str("prov"), detail, histString(c.Beh)),
				Replay: c,
			})
		}
	}
	if raw, ok := behav.LoadReplay(); ok {
		var c deriveCase
		if err := json.Unmarshal(raw, &c); err != nil {
			t.Fatal(err)
		}
		res.Evaluations = 1
		exec(&c, nil)
		return
	}
	behs := behav.LoadEnv()
	K, M := behav.EnvInt("VERIF_K", 2), behav.EnvInt("VERIF_M", 2)
	seed := behav.Seed()
	inners := []string{"edge", "array", "thresh", "comb", "runs", "runthresh", "longruns", "full", "mixed"}
	// quick: stashed arrays (edge) always, one heavier shape by seed (run/bitmap/heap arrays)
	profs := []profSel{{inner: "edge", keyset: "low"}, {inner: inners[1+int(seed)%(len(inners)-1)], keyset: "gap"}}
	if behav.Thorough() {
		// thorough: edge plus three rotating shapes per behaviour
		profs = append(profs, profs[1], profs[1])
	}
	var distinct behav.Distinct
	total := len(behs) * len(profs)
	behav.Parallel(total, func(i int) {
		bi, pi := i/len(profs), i%len(profs)
		ps := profs[pi]
		if pi > 0 {
			// every profile but the first rotates over all shapes (keys stay low/gap:
			// OffsetRange's exclusive end cannot express the top key)
			r := rotProf(bi*3+pi, seed)
			ps = profSel{inner: r.inner, keyset: []string{"low", "gap"}[(bi+int(seed))%2]}
		}
		c := &deriveCase{Beh: behs[bi], Inner: ps.inner, KeySet: ps.keyset, K: K, M: M, Seed: seed,
			Style: EncStyles[(bi+pi+int(seed))%len(EncStyles)]}
		exec(c, res.Cover)
		res.CountEval()
		// non-trivial: a derivation followed by at least one mutation/remap/drop
		if len(c.Beh) >= 2 && distinct.Add(fmt.Sprintf("%s|%v|%v|%s|%d", histString(c.Beh), c.Beh[0].Ints("src"), c.Beh[0].Ints("oth"), c.Beh[0].Str("prov"), pi)) {
			res.CountNontrivial()
		}
		if i%(total/5+1) == 0 {
			res.AddSample(map[string]interface{}{"history": histString(c.Beh), "src": c.Beh[0]["src"], "oth": c.Beh[0]["oth"], "prov": c.Beh[0].Str("prov"), "profile": c.Inner + "/" + c.KeySet})
		}
	}, nil)
}
