package roaringb

import (
	"bytes"
	"encoding/json"
	"fmt"
	"os"
	"strings"
	"testing"

	"github.com/pilosa/pilosa/roaring"

	"verif/harness/behav"
	"verif/harness/gamma"
)

// histCase is a self-contained replay of one RoaringHist behaviour.
type histCase struct {
	Beh    behav.Behaviour `json:"beh"`
	Inner  string          `json:"inner"`
	KeySet string          `json:"keyset"`
	K      int             `json:"k"`
	M      int             `json:"m"`
	Seed   int64           `json:"seed"`
	Mode   string          `json:"mode"` // "c02" (no op log, reads only as the spec says) or "c05" (op log checked after every step)
	Style  string          `json:"style"`
}

func newKind(kind string) *roaring.Bitmap {
	if kind == "btree" {
		return roaring.NewBTreeBitmap()
	}
	return roaring.NewBitmap()
}

type histFail struct {
	step   int
	op     string
	what   string
	detail string
}

func concatBlocks(p *gamma.Profile, seq []int) []uint64 {
	var out []uint64
	for _, x := range seq {
		out = append(out, p.Blocks[x]...)
	}
	return out
}

// expectedRows computes the rowSet ImportRoaringBits must report for a changed set.
func expectedRows(p *gamma.Profile, changed []int, rowSize uint64, clear bool) map[uint64]int {
	out := map[uint64]int{}
	for _, x := range changed {
		row := uint64(0)
		if rowSize != 0 {
			row = p.Keys[x/p.M] / rowSize
		}
		if clear {
			out[row] -= len(p.Blocks[x])
		} else {
			out[row] += len(p.Blocks[x])
		}
	}
	return out
}

func rowsEqual(want, got map[uint64]int) bool {
	for k, v := range want {
		if v != 0 && got[k] != v {
			return false
		}
	}
	for k, v := range got {
		if v != 0 && want[k] != v {
			return false
		}
	}
	return true
}

// fullCompare reads b through every read path and compares with the expected set.
func fullCompare(b *roaring.Bitmap, p *gamma.Profile, want []uint64, universe []uint64) string {
	if got := b.Slice(); !gamma.Equal(want, got) {
		return "Slice(): " + gamma.Diff(want, got)
	}
	if got := b.Count(); got != uint64(len(want)) {
		return fmt.Sprintf("Count() = %d, want %d", got, len(want))
	}
	// membership through Contains and through the per-container view at probe values
	// (each block's lowest/middle/highest value and the neighbours outside it)
	probes, _ := p.Probes()
	var wantProbes []uint64
	j := 0
	for _, v := range probes {
		for j < len(want) && want[j] < v {
			j++
		}
		in := j < len(want) && want[j] == v
		if in {
			wantProbes = append(wantProbes, v)
		}
		if b.Contains(v) != in {
			return fmt.Sprintf("Contains(%d) = %v, want %v", v, !in, in)
		}
	}
	vals, n, problem := containerViews(b, probes)
	if problem != "" {
		return problem
	}
	if n != uint64(len(want)) {
		return fmt.Sprintf("sum of container N = %d, want %d", n, len(want))
	}
	if !gamma.Equal(wantProbes, vals) {
		return "container views: " + gamma.Diff(wantProbes, vals)
	}
	if len(want) > 0 {
		if got := b.Max(); got != want[len(want)-1] {
			return fmt.Sprintf("Max() = %d, want %d", got, want[len(want)-1])
		}
		if got, ok := b.Min(); !ok || got != want[0] {
			return fmt.Sprintf("Min() = %d,%v, want %d", got, ok, want[0])
		}
	}
	if got := b.CountRange(0, ^uint64(0)); len(want) > 0 && want[len(want)-1] != ^uint64(0) && got != uint64(len(want)) {
		return fmt.Sprintf("CountRange(0,max) = %d, want %d", got, len(want))
	}
	if !b.Any() && len(want) > 0 {
		return "Any() = false for a non-empty bitmap"
	}
	return ""
}

func runHist(c *histCase, cov func(string)) *histFail {
	p := gamma.Cached(c.Inner, c.KeySet, c.K, c.M, c.Seed)
	probes, probeOwner := p.Probes()
	var universe []uint64 // unused by fullCompare (it probes); kept for the signature
	kind := c.Beh[0].Str("kind")
	b := newKind(kind)
	var logBuf bytes.Buffer
	var snapBytes []byte
	logging := c.Mode == "c05"
	if logging {
		var sb bytes.Buffer
		if _, err := b.WriteTo(&sb); err != nil {
			return &histFail{0, "init", "error", err.Error()}
		}
		snapBytes = sb.Bytes()
		b.OpWriter = &logBuf
	}
	wantOps, wantOpN := 0, 0
	type heldValue struct {
		b    *roaring.Bitmap
		want []uint64
		step int
	}
	var held []heldValue
	fail := func(i int, op, what, format string, a ...interface{}) *histFail {
		return &histFail{i, op, what, fmt.Sprintf(format, a...)}
	}
	for i, st := range c.Beh {
		op := st.Str("op")
		if cov != nil {
			cov("op:" + op)
		}
		args := behav.ToList(st["args"])
		rs := st.Ints("rs")
		wantN := int(p.Size(rs))
		switch op {
		case "Add", "Remove":
			x := behav.ToInt(args[0])
			vals := cp(p.Blocks[x])
			var changed bool
			var err error
			if op == "Add" {
				changed, err = b.Add(vals...)
			} else {
				changed, err = b.Remove(vals...)
			}
			if err != nil {
				return fail(i, op, "error", "%s: %v", op, err)
			}
			if changed != st.Bool("rb") {
				return fail(i, op, "changed", "%s(block %d) changed = %v, want %v", op, x, changed, st.Bool("rb"))
			}
			if logging {
				wantOps += len(vals)
				wantOpN += len(vals)
			}
		case "AddN", "RemoveN":
			seq := behav.ToInts(st["args"])
			vals := concatBlocks(p, seq)
			var changed int
			var err error
			if op == "AddN" {
				changed, err = b.AddN(vals...)
			} else {
				changed, err = b.RemoveN(vals...)
			}
			if err != nil {
				return fail(i, op, "error", "%s: %v", op, err)
			}
			if changed != wantN {
				return fail(i, op, "changed", "%s(blocks %v) changed = %d, want %d", op, seq, changed, wantN)
			}
			if logging {
				wantOps++
				wantOpN += wantN
			}
		case "ImportSet", "ImportClear":
			clear := op == "ImportClear"
			format := args[0].(string)
			rowSize := uint64(behav.ToInt(args[1]))
			logged := behav.ToList(st["logged"])
			payload := p.Set(behav.ToInts(behav.ToMap(logged[0])["vs"]))
			var data []byte
			if format == "official" && OfficialOK(payload) && !hasCard4096(payload) {
				data, _ = EncodeOfficial(payload, c.Style != "noruns")
			} else {
				data = EncodePilosaRef(payload, 0, c.Style)
			}
			orig := append([]byte(nil), data...)
			changed, rowSet, err := b.ImportRoaringBits(data, clear, logging, rowSize)
			if err != nil {
				return fail(i, op, "error", "%s: %v", op, err)
			}
			if changed != wantN {
				return fail(i, op, "changed", "%s(%d values, %s) changed = %d, want %d", op, len(payload), format, changed, wantN)
			}
			if wr := expectedRows(p, rs, rowSize, clear); !rowsEqual(wr, rowSet) {
				return fail(i, op, "rowset", "%s rowSize=%d rowSet = %v, want %v", op, rowSize, rowSet, wr)
			}
			if !bytes.Equal(orig, data) {
				return fail(i, op, "input_mutated", "%s modified the caller's payload bytes", op)
			}
			if logging {
				wantOps++
				wantOpN += wantN
			}
		case "Optimize":
			b.Optimize()
		case "Hold":
			// a caller keeps a value derived from the bitmap; its containers are frozen now
			var h *roaring.Bitmap
			if i%2 == 0 && p.Keys[p.K-1] < 1<<48-1 {
				h = b.OffsetRange(0, 0, (p.Keys[p.K-1]+1)<<16)
			} else {
				h = b.Freeze()
			}
			held = append(held, heldValue{h, p.Set(rs), i})
		case "Reencode":
			var sb bytes.Buffer
			if _, err := b.WriteTo(&sb); err != nil {
				return fail(i, op, "error", "WriteTo: %v", err)
			}
			nb := newKind(kind)
			if err := nb.UnmarshalBinary(sb.Bytes()); err != nil {
				return fail(i, op, "error", "UnmarshalBinary of own encoding: %v", err)
			}
			b = nb
			if logging {
				snapBytes = sb.Bytes()
				logBuf.Reset()
				b.OpWriter = &logBuf
				wantOps, wantOpN = 0, 0
			}
		case "Contains":
			x := behav.ToInt(args[0])
			for _, v := range sampleBlock(p.Blocks[x]) {
				if b.Contains(v) != st.Bool("rb") {
					return fail(i, op, "read", "Contains(%d) = %v, want %v", v, !st.Bool("rb"), st.Bool("rb"))
				}
			}
		case "Count":
			if got := b.Count(); got != uint64(wantN) {
				return fail(i, op, "read", "Count() = %d, want %d", got, wantN)
			}
		case "Slice":
			if want, got := p.Set(rs), b.Slice(); !gamma.Equal(want, got) {
				return fail(i, op, "read", "Slice(): %s", gamma.Diff(want, got))
			}
		case "Max":
			want := uint64(0)
			if e := st.Int("re"); e >= 0 {
				want = p.Hi(e)
			}
			if got := b.Max(); got != want {
				return fail(i, op, "read", "Max() = %d, want %d", got, want)
			}
		case "Min":
			got, ok := b.Min()
			if ok != st.Bool("rb") || (ok && got != p.Lo(st.Int("re"))) {
				return fail(i, op, "read", "Min() = %d,%v, want block %d,%v", got, ok, st.Int("re"), st.Bool("rb"))
			}
		case "Views":
			inRS := map[int]bool{}
			for _, x := range rs {
				inRS[x] = true
			}
			var want []uint64
			for pi, v := range probes {
				if probeOwner[pi] >= 0 && inRS[probeOwner[pi]] {
					want = append(want, v)
				}
			}
			vals, n, problem := containerViews(b, probes)
			if problem != "" {
				return fail(i, op, "read", "%s", problem)
			}
			if n != uint64(wantN) {
				return fail(i, op, "read", "sum of container N = %d, want %d", n, wantN)
			}
			if !gamma.Equal(want, vals) {
				return fail(i, op, "read", "container views: %s", gamma.Diff(want, vals))
			}
		case "CountRange":
			v := int(c.Seed+int64(i)) % 3
			lo, ok1 := p.Cut(behav.ToInt(args[0]), v)
			hi, ok2 := p.Cut(behav.ToInt(args[1]), v)
			if ok1 && ok2 && lo <= hi {
				if got := b.CountRange(lo, hi); got != uint64(wantN) {
					return fail(i, op, "read", "CountRange(%d,%d) = %d, want %d", lo, hi, got, wantN)
				}
			}
		default:
			return fail(i, op, "harness", "unknown op %s", op)
		}
		if logging {
			// C05: decode snapshot || log and compare set and counters
			data := append(append([]byte(nil), snapBytes...), logBuf.Bytes()...)
			d := newKind(kind)
			if err := d.UnmarshalBinary(data); err != nil {
				return fail(i, op, "replay_error", "decoding snapshot+log after %s: %v", op, err)
			}
			want := p.Set(st.Ints("post"))
			if got := d.Slice(); !gamma.Equal(want, got) {
				return fail(i, op, "replay_set", "replayed log after %s: %s", op, gamma.Diff(want, got))
			}
			dOps, dOpN := d.Ops()
			lOps, lOpN := b.Ops()
			if dOps != lOps || dOpN != lOpN {
				return fail(i, op, "counters_live_vs_decoded", "after %s decoded ops/opN = %d/%d, live = %d/%d", op, dOps, dOpN, lOps, lOpN)
			}
			if lOps != wantOps || lOpN != wantOpN {
				return fail(i, op, "counters_vs_spec", "after %s ops/opN = %d/%d, spec says %d/%d", op, lOps, lOpN, wantOps, wantOpN)
			}
		}
	}
	// values held since a Hold step must still have the contents they had then
	for _, h := range held {
		if got := h.b.Slice(); !gamma.Equal(h.want, got) {
			return fail(len(c.Beh), "final", "held_changed", "the value held at step %d changed: %s", h.step, gamma.Diff(h.want, got))
		}
		if got := h.b.Count(); got != uint64(len(h.want)) {
			return fail(len(c.Beh), "final", "held_count", "the value held at step %d: Count() = %d, want %d", h.step, got, len(h.want))
		}
	}
	// final state through every read path, then after re-encode/decode
	last := c.Beh[len(c.Beh)-1]
	want := p.Set(last.Ints("post"))
	if m := fullCompare(b, p, want, universe); m != "" {
		return fail(len(c.Beh), "final", "final_state", "final state: %s", m)
	}
	var sb bytes.Buffer
	if _, err := b.WriteTo(&sb); err != nil {
		return fail(len(c.Beh), "final", "error", "WriteTo: %v", err)
	}
	d := newKind(kind)
	if err := d.UnmarshalBinary(sb.Bytes()); err != nil {
		return fail(len(c.Beh), "final", "error", "UnmarshalBinary: %v", err)
	}
	if m := fullCompare(d, p, want, universe); m != "" {
		return fail(len(c.Beh), "final", "final_reencoded", "final state after encode/decode: %s", m)
	}
	return nil
}

// sampleBlock returns up to 9 values of a block: ends, middle and a few in between.
func sampleBlock(b []uint64) []uint64 {
	if len(b) <= 9 {
		return b
	}
	out := make([]uint64, 0, 9)
	for i := 0; i < 9; i++ {
		out = append(out, b[i*(len(b)-1)/8])
	}
	return out
}

func hasCard4096(vals []uint64) bool {
	for _, c := range split(vals) {
		if len(c.vals) == 4096 {
			return true
		}
	}
	return false
}

// rotProf picks one of all (inner shape x key placement) combinations by behaviour index
// and seed; "spread"/"high" keys are used only where every operation supports them.
func rotProf(bi int, seed int64) profSel {
	inners := []string{"array", "thresh", "comb", "runs", "runthresh", "longruns", "full", "mixed", "edge"}
	keysets := []string{"low", "gap", "spread", "high"}
	n := bi*7 + int(seed)*5
	return profSel{inner: inners[n%len(inners)], keyset: keysets[(n/len(inners))%len(keysets)]}
}

func histProfiles(seed int64, K int) []profSel {
	inners := []string{"edge", "array", "thresh", "comb", "runs", "runthresh", "longruns", "full", "mixed"}
	keysets := gamma.KeySets
	n := 1
	if behav.Thorough() {
		n = 2
	}
	out := []profSel{{inner: "edge", keyset: "low"}}
	for i := 0; i < n; i++ {
		out = append(out, profSel{inner: inners[(int(seed)+i*3+1)%len(inners)], keyset: keysets[(int(seed)+i)%len(keysets)]})
	}
	return out
}

func runHistTest(t *testing.T, mode string) {
	res := behav.NewResult()
	defer func() {
		if err := res.Write(); err != nil {
			t.Fatal(err)
		}
	}()
	report := func(c *histCase, f *histFail, pstack string) {
		sym := f.what
		if pstack != "" {
			sym = "panic"
		}
		res.Fail(behav.Failure{
			Match:  map[string]string{"op": f.op, "symptom": sym, "kind": c.Beh[0].Str("kind"), "mode": mode},
			Detail: fmt.Sprintf("step %d (%s) profile %s/%s kind %s style %s: %s\nhistory: %s", f.step, f.op, c.Inner, c.KeySet, c.Beh[0].Str("kind"), c.Style, f.detail, histString(c.Beh)),
			Replay: c,
		})
	}
	exec := func(c *histCase, cov func(string)) {
		var f *histFail
		pv, stack := behav.Protect(func() { f = runHist(c, cov) })
		if pv != nil {
			if !behav.PanicInCode(stack) {
				res.SetInconclusive(fmt.Sprintf("harness panic: %v\n%s", pv, stack))
				return
			}
			report(c, &histFail{-1, "?", "panic", fmt.Sprintf("panic: %v\n%s", pv, firstLines(stack, 40))}, stack)
			return
		}
		if f != nil {
			if f.what == "harness" {
				res.SetInconclusive(f.detail)
				return
			}
			report(c, f, "")
		}
	}
	if raw, ok := behav.LoadReplay(); ok {
		var c histCase
		if err := json.Unmarshal(raw, &c); err != nil {
			t.Fatal(err)
		}
		res.Evaluations = 1
		exec(&c, nil)
		return
	}
	behs := behav.LoadEnv()
	K, M := behav.EnvInt("VERIF_K", 2), behav.EnvInt("VERIF_M", 2)
	seed := behav.Seed()
	profs := histProfiles(seed, K)
	if s := os.Getenv("VERIF_PROFILES"); s != "" {
		profs = nil
		for _, x := range strings.Split(s, ",") {
			ab := strings.Split(x, "/")
			profs = append(profs, profSel{inner: ab[0], keyset: ab[1]})
		}
	}
	var distinct behav.Distinct
	total := len(behs) * len(profs)
	behav.Parallel(total, func(i int) {
		bi, pi := i/len(profs), i%len(profs)
		ps := profs[pi]
		if pi > 0 && os.Getenv("VERIF_PROFILES") == "" {
			ps = rotProf(bi*3+pi, seed) // every profile but the first rotates over all shapes and key placements
		}
		c := &histCase{Beh: behs[bi], Inner: ps.inner, KeySet: ps.keyset, K: K, M: M, Seed: seed, Mode: mode,
			Style: EncStyles[(bi+pi+int(seed))%len(EncStyles)]}
		exec(c, res.Cover)
		res.CountEval()
		// non-trivial: at least one mutation that changes the set and one read or second mutation after it
		if nontrivialHist(c.Beh) && distinct.Add(fmt.Sprintf("%s|%d", histString(c.Beh), pi)) {
			res.CountNontrivial()
		}
		if i%(total/5+1) == 0 {
			res.AddSample(map[string]interface{}{"history": histString(c.Beh), "profile": c.Inner + "/" + c.KeySet, "kind": c.Beh[0].Str("kind")})
		}
	}, nil)
}

func nontrivialHist(b behav.Behaviour) bool {
	mut := -1
	for i, st := range b {
		switch st.Str("op") {
		case "Add", "Remove":
			if st.Bool("rb") && mut < 0 {
				mut = i
			}
		case "AddN", "RemoveN", "ImportSet", "ImportClear":
			if len(st.Ints("rs")) > 0 && mut < 0 {
				mut = i
			}
		}
	}
	return mut >= 0 && mut < len(b)-1
}

func histString(b behav.Behaviour) string {
	var parts []string
	for _, st := range b {
		parts = append(parts, fmt.Sprintf("%s%s", st.Str("op"), behav.JSON(st["args"])))
	}
	return strings.Join(parts, " ; ")
}

func TestC02(t *testing.T) { runHistTest(t, "c02") }
func TestC05(t *testing.T) { runHistTest(t, "c05") }
