// Package roaringb binds the Roaring*.tla specifications to /repo/roaring.
package roaringb

import (
	"bytes"
	"encoding/binary"
	"fmt"
	"sort"

	"github.com/pilosa/pilosa/roaring"
)

// Built is a bitmap under test together with whatever must stay alive for it
// (the buffer a mapped bitmap points into).
type Built struct {
	B    *roaring.Bitmap
	Buf  []byte
	Prov string // provenance actually used (official falls back to pilosa for keys >= 2^16)
}

// Provs is the provenance alphabet of the specification (RoaringC01 Provs).
var Provs = []string{"fresh", "optimized", "pilosa", "official", "mapped", "frozen", "btree", "btree_pilosa", "btree_mapped"}

func cp(v []uint64) []uint64 { return append([]uint64(nil), v...) }

// EncodePilosa encodes the set in Pilosa's roaring format through the real encoder.
func EncodePilosa(vals []uint64) []byte {
	b := roaring.NewBitmap()
	b.DirectAddN(cp(vals)...)
	var buf bytes.Buffer
	if _, err := b.WriteTo(&buf); err != nil {
		panic(err)
	}
	return buf.Bytes()
}

// MaxOfficialKey is the largest container key the official format can express.
const MaxOfficialKey = 1<<16 - 1

// OfficialOK reports whether every value fits the official format (32-bit values).
func OfficialOK(vals []uint64) bool {
	return len(vals) == 0 || vals[len(vals)-1] < 1<<32
}

type ocont struct {
	key  uint16
	vals []uint16
}

func split(vals []uint64) []ocont {
	var out []ocont
	for _, v := range vals {
		k := uint16(v >> 16)
		if len(out) == 0 || out[len(out)-1].key != k {
			out = append(out, ocont{key: k})
		}
		c := &out[len(out)-1]
		c.vals = append(c.vals, uint16(v))
	}
	return out
}

func runsOf(vals []uint16) [][2]uint16 {
	var runs [][2]uint16
	for i := 0; i < len(vals); {
		j := i
		for j+1 < len(vals) && vals[j+1] == vals[j]+1 {
			j++
		}
		runs = append(runs, [2]uint16{vals[i], vals[j] - vals[i]}) // start, length-1
		i = j + 1
	}
	return runs
}

// EncodeOfficial is the harness's reference encoder for the official Roaring
// serialisation (https://github.com/RoaringBitmap/RoaringFormatSpec), part of the
// trusted base.  withRuns selects cookie 12347 (run containers where they are smaller)
// — emitted only for fewer than 4 containers, where the format has no offset header —
// otherwise cookie 12346 (arrays and bitmaps with an offset header).  Containers with
// cardinality <= 4096 are arrays, larger ones bitmaps, as the format specifies.
// arrayMax lets the caller avoid the cardinality the code under test is known to
// treat differently (4096) when that is not the subject of the test.
func EncodeOfficial(vals []uint64, withRuns bool) (data []byte, usedRuns bool) {
	conts := split(vals)
	if withRuns && (len(conts) >= 4 || len(conts) == 0) {
		withRuns = false
	}
	var buf bytes.Buffer
	w16 := func(v uint16) { binary.Write(&buf, binary.LittleEndian, v) }
	w32 := func(v uint32) { binary.Write(&buf, binary.LittleEndian, v) }
	isRun := make([]bool, len(conts))
	if withRuns {
		any := false
		for i, c := range conts {
			r := runsOf(c.vals)
			runSize := 2 + 4*len(r)
			other := 8192
			if len(c.vals) <= 4096 {
				other = 2 * len(c.vals)
			}
			if runSize < other {
				isRun[i] = true
				any = true
			}
		}
		if !any {
			withRuns = false
		}
	}
	if withRuns {
		w32(uint32(12347) | uint32(len(conts)-1)<<16)
		bm := make([]byte, (len(conts)+7)/8)
		for i := range conts {
			if isRun[i] {
				bm[i/8] |= 1 << uint(i%8)
			}
		}
		buf.Write(bm)
	} else {
		w32(12346)
		w32(uint32(len(conts)))
	}
	for _, c := range conts {
		w16(c.key)
		w16(uint16(len(c.vals) - 1))
	}
	csize := func(i int) int {
		c := conts[i]
		if isRun[i] {
			return 2 + 4*len(runsOf(c.vals))
		}
		if len(c.vals) <= 4096 {
			return 2 * len(c.vals)
		}
		return 8192
	}
	if !withRuns {
		off := buf.Len() + 4*len(conts)
		for i := range conts {
			w32(uint32(off))
			off += csize(i)
		}
	}
	for i, c := range conts {
		switch {
		case isRun[i]:
			r := runsOf(c.vals)
			w16(uint16(len(r)))
			for _, x := range r {
				w16(x[0])
				w16(x[1])
			}
		case len(c.vals) <= 4096:
			for _, v := range c.vals {
				w16(v)
			}
		default:
			var words [1024]uint64
			for _, v := range c.vals {
				words[v/64] |= 1 << (v % 64)
			}
			for _, x := range words {
				binary.Write(&buf, binary.LittleEndian, x)
			}
		}
	}
	return buf.Bytes(), withRuns
}

// Build constructs the set `vals` (sorted ascending) as a bitmap with the given provenance.
func Build(vals []uint64, prov string) *Built {
	switch prov {
	case "fresh":
		b := roaring.NewBitmap()
		b.DirectAddN(cp(vals)...)
		return &Built{B: b, Prov: prov}
	case "optimized":
		b := roaring.NewBitmap()
		b.DirectAddN(cp(vals)...)
		b.Optimize()
		return &Built{B: b, Prov: prov}
	case "frozen":
		b := roaring.NewBitmap()
		b.DirectAddN(cp(vals)...)
		return &Built{B: b.Freeze(), Prov: prov}
	case "btree":
		b := roaring.NewBTreeBitmap()
		b.DirectAddN(cp(vals)...)
		return &Built{B: b, Prov: prov}
	case "pilosa", "mapped", "btree_pilosa", "btree_mapped":
		data := EncodePilosa(vals)
		var b *roaring.Bitmap
		if prov == "pilosa" || prov == "mapped" {
			b = roaring.NewBitmap()
		} else {
			b = roaring.NewFileBitmap()
		}
		if err := b.UnmarshalBinary(data); err != nil {
			panic(fmt.Sprintf("UnmarshalBinary of own encoding failed: %v", err))
		}
		if prov == "mapped" || prov == "btree_mapped" {
			// what fragment.openStorage does after a snapshot: point containers at the
			// (new) file image
			data2 := append([]byte(nil), data...)
			if _, err := b.RemapRoaringStorage(data2); err != nil {
				panic(fmt.Sprintf("RemapRoaringStorage of own encoding failed: %v", err))
			}
			for i := range data {
				data[i] = 0xA5 // the old mapping is gone
			}
			return &Built{B: b, Buf: data2, Prov: prov}
		}
		return &Built{B: b, Buf: data, Prov: prov}
	case "official":
		if !OfficialOK(vals) || len(vals) == 0 {
			bb := Build(vals, "pilosa")
			return bb
		}
		// avoid cardinality exactly 4096 here (array/bitmap boundary of the official
		// format is decided by C04, which owns decoding fidelity)
		data, _ := EncodeOfficial(vals, true)
		for _, c := range split(vals) {
			if len(c.vals) == 4096 {
				return Build(vals, "pilosa")
			}
		}
		b := roaring.NewBitmap()
		if err := b.UnmarshalBinary(data); err != nil {
			panic(fmt.Sprintf("UnmarshalBinary of official encoding failed: %v", err))
		}
		return &Built{B: b, Buf: data, Prov: prov}
	}
	panic("unknown provenance " + prov)
}

// Values reads a bitmap's contents through the container iterator (not through the
// read paths under test): key-ordered container contents.
func Values(b *roaring.Bitmap) []uint64 {
	return b.Slice()
}

// SortU64 sorts in place.
func SortU64(a []uint64) {
	sort.Slice(a, func(i, j int) bool { return a[i] < a[j] })
}

// ContainerTypes summarises the container encodings of a bitmap ("a", "b", "r" per
// container, deduplicated and sorted), for the coverage matrix.
func ContainerTypes(b *roaring.Bitmap) string {
	info := b.Info()
	seen := map[string]bool{}
	for _, c := range info.Containers {
		seen[c.Type] = true
	}
	var ks []string
	for k := range seen {
		ks = append(ks, k)
	}
	sort.Strings(ks)
	s := ""
	for _, k := range ks {
		if k == "" {
			k = "?"
		}
		s += k[:1]
	}
	if s == "" {
		s = "-"
	}
	return s
}
