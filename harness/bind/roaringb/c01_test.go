package roaringb

import (
	"encoding/json"
	"fmt"
	"os"
	"strings"
	"testing"

	"github.com/pilosa/pilosa/roaring"

	"verif/harness/behav"
	"verif/harness/gamma"
)

// c01Case is a self-contained replay: one behaviour under one profile and cut variant.
type c01Case struct {
	Beh     behav.Behaviour `json:"beh"`
	Inner   string          `json:"inner"`
	KeySet  string          `json:"keyset"`
	Window  string          `json:"window,omitempty"`
	K       int             `json:"k"`
	M       int             `json:"m"`
	Seed    int64           `json:"seed"`
	Variant int             `json:"variant"`
}

func (c *c01Case) profile() *gamma.Profile {
	if c.Window != "" {
		return gamma.Window(c.K*c.M, c.Window, c.Seed)
	}
	return gamma.Cached(c.Inner, c.KeySet, c.K, c.M, c.Seed)
}

func iterSlice(b *roaring.Bitmap, seek uint64) []uint64 {
	itr := b.Iterator()
	itr.Seek(seek)
	var out []uint64
	for v, eof := itr.Next(); !eof; v, eof = itr.Next() {
		out = append(out, v)
	}
	return out
}

// containerViews reads the bitmap through the per-container view (Containers.Iterator):
// the sum of the containers' N and, for every value of the universe, membership in its
// container. Keys must be strictly ascending.
func containerViews(b *roaring.Bitmap, universe []uint64) (vals []uint64, sumN uint64, problem string) {
	it, _ := b.Containers.Iterator(0)
	conts := map[uint64]*roaring.Container{}
	first := true
	var last uint64
	for it.Next() {
		k, c := it.Value()
		if !first && k <= last {
			problem = fmt.Sprintf("container keys not ascending: %d after %d", k, last)
		}
		first, last = false, k
		if c == nil {
			continue
		}
		sumN += uint64(c.N())
		conts[k] = c
	}
	for _, v := range universe {
		if c := conts[v>>16]; c != nil && c.Contains(uint16(v)) {
			vals = append(vals, v)
		}
	}
	return vals, sumN, problem
}

// runC01 replays one case; it returns "" when the code agrees with the specification,
// else a description. cov receives coverage keys.
func runC01(c *c01Case, cov func(string)) (mismatch string, op string) {
	p := c.profile()
	st := c.Beh[0]
	op = st.Str("op")
	A := p.Set(st.Ints("A"))
	B := p.Set(st.Ints("B"))
	Cc := p.Set(st.Ints("C"))
	args := st.Ints("args")
	var wantSet []uint64
	if op != "Shift" { // Shift's abstract result leaves the universe; the harness computes v+1 itself
		wantSet = p.Set(st.Ints("rs"))
	}
	wantB := st.Bool("rb")
	wantE := st.Int("re")
	a := Build(A, st.Str("provA"))
	var b, cc *Built
	if st.Has("provB") {
		b = Build(B, st.Str("provB"))
	}
	cc = Build(Cc, "fresh")
	if cov != nil {
		cov("op:" + op)
		cov("encA:" + ContainerTypes(a.B) + "/" + a.Prov)
		if op == "Intersect" || op == "Union" || op == "Difference" || op == "Xor" || op == "IntersectionCount" || op == "UnionInPlace" {
			cov("pair:" + op + ":" + ContainerTypes(a.B) + "x" + ContainerTypes(b.B))
		}
	}
	cmpSet := func(what string, got []uint64) string {
		if !gamma.Equal(wantSet, got) {
			return fmt.Sprintf("%s: %s", what, gamma.Diff(wantSet, got))
		}
		return ""
	}
	cut := func(cidx int, variant int) (uint64, bool) { return p.Cut(cidx, variant) }
	switch op {
	case "Contains":
		x := args[0]
		for _, v := range p.Blocks[x] {
			if a.B.Contains(v) != wantB {
				return fmt.Sprintf("Contains(%d) = %v, want %v", v, !wantB, wantB), op
			}
		}
		// values between blocks are never members
		if lo := p.Lo(x); lo > 0 && (x == 0 || p.Hi(x-1) < lo-1) {
			if a.B.Contains(lo - 1) {
				return fmt.Sprintf("Contains(%d) = true for a value in no block", lo-1), op
			}
		}
	case "Count":
		if got := a.B.Count(); got != uint64(len(wantSet)) {
			return fmt.Sprintf("Count() = %d, want %d", got, len(wantSet)), op
		}
	case "Slice":
		return cmpSet("Slice()", a.B.Slice()), op
	case "ForEach":
		var got []uint64
		a.B.ForEach(func(v uint64) { got = append(got, v) })
		return cmpSet("ForEach()", got), op
	case "Min":
		v, ok := a.B.Min()
		if ok != wantB {
			return fmt.Sprintf("Min() ok = %v, want %v", ok, wantB), op
		}
		if ok && v != p.Lo(wantE) {
			return fmt.Sprintf("Min() = %d, want %d", v, p.Lo(wantE)), op
		}
	case "Max":
		v := a.B.Max()
		want := uint64(0)
		if wantE >= 0 {
			want = p.Hi(wantE)
		}
		if v != want {
			return fmt.Sprintf("Max() = %d, want %d", v, want), op
		}
	case "Any":
		if got := a.B.Any(); got != wantB {
			return fmt.Sprintf("Any() = %v, want %v", got, wantB), op
		}
	case "Clone":
		return cmpSet("Clone().Slice()", a.B.Clone().Slice()), op
	case "Freeze":
		return cmpSet("Freeze().Slice()", a.B.Freeze().Slice()), op
	case "ContainerViews":
		all := make([]int, p.N())
		for i := range all {
			all[i] = i
		}
		vals, n, problem := containerViews(a.B, p.Set(all))
		if problem != "" {
			return problem, op
		}
		if n != uint64(len(wantSet)) {
			return fmt.Sprintf("sum of container N = %d, want %d", n, len(wantSet)), op
		}
		return cmpSet("container iteration", vals), op
	case "CountRange", "SliceRange", "ForEachRange":
		v1, v2 := c.Variant%3, (c.Variant/3)%3
		if args[0] == args[1] {
			v2 = v1
		}
		lo, ok1 := cut(args[0], v1)
		hi, ok2 := cut(args[1], v2)
		if !ok1 || !ok2 {
			return "", "skip"
		}
		if lo > hi {
			return "", "skip"
		}
		switch op {
		case "CountRange":
			if got := a.B.CountRange(lo, hi); got != uint64(len(wantSet)) {
				return fmt.Sprintf("CountRange(%d,%d) = %d, want %d", lo, hi, got, len(wantSet)), op
			}
		case "SliceRange":
			return cmpSet(fmt.Sprintf("SliceRange(%d,%d)", lo, hi), a.B.SliceRange(lo, hi)), op
		case "ForEachRange":
			var got []uint64
			a.B.ForEachRange(lo, hi, func(v uint64) { got = append(got, v) })
			return cmpSet(fmt.Sprintf("ForEachRange(%d,%d)", lo, hi), got), op
		}
	case "Seek":
		lo, ok := cut(args[0], c.Variant%3)
		if !ok {
			return "", "skip"
		}
		return cmpSet(fmt.Sprintf("Seek(%d)+Next*", lo), iterSlice(a.B, lo)), op
	case "OffsetRange":
		off, kl, kh := args[0], args[1], args[2]
		start, ok1 := p.KeyCut(kl, c.Variant%2)
		end, ok2 := p.KeyCut(kh, (c.Variant/2)%2)
		if !ok1 || !ok2 || start > end {
			return "", "skip"
		}
		offset := uint64(off) * (7 << 16)
		// expected: values v of A with start <= v < end, mapped to v - start + offset;
		// the abstract result rs says which blocks those are
		want := make([]uint64, 0, len(wantSet))
		for _, v := range wantSet {
			want = append(want, v-start+offset)
		}
		got := a.B.OffsetRange(offset, start, end).Slice()
		if !gamma.Equal(want, got) {
			return fmt.Sprintf("OffsetRange(%d,%d,%d): %s", offset, start, end, gamma.Diff(want, got)), op
		}
	case "Intersect":
		return cmpSet("Intersect", a.B.Intersect(b.B).Slice()), op
	case "IntersectionCount":
		if got := a.B.IntersectionCount(b.B); got != uint64(len(wantSet)) {
			return fmt.Sprintf("IntersectionCount = %d, want %d", got, len(wantSet)), op
		}
	case "Union":
		r := a.B.Union(b.B)
		if m := cmpSet("Union", r.Slice()); m != "" {
			return m, op
		}
		if got := r.Count(); got != uint64(len(wantSet)) {
			return fmt.Sprintf("Union(...).Count() = %d, want %d", got, len(wantSet)), op
		}
	case "UnionInPlace":
		a.B.UnionInPlace(b.B)
		if m := cmpSet("UnionInPlace", a.B.Slice()); m != "" {
			return m, op
		}
		if got := a.B.Count(); got != uint64(len(wantSet)) {
			return fmt.Sprintf("after UnionInPlace Count() = %d, want %d", got, len(wantSet)), op
		}
	case "Difference":
		return cmpSet("Difference", a.B.Difference(b.B).Slice()), op
	case "Xor":
		return cmpSet("Xor", a.B.Xor(b.B).Slice()), op
	case "Union3":
		r := a.B.Union(b.B, cc.B)
		if m := cmpSet("Union(B,C)", r.Slice()); m != "" {
			return m, op
		}
		if got := r.Count(); got != uint64(len(wantSet)) {
			return fmt.Sprintf("Union(B,C).Count() = %d, want %d", got, len(wantSet)), op
		}
	case "UnionInPlace3":
		a.B.UnionInPlace(b.B, cc.B)
		if m := cmpSet("UnionInPlace(B,C)", a.B.Slice()); m != "" {
			return m, op
		}
		if got := a.B.Count(); got != uint64(len(wantSet)) {
			return fmt.Sprintf("after UnionInPlace(B,C) Count() = %d, want %d", got, len(wantSet)), op
		}
	case "UnionInPlaceDup":
		a.B.UnionInPlace(b.B, b.B)
		if m := cmpSet("UnionInPlace(B,B)", a.B.Slice()); m != "" {
			return m, op
		}
		if got := a.B.Count(); got != uint64(len(wantSet)) {
			return fmt.Sprintf("after UnionInPlace(B,B) Count() = %d, want %d", got, len(wantSet)), op
		}
	case "Union0":
		return cmpSet("Union()", a.B.Union().Slice()), op
	case "Shift":
		// arithmetic in the harness (trusted base): every value + 1, the carry out of
		// 2^64 is dropped
		want := make([]uint64, 0, len(A))
		for _, v := range A {
			if v != ^uint64(0) {
				want = append(want, v+1)
			}
		}
		r, err := a.B.Shift(1)
		if err != nil {
			return "Shift(1) error: " + err.Error(), op
		}
		got := r.Slice()
		if !gamma.Equal(want, got) {
			return "Shift(1): " + gamma.Diff(want, got), op
		}
		if n := r.Count(); n != uint64(len(want)) {
			return fmt.Sprintf("Shift(1).Count() = %d, want %d", n, len(want)), op
		}
	case "Flip":
		if c.Window == "" {
			return "", "skip"
		}
		lo, hi := p.Lo(args[0]), p.Hi(args[1])
		if hi == ^uint64(0) {
			return "", "skip" // Flip iterates i <= end; end = 2^64-1 is outside its contract
		}
		return cmpSet(fmt.Sprintf("Flip(%d,%d)", lo, hi), a.B.Flip(lo, hi).Slice()), op
	default:
		return "unknown op " + op, op
	}
	return "", op
}

type profSel struct {
	inner, keyset, window string
}

// c01Profiles chooses the profiles for a run.
func c01Profiles(family string, seed int64) []profSel {
	var out []profSel
	if family == "shiftflip" {
		for _, w := range gamma.Windows {
			out = append(out, profSel{window: w})
		}
		if !behav.Thorough() {
			// four windows by seed, always including the container edge and the top
			out = []profSel{{window: "edge"}, {window: "top"}, {window: gamma.Windows[int(seed)%len(gamma.Windows)]}, {window: "zero"}}
		}
		return out
	}
	inners := []string{"edge", "array", "thresh", "comb", "runs", "runthresh", "longruns", "full", "mixed"}
	keysets := gamma.KeySets
	if behav.Thorough() {
		for i, in := range inners {
			out = append(out, profSel{inner: in, keyset: keysets[i%len(keysets)]})
			out = append(out, profSel{inner: in, keyset: keysets[(i+1+int(seed))%len(keysets)]})
		}
		return out
	}
	// quick: runs and thresh always (the shapes with the most branches), plus two by seed
	out = append(out, profSel{inner: "runs", keyset: "low"}, profSel{inner: "thresh", keyset: "gap"})
	out = append(out, profSel{inner: inners[int(seed)%len(inners)], keyset: keysets[int(seed)%len(keysets)]})
	out = append(out, profSel{inner: inners[int(seed+3)%len(inners)], keyset: keysets[int(seed+1)%len(keysets)]})
	return out
}

func TestC01(t *testing.T) {
	res := behav.NewResult()
	defer func() {
		if err := res.Write(); err != nil {
			t.Fatal(err)
		}
	}()
	if raw, ok := behav.LoadReplay(); ok {
		var c c01Case
		if err := json.Unmarshal(raw, &c); err != nil {
			t.Fatal(err)
		}
		res.Evaluations = 1
		var mm string
		pv, stack := behav.Protect(func() { mm, _ = runC01(&c, nil) })
		if pv != nil {
			mm = fmt.Sprintf("panic: %v\n%s", pv, stack)
		}
		if mm != "" {
			res.Fail(behav.Failure{Match: map[string]string{"op": c.Beh[0].Str("op")}, Detail: mm, Replay: c})
		}
		return
	}
	behs := behav.LoadEnv()
	family := os.Getenv("VERIF_FAMILY")
	K, M := behav.EnvInt("VERIF_K", 1), behav.EnvInt("VERIF_M", 4)
	seed := behav.Seed()
	profs := c01Profiles(family, seed)
	if family == "shiftflip" {
		// Shift is also replayed under ordinary profiles (dense containers); Flip needs windows
		profs = append(profs, profSel{inner: "runs", keyset: "low"}, profSel{inner: "comb", keyset: "high"},
			profSel{inner: "full", keyset: "gap"}, profSel{inner: "edge", keyset: "spread"})
	}
	nvar := 1
	if family == "range" {
		nvar = 9
		if !behav.Thorough() {
			nvar = 3
		}
	}
	var distinct behav.Distinct
	type job struct {
		bi int
		ps profSel
		v  int
	}
	var jobs []job
	// quick tier: every behaviour is replayed under 4 profiles, rotated over ALL
	// (inner shape x key placement) combinations by behaviour index and seed, so that one
	// run reaches every container encoding pairing instead of the same four profiles
	var all []profSel
	perBeh := 4
	if behav.Thorough() {
		perBeh = 6 // thorough: the large families also rotate (6 of 36 profiles per behaviour)
	}
	if family != "shiftflip" {
		for _, in := range []string{"edge", "array", "thresh", "comb", "runs", "runthresh", "longruns", "full", "mixed"} {
			for _, ks := range gamma.KeySets {
				all = append(all, profSel{inner: in, keyset: ks})
			}
		}
	}
	for bi := range behs {
		use := profs
		if all != nil {
			use = nil
			for k := 0; k < perBeh; k++ {
				use = append(use, all[(bi*5+k*7+int(seed)*3)%len(all)])
			}
		}
		for _, ps := range use {
			for v := 0; v < nvar; v++ {
				vv := v
				if family == "range" && !behav.Thorough() {
					vv = []int{0, 4, 1}[v] // (lowest,lowest) (highest,highest) (start at block lo, end just after the previous block)
				}
				jobs = append(jobs, job{bi, ps, vv})
			}
		}
	}
	behav.Parallel(len(jobs), func(i int) {
		j := jobs[i]
		c := &c01Case{Beh: behs[j.bi], Inner: j.ps.inner, KeySet: j.ps.keyset, Window: j.ps.window, K: K, M: M, Seed: seed, Variant: j.v}
		var mm, op string
		pv, stack := behav.Protect(func() { mm, op = runC01(c, res.Cover) })
		if pv != nil {
			mm = fmt.Sprintf("panic: %v\n%s", pv, firstLines(stack, 30))
			op = c.Beh[0].Str("op")
		}
		if op == "skip" {
			res.Cover("skipped")
			return
		}
		res.CountEval()
		st := c.Beh[0]
		if len(st.Ints("A")) > 0 && distinct.Add(fmt.Sprintf("%v|%v|%v|%s|%v|%s|%s|%s|%s|%d", st.Ints("A"), st.Ints("B"), st.Ints("C"), op, st.Ints("args"), st.Str("provA"), st.Str("provB"), j.ps.inner+j.ps.window, j.ps.keyset, j.v)) {
			res.CountNontrivial()
		}
		if i%(len(jobs)/5+1) == 0 {
			res.AddSample(map[string]interface{}{"behaviour": c.Beh, "profile": c.profile().Name, "variant": c.Variant})
		}
		if mm != "" {
			sym := "wrong_result"
			if strings.HasPrefix(mm, "panic") {
				sym = "panic"
				if !behav.PanicInCode(mm) {
					res.SetInconclusive("harness panic: " + mm)
					return
				}
			}
			res.Fail(behav.Failure{
				Match:  map[string]string{"op": op, "symptom": sym, "provA": st.Str("provA"), "inner": j.ps.inner + j.ps.window},
				Detail: fmt.Sprintf("%s under profile %s: %s (A=%v B=%v args=%v provA=%s provB=%s)", op, c.profile().Name, mm, st.Ints("A"), st.Ints("B"), st.Ints("args"), st.Str("provA"), st.Str("provB")),
				Replay: c,
			})
		}
	}, nil)
}

func firstLines(s string, n int) string {
	lines := strings.Split(s, "\n")
	if len(lines) > n {
		lines = lines[:n]
	}
	return strings.Join(lines, "\n")
}
