//go:build verif

package fragb

import "testing"

// TestC10 replays behaviours of spec/Fragment.tla (C10_*.cfg); at every Blocks step and
// at the end it compares Blocks() with reference fragments built with setBit only.
func TestC10(t *testing.T) { Drive(true, t.Fatal) }
