//go:build verif

package fragb

import (
	"bytes"
	"fmt"
	"os"
	"path/filepath"
	"runtime/debug"
	"sort"
	"strings"
	"sync"
	"sync/atomic"
	"time"

	"github.com/pilosa/pilosa"

	"verif/harness/behav"
)

// Case is a self-contained replay: one behaviour of spec/Fragment.tla under one
// refinement profile, fragment configuration and observation variant.
type Case struct {
	Beh       behav.Behaviour `json:"beh"`
	Kind      string          `json:"kind"`    // set | mutex | bool | bsi
	Profile   string          `json:"profile"` // block shapes
	Shard     uint64          `json:"shard"`
	Seed      int64           `json:"seed"`
	CacheType string          `json:"cache_type"`
	CacheSize uint32          `json:"cache_size"`
	// Loud: after every step read the whole fragment through every read path and compare
	// with the specification's post state. Quiet: only the reads the behaviour contains
	// (reads fill caches and freeze containers, so observing changes the history) plus
	// the final comparison before and after close+reopen.
	Loud bool `json:"loud"`
	// SrcMode selects the Row object given to setRow: "fresh" (NewRow), "reuse" (the Row
	// object used before for the same columns), "fromfrag" (fragment.row of a row that
	// currently holds exactly these columns, when there is one).
	SrcMode string `json:"src_mode"`
	// Checksums: C10 mode - compare Blocks() with reference fragments at every Blocks step
	// and at the end.
	Checksums bool `json:"checksums"`
	BitDepth  uint `json:"bit_depth"`
	// Corrupt (binding self-test): flip one expected value of the behaviour.
	Corrupt string `json:"corrupt,omitempty"`
}

// Mismatch describes a disagreement found while replaying.
type Mismatch struct {
	Step   int
	Op     string // op of the step at which it was observed
	Obs    string // observable that disagreed
	After  string // most recent write path executed (incl. this step)
	Detail string
}

func (m *Mismatch) String() string {
	return fmt.Sprintf("step %d (%s), observable %s, last write %s: %s", m.Step, m.Op, m.Obs, m.After, m.Detail)
}

var scratchSeq int64

var scratchOnce sync.Once
var scratchPath string

// scratchDir is where fragment files live. Closing a fragment fsyncs its file, which on
// a disk costs far more than everything else a replay does, so the files go to the
// tmpfs /dev/shm/<name of $VERIF_SCRATCH>.fragb when that is available (removed by the
// driver at exit and by checks/c07.py, c10.py), else below $VERIF_SCRATCH.
func scratchDir() string {
	scratchOnce.Do(func() {
		d := os.Getenv("VERIF_SCRATCH")
		if d == "" {
			d = os.Getenv("TMPDIR")
		}
		if d == "" {
			d = os.TempDir()
		}
		shm := filepath.Join("/dev/shm", filepath.Base(d)+".fragb", fmt.Sprintf("%d", os.Getpid()))
		if os.Getenv("VERIF_FRAGB_NOSHM") == "" && os.MkdirAll(shm, 0o755) == nil {
			scratchPath = shm
			return
		}
		scratchPath = filepath.Join(d, fmt.Sprintf("fragb-%d", os.Getpid()))
		_ = os.MkdirAll(scratchPath, 0o755)
	})
	return scratchPath
}

func newPath() string {
	return filepath.Join(scratchDir(), fmt.Sprintf("frag-%d", atomic.AddInt64(&scratchSeq, 1)))
}

func removeFragFiles(path string) {
	for _, ext := range []string{"", ".cache", ".snapshotting", ".copying", ".temp"} {
		_ = os.Remove(path + ext)
	}
}

// run state of one replay
type runner struct {
	c       *Case
	p       *Profile
	f       *pilosa.VerifFragment
	path    string
	rows    []uint64 // row universe of the kind
	srcRows map[string]*pilosa.Row
	prev    []int // spec bits before the current step
	after   string
	cover   func(string)
	hasQ    bool
	memo    map[string][]Bit
}

func rowsOfKind(kind string, bitDepth uint) []uint64 {
	switch kind {
	case "bool":
		return []uint64{0, 1}
	case "bsi":
		out := []uint64{}
		for r := uint64(0); r < uint64(bitDepth)+2; r++ {
			out = append(out, r)
		}
		return out
	default:
		return []uint64{0, 1, 99, 100}
	}
}

// expand is Profile.Expand memoised per run (post states repeat from step to step).
func (r *runner) expand(codes []int) []Bit {
	key := fmt.Sprint(codes)
	if v, ok := r.memo[key]; ok {
		return v
	}
	v := r.p.Expand(codes)
	if r.memo == nil || len(r.memo) > 8 {
		r.memo = map[string][]Bit{}
	}
	r.memo[key] = v
	return v
}

func (r *runner) cov(k string) {
	if r.cover != nil {
		r.cover(k)
	}
}

// drain plays the background worker until the queue is empty.
func (r *runner) drain() error {
	for r.hasQ && r.f.QueueLen() > 0 {
		if _, err := r.f.WorkerStep(); err != nil {
			return err
		}
	}
	return nil
}

// withWorker runs fn while playing the background snapshot worker. awaits says the
// call is one that waits for a queued snapshot (setRow, clearRow, the large importValue
// path): the worker is played at once. Any other call must return on its own and the
// queue is left alone (what is queued stays queued, as the specification says); should
// such a call not have returned after 10 s the worker is played too and the case is
// counted under blocked_until_worker_ran.
func (r *runner) withWorker(awaits bool, fn func() error) error {
	if !r.hasQ {
		return fn()
	}
	done := make(chan error, 1)
	var pv interface{}
	var stack string
	go func() {
		debug.SetPanicOnFault(true)
		var err error
		pv, stack = behav.Protect(func() { err = fn() })
		done <- err
	}()
	deadline := time.Now().Add(60 * time.Second)
	finish := func(err error) error {
		if pv != nil {
			panic(fmt.Sprintf("%v\n%s", pv, stack))
		}
		return err
	}
	if !awaits {
		select {
		case err := <-done:
			return finish(err)
		case <-time.After(10 * time.Second):
			r.cov("blocked_until_worker_ran")
		}
	}
	for {
		select {
		case err := <-done:
			return finish(err)
		default:
		}
		if ran, err := r.f.WorkerStep(); err != nil {
			return err
		} else if ran {
			r.cov("worker_during_call")
		} else {
			time.Sleep(20 * time.Microsecond)
		}
		if time.Now().After(deadline) {
			panic("hang: write call did not return within 60s while the snapshot worker was being played (github.com/pilosa/pilosa fragment)")
		}
	}
}

func bitsEqual(a, b []Bit) bool {
	if len(a) != len(b) {
		return false
	}
	for i := range a {
		if a[i] != b[i] {
			return false
		}
	}
	return true
}

func diffBits(want, got []Bit) string {
	w := map[Bit]bool{}
	for _, b := range want {
		w[b] = true
	}
	g := map[Bit]bool{}
	for _, b := range got {
		g[b] = true
	}
	var missing, extra []Bit
	for _, b := range want {
		if !g[b] && len(missing) < 4 {
			missing = append(missing, b)
		}
	}
	for _, b := range got {
		if !w[b] && len(extra) < 4 {
			extra = append(extra, b)
		}
	}
	dup := ""
	if len(g) != len(got) {
		dup = " (duplicates in result)"
	}
	return fmt.Sprintf("want %d bits, got %d%s; first missing %v, first extra %v", len(want), len(got), dup, missing, extra)
}

func u64Equal(a, b []uint64) bool {
	if len(a) != len(b) {
		return false
	}
	for i := range a {
		if a[i] != b[i] {
			return false
		}
	}
	return true
}

func short(v []uint64) string {
	if len(v) > 8 {
		return fmt.Sprintf("%v… (%d values)", v[:8], len(v))
	}
	return fmt.Sprintf("%v", v)
}

// existsCols returns, for a BSI fragment, the abstract columns whose exists bit is set in codes.
func existsCols(codes []int) map[int]bool {
	out := map[int]bool{}
	for _, code := range codes {
		if code/10 == 0 {
			out[code%10] = true
		}
	}
	return out
}

// maskCodes drops, for BSI fragments, rows >= 1 of columns that do not exist (their
// contents are not observable through value(); weakest reading).
func (r *runner) maskCodes(codes []int, post []int) []int {
	if r.c.Kind != "bsi" {
		return codes
	}
	ex := existsCols(post)
	var out []int
	for _, code := range codes {
		if code/10 >= 1 && !ex[code%10] {
			continue
		}
		out = append(out, code)
	}
	return out
}

// maskBits is maskCodes for concrete bits read from the fragment.
func (r *runner) maskBits(bits []Bit, post []int) []Bit {
	if r.c.Kind != "bsi" {
		return bits
	}
	ex := existsCols(post)
	dead := map[uint64]bool{}
	for c := 0; c < 4; c++ {
		if !ex[c] {
			for _, col := range r.p.Cols(c) {
				dead[col] = true
			}
		}
	}
	var out []Bit
	for _, b := range bits {
		if b.Row >= 1 && dead[b.Col] {
			continue
		}
		out = append(out, b)
	}
	return out
}

func (r *runner) readAll() ([]Bit, error) {
	var got []Bit
	err := r.f.ForEachBit(func(row, col uint64) error {
		got = append(got, Bit{row, col})
		return nil
	})
	return got, err
}

func rowBits(bits []Bit, row uint64) []uint64 {
	var out []uint64
	for _, b := range bits {
		if b.Row == row {
			out = append(out, b.Col)
		}
	}
	return out
}

// observeQuiet compares the fragment's contents with post through forEachBit only
// (storage.ForEach: fills no cache, freezes nothing).
func (r *runner) observeQuiet(post []int) *Mismatch {
	want := r.expand(r.maskCodes(post, post))
	got, err := r.readAll()
	if err != nil {
		return &Mismatch{Obs: "error", Detail: "forEachBit: " + err.Error()}
	}
	got = r.maskBits(got, post)
	if !bitsEqual(want, got) {
		return &Mismatch{Obs: "foreach", Detail: diffBits(want, got)}
	}
	return nil
}

// observeLoud reads the whole fragment through every read path.
func (r *runner) observeLoud(post []int) *Mismatch {
	if m := r.observeQuiet(post); m != nil {
		return m
	}
	masked := r.maskCodes(post, post)
	want := r.expand(masked)
	ex := existsCols(post)
	// row()
	var nonEmpty []uint64
	for _, row := range r.rows {
		wantCols := rowBits(want, row)
		for _, code := range post {
			if uint64(code/10) == row {
				nonEmpty = append(nonEmpty, row)
				break
			}
		}
		gotRow := r.f.Row(row)
		gotCols := gotRow.Columns()
		if r.c.Kind == "bsi" && row >= 1 {
			gotCols = rowBits(r.maskBits(colsAsBits(row, gotCols), post), row)
		} else if gotRow.Count() != uint64(len(gotCols)) {
			return &Mismatch{Obs: "row", Detail: fmt.Sprintf("row(%d).Count() = %d but Columns() has %d", row, gotRow.Count(), len(gotCols))}
		}
		if !u64Equal(wantCols, gotCols) {
			return &Mismatch{Obs: "row", Detail: fmt.Sprintf("row(%d): want %s, got %s", row, short(wantCols), short(gotCols))}
		}
	}
	// rows(0): for BSI the magnitude rows of cleared columns may hold unobservable bits
	if r.c.Kind != "bsi" {
		got := r.f.Rows(0, nil, nil, false, nil)
		if !u64Equal(nonEmpty, got) {
			return &Mismatch{Obs: "rows", Detail: fmt.Sprintf("rows(0): want %v, got %v", nonEmpty, got)}
		}
	}
	// bit() on representatives of every cell, and on a column outside every block
	has := map[int]bool{}
	for _, code := range masked {
		has[code] = true
	}
	for _, row := range r.rows {
		for c := 0; c < 4; c++ {
			if r.c.Kind == "bsi" && row >= 1 && !ex[c] {
				continue
			}
			for _, col := range r.p.Rep(c) {
				got, err := r.f.Bit(row, col)
				if err != nil {
					return &Mismatch{Obs: "error", Detail: "bit: " + err.Error()}
				}
				if got != has[int(row)*10+c] {
					return &Mismatch{Obs: "bit", Detail: fmt.Sprintf("bit(%d,%d) = %v, want %v", row, col, got, !got)}
				}
			}
		}
	}
	// blockData
	blocks := map[int]bool{}
	for _, row := range r.rows {
		blocks[int(row/pilosa.HashBlockSize)] = true
	}
	for k := range blocks {
		rs, cs := r.f.BlockData(k)
		if len(rs) != len(cs) {
			return &Mismatch{Obs: "blockdata", Detail: "row and column slices differ in length"}
		}
		var got []Bit
		for i := range rs {
			got = append(got, Bit{rs[i], r.p.Shard*pilosa.ShardWidth + cs[i]})
		}
		got = r.maskBits(got, post)
		var w []Bit
		for _, b := range want {
			if int(b.Row/pilosa.HashBlockSize) == k {
				w = append(w, b)
			}
		}
		if !bitsEqual(w, got) {
			return &Mismatch{Obs: "blockdata", Detail: fmt.Sprintf("blockData(%d): %s", k, diffBits(w, got))}
		}
	}
	// value()
	if r.c.Kind == "bsi" {
		for c := 0; c < 4; c++ {
			wv, wex := decodeVal(post, c, r.c.BitDepth)
			for _, col := range r.p.Rep(c) {
				v, e, err := r.f.Value(col, r.c.BitDepth)
				if err != nil {
					return &Mismatch{Obs: "error", Detail: "value: " + err.Error()}
				}
				if e != wex || (wex && v != wv) {
					return &Mismatch{Obs: "value", Detail: fmt.Sprintf("value(%d) = (%d,%v), want (%d,%v)", col, v, e, wv, wex)}
				}
			}
		}
	}
	return nil
}

func colsAsBits(row uint64, cols []uint64) []Bit {
	out := make([]Bit, len(cols))
	for i, c := range cols {
		out[i] = Bit{row, c}
	}
	return out
}

// decodeVal reads the value of abstract column c from spec bits (documented encoding:
// row 0 exists, row 1 sign, row 2+i bit i). Used only for the loud all-columns sweep;
// the expected results of Value steps come from the specification.
func decodeVal(post []int, c int, depth uint) (int64, bool) {
	has := map[int]bool{}
	for _, code := range post {
		has[code] = true
	}
	if !has[c] {
		return 0, false
	}
	var v int64
	for i := uint(0); i < depth; i++ {
		if has[int(2+i)*10+c] {
			v |= 1 << i
		}
	}
	if has[10+c] {
		v = -v
	}
	return v, true
}

func cacheSizeOr(n uint32) uint32 { return n }

// open creates the fragment under test.
func (r *runner) open(maxopn string) error {
	r.path = newPath()
	o := pilosa.VerifFragmentOptions{Shard: r.c.Shard, CacheType: r.c.CacheType, CacheSize: r.c.CacheSize,
		Kind: r.c.Kind, OwnQueue: true}
	r.f = pilosa.VerifNewFragment(r.path, o)
	r.hasQ = true
	if maxopn == "tiny" {
		r.f.SetMaxOpN(0)
	} else {
		r.f.SetMaxOpN(1 << 40)
	}
	return r.f.Open()
}

func (r *runner) close() {
	if r.f != nil {
		// after a panic inside the code under test the fragment may never finish closing
		// (Close waits for a snapshot that will not come): give it ten seconds, then leave it
		done := make(chan struct{})
		go func() {
			defer close(done)
			_, _ = behav.Protect(func() {
				_ = r.drain()
				_ = r.f.Close()
			})
		}()
		select {
		case <-done:
		case <-time.After(10 * time.Second):
			r.cov("close_abandoned_after_failure")
		}
	}
	removeFragFiles(r.path)
}

// load puts the initial contents into the fragment.
func (r *runner) load(codes []int, prov string) error {
	if len(codes) > 0 {
		bits := r.p.Expand(codes)
		if len(bits) <= 64 && r.c.Kind != "bsi" {
			for _, b := range bits {
				if _, err := r.f.SetBit(b.Row, b.Col); err != nil {
					return err
				}
			}
		} else if r.c.Kind == "mutex" || r.c.Kind == "bool" {
			rows, cols := make([]uint64, len(bits)), make([]uint64, len(bits))
			for i, b := range bits {
				rows[i], cols[i] = b.Row, b.Col
			}
			if err := r.f.BulkImport(rows, cols, false); err != nil {
				return err
			}
		} else {
			// row by row, as the API's import does
			for _, row := range r.rows {
				cs := rowBits(bits, row)
				if len(cs) == 0 {
					continue
				}
				rs := make([]uint64, len(cs))
				for i := range rs {
					rs[i] = row
				}
				if err := r.f.BulkImport(rs, cs, false); err != nil {
					return err
				}
			}
		}
	}
	switch prov {
	case "snap":
		return r.f.Snapshot()
	case "reopen":
		if err := r.drain(); err != nil {
			return err
		}
		return r.f.Reopen()
	}
	return nil
}

func chgWant(s behav.Step) (want, compare bool) {
	switch s.Str("chg") {
	case "T":
		return true, true
	case "F":
		return false, true
	}
	return false, false
}

func isWrite(op string) bool {
	switch op {
	case "SetBit", "ClearBit", "SetRow", "ClearRow", "BulkSet", "BulkClear", "BulkMutex", "RoaringSet", "RoaringClear",
		"SetValue", "ClearValue", "ImportValue", "ImportValueClear":
		return true
	}
	return false
}

func isRead(op string) bool {
	switch op {
	case "Row", "Bit", "Rows", "ForEachBit", "Blocks", "BlockData", "Value":
		return true
	}
	return false
}

// exec performs one step on the real fragment and compares what the call returns with
// what the specification says the caller must observe.
func (r *runner) exec(i int, s behav.Step) *Mismatch {
	op := s.Str("op")
	post := s.Ints("post")
	mm := func(obs, format string, a ...interface{}) *Mismatch {
		return &Mismatch{Obs: obs, Detail: fmt.Sprintf(format, a...)}
	}
	row := uint64(0)
	if s.Int("r") >= 0 {
		row = uint64(s.Int("r"))
	}
	c := s.Int("c")
	switch op {
	case "SetBit", "ClearBit":
		want, _ := chgWant(s)
		for _, col := range r.p.Cols(c) {
			var got bool
			var err error
			if op == "SetBit" {
				got, err = r.f.SetBit(row, col)
			} else {
				got, err = r.f.ClearBit(row, col)
			}
			if err != nil {
				return mm("error", "%s(%d,%d): %v", op, row, col, err)
			}
			if got != want {
				return mm("changed", "%s(%d,%d) reported changed=%v, want %v", op, row, col, got, want)
			}
		}
	case "SetRow":
		cs := s.Ints("xs")
		var cols []uint64
		for _, a := range cs {
			cols = append(cols, r.p.Cols(a)...)
		}
		key := fmt.Sprint(cs)
		var src *pilosa.Row
		mode := r.c.SrcMode
		if mode == "fromfrag" {
			// a row of the fragment that currently holds exactly these columns
			for _, q := range r.rows {
				var have []int
				for _, code := range r.prev {
					if uint64(code/10) == q {
						have = append(have, code%10)
					}
				}
				sort.Ints(have)
				if len(have) > 0 && fmt.Sprint(have) == key {
					src = r.f.Row(q)
					r.cov("setrow_src_fromfrag")
					break
				}
			}
		}
		if src == nil && mode == "reuse" {
			if src = r.srcRows[key]; src != nil {
				r.cov("setrow_src_reused")
			}
		}
		if src == nil {
			src = pilosa.NewRow(cols...)
			r.srcRows[key] = src
		}
		if err := r.withWorker(true, func() error { _, err := r.f.SetRow(src, row); return err }); err != nil {
			return mm("error", "setRow(%d): %v", row, err)
		}
	case "ClearRow":
		want, _ := chgWant(s)
		var got bool
		err := r.withWorker(true, func() (err error) { got, err = r.f.ClearRow(row); return err })
		if err != nil {
			return mm("error", "clearRow(%d): %v", row, err)
		}
		if got != want {
			return mm("changed", "clearRow(%d) reported changed=%v, want %v", row, got, want)
		}
	case "BulkSet", "BulkClear", "BulkMutex":
		var rows, cols []uint64
		for _, code := range s.Ints("sq") {
			for _, col := range r.p.Cols(code % 10) {
				rows = append(rows, uint64(code/10))
				cols = append(cols, col)
			}
		}
		if err := r.f.BulkImport(rows, cols, op == "BulkClear"); err != nil {
			return mm("error", "bulkImport: %v", err)
		}
	case "RoaringSet", "RoaringClear":
		pos := r.p.Positions(s.Ints("xs"))
		var data []byte
		if s.Str("fl") == "official" && hasCard4096(pos) {
			// the official-format reader's treatment of a container of exactly 4096
			// values is the subject of C04 (encodings), not of this property
			r.cov("roaring_official_4096_sent_as_pilosa")
			data = EncodePilosa(pos)
		} else if s.Str("fl") == "official" {
			var runs bool
			data, runs = EncodeOfficial(pos, r.c.Seed%2 == 0)
			if runs {
				r.cov("roaring_official_runs")
			}
		} else {
			data = EncodePilosa(pos)
		}
		if err := r.f.ImportRoaring(data, op == "RoaringClear"); err != nil {
			return mm("error", "importRoaring: %v", err)
		}
	case "SetValue", "ClearValue":
		want, cmp := chgWant(s)
		v := int64(s.Int("r"))
		for _, col := range r.p.Cols(c) {
			var got bool
			var err error
			if op == "SetValue" {
				got, err = r.f.SetValue(col, r.c.BitDepth, v)
			} else {
				got, err = r.f.ClearValue(col, r.c.BitDepth, v)
			}
			if err != nil {
				return mm("error", "%s(%d,%d): %v", op, col, v, err)
			}
			if cmp && got != want {
				return mm("changed", "%s(%d,%d) reported changed=%v, want %v", op, col, v, got, want)
			}
		}
	case "ImportValue", "ImportValueClear":
		sq := behav.ToList(s["sq"])
		acs, avs := behav.ToInts(sq[0]), behav.ToInts(sq[1])
		var cols []uint64
		var vals []int64
		for j := range acs {
			for _, col := range r.p.Cols(acs[j]) {
				cols = append(cols, col)
				vals = append(vals, int64(avs[j]))
			}
		}
		large := len(cols)*int(r.c.BitDepth+1)+r.f.OpN() >= r.f.MaxOpN()
		if large {
			r.cov("importvalue_large")
		} else {
			r.cov("importvalue_small")
		}
		err := r.withWorker(large, func() error { return r.f.ImportValue(cols, vals, r.c.BitDepth, op == "ImportValueClear") })
		if err != nil {
			return mm("error", "importValue: %v", err)
		}
	case "Snapshot":
		if err := r.f.Snapshot(); err != nil {
			return mm("error", "Snapshot: %v", err)
		}
	case "Enqueue":
		r.f.EnqueueSnapshot()
	case "BgSnapshot":
		ran, err := r.f.WorkerStep()
		if err != nil {
			return mm("error", "background snapshot: %v", err)
		}
		if !ran {
			r.cov("bg_snapshot_nothing_queued")
		}
	case "Reopen":
		if err := r.drain(); err != nil {
			return mm("error", "background snapshot: %v", err)
		}
		if err := r.f.Reopen(); err != nil {
			return mm("error", "reopen: %v", err)
		}
	case "Row":
		want := rowBits(r.p.Expand(codesOfRow(row, s.Ints("out"))), row)
		gotRow := r.f.Row(row)
		got := gotRow.Columns()
		if r.c.Kind == "bsi" && row >= 1 {
			want = rowBits(r.p.Expand(r.maskCodes(codesOfRow(row, s.Ints("out")), post)), row)
			got = rowBits(r.maskBits(colsAsBits(row, got), post), row)
		} else if gotRow.Count() != uint64(len(got)) {
			return mm("row", "row(%d).Count() = %d but Columns() has %d", row, gotRow.Count(), len(got))
		}
		if !u64Equal(want, got) {
			return mm("row", "row(%d): want %s, got %s", row, short(want), short(got))
		}
	case "Bit":
		want, _ := chgWant(s)
		for _, col := range r.p.Rep(c) {
			got, err := r.f.Bit(row, col)
			if err != nil {
				return mm("error", "bit: %v", err)
			}
			if got != want {
				return mm("bit", "bit(%d,%d) = %v, want %v", row, col, got, want)
			}
		}
	case "Rows":
		var colp *uint64
		if c >= 0 {
			reps := r.p.Rep(c)
			col := reps[(i+int(r.c.Seed))%len(reps)]
			colp = &col
		}
		var rin []uint64
		useRin := false
		if xs := s.Ints("xs"); !(len(xs) == 1 && xs[0] == -1) {
			useRin = true
			for _, x := range xs {
				rin = append(rin, uint64(x))
			}
		}
		var limp *uint64
		if l := s.Str("fl"); l != "0" && l != "" {
			lim := uint64(l[0] - '0')
			limp = &lim
		}
		got := r.f.Rows(row, colp, rin, useRin, limp)
		var want []uint64
		for _, x := range s.Ints("out") {
			want = append(want, uint64(x))
		}
		if !u64Equal(want, got) {
			return mm("rows", "rows(start=%d,col=%d,rowsIn=%v,limit=%s): want %v, got %v", row, c, s.Ints("xs"), s.Str("fl"), want, got)
		}
	case "ForEachBit":
		want := r.p.Expand(r.maskCodes(s.Ints("out"), post))
		got, err := r.readAll()
		if err != nil {
			return mm("error", "forEachBit: %v", err)
		}
		got = r.maskBits(got, post)
		if !bitsEqual(want, got) {
			return mm("foreach", "%s", diffBits(want, got))
		}
	case "BlockData":
		k := s.Int("r")
		want := r.p.Expand(r.maskCodes(s.Ints("out"), post))
		rs, cs := r.f.BlockData(k)
		if len(rs) != len(cs) {
			return mm("blockdata", "row and column slices differ in length")
		}
		var got []Bit
		for j := range rs {
			got = append(got, Bit{rs[j], r.p.Shard*pilosa.ShardWidth + cs[j]})
		}
		got = r.maskBits(got, post)
		if !bitsEqual(want, got) {
			return mm("blockdata", "blockData(%d): %s", k, diffBits(want, got))
		}
	case "Blocks":
		if s.Has("ckpost") {
			// binding self-test: the reference is built from planted wrong contents
			return r.checkBlocks(nil, s.Ints("ckpost"), true)
		}
		return r.checkBlocks(s.Ints("out"), post, true)
	case "Value":
		want, _ := chgWant(s)
		wv := int64(s.Int("r"))
		for _, col := range r.p.Rep(c) {
			v, e, err := r.f.Value(col, r.c.BitDepth)
			if err != nil {
				return mm("error", "value: %v", err)
			}
			if e != want || (want && v != wv) {
				return mm("value", "value(%d) = (%d,%v), want (%d,%v)", col, v, e, wv, want)
			}
		}
	default:
		panic("harness: unknown op " + op)
	}
	return nil
}

// hasCard4096 reports whether some container of the sorted positions holds exactly 4096 values.
func hasCard4096(pos []uint64) bool {
	n := 0
	for i, v := range pos {
		if i > 0 && v>>16 != pos[i-1]>>16 {
			if n == 4096 {
				return true
			}
			n = 0
		}
		n++
	}
	return n == 4096
}

func codesOfRow(row uint64, cols []int) []int {
	out := make([]int, len(cols))
	for i, c := range cols {
		out[i] = int(row)*10 + c
	}
	return out
}

// ---- C10: reference checksums ------------------------------------------------

var refCache sync.Map // key -> []byte

// refChecksum returns the checksum the real code computes for block k of a fragment
// that was built with setBit only and contains exactly `bits` (all in block k).
func refChecksum(shard uint64, k int, bits []Bit) []byte {
	var kb strings.Builder
	fmt.Fprintf(&kb, "%d/%d/", shard, k)
	h := uint64(14695981039346656037)
	for _, b := range bits {
		for _, v := range [2]uint64{b.Row, b.Col} {
			for s := 0; s < 64; s += 8 {
				h ^= (v >> uint(s)) & 0xff
				h *= 1099511628211
			}
		}
	}
	fmt.Fprintf(&kb, "%d/%x", len(bits), h)
	if len(bits) <= 6 {
		fmt.Fprintf(&kb, "/%v", bits)
	}
	key := kb.String()
	if v, ok := refCache.Load(key); ok {
		return v.([]byte)
	}
	path := newPath()
	f := pilosa.VerifNewFragment(path, pilosa.VerifFragmentOptions{Shard: shard, CacheType: pilosa.CacheTypeNone, Kind: "set"})
	f.SetMaxOpN(1 << 40)
	if err := f.Open(); err != nil {
		panic("harness: reference fragment: " + err.Error())
	}
	defer func() {
		_ = f.Close()
		removeFragFiles(path)
	}()
	for _, b := range bits {
		if _, err := f.SetBit(b.Row, b.Col); err != nil {
			panic("harness: reference fragment setBit: " + err.Error())
		}
	}
	bl := f.Blocks()
	if len(bl) != 1 || bl[0].ID != k {
		panic(fmt.Sprintf("harness: reference fragment for block %d reports blocks %v", k, bl))
	}
	sum := append([]byte(nil), bl[0].Checksum...)
	refCache.Store(key, sum)
	return sum
}

// checkBlocks compares Blocks() with reference fragments built from the specification's
// bits (from the fragment's own current bits for BSI fragments, whose cleared columns
// may hold unobservable magnitude bits).
func (r *runner) checkBlocks(wantIDs []int, post []int, cover bool) *Mismatch {
	var content []Bit
	if r.c.Kind == "bsi" {
		var err error
		if content, err = r.readAll(); err != nil {
			return &Mismatch{Obs: "error", Detail: "forEachBit: " + err.Error()}
		}
	} else {
		content = r.p.Expand(post)
	}
	byBlock := map[int][]Bit{}
	var ids []int
	for _, b := range content {
		k := int(b.Row / pilosa.HashBlockSize)
		if _, ok := byBlock[k]; !ok {
			ids = append(ids, k)
		}
		byBlock[k] = append(byBlock[k], b)
	}
	sort.Ints(ids)
	got := r.f.Blocks()
	var gotIDs []int
	for _, b := range got {
		gotIDs = append(gotIDs, b.ID)
	}
	if r.c.Kind != "bsi" && wantIDs != nil && fmt.Sprint(wantIDs) != fmt.Sprint(ids) {
		panic("harness: block ids derived from post differ from the specification's")
	}
	if fmt.Sprint(gotIDs) != fmt.Sprint(ids) {
		return &Mismatch{Obs: "blocks", Detail: fmt.Sprintf("Blocks() lists blocks %v, blocks with data are %v", gotIDs, ids)}
	}
	if !r.c.Checksums {
		return nil
	}
	for i, k := range ids {
		ref := refChecksum(r.c.Shard, k, byBlock[k])
		if !bytes.Equal(ref, got[i].Checksum) {
			return &Mismatch{Obs: "checksum", Detail: fmt.Sprintf("block %d: checksum %x differs from the checksum %x of a fragment holding the same %d bits", k, got[i].Checksum, ref, len(byBlock[k]))}
		}
		// a replica that differs in this block must report a different checksum: drop
		// the bits of one abstract cell (or one concrete bit) and compare
		alt := dropOne(byBlock[k], i+int(r.c.Seed))
		if len(alt) > 0 {
			if bytes.Equal(refChecksum(r.c.Shard, k, alt), got[i].Checksum) {
				return &Mismatch{Obs: "checksum_collision", Detail: fmt.Sprintf("block %d: checksum equals that of a fragment with different contents", k)}
			}
			if cover {
				r.cov("checksum_differs_from_neighbour")
			}
		}
	}
	return nil
}

// dropOne removes one concrete bit (chosen by n) from bits.
func dropOne(bits []Bit, n int) []Bit {
	if len(bits) < 2 {
		return nil
	}
	j := ((n % len(bits)) + len(bits)) % len(bits)
	out := append([]Bit(nil), bits[:j]...)
	return append(out, bits[j+1:]...)
}

// Run replays the case. It returns nil when the real code agrees with the specification.
func Run(c *Case, cover func(string)) (m *Mismatch) {
	debug.SetPanicOnFault(true)
	if c.BitDepth == 0 {
		c.BitDepth = 2
	}
	r := &runner{c: c, p: MakeProfile(c.Profile, c.Shard, c.Seed), cover: cover, srcRows: map[string]*pilosa.Row{}}
	r.rows = rowsOfKind(c.Kind, c.BitDepth)
	beh := c.Beh
	if len(beh) == 0 || beh[0].Str("op") != "Init" {
		panic("harness: behaviour does not start with Init")
	}
	step := 0
	op := "Init"
	defer func() {
		if v := recover(); v != nil {
			stack := string(debug.Stack())
			msg := fmt.Sprint(v)
			if strings.HasPrefix(msg, "harness:") || !(behav.PanicInCode(stack) || behav.PanicInCode(msg)) {
				panic(v)
			}
			obs := "panic"
			if strings.HasPrefix(msg, "hang:") {
				obs = "hang"
			}
			m = &Mismatch{Step: step, Op: op, Obs: obs, After: r.after, Detail: fmt.Sprintf("%v\n%s", v, firstLines(stack, 40))}
		}
		pv, _ := behav.Protect(r.close)
		_ = pv
	}()
	init := beh[0]
	if err := r.open(init.Str("chg")); err != nil {
		panic("harness: open: " + err.Error())
	}
	fail := func(mm *Mismatch) *Mismatch {
		mm.Step, mm.Op = step, op
		if mm.After == "" {
			mm.After = r.after
		}
		return mm
	}
	r.after = "Init"
	if err := r.load(init.Ints("post"), init.Str("fl")); err != nil {
		return fail(&Mismatch{Obs: "error", Detail: "loading initial contents: " + err.Error()})
	}
	if mm := r.observeQuiet(init.Ints("post")); mm != nil {
		return fail(mm)
	}
	r.prev = init.Ints("post")
	for i := 1; i < len(beh); i++ {
		s := beh[i]
		step, op = i, s.Str("op")
		if isWrite(op) {
			r.after = op
		}
		if cover != nil {
			cover("op_" + op)
			if s.Bool("hit") {
				cover("hit_" + op)
			}
		}
		if mm := r.exec(i, s); mm != nil {
			return fail(mm)
		}
		post := s.Ints("post")
		if c.Loud {
			if mm := r.observeLoud(post); mm != nil {
				return fail(mm)
			}
		} else if isWrite(op) {
			// forEachBit walks the storage without touching a cache: a wrong write is
			// attributed to the step that made it
			if mm := r.observeQuiet(post); mm != nil {
				return fail(mm)
			}
		}
		// the snapshotting flag is part of the model: report drift as coverage, not as a verdict
		if cover != nil && r.f.Snapshotting() != s.Bool("pend") {
			cover("pending_flag_differs_from_spec_after_" + op)
			if os.Getenv("VERIF_STRICT_PENDING") != "" {
				return fail(&Mismatch{Obs: "pending", Detail: fmt.Sprintf("snapshotting flag is %v, the specification says %v", !s.Bool("pend"), s.Bool("pend"))})
			}
		}
		r.prev = post
	}
	// final state: every read path, checksums, then again after close + reopen
	step, op = len(beh), "Final"
	final := r.prev
	if mm := r.observeLoud(final); mm != nil {
		return fail(mm)
	}
	if c.Checksums {
		if mm := r.checkBlocks(blockIDs(final), final, false); mm != nil {
			return fail(mm)
		}
	}
	op = "FinalReopen"
	if err := r.drain(); err != nil {
		return fail(&Mismatch{Obs: "error", Detail: "background snapshot: " + err.Error()})
	}
	if err := r.f.Reopen(); err != nil {
		return fail(&Mismatch{Obs: "error", Detail: "close+reopen: " + err.Error()})
	}
	if mm := r.observeLoud(final); mm != nil {
		return fail(mm)
	}
	if c.Checksums {
		if mm := r.checkBlocks(blockIDs(final), final, false); mm != nil {
			return fail(mm)
		}
	}
	return nil
}

func blockIDs(codes []int) []int {
	seen := map[int]bool{}
	var out []int
	for _, code := range codes {
		k := (code / 10) / pilosa.HashBlockSize
		if !seen[k] {
			seen[k] = true
			out = append(out, k)
		}
	}
	sort.Ints(out)
	return out
}

func firstLines(s string, n int) string {
	lines := strings.Split(s, "\n")
	if len(lines) > n {
		lines = lines[:n]
	}
	return strings.Join(lines, "\n")
}
