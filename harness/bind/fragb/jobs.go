//go:build verif

package fragb

import (
	"encoding/json"
	"fmt"
	"os"
	"path/filepath"
	"strings"
	"time"

	"verif/harness/behav"
)

func hasPointOps(b behav.Behaviour) bool {
	for _, s := range b {
		switch s.Str("op") {
		case "SetBit", "ClearBit", "SetValue", "ClearValue":
			return true
		}
	}
	return false
}

// fullPayload: some roaring set import names abstract columns 0 and 1 of the same row
// (codes are row*10+col).
func fullPayload(b behav.Behaviour) bool {
	for _, s := range b {
		if s.Str("op") != "RoaringSet" {
			continue
		}
		has := map[int]bool{}
		for _, x := range s.Ints("xs") {
			has[x] = true
		}
		for x := range has {
			if x%10 == 0 && has[x+1] {
				return true
			}
		}
	}
	return false
}

var cacheConfigs = []struct {
	typ  string
	size uint32
}{{"ranked", 0}, {"lru", 0}, {"none", 0}, {"ranked", 1}, {"lru", 1}}

var srcModes = []string{"fresh", "reuse", "fromfrag"}

// casesFor chooses the refinements under which behaviour number bi is replayed. The
// choice is a deterministic function of (behaviour, VERIF_SEED): always the singleton
// profile (shard and container edges), plus `extra` others drawn from the remaining
// block shapes, shards, cache configurations, observation variants and setRow sources.
func casesFor(kind string, b behav.Behaviour, seed int64, extra, every int, checksums bool) []*Case {
	js, _ := json.Marshal(b)
	h := behav.Hash64(string(js)) ^ uint64(seed)*0x9e3779b97f4a7c15
	next := func(n int) int {
		h = h*6364136223846793005 + 1442695040888963407
		return int((h >> 33) % uint64(n))
	}
	depth := uint(0)
	if kind == "bsi" {
		depth = 2
	}
	mk := func(profile string) *Case {
		cc := cacheConfigs[next(len(cacheConfigs))]
		return &Case{Beh: b, Kind: kind, Profile: profile, Shard: []uint64{0, 0, 3}[next(3)], Seed: seed,
			CacheType: cc.typ, CacheSize: cc.size, Loud: next(2) == 0, SrcMode: srcModes[next(len(srcModes))],
			Checksums: checksums, BitDepth: depth}
	}
	out := []*Case{mk("single")}
	// checksum runs: a roaring import whose payload names columns 0 and 1 of one row is, under the
	// "halves" shape, a completely full container landing on whatever the row holds there (seed
	// C10-6: a fast path for that case forgot to report the row as changed)
	if checksums && !hasPointOps(b) && fullPayload(b) && (behav.Thorough() || next(2) == 0) {
		out = append(out, mk("halves"))
	}
	// the other block shapes cost 10-100 times more per replay: in the quick tier only
	// every `every`-th behaviour gets them
	if every > 1 && next(every) != 0 {
		return out
	}
	shapes := []string{"array", "thresh", "bitmap", "runs", "mixed"}
	if checksums {
		// reference fragments are built with setBit only: keep the blocks moderate
		shapes = []string{"array", "thresh", "runs", "mixed"}
	} else if !hasPointOps(b) && behav.Thorough() {
		shapes = append(shapes, "full")
	}
	first := next(len(shapes))
	for i := 0; i < extra && i < len(shapes); i++ {
		out = append(out, mk(shapes[(first+i)%len(shapes)]))
	}
	return out
}

func nontrivial(b behav.Behaviour) bool {
	wrote, read := false, false
	prev := fmt.Sprint(b[0].Ints("post"))
	for _, s := range b[1:] {
		cur := fmt.Sprint(s.Ints("post"))
		if isWrite(s.Str("op")) && cur != prev {
			wrote = true
		}
		if wrote && (isRead(s.Str("op")) || s.Str("op") == "Reopen") {
			read = true
		}
		prev = cur
	}
	// the final comparison before and after reopen observes every behaviour
	return wrote || read
}

// corrupt plants one wrong expected value in a copy of the behaviour (binding self-test).
// what: "chg" | "out" | "post". It reports false when the behaviour has no such value.
func corrupt(b behav.Behaviour, what string) (behav.Behaviour, bool) {
	js, _ := json.Marshal(b)
	var cpy behav.Behaviour
	_ = json.Unmarshal(js, &cpy)
	toggle := func(v interface{}, code int) []interface{} {
		var out []interface{}
		found := false
		for _, x := range behav.ToList(v) {
			if behav.ToInt(x) == code {
				found = true
				continue
			}
			out = append(out, x)
		}
		if !found {
			out = append(out, float64(code))
		}
		return out
	}
	switch what {
	case "chg":
		for _, s := range cpy[1:] {
			// ClearValue/ImportValue do not have a compared result; Bit/Value do
			switch s.Str("chg") {
			case "T":
				s["chg"] = "F"
				return cpy, true
			case "F":
				s["chg"] = "T"
				return cpy, true
			}
		}
	case "out":
		for _, s := range cpy[1:] {
			switch s.Str("op") {
			case "Row":
				s["out"] = toggle(s["out"], 0)
				return cpy, true
			case "ForEachBit":
				s["out"] = toggle(s["out"], 0)
				return cpy, true
			case "BlockData":
				if s.Int("r") == 0 {
					s["out"] = toggle(s["out"], 0)
					return cpy, true
				}
			}
		}
	case "blocks":
		// C10: the reference fragment of the first Blocks step that sees data is built
		// from contents differing in one abstract bit of a block that has data
		for _, s := range cpy[1:] {
			if s.Str("op") == "Blocks" && len(s.Ints("post")) > 0 {
				p := s.Ints("post")
				code := p[0] - p[0]%10 // column 0 of the first row with data
				if code == p[0] {
					code = p[0] + 1
				}
				s["ckpost"] = toggle(s["post"], code)
				return cpy, true
			}
		}
	case "post":
		last := cpy[len(cpy)-1]
		last["post"] = toggle(last["post"], 0)
		return cpy, true
	}
	return nil, false
}

// Drive is the body of TestC07 / TestC10.
func Drive(checksums bool, fatal func(...interface{})) {
	res := behav.NewResult()
	defer func() {
		_ = os.RemoveAll(scratchDir())
		_ = os.Remove(filepath.Dir(scratchDir())) // the per-check tmpfs directory, when empty
		if err := res.Write(); err != nil {
			fatal(err)
		}
	}()
	report := func(c *Case, m *Mismatch) {
		obs := m.Obs
		res.Fail(behav.Failure{
			Match: map[string]string{"op": m.Op, "obs": obs, "after": m.After, "kind": c.Kind},
			Detail: fmt.Sprintf("%s fragment, profile %s shard %d, cache %s/%d, loud=%v src=%s: %s\nbehaviour: %s",
				c.Kind, c.Profile, c.Shard, c.CacheType, c.CacheSize, c.Loud, c.SrcMode, m.String(), behav.JSON(c.Beh)),
			Replay: c,
		})
	}
	if raw, ok := behav.LoadReplay(); ok {
		var c Case
		if err := json.Unmarshal(raw, &c); err != nil {
			fatal(err)
		}
		res.Evaluations = 1
		var m *Mismatch
		pv, stack := behav.Protect(func() { m = Run(&c, nil) })
		if pv != nil {
			res.SetInconclusive(fmt.Sprintf("harness panic during replay: %v\n%s", pv, firstLines(stack, 30)))
			return
		}
		if m != nil {
			report(&c, m)
		}
		return
	}
	behs := behav.LoadEnv()
	kind := os.Getenv("VERIF_KIND")
	if kind == "" {
		kind = "set"
	}
	seed := behav.Seed()
	extra := behav.EnvInt("VERIF_EXTRA", 1)
	every := behav.EnvInt("VERIF_EXTRA_EVERY", 1)
	selftest := os.Getenv("VERIF_SELFTEST") != ""
	var jobs []*Case
	for _, b := range behs {
		cs := casesFor(kind, b, seed, extra, every, checksums)
		if selftest {
			// plant one wrong expected value per case; the replay must notice it
			c := cs[0]
			c.Loud = true
			what := []string{"chg", "out", "post"}[len(jobs)%3]
			if checksums {
				// the last step of a C10 history is Blocks, whose expected ids come with post
				what = []string{"blocks", "chg"}[len(jobs)%2]
				if kind == "bsi" {
					what = "chg"
				}
			}
			cb, ok := corrupt(c.Beh, what)
			if !ok && checksums {
				continue
			}
			if !ok {
				cb, _ = corrupt(c.Beh, "post")
				what = "post"
			}
			c.Beh, c.Corrupt = cb, what
			jobs = append(jobs, c)
			continue
		}
		jobs = append(jobs, cs...)
	}
	var distinct behav.Distinct
	behav.Parallel(len(jobs), func(i int) {
		c := jobs[i]
		var m *Mismatch
		t0 := time.Now()
		pv, stack := behav.Protect(func() { m = Run(c, res.Cover) })
		if pv != nil {
			res.SetInconclusive(fmt.Sprintf("harness panic: %v\n%s", pv, firstLines(stack, 30)))
			return
		}
		ms := int(time.Since(t0) / time.Millisecond)
		for j := 0; j < ms; j += 10 {
			res.Cover("cost_10ms_" + c.Profile)
		}
		res.CountEval()
		res.Cover("profile_" + c.Profile)
		res.Cover("cache_" + c.CacheType)
		if c.Loud {
			res.Cover("variant_loud")
		} else {
			res.Cover("variant_quiet")
		}
		if selftest {
			if m == nil {
				res.Cover("selftest_missed_" + c.Corrupt)
				res.SetInconclusive("binding self-test: a planted wrong expected value (" + c.Corrupt + ") was not noticed: " + behav.JSON(c.Beh))
			} else {
				res.Cover("selftest_detected_" + c.Corrupt)
			}
			return
		}
		js, _ := json.Marshal(c.Beh)
		if nontrivial(c.Beh) && distinct.Add(fmt.Sprintf("%s|%s|%d|%s|%d|%v|%s", js, c.Profile, c.Shard, c.CacheType, c.CacheSize, c.Loud, c.SrcMode)) {
			res.CountNontrivial()
		}
		if i%(len(jobs)/5+1) == 0 {
			res.AddSample(map[string]interface{}{"behaviour": c.Beh, "profile": c.Profile, "shard": c.Shard,
				"cache": c.CacheType, "loud": c.Loud})
		}
		if m != nil {
			if strings.HasPrefix(m.Obs, "panic") {
				res.Cover("panic_in_code")
			}
			report(c, m)
		}
	}, func(i int, v interface{}, stack string) {
		res.SetInconclusive(fmt.Sprintf("harness panic: %v\n%s", v, firstLines(stack, 30)))
	})
}
