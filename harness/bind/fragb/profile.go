//go:build verif

// Package fragb binds spec/Fragment.tla to pilosa.fragment (properties C07, C10).
package fragb

import (
	"fmt"
	"math/rand"
	"sort"

	"github.com/pilosa/pilosa"
)

// A Profile is the data refinement for fragments: abstract column c (0..3) is a block of
// concrete column offsets inside the shard. Columns 0,1 live in the first container of
// every row (offsets 0..65535), columns 2,3 in the last container of the shard row
// (offsets ShardWidth-65536 .. ShardWidth-1). Blocks are disjoint and ordered like the
// abstract columns; every write is applied to all columns of a block, so all reads are
// the block-wise image of the abstract result (gamma is a homomorphism).
type Profile struct {
	Name   string
	Shard  uint64
	Blocks [4][]uint64 // offsets within the shard, ascending
	Big    bool        // blocks too large for looping point operations
}

const containerWidth = 1 << 16

// ProfileNames lists the available block shapes.
var ProfileNames = []string{"single", "array", "thresh", "bitmap", "runs", "mixed", "full", "halves"}

func comb(lo, n, stride int) []uint64 {
	out := make([]uint64, n)
	for i := range out {
		out[i] = uint64(lo + i*stride)
	}
	return out
}

func interval(lo, hi int) []uint64 {
	out := make([]uint64, 0, hi-lo+1)
	for v := lo; v <= hi; v++ {
		out = append(out, uint64(v))
	}
	return out
}

func randSet(rng *rand.Rand, lo, hi, n int) []uint64 {
	seen := map[int]bool{}
	for len(seen) < n {
		seen[lo+rng.Intn(hi-lo)] = true
	}
	out := make([]uint64, 0, n)
	for v := range seen {
		out = append(out, uint64(v))
	}
	sort.Slice(out, func(i, j int) bool { return out[i] < out[j] })
	return out
}

// MakeProfile builds a profile deterministically from (name, shard, seed).
func MakeProfile(name string, shard uint64, seed int64) *Profile {
	rng := rand.New(rand.NewSource(seed*1000003 + int64(len(name))*7919 + int64(shard)))
	p := &Profile{Name: name, Shard: shard}
	var a, b [2][]uint64 // slots of the first and of the last container
	switch name {
	case "single": // shard and container edges, array containers of 1..2 values
		a = [2][]uint64{{0}, {containerWidth - 1}}
		b = [2][]uint64{{0}, {containerWidth - 1}}
	case "array":
		a = [2][]uint64{randSet(rng, 0, 30000, 3+rng.Intn(12)), randSet(rng, 32768, 65536, 3+rng.Intn(12))}
		b = [2][]uint64{randSet(rng, 0, 30000, 3+rng.Intn(12)), randSet(rng, 32768, 65536, 3+rng.Intn(12))}
	case "thresh": // unions land on 4096 / 4097 values: array <-> bitmap conversion
		lo := rng.Intn(8)
		a = [2][]uint64{comb(lo, 4095, 2), {uint64(lo + 4095*2 + 5)}}
		b = [2][]uint64{comb(lo, 2048, 2), comb(lo+2048*2+3, 2049, 2)}
	case "bitmap": // dense combs: bitmap containers
		a = [2][]uint64{comb(rng.Intn(3), 4500, 3), comb(32768+rng.Intn(3), 4500, 3)}
		b = [2][]uint64{comb(rng.Intn(3), 4200, 3), comb(32768+rng.Intn(3), 4300, 3)}
	case "runs": // intervals: run containers after Optimize; adjacent blocks contiguous
		a = [2][]uint64{interval(0, 2999), interval(3000, 5999)}
		b = [2][]uint64{interval(60000, 62999), interval(63000, 65535)}
	case "mixed":
		a = [2][]uint64{{7}, interval(100, 5200)}
		b = [2][]uint64{comb(1, 4400, 3), {containerWidth - 1}}
	case "halves": // columns 0 and 1 are the two halves of the first container: a payload naming
		// both is a completely full container landing on a half-filled one; columns 2, 3 stay small
		a = [2][]uint64{interval(0, 32767), interval(32768, 65535)}
		b = [2][]uint64{{0}, {containerWidth - 1}}
		p.Big = true
	case "full": // blocks partition the containers: N = 65536
		a = [2][]uint64{interval(0, 32767), interval(32768, 65535)}
		b = [2][]uint64{interval(0, 40000), interval(40001, 65535)}
		p.Big = true
	default:
		panic("unknown profile " + name)
	}
	lastBase := uint64(pilosa.ShardWidth - containerWidth)
	for s := 0; s < 2; s++ {
		p.Blocks[s] = a[s]
		blk := make([]uint64, len(b[s]))
		for i, v := range b[s] {
			blk[i] = lastBase + v
		}
		p.Blocks[2+s] = blk
	}
	return p
}

func (p *Profile) String() string { return fmt.Sprintf("%s/shard%d", p.Name, p.Shard) }

// Cols returns the absolute column ids of abstract column c.
func (p *Profile) Cols(c int) []uint64 {
	base := p.Shard * pilosa.ShardWidth
	out := make([]uint64, len(p.Blocks[c]))
	for i, off := range p.Blocks[c] {
		out[i] = base + off
	}
	return out
}

// Rep returns representative absolute columns of block c: first, last and (when it
// exists) a middle one.
func (p *Profile) Rep(c int) []uint64 {
	blk := p.Blocks[c]
	base := p.Shard * pilosa.ShardWidth
	out := []uint64{base + blk[0]}
	if len(blk) > 1 {
		out = append(out, base+blk[len(blk)-1])
	}
	if len(blk) > 2 {
		out = append(out, base+blk[len(blk)/2])
	}
	return out
}

// Bit is a concrete bit.
type Bit struct{ Row, Col uint64 }

// Expand materialises gamma(codes): codes are row*10+col; the result is sorted by
// (row, column) - the storage order of a fragment. Columns are absolute.
func (p *Profile) Expand(codes []int) []Bit {
	cs := append([]int(nil), codes...)
	sort.Ints(cs)
	var out []Bit
	for _, code := range cs {
		r, c := uint64(code/10), code%10
		for _, col := range p.Cols(c) {
			out = append(out, Bit{r, col})
		}
	}
	return out
}

// Positions returns the fragment positions (row*ShardWidth + column offset) of gamma(codes), ascending.
func (p *Profile) Positions(codes []int) []uint64 {
	cs := append([]int(nil), codes...)
	sort.Ints(cs)
	var out []uint64
	for _, code := range cs {
		r, c := uint64(code/10), code%10
		for _, off := range p.Blocks[c] {
			out = append(out, r*pilosa.ShardWidth+off)
		}
	}
	return out
}

// Size is the number of concrete bits of gamma(codes).
func (p *Profile) Size(codes []int) int {
	n := 0
	for _, code := range codes {
		n += len(p.Blocks[code%10])
	}
	return n
}
