//go:build verif

package fragb

import "testing"

// TestC07 replays behaviours of spec/Fragment.tla (C07_*.cfg) into a real fragment and
// compares every write's `changed`, every read, and the final state before and after
// close+reopen.
func TestC07(t *testing.T) { Drive(false, t.Fatal) }
