//go:build verif

package fragb

import (
	"bytes"
	"encoding/binary"

	"github.com/pilosa/pilosa/roaring"
)

// Payload encoders for importRoaring. EncodePilosa goes through the real encoder
// (roaring.Bitmap.WriteTo, verified by C04); EncodeOfficial is the harness's reference
// encoder for https://github.com/RoaringBitmap/RoaringFormatSpec (same algorithm as
// bind/roaringb.EncodeOfficial, copied so that this package is self-contained).

func cp(v []uint64) []uint64 { return append([]uint64(nil), v...) }

// EncodePilosa encodes the sorted set in Pilosa's roaring format.
func EncodePilosa(vals []uint64) []byte {
	b := roaring.NewBitmap()
	b.DirectAddN(cp(vals)...)
	var buf bytes.Buffer
	if _, err := b.WriteTo(&buf); err != nil {
		panic(err)
	}
	return buf.Bytes()
}

type ocont struct {
	key  uint16
	vals []uint16
}

func split(vals []uint64) []ocont {
	var out []ocont
	for _, v := range vals {
		k := uint16(v >> 16)
		if len(out) == 0 || out[len(out)-1].key != k {
			out = append(out, ocont{key: k})
		}
		c := &out[len(out)-1]
		c.vals = append(c.vals, uint16(v))
	}
	return out
}

func runsOf(vals []uint16) [][2]uint16 {
	var runs [][2]uint16
	for i := 0; i < len(vals); {
		j := i
		for j+1 < len(vals) && vals[j+1] == vals[j]+1 {
			j++
		}
		runs = append(runs, [2]uint16{vals[i], vals[j] - vals[i]}) // start, length-1
		i = j + 1
	}
	return runs
}

// EncodeOfficial encodes the sorted set (all values < 2^32) in the official format.
// withRuns selects cookie 12347 (run containers where smaller; only for < 4 containers,
// where the format has no offset header), otherwise cookie 12346.
func EncodeOfficial(vals []uint64, withRuns bool) (data []byte, usedRuns bool) {
	conts := split(vals)
	if withRuns && (len(conts) >= 4 || len(conts) == 0) {
		withRuns = false
	}
	var buf bytes.Buffer
	w16 := func(v uint16) { binary.Write(&buf, binary.LittleEndian, v) }
	w32 := func(v uint32) { binary.Write(&buf, binary.LittleEndian, v) }
	isRun := make([]bool, len(conts))
	if withRuns {
		any := false
		for i, c := range conts {
			r := runsOf(c.vals)
			runSize := 2 + 4*len(r)
			other := 8192
			if len(c.vals) <= 4096 {
				other = 2 * len(c.vals)
			}
			if runSize < other {
				isRun[i] = true
				any = true
			}
		}
		if !any {
			withRuns = false
		}
	}
	if withRuns {
		w32(uint32(12347) | uint32(len(conts)-1)<<16)
		bm := make([]byte, (len(conts)+7)/8)
		for i := range conts {
			if isRun[i] {
				bm[i/8] |= 1 << uint(i%8)
			}
		}
		buf.Write(bm)
	} else {
		w32(12346)
		w32(uint32(len(conts)))
	}
	for _, c := range conts {
		w16(c.key)
		w16(uint16(len(c.vals) - 1))
	}
	csize := func(i int) int {
		c := conts[i]
		if isRun[i] {
			return 2 + 4*len(runsOf(c.vals))
		}
		if len(c.vals) <= 4096 {
			return 2 * len(c.vals)
		}
		return 8192
	}
	if !withRuns {
		off := buf.Len() + 4*len(conts)
		for i := range conts {
			w32(uint32(off))
			off += csize(i)
		}
	}
	for i, c := range conts {
		switch {
		case isRun[i]:
			r := runsOf(c.vals)
			w16(uint16(len(r)))
			for _, x := range r {
				w16(x[0])
				w16(x[1])
			}
		case len(c.vals) <= 4096:
			for _, v := range c.vals {
				w16(v)
			}
		default:
			var words [1024]uint64
			for _, v := range c.vals {
				words[v/64] |= 1 << (v % 64)
			}
			for _, x := range words {
				binary.Write(&buf, binary.LittleEndian, x)
			}
		}
	}
	return buf.Bytes(), withRuns
}
