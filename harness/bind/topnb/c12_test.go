package topnb

import (
	"encoding/json"
	"fmt"
	"math/rand"
	"sort"
	"strings"
	"testing"

	"github.com/pilosa/pilosa"

	"verif/harness/behav"
)

// c12Profile refines the abstract rows and columns of spec/TopN.tla.
type c12Profile struct {
	Name     string     `json:"name"`
	Rows     []uint64   `json:"rows"`   // concrete row id of abstract row i+1
	Blocks   [][]uint64 `json:"blocks"` // the W[c] concrete columns of abstract column c = i+1
	Shards   int        `json:"shards"`
	Load     string     `json:"load"`     // how stored contents are written: set | import | roaring
	Official bool       `json:"official"` // roaring imports in the official encoding
	Shuffle  bool       `json:"shuffle"`  // import batches in shuffled order
}

type c12Case struct {
	Prop string `json:"prop"`
	// Behs are replayed one after the other in the same field (emptied by a clear-import in
	// between); a failure is first re-tried alone in a fresh field, see c13Case.
	Behs    []behav.Behaviour `json:"behs"`
	Idx     int               `json:"idx"`
	Seed    int64             `json:"seed"`
	Kind    string            `json:"kind"` // ranked | lru | none
	Size    uint32            `json:"size"`
	Mutex   bool              `json:"mutex"`
	Variant string            `json:"variant"` // sparse: only the behaviour's queries; full: + TopN(ids=all rows) after every write
	Prof    c12Profile        `json:"profile"`
	Corrupt int               `json:"-"`
}

func (c *c12Case) match() map[string]string {
	return map[string]string{"kind": c.Kind, "size": fmt.Sprint(c.Size), "mutex": fmt.Sprint(c.Mutex),
		"variant": c.Variant, "shards": fmt.Sprint(c.Prof.Shards)}
}

func (c *c12Case) describe() string {
	return fmt.Sprintf("C12 %s/%d mutex=%v behaviours #%d.. (%d in one field) variant %s profile %s",
		c.Kind, c.Size, c.Mutex, c.Idx, len(c.Behs), c.Variant, c.Prof.Name)
}

var c12RowTables = [][]uint64{{0, 1, 2, 3}, {3, 1, 0, 2}, {10, 99, 100, 101}, {1, 7, 500, 1000}, {4, 3, 2, 1}, {0, 100, 200, 300}}

func c12MakeProfile(seed int64, idx, salt int, mutex bool, w []int) c12Profile {
	rng := rand.New(rand.NewSource(seed*1000003 + int64(idx)*13 + int64(salt)))
	p := c12Profile{Shards: 1 + salt%2}
	p.Rows = c12RowTables[rng.Intn(len(c12RowTables))]
	offs := []uint64{0, 1, 4095, 4096, 65535}
	used := map[uint64]bool{}
	for c, n := range w {
		var blk []uint64
		for len(blk) < n {
			sh := uint64(0)
			if p.Shards == 2 && (len(blk)+c)%2 == 1 {
				sh = 1
			}
			cont := []uint64{0, 1, 7, 15}[rng.Intn(4)]
			col := sh*SW + cont<<16 + uint64(rng.Intn(65536))
			if rng.Intn(3) == 0 {
				col = sh*SW + cont<<16 + offs[rng.Intn(len(offs))]
			}
			if used[col] {
				continue
			}
			used[col] = true
			blk = append(blk, col)
		}
		p.Blocks = append(p.Blocks, blk)
	}
	loads := []string{"set", "import", "roaring"}
	if mutex {
		loads = loads[:2]
	}
	p.Load = loads[rng.Intn(len(loads))]
	p.Official = rng.Intn(2) == 1
	p.Shuffle = rng.Intn(2) == 1
	p.Name = fmt.Sprintf("s%d/rows%v/blocks%v/%s/official=%v/shuffle=%v", p.Shards, p.Rows, p.Blocks, p.Load, p.Official, p.Shuffle)
	return p
}

func (c *c12Case) fieldOpt() pilosa.FieldOption {
	if c.Mutex {
		return pilosa.OptFieldTypeMutex(c.Kind, c.Size)
	}
	return pilosa.OptFieldTypeSet(c.Kind, c.Size)
}

// colsOfCount decodes a count into the abstract columns it stands for (W[c] = 2^(c-1)).
func colsOfCount(n int) []int {
	var out []int
	for c := 1; n > 0; c, n = c+1, n>>1 {
		if n&1 == 1 {
			out = append(out, c)
		}
	}
	return out
}

// rect expands rows R x columns S into concrete bits.
func (c *c12Case) rect(R, S []int) []Bit {
	var bits []Bit
	for _, r := range R {
		for _, a := range S {
			for _, col := range c.Prof.Blocks[a-1] {
				bits = append(bits, Bit{c.Prof.Rows[r-1], col})
			}
		}
	}
	return bits
}

// bitsOfCounts are the concrete bits of a state given as the counts of its rows.
func (c *c12Case) bitsOfCounts(cnt []int) []Bit {
	var bits []Bit
	for i, n := range cnt {
		bits = append(bits, c.rect([]int{i + 1}, colsOfCount(n))...)
	}
	return bits
}

func (c *c12Case) ids(R []int) string {
	var a []string
	for _, r := range R {
		a = append(a, fmt.Sprint(c.Prof.Rows[r-1]))
	}
	return "[" + strings.Join(a, ",") + "]"
}

func (c *c12Case) abstractRow(id uint64) int {
	for i, x := range c.Prof.Rows {
		if x == id {
			return i + 1
		}
	}
	return -1
}

// topQuery sends a TopN call; for cache type none the documented answer is an error.
func (c *c12Case) topQuery(s *Sess, q string) ([]pilosa.Pair, bool, error) {
	out, err := s.Query(q)
	if err != nil {
		if c.Kind == "none" && strings.Contains(err.Error(), "no cache") {
			return nil, true, nil
		}
		return nil, false, err
	}
	pairs, err := pairsOf(out[0])
	return pairs, false, err
}

// checkIds compares a TopN(ids=...) answer with the exact counts want[row] (0 = must be absent).
func (c *c12Case) checkIds(pairs []pilosa.Pair, ids []int, want map[int]int) (string, string) {
	got := map[int]int{}
	for _, p := range pairs {
		r := c.abstractRow(p.ID)
		if r < 0 {
			return fmt.Sprintf("reports row %d, which was not requested: %v", p.ID, pairs), "extra_row"
		}
		if _, dup := got[r]; dup {
			return fmt.Sprintf("reports row %d twice: %v", p.ID, pairs), "extra_row"
		}
		got[r] = int(p.Count)
	}
	in := map[int]bool{}
	for _, r := range ids {
		in[r] = true
	}
	for r, n := range got {
		if !in[r] {
			return fmt.Sprintf("reports row %d (abstract %d), which was not requested: %v", c.Prof.Rows[r-1], r, pairs), "extra_row"
		}
		if n != want[r] {
			sym := "wrong_count"
			if want[r] == 0 {
				sym = "extra_row"
			}
			return fmt.Sprintf("count of row %d (abstract %d) = %d, want %d; answer %v", c.Prof.Rows[r-1], r, n, want[r], pairs), sym
		}
	}
	for _, r := range ids {
		if _, ok := got[r]; !ok && want[r] > 0 {
			return fmt.Sprintf("row %d (abstract %d) with count %d is missing; answer %v", c.Prof.Rows[r-1], r, want[r], pairs), "missing_row"
		}
	}
	return "", ""
}

// checkTopN compares a TopN(n) answer: exact[row] are the exact counts, top the expected
// non-increasing counts (ties between rows are free; candidatesFree: any rows, see the caller).
func (c *c12Case) checkTopN(pairs []pilosa.Pair, exact map[int]int, top []int, candidatesFree bool) (string, string) {
	if len(pairs) != len(top) {
		return fmt.Sprintf("returned %d rows, want %d (counts %v); answer %v", len(pairs), len(top), top, pairs), "topn_wrong_length"
	}
	seen := map[int]bool{}
	var counts []int
	for i, p := range pairs {
		r := c.abstractRow(p.ID)
		if r < 0 || seen[r] {
			return fmt.Sprintf("reports unknown or repeated row %d; answer %v", p.ID, pairs), "extra_row"
		}
		seen[r] = true
		if int(p.Count) != exact[r] {
			return fmt.Sprintf("count of row %d (abstract %d) = %d, want %d; answer %v", p.ID, r, p.Count, exact[r], pairs), "topn_wrong_count"
		}
		if i > 0 && pairs[i-1].Count < p.Count {
			return fmt.Sprintf("not in non-increasing order: %v", pairs), "topn_not_sorted"
		}
		counts = append(counts, int(p.Count))
	}
	for i := range top {
		if counts[i] != top[i] && !candidatesFree {
			return fmt.Sprintf("counts %v are not the largest, want %v; answer %v", counts, top, pairs), "topn_not_largest"
		}
	}
	return "", ""
}

func runC12(srv *Srv, ci caseT, res *behav.Result) *mismatch {
	c := ci.(*c12Case)
	s, err := NewSess(srv, c.fieldOpt())
	if err != nil {
		res.SetInconclusive("could not create index/field: " + err.Error())
		return nil
	}
	defer func() { s.Close() }()
	var prev behav.Step
	fieldOver := false
	for k, beh := range c.Behs {
		res.CountEval()
		if prev != nil {
			fieldOver = fieldOver || prev.Bool("ov")
			if bits := c.bitsOfCounts(prev.Ints("cnt")); len(bits) > 0 {
				if err := s.Import(bits, true); err != nil {
					return &mismatch{Step: -1, Op: "reset", Symptom: "error", Text: err.Error()}
				}
			}
		}
		mm := c.runBeh(s, beh, fieldOver, c.Corrupt == k+1, res)
		if mm == nil {
			prev = beh[len(beh)-1]
			res.CountNontrivial()
			continue
		}
		if len(c.Behs) == 1 {
			return mm
		}
		// does the behaviour fail on its own in a fresh field? then that is the replay
		single := *c
		single.Behs, single.Idx = []behav.Behaviour{beh}, c.Idx+k
		if s2, err := NewSess(srv, c.fieldOpt()); err == nil {
			mm2 := single.runBeh(s2, beh, false, c.Corrupt == k+1, res)
			s2.Close()
			if mm2 != nil {
				c.Behs, c.Idx = single.Behs, single.Idx
				return mm2
			}
		}
		c.Behs = c.Behs[:k+1]
		if mm.Extra == nil {
			mm.Extra = map[string]string{}
		}
		mm.Extra["needs_prefix"] = "yes"
		mm.Text = fmt.Sprintf("behaviour %d of the field (passes alone in a fresh field): %s", k, mm.Text)
		return mm
	}
	return nil
}

func (c *c12Case) runBeh(s *Sess, beh behav.Behaviour, fieldOver, corrupt bool, res *behav.Result) *mismatch {
	p := c.Prof
	f := s.F
	rng := rand.New(rand.NewSource(c.Seed + int64(behav.Hash64(behav.JSON(beh))>>1)))
	nrows := len(beh[0].Ints("cnt"))
	allRows := make([]int, nrows)
	for i := range allRows {
		allRows[i] = i + 1
	}
	lastCheck := -1 // index of the last step with a compared answer (for the self-test)
	for i, st := range beh {
		switch st.Str("op") {
		case "TopIds", "TopIdsFilter", "RecalcTopN", "RecalcTopNFilter", "end":
			lastCheck = i
		}
	}
	prevCnt := beh[0].Ints("cnt")
	for i, st := range beh {
		op := st.Str("op")
		if i == 0 {
			op = "init"
		}
		extra := map[string]string{}
		mk := func(sym, text string) *mismatch {
			return &mismatch{Step: i, Op: op, Symptom: sym, Extra: extra, Text: text + " | requests: " + lastLog(s.Log, 14)}
		}
		res.Cover("c12:op:" + op)
		cnt := st.Ints("cnt")
		exact := map[int]int{}
		for r, n := range cnt {
			exact[r+1] = n
		}
		if corrupt && i == lastCheck {
			for r := 1; r <= nrows; r++ {
				if exact[r] > 0 {
					exact[r]++
					break
				}
			}
		}
		imp := func(bits []Bit, clear bool) error {
			if p.Shuffle {
				rng.Shuffle(len(bits), func(a, b int) { bits[a], bits[b] = bits[b], bits[a] })
			}
			return s.Import(bits, clear)
		}
		write := true
		switch op {
		case "init":
			bits := c.bitsOfCounts(cnt)
			if len(bits) == 0 {
				break
			}
			switch p.Load {
			case "import":
				err := imp(bits, false)
				if err != nil {
					return mk("error", "loading the stored contents: "+err.Error())
				}
			case "roaring":
				if err := s.Roaring(bits, false, p.Official); err != nil {
					return mk("error", "loading the stored contents: "+err.Error())
				}
			default:
				var calls []string
				for _, b := range bits {
					calls = append(calls, fmt.Sprintf("Set(%d, %s=%d)", b.Col, f, b.Row))
				}
				if _, err := s.Query(strings.Join(calls, " ")); err != nil {
					return mk("error", "loading the stored contents: "+err.Error())
				}
			}
		case "Set", "Clear":
			for _, col := range p.Blocks[st.Int("b")-1] {
				out, err := s.Query(fmt.Sprintf("%s(%d, %s=%d)", op, col, f, p.Rows[st.Int("a")-1]))
				if err != nil {
					return mk("error", err.Error())
				}
				ch, err := boolResult(out[0])
				if err != nil {
					return mk("error", err.Error())
				}
				if ch != st.Bool("ch") {
					return mk("wrong_changed", fmt.Sprintf("%s(row %d, column %d) returned %v, want %v", op, p.Rows[st.Int("a")-1], col, ch, st.Bool("ch")))
				}
			}
		case "ClearRow":
			out, err := s.Query(fmt.Sprintf("ClearRow(%s=%d)", f, p.Rows[st.Int("a")-1]))
			if err != nil {
				return mk("error", err.Error())
			}
			if ch, err := boolResult(out[0]); err != nil || ch != st.Bool("ch") {
				return mk("wrong_changed", fmt.Sprintf("ClearRow returned %v (%v), want %v", ch, err, st.Bool("ch")))
			}
		case "Store":
			if _, err := s.Query(fmt.Sprintf("Store(Row(%s=%d), %s=%d)", f, p.Rows[st.Int("a")-1], f, p.Rows[st.Int("b")-1])); err != nil {
				return mk("error", err.Error())
			}
		case "ImportSet", "ImportClear":
			if err := imp(c.rect(st.Ints("R"), st.Ints("S")), op == "ImportClear"); err != nil {
				return mk("error", err.Error())
			}
		case "RoaringSet", "RoaringClear":
			if err := s.Roaring(c.rect(st.Ints("R"), st.Ints("S")), op == "RoaringClear", p.Official); err != nil {
				return mk("error", err.Error())
			}
		case "Recalc":
			if err := s.Recalculate(); err != nil {
				return mk("error", err.Error())
			}
		case "Reopen":
			if err := s.Reopen(); err != nil {
				return mk("error", err.Error())
			}
		case "TopIds", "TopIdsFilter", "TopIdsThr":
			write = false
			ids := st.Ints("R")
			q := fmt.Sprintf("TopN(%s, ids=%s)", f, c.ids(ids))
			want := map[int]int{}
			switch op {
			case "TopIdsFilter":
				q = fmt.Sprintf("TopN(%s, Row(%s=%d), ids=%s)", f, f, p.Rows[st.Int("b")-1], c.ids(ids))
				for r := 1; r <= nrows; r++ {
					want[r] = exact[r] & cnt[st.Int("b")-1] // weights are powers of two: count of the intersection
				}
				if corrupt && i == lastCheck {
					want = exact
				}
			case "TopIdsThr":
				if p.Shards > 1 {
					res.Cover("c12:threshold_skipped_two_shards") // the threshold applies per shard
					continue
				}
				q = fmt.Sprintf("TopN(%s, ids=%s, threshold=%d)", f, c.ids(ids), st.Int("a"))
				for r := 1; r <= nrows; r++ {
					if exact[r] >= st.Int("a") {
						want[r] = exact[r]
					}
				}
			default:
				want = exact
			}
			// the specification's answer must agree with the decoded one (plumbing check)
			for _, pr := range behav.ToList(st["res"]) {
				rc := behav.ToInts(pr)
				if !(corrupt && i == lastCheck) && want[rc[0]] != rc[1] {
					res.SetInconclusive(fmt.Sprintf("harness: expected answer %v disagrees with the record %v", want, st["res"]))
					return nil
				}
			}
			pairs, refused, err := c.topQuery(s, q)
			if err != nil {
				return mk("error", q+": "+err.Error())
			}
			if refused {
				res.Cover("c12:none_refused")
				continue
			}
			if text, sym := c.checkIds(pairs, ids, want); text != "" {
				return mk(sym, q+": "+text)
			}
			if len(pairs) > 0 {
				res.Cover("c12:ids_nonempty_answer")
			}
		case "RecalcTopN", "RecalcTopNFilter":
			write = false
			if fieldOver {
				res.Cover("c12:topn_skipped_field_overflowed_earlier")
				continue
			}
			n := st.Int("a")
			top := st.Ints("res")
			ex := exact
			arg := ""
			if op == "RecalcTopNFilter" {
				arg = fmt.Sprintf(", Row(%s=%d)", f, p.Rows[st.Int("b")-1])
				ex = map[int]int{}
				for r := 1; r <= nrows; r++ {
					ex[r] = exact[r] & cnt[st.Int("b")-1]
				}
			}
			nonEmpty := 0
			for _, v := range ex {
				if v > 0 {
					nonEmpty++
				}
			}
			// On two shards a truncating TopN(n) picks its candidates per shard; which rows
			// come out is outside the property (it speaks of one shard), but their number,
			// their order and - thanks to the executor's refetch by ids - their counts are not.
			candidatesFree := p.Shards > 1 && n != 0 && n < nonEmpty
			if err := s.Recalculate(); err != nil {
				return mk("error", err.Error())
			}
			q := fmt.Sprintf("TopN(%s%s, n=%d)", f, arg, n)
			if n == 0 {
				q = fmt.Sprintf("TopN(%s%s)", f, arg)
			}
			pairs, refused, err := c.topQuery(s, q)
			if err != nil {
				return mk("error", q+": "+err.Error())
			}
			if refused {
				res.Cover("c12:none_refused")
				continue
			}
			if corrupt && i == lastCheck && len(top) > 0 {
				top = append([]int{top[0] + 1}, top[1:]...)
			}
			if text, sym := c.checkTopN(pairs, ex, top, candidatesFree); text != "" {
				return mk(sym, q+": "+text)
			}
			if candidatesFree {
				res.Cover("c12:topn_two_shards_candidates_free")
			}
			res.Cover(fmt.Sprintf("c12:topn_checked_n%d", n))
			if n != 0 && n < nonEmpty {
				res.Cover("c12:topn_truncating")
			}
		case "end":
			write = false
			var calls []string
			for r := 1; r <= nrows; r++ {
				calls = append(calls, fmt.Sprintf("Row(%s=%d)", f, p.Rows[r-1]))
			}
			out, err := s.Query(strings.Join(calls, " "))
			if err != nil {
				return mk("error", err.Error())
			}
			for r, set := range setsOf(st["res"]) {
				var want []uint64
				for _, a := range set {
					want = append(want, p.Blocks[a-1]...)
				}
				got, err := rowColumns(out[r])
				if err != nil {
					return mk("error", err.Error())
				}
				if !equalU64(got, sortedU64(want)) {
					return mk("wrong_contents", fmt.Sprintf("Row(f=%d) = %v, want %v", p.Rows[r], got, sortedU64(want)))
				}
			}
		default:
			res.SetInconclusive("unknown op " + op)
			return nil
		}
		if write {
			for r := range cnt {
				if cnt[r] != prevCnt[r] {
					res.Cover("c12:write_changed_counts:" + op)
					break
				}
			}
			prevCnt = cnt
		}
		if (write && c.Variant == "full") || op == "end" {
			q := fmt.Sprintf("TopN(%s, ids=%s)", f, c.ids(allRows))
			pairs, refused, err := c.topQuery(s, q)
			if err != nil {
				return mk("error", q+": "+err.Error())
			}
			if !refused {
				if text, sym := c.checkIds(pairs, allRows, exact); text != "" {
					extra["observed"] = "after_step"
					return mk(sym, q+" after the step: "+text)
				}
			}
		}
	}
	return nil
}

func c12Config(b behav.Behaviour) (kind string, size uint32, mutex bool) {
	return b[0].Str("op"), uint32(b[0].Int("a")), b[0].Int("b") == 1
}

func TestC12(t *testing.T) {
	seed := behav.Seed()
	corrupt := behav.EnvInt("VERIF_CORRUPT", 0) == 1
	group := behav.EnvInt("VERIF_GROUP", 8)
	both := behav.EnvInt("VERIF_BOTH_VARIANTS", 0) == 1
	drive(t,
		func(raw json.RawMessage) (caseT, error) {
			var c c12Case
			err := json.Unmarshal(raw, &c)
			return &c, err
		},
		func(all []behav.Behaviour) []caseT {
			// VERIF_REPEAT: every behaviour is replayed that many times (in different fields,
			// under different refinements): what the cache does with the rows of an import
			// depends on Go's map iteration order
			if rep := behav.EnvInt("VERIF_REPEAT", 1); rep > 1 {
				n := len(all)
				for k := 1; k < rep; k++ {
					all = append(all, all[:n]...)
				}
			}
			// one field per group of behaviours with the same configuration
			byCfg := map[string][]int{}
			var keys []string
			for i, b := range all {
				kind, size, mutex := c12Config(b)
				k := fmt.Sprintf("%s/%05d/%v", kind, size, mutex)
				if _, ok := byCfg[k]; !ok {
					keys = append(keys, k)
				}
				byCfg[k] = append(byCfg[k], i)
			}
			sort.Strings(keys)
			var jobs []caseT
			g := 0
			for _, k := range keys {
				idx := byCfg[k]
				for lo := 0; lo < len(idx); lo += group {
					hi := lo + group
					if hi > len(idx) {
						hi = len(idx)
					}
					var behs []behav.Behaviour
					for _, i := range idx[lo:hi] {
						behs = append(behs, all[i])
					}
					kind, size, mutex := c12Config(behs[0])
					variants := []string{[]string{"full", "sparse"}[g%2]}
					if both {
						variants = []string{"full", "sparse"}
					}
					for vi, v := range variants {
						c := &c12Case{Prop: "C12", Behs: behs, Idx: idx[lo], Seed: seed, Kind: kind, Size: size, Mutex: mutex, Variant: v}
						c.Prof = c12MakeProfile(seed, idx[lo], g/2+vi, mutex, behs[0][0].Ints("res"))
						if corrupt {
							c.Corrupt = 1 + g%(hi-lo)
						}
						jobs = append(jobs, c)
					}
					g++
				}
			}
			return jobs
		}, runC12)
}
