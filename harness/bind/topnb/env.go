// Package topnb binds spec/TopN.tla (C12) and spec/Mutex.tla (C13) to the real code: every
// behaviour TLC generates is replayed on an in-process one-node server (test.MustRunCommand)
// through API.Query, API.Import, API.ImportRoaring, API.RecalculateCaches and the Field Go
// API, and every answer is compared with the specification's.
package topnb

import (
	"context"
	"encoding/json"
	"fmt"
	"os"
	"path/filepath"
	"runtime"
	"sort"
	"strings"
	"sync"
	"sync/atomic"
	"testing"
	"time"

	"github.com/pilosa/pilosa"
	"github.com/pilosa/pilosa/test"

	"verif/harness/behav"
	"verif/harness/bind/roaringb"
)

// SW is the shard width of the build under test.
const SW = uint64(pilosa.ShardWidth)

// ---------------------------------------------------------------------------------------
// servers

// Srv is one in-process server; a case owns it exclusively while it runs (restarts are part
// of the histories).
type Srv struct {
	Cmd      *test.Command
	hasIndex bool
}

// Pool hands out servers.
type Pool struct {
	ch   chan *Srv
	mu   sync.Mutex
	all  []*Srv
	dirs []string
}

func startSrv() *Srv { return &Srv{Cmd: test.MustRunCommand()} }

// NewPool starts n servers.
func NewPool(n int) *Pool {
	p := &Pool{ch: make(chan *Srv, n+8)}
	var wg sync.WaitGroup
	for i := 0; i < n; i++ {
		wg.Add(1)
		go func() {
			defer wg.Done()
			s := startSrv()
			p.mu.Lock()
			p.all = append(p.all, s)
			p.dirs = append(p.dirs, s.Cmd.Config.DataDir)
			p.mu.Unlock()
			p.ch <- s
		}()
	}
	wg.Wait()
	return p
}

func (p *Pool) Get() *Srv  { return <-p.ch }
func (p *Pool) Put(s *Srv) { p.ch <- s }

// Replace discards a server whose state can no longer be trusted and starts a fresh one.
func (p *Pool) Replace(s *Srv) {
	func() {
		defer func() { recover() }()
		s.Cmd.Close()
	}()
	n := startSrv()
	p.mu.Lock()
	p.all = append(p.all, n)
	p.dirs = append(p.dirs, n.Cmd.Config.DataDir)
	p.mu.Unlock()
	p.ch <- n
}

// Close stops every server and removes the data directories.
func (p *Pool) Close() {
	p.mu.Lock()
	defer p.mu.Unlock()
	for _, s := range p.all {
		func() {
			defer func() { recover() }()
			s.Cmd.Close()
		}()
	}
	for _, d := range p.dirs {
		if strings.Contains(filepath.Base(d), "pilosa-") {
			os.RemoveAll(d)
		}
	}
}

// ---------------------------------------------------------------------------------------
// one case on one server

var indexSeq int64

// Bit is one (row, column) pair of a request.
type Bit struct{ Row, Col uint64 }

// Sess is one case replayed in a fresh field of the server's index.
type Sess struct {
	S     *Srv
	Index string
	F     string // field name
	Log   []string
	ctx   context.Context
}

func (s *Sess) api() *pilosa.API { return s.S.Cmd.API }

// NewSess creates a fresh field (creating the server's index on first use).
func NewSess(srv *Srv, opts ...pilosa.FieldOption) (*Sess, error) {
	s := &Sess{S: srv, Index: "x", ctx: context.Background()}
	var err error
	for try := 0; try < 3; try++ {
		if try > 0 {
			time.Sleep(time.Duration(try) * 200 * time.Millisecond)
		}
		if !srv.hasIndex {
			if _, err = s.api().CreateIndex(s.ctx, s.Index, pilosa.IndexOptions{}); err != nil && !strings.Contains(err.Error(), "already exists") {
				continue
			}
			srv.hasIndex = true
		}
		s.F = fmt.Sprintf("f%d", atomic.AddInt64(&indexSeq, 1))
		if _, err = s.api().CreateField(s.ctx, s.Index, s.F, opts...); err != nil {
			continue
		}
		return s, nil
	}
	return nil, err
}

// Close deletes the field.
func (s *Sess) Close() {
	defer func() { recover() }()
	s.api().DeleteField(s.ctx, s.Index, s.F)
}

func (s *Sess) logf(format string, a ...interface{}) {
	s.Log = append(s.Log, fmt.Sprintf(format, a...))
}

// Query sends PQL and returns the results of its calls.
func (s *Sess) Query(pql string) ([]interface{}, error) {
	s.Log = append(s.Log, pql)
	resp, err := s.api().Query(s.ctx, &pilosa.QueryRequest{Index: s.Index, Query: pql})
	if err != nil {
		return nil, err
	}
	return resp.Results, nil
}

// Field returns the field object of the running server.
func (s *Sess) Field() *pilosa.Field {
	return s.S.Cmd.Server.Holder().Field(s.Index, s.F)
}

func byShard(bits []Bit) (map[uint64][]Bit, []uint64) {
	m := map[uint64][]Bit{}
	var order []uint64
	for _, b := range bits {
		sh := b.Col / SW
		if _, ok := m[sh]; !ok {
			order = append(order, sh)
		}
		m[sh] = append(m[sh], b)
	}
	return m, order
}

// Import sends the bits through API.Import, one request per shard, entry order preserved.
func (s *Sess) Import(bits []Bit, clear bool) error {
	s.logf("API.Import(clear=%v, %v)", clear, bits)
	m, order := byShard(bits)
	for _, sh := range order {
		req := &pilosa.ImportRequest{Index: s.Index, Field: s.F, Shard: sh}
		for _, b := range m[sh] {
			req.RowIDs = append(req.RowIDs, b.Row)
			req.ColumnIDs = append(req.ColumnIDs, b.Col)
		}
		if err := s.api().Import(s.ctx, req, pilosa.OptImportOptionsClear(clear)); err != nil {
			return err
		}
	}
	return nil
}

// FieldImport sends the bits through Field.Import (all shards in one call).
func (s *Sess) FieldImport(bits []Bit, clear bool) error {
	s.logf("Field.Import(clear=%v, %v)", clear, bits)
	f := s.Field()
	if f == nil {
		return fmt.Errorf("field not found in holder")
	}
	var rows, cols []uint64
	for _, b := range bits {
		rows = append(rows, b.Row)
		cols = append(cols, b.Col)
	}
	return f.Import(rows, cols, nil, pilosa.OptImportOptionsClear(clear))
}

// Roaring sends the bits through API.ImportRoaring into the standard view, one request
// per shard, in Pilosa's or in the official roaring encoding.
func (s *Sess) Roaring(bits []Bit, clear, official bool) error {
	s.logf("API.ImportRoaring(clear=%v, official=%v, %v)", clear, official, bits)
	m, order := byShard(bits)
	sort.Slice(order, func(i, j int) bool { return order[i] < order[j] })
	for _, sh := range order {
		var pos []uint64
		for _, b := range m[sh] {
			pos = append(pos, b.Row*SW+b.Col%SW)
		}
		sort.Slice(pos, func(i, j int) bool { return pos[i] < pos[j] })
		var uniq []uint64
		for i, v := range pos {
			if i == 0 || v != pos[i-1] {
				uniq = append(uniq, v)
			}
		}
		var data []byte
		if official && roaringb.OfficialOK(uniq) {
			data, _ = roaringb.EncodeOfficial(uniq, false)
		} else {
			data = roaringb.EncodePilosa(uniq)
		}
		req := &pilosa.ImportRoaringRequest{Clear: clear, Views: map[string][]byte{"": data}}
		if err := s.api().ImportRoaring(s.ctx, s.Index, s.F, sh, false, req); err != nil {
			return err
		}
	}
	return nil
}

// Recalculate calls API.RecalculateCaches.
func (s *Sess) Recalculate() error {
	s.logf("API.RecalculateCaches()")
	return s.api().RecalculateCaches(s.ctx)
}

// Reopen restarts the server (clean shutdown, same data directory).
func (s *Sess) Reopen() error {
	s.logf("Reopen()")
	return s.S.Cmd.Reopen()
}

// ---------------------------------------------------------------------------------------
// result helpers

func rowColumns(v interface{}) ([]uint64, error) {
	r, ok := v.(*pilosa.Row)
	if !ok {
		return nil, fmt.Errorf("result is %T (%v), not a row", v, v)
	}
	return r.Columns(), nil
}

func rowIDs(v interface{}) ([]uint64, error) {
	switch r := v.(type) {
	case pilosa.RowIdentifiers:
		return r.Rows, nil
	case *pilosa.RowIdentifiers:
		return r.Rows, nil
	case pilosa.RowIDs:
		return []uint64(r), nil
	}
	return nil, fmt.Errorf("result is %T (%v), not row identifiers", v, v)
}

func pairsOf(v interface{}) ([]pilosa.Pair, error) {
	switch r := v.(type) {
	case []pilosa.Pair:
		return r, nil
	case pilosa.Pairs:
		return []pilosa.Pair(r), nil
	case nil:
		return nil, nil
	}
	return nil, fmt.Errorf("result is %T (%v), not pairs", v, v)
}

func boolResult(v interface{}) (bool, error) {
	b, ok := v.(bool)
	if !ok {
		return false, fmt.Errorf("result is %T (%v), not a bool", v, v)
	}
	return b, nil
}

func equalU64(a, b []uint64) bool {
	if len(a) != len(b) {
		return false
	}
	for i := range a {
		if a[i] != b[i] {
			return false
		}
	}
	return true
}

func sortedU64(a []uint64) []uint64 {
	out := append([]uint64(nil), a...)
	sort.Slice(out, func(i, j int) bool { return out[i] < out[j] })
	return out
}

func lastLog(log []string, n int) string {
	if len(log) > n {
		return "... " + strings.Join(log[len(log)-n:], " ; ")
	}
	return strings.Join(log, " ; ")
}

func firstLines(s string, n int) string {
	lines := strings.Split(s, "\n")
	if len(lines) > n {
		lines = lines[:n]
	}
	return strings.Join(lines, "\n")
}

// mismatch describes the first disagreement of a replay.
type mismatch struct {
	Step    int
	Op      string
	Symptom string
	Extra   map[string]string // further Match fields
	Text    string
}

func (m *mismatch) String() string {
	return fmt.Sprintf("step %d (%s) %s: %s", m.Step, m.Op, m.Symptom, m.Text)
}

// ---------------------------------------------------------------------------------------
// the common test body

// caseT is what a driver needs from a replayable case.
type caseT interface {
	match() map[string]string
	describe() string
}

// drive runs replay mode or all jobs in parallel on a pool of servers. mk builds the jobs
// from the behaviours; run replays one; decode rebuilds a case from a replay payload.
func drive(t *testing.T, decode func(raw json.RawMessage) (caseT, error), mk func(behs []behav.Behaviour) []caseT,
	run func(srv *Srv, c caseT, res *behav.Result) *mismatch) {
	res := behav.NewResult()
	defer func() {
		if err := res.Write(); err != nil {
			t.Fatal(err)
		}
	}()
	fail := func(c caseT, mm *mismatch) {
		m := c.match()
		m["op"], m["symptom"] = mm.Op, mm.Symptom
		for k, v := range mm.Extra {
			m[k] = v
		}
		res.Fail(behav.Failure{Match: m, Detail: c.describe() + ": " + mm.String(), Replay: c})
	}
	protected := func(srv *Srv, c caseT) (mm *mismatch, broken bool) {
		pv, stack := behav.Protect(func() { mm = run(srv, c, res) })
		if pv != nil {
			txt := fmt.Sprintf("panic: %v\n%s", pv, firstLines(stack, 40))
			if !behav.PanicInCode(stack) {
				res.SetInconclusive("harness panic: " + txt)
				return nil, true
			}
			return &mismatch{Step: -1, Op: "?", Symptom: "panic", Text: txt}, true
		}
		return mm, false
	}
	if raw, ok := behav.LoadReplay(); ok {
		c, err := decode(raw)
		if err != nil {
			t.Fatal(err)
		}
		pool := NewPool(1)
		defer pool.Close()
		res.Evaluations = 1
		// What the cache does with the rows of one import depends on Go's map iteration
		// order: a replay is attempted several times and fails if any attempt fails.
		for try := 0; try < behav.EnvInt("VERIF_REPLAY_TRIES", 12); try++ {
			if try > 0 {
				if c, err = decode(raw); err != nil {
					t.Fatal(err)
				}
			}
			srv := pool.Get()
			mm, broken := protected(srv, c)
			if mm != nil {
				fail(c, mm)
				return
			}
			if broken {
				pool.Replace(srv)
			} else {
				pool.Put(srv)
			}
		}
		return
	}
	jobs := mk(behav.LoadEnv())
	n := behav.EnvInt("VERIF_SERVERS", runtime.GOMAXPROCS(0)/2)
	if n < 2 {
		n = 2
	}
	if n > len(jobs) {
		n = len(jobs)
	}
	pool := NewPool(n)
	defer pool.Close()
	t.Setenv("VERIF_WORKERS", fmt.Sprint(n))
	progress, t0 := os.Getenv("VERIF_PROGRESS") != "", time.Now()
	behav.Parallel(len(jobs), func(i int) {
		c := jobs[i]
		srv := pool.Get()
		mm, broken := protected(srv, c)
		if broken {
			pool.Replace(srv)
		} else {
			pool.Put(srv)
		}
		if progress && i%500 == 0 {
			fmt.Fprintf(os.Stderr, "progress %d/%d %v\n", i, len(jobs), time.Since(t0))
		}
		if i%(len(jobs)/5+1) == 0 {
			res.AddSample(c.describe())
		}
		if mm != nil {
			fail(c, mm)
		}
	}, func(i int, v interface{}, stack string) {
		res.SetInconclusive(fmt.Sprintf("harness panic outside a replay: %v\n%s", v, firstLines(stack, 30)))
	})
}
