package topnb

import (
	"encoding/json"
	"fmt"
	"math/rand"
	"strings"
	"testing"

	"github.com/pilosa/pilosa"

	"verif/harness/behav"
)

// c13Profile refines the abstract rows and columns of spec/Mutex.tla.
type c13Profile struct {
	Name       string     `json:"name"`
	Rows       []uint64   `json:"rows"`   // concrete row id of abstract row i
	Blocks     [][]uint64 `json:"blocks"` // concrete columns of abstract column i
	Shards     int        `json:"shards"`
	Load       string     `json:"load"`       // how the stored state is written: set | import
	Interleave bool       `json:"interleave"` // batch expansion: column-major instead of entry-major
	Cache      string     `json:"cache"`
	CacheSize  uint32     `json:"cache_size"`
}

type c13Case struct {
	Prop    string          `json:"prop"`
	Kind    string          `json:"kind"` // mutex | bool
	// Behs are replayed one after the other in the same field; between two of them the
	// field is emptied by a clear-import of the bits the specification says are set, and the
	// next stored state is loaded and observed. A failure is first re-tried alone in a fresh
	// field (then Behs is that single behaviour); otherwise Behs is the prefix that led to it.
	Behs    []behav.Behaviour `json:"behs"`
	Idx     int             `json:"idx"` // index of the first behaviour in the generated file
	Seed    int64           `json:"seed"`
	Variant string          `json:"variant"` // pql | field
	Prof    c13Profile      `json:"profile"`
	Corrupt int             `json:"-"` // binding self-test: corrupt the expectations of Behs[Corrupt-1]
}

func (c *c13Case) match() map[string]string {
	return map[string]string{"kind": c.Kind, "variant": c.Variant, "shards": fmt.Sprint(c.Prof.Shards)}
}

func (c *c13Case) describe() string {
	return fmt.Sprintf("C13 %s behaviours #%d.. (%d in one field) variant %s profile %s", c.Kind, c.Idx, len(c.Behs), c.Variant, c.Prof.Name)
}

var c13RowTables = [][]uint64{{0, 1, 2}, {2, 0, 1}, {1, 99, 100}, {5, 1000, 3}, {0, 100, 200}, {7, 8, 4000}}

func c13MakeProfile(kind string, seed int64, idx, vi, ncols int) c13Profile {
	rng := rand.New(rand.NewSource(seed*1000003 + int64(idx)*7 + int64(vi)))
	p := c13Profile{Shards: 1 + (vi/2+vi%2)%2}
	if kind == "bool" {
		p.Rows = []uint64{0, 1}
	} else {
		p.Rows = c13RowTables[rng.Intn(len(c13RowTables))]
	}
	offs := []uint64{0, 1, 2, 4095, 4096, 65534, 65535}
	used := map[uint64]bool{}
	for c := 0; c < ncols; c++ {
		n := 1 + rng.Intn(3)
		var blk []uint64
		for len(blk) < n {
			sh := uint64(0)
			if p.Shards == 2 && (len(blk)+c)%2 == 1 {
				sh = 1
			}
			cont := []uint64{0, 1, 15}[rng.Intn(3)]
			col := sh*SW + cont<<16 + offs[rng.Intn(len(offs))]
			if rng.Intn(4) == 0 {
				col = sh*SW + uint64(rng.Intn(int(SW)))
			}
			if used[col] {
				continue
			}
			used[col] = true
			blk = append(blk, col)
		}
		p.Blocks = append(p.Blocks, blk)
	}
	p.Load = []string{"set", "import"}[rng.Intn(2)]
	p.Interleave = rng.Intn(2) == 1
	p.Cache = []string{pilosa.CacheTypeRanked, pilosa.CacheTypeLRU, pilosa.CacheTypeNone}[rng.Intn(3)]
	p.CacheSize = []uint32{1, 2, 50000}[rng.Intn(3)]
	p.Name = fmt.Sprintf("s%d/rows%v/blocks%v/%s/il=%v/%s%d", p.Shards, p.Rows, p.Blocks, p.Load, p.Interleave, p.Cache, p.CacheSize)
	return p
}

// rowArg renders a row for PQL.
func (c *c13Case) rowArg(r int) string {
	if c.Kind == "bool" {
		return []string{"false", "true"}[r]
	}
	return fmt.Sprint(c.Prof.Rows[r])
}

// expand turns a batch of abstract <<r, c>> entries into concrete bits, keeping the order of
// the entries of every concrete column.
func (c *c13Case) expand(batch []interface{}, badAt int) []Bit {
	type ent struct{ r, c int }
	var es []ent
	for _, e := range batch {
		rc := behav.ToInts(e)
		es = append(es, ent{rc[0], rc[1]})
	}
	row := func(i int, e ent) uint64 {
		if i == badAt {
			return 2 // BadRow: not a bool value
		}
		return c.Prof.Rows[e.r]
	}
	var out []Bit
	if !c.Prof.Interleave {
		for i, e := range es {
			for _, col := range c.Prof.Blocks[e.c] {
				out = append(out, Bit{row(i, e), col})
			}
		}
		return out
	}
	for j := 0; j < 3; j++ {
		for i, e := range es {
			if blk := c.Prof.Blocks[e.c]; j < len(blk) {
				out = append(out, Bit{row(i, e), blk[j]})
			}
		}
	}
	return out
}

func batchClass(batch []interface{}) string {
	cls := "distinct"
	seen := map[int]int{}
	for _, e := range batch {
		rc := behav.ToInts(e)
		if r, ok := seen[rc[1]]; ok {
			if r != rc[0] || cls == "repeat_conflict" {
				cls = "repeat_conflict"
			} else {
				cls = "repeat_same"
			}
		}
		seen[rc[1]] = rc[0]
	}
	return cls
}

func setsOf(v interface{}) [][]int {
	var out [][]int
	for _, e := range behav.ToList(v) {
		out = append(out, behav.ToInts(e))
	}
	return out
}

// observe compares Row(f=r) for every row and Rows(f, column=c) for every concrete column
// with the specification's post-state.
func (c *c13Case) observe(s *Sess, st behav.Step, corrupt bool) (string, string) {
	p := c.Prof
	rows := setsOf(st["rows"])
	cr := setsOf(st["cr"])
	if corrupt {
		rows[0], rows[1] = rows[1], rows[0]
		for i := range cr {
			for j := range cr[i] {
				if cr[i][j] < 2 {
					cr[i][j] = 1 - cr[i][j]
				}
			}
		}
	}
	var calls []string
	for r := range rows {
		calls = append(calls, fmt.Sprintf("Row(%s=%s)", s.F, c.rowArg(r)))
	}
	nRow := len(calls)
	type colq struct {
		col  uint64
		want []uint64
	}
	var cq []colq
	if c.Kind != "bool" { // Rows() is not offered on bool fields
		for ci, blk := range p.Blocks {
			var want []uint64
			for _, r := range cr[ci] {
				want = append(want, p.Rows[r])
			}
			want = sortedU64(want)
			for _, col := range blk {
				cq = append(cq, colq{col, want})
				calls = append(calls, fmt.Sprintf("Rows(%s, column=%d)", s.F, col))
			}
		}
		calls = append(calls, "Rows("+s.F+")")
	}
	res, err := s.Query(strings.Join(calls, " "))
	if err != nil {
		return "observation failed: " + err.Error(), "error"
	}
	// rows actually holding every concrete column
	holders := map[uint64][]uint64{}
	got := make([][]uint64, len(rows))
	for r := range rows {
		cols, err := rowColumns(res[r])
		if err != nil {
			return err.Error(), "error"
		}
		got[r] = cols
		for _, col := range cols {
			holders[col] = append(holders[col], p.Rows[r])
		}
	}
	for ci, blk := range p.Blocks {
		for _, col := range blk {
			h := holders[col]
			var want []uint64
			for _, r := range cr[ci] {
				want = append(want, p.Rows[r])
			}
			if equalU64(sortedU64(h), sortedU64(want)) {
				continue
			}
			sym := "wrong_row"
			switch {
			case len(h) > 1:
				sym = "two_rows"
			case len(h) == 0:
				sym = "lost"
			case len(want) == 0:
				sym = "resurrected"
			}
			return fmt.Sprintf("column %d (abstract %d) is in rows %v, want %v", col, ci, h, want), sym
		}
	}
	for r := range rows {
		var want []uint64
		for _, a := range rows[r] {
			want = append(want, p.Blocks[a]...)
		}
		if !equalU64(got[r], sortedU64(want)) {
			return fmt.Sprintf("Row(f=%s) = %v, want %v", c.rowArg(r), got[r], sortedU64(want)), "wrong_row"
		}
	}
	for i, q := range cq {
		ids, err := rowIDs(res[nRow+i])
		if err != nil {
			return err.Error(), "error"
		}
		if !equalU64(sortedU64(ids), q.want) {
			return fmt.Sprintf("Rows(f, column=%d) = %v, want %v", q.col, ids, q.want), "rows_query_mismatch"
		}
	}
	if c.Kind != "bool" {
		ids, err := rowIDs(res[len(res)-1])
		if err != nil {
			return err.Error(), "error"
		}
		var want []uint64
		for r := range rows {
			if len(rows[r]) > 0 {
				want = append(want, p.Rows[r])
			}
		}
		if !equalU64(sortedU64(ids), sortedU64(want)) {
			return fmt.Sprintf("Rows(f) = %v, want %v", ids, sortedU64(want)), "rows_query_mismatch"
		}
	}
	return "", ""
}

func (c *c13Case) fieldOpt() pilosa.FieldOption {
	if c.Kind == "bool" {
		return pilosa.OptFieldTypeBool()
	}
	return pilosa.OptFieldTypeMutex(c.Prof.Cache, c.Prof.CacheSize)
}

func (c *c13Case) bitsOf(st behav.Step) []Bit {
	var bits []Bit
	for ci, rs := range setsOf(st["cr"]) {
		for _, r := range rs {
			for _, col := range c.Prof.Blocks[ci] {
				bits = append(bits, Bit{c.Prof.Rows[r], col})
			}
		}
	}
	return bits
}

// runC13 replays the behaviours of the case in one field.
func runC13(srv *Srv, ci caseT, res *behav.Result) *mismatch {
	c := ci.(*c13Case)
	s, err := NewSess(srv, c.fieldOpt())
	if err != nil {
		res.SetInconclusive("could not create index/field: " + err.Error())
		return nil
	}
	defer s.Close()
	var prev behav.Step
	for k, beh := range c.Behs {
		res.CountEval()
		if prev != nil {
			// empty the field: clear exactly what the specification says is set
			if bits := c.bitsOf(prev); len(bits) > 0 {
				if err := s.Import(bits, true); err != nil {
					return &mismatch{Step: -1, Op: "reset", Symptom: "error", Text: err.Error()}
				}
			}
		}
		mm := c.runBeh(s, beh, c.Corrupt == k+1, res)
		if mm == nil {
			prev = beh[len(beh)-1]
			res.CountNontrivial()
			continue
		}
		if len(c.Behs) == 1 {
			return mm
		}
		// does the behaviour fail on its own in a fresh field? then that is the replay
		single := *c
		single.Behs, single.Idx, single.Corrupt = []behav.Behaviour{beh}, c.Idx+k, 0
		if c.Corrupt == k+1 {
			single.Corrupt = 1
		}
		if s2, err := NewSess(srv, c.fieldOpt()); err == nil {
			mm2 := single.runBeh(s2, beh, single.Corrupt == 1, res)
			s2.Close()
			if mm2 != nil {
				c.Behs, c.Idx = single.Behs, single.Idx
				return mm2
			}
		}
		c.Behs = c.Behs[:k+1]
		if mm.Extra == nil {
			mm.Extra = map[string]string{}
		}
		mm.Extra["needs_prefix"] = "yes"
		mm.Text = fmt.Sprintf("behaviour %d of the field (passes alone in a fresh field): %s", k, mm.Text)
		return mm
	}
	return nil
}

func (c *c13Case) runBeh(s *Sess, beh behav.Behaviour, corrupt bool, res *behav.Result) *mismatch {
	p := c.Prof
	for i, st := range beh {
		op := st.Str("op")
		extra := map[string]string{}
		mk := func(sym, text string) *mismatch {
			return &mismatch{Step: i, Op: op, Symptom: sym, Extra: extra, Text: text + " | requests: " + lastLog(s.Log, 12)}
		}
		if i == 0 {
			res.Cover("c13:" + c.Kind + ":op:init")
		} else {
			res.Cover("c13:" + c.Kind + ":op:" + op)
		}
		// one bit write through the variant's path; returns changed
		bitWrite := func(set bool, r int, col uint64) (bool, error) {
			if c.Variant == "field" {
				f := s.Field()
				if set {
					s.logf("Field.SetBit(%d, %d)", p.Rows[r], col)
					return f.SetBit(p.Rows[r], col, nil)
				}
				s.logf("Field.ClearBit(%d, %d)", p.Rows[r], col)
				return f.ClearBit(p.Rows[r], col)
			}
			name := "Clear"
			if set {
				name = "Set"
			}
			out, err := s.Query(fmt.Sprintf("%s(%d, %s=%s)", name, col, s.F, c.rowArg(r)))
			if err != nil {
				return false, err
			}
			return boolResult(out[0])
		}
		imp := func(bits []Bit, clear bool) error {
			if c.Variant == "field" {
				return s.FieldImport(bits, clear)
			}
			return s.Import(bits, clear)
		}
		switch op {
		case "mutex", "bool":
			if bits := c.bitsOf(st); len(bits) > 0 {
				if p.Load == "import" {
					if err := imp(bits, false); err != nil {
						return mk("error", "loading the stored state: "+err.Error())
					}
				} else {
					var calls []string
					for _, b := range bits {
						calls = append(calls, fmt.Sprintf("Set(%d, %s=%s)", b.Col, s.F, c.rowArgOf(b.Row)))
					}
					if _, err := s.Query(strings.Join(calls, " ")); err != nil {
						return mk("error", "loading the stored state: "+err.Error())
					}
				}
			}
		case "Set", "Clear":
			for _, col := range p.Blocks[st.Int("c")] {
				ch, err := bitWrite(op == "Set", st.Int("r"), col)
				if err != nil {
					return mk("error", err.Error())
				}
				if ch != st.Bool("ch") {
					return mk("wrong_changed", fmt.Sprintf("%s(row %d, column %d) returned %v, want %v", op, p.Rows[st.Int("r")], col, ch, st.Bool("ch")))
				}
			}
		case "Import", "ClearImport":
			batch := behav.ToList(st["b"])
			extra["batch"] = batchClass(batch)
			if err := imp(c.expand(batch, -1), op == "ClearImport"); err != nil {
				return mk("error", err.Error())
			}
		case "ClearRow":
			out, err := s.Query(fmt.Sprintf("ClearRow(%s=%s)", s.F, c.rowArg(st.Int("r"))))
			if err != nil {
				return mk("error", err.Error())
			}
			ch, err := boolResult(out[0])
			if err != nil {
				return mk("error", err.Error())
			}
			if ch != st.Bool("ch") {
				return mk("wrong_changed", fmt.Sprintf("ClearRow(f=%s) returned %v, want %v", c.rowArg(st.Int("r")), ch, st.Bool("ch")))
			}
		case "Roaring":
			var bits []Bit
			for _, col := range p.Blocks[st.Int("c")] {
				bits = append(bits, Bit{p.Rows[st.Int("r")], col})
			}
			if err := s.Roaring(bits, false, false); err == nil {
				return mk("not_refused", "a roaring import into a "+c.Kind+" field was accepted")
			}
		case "BadRow":
			bits := c.expand(behav.ToList(st["b"]), st.Int("r")-1)
			if c.Variant != "field" {
				// API.Import is one request per shard: only the requests that name row 2 are
				// refused, so only those are sent
				bad := map[uint64]bool{}
				for _, b := range bits {
					if b.Row == 2 {
						bad[b.Col/SW] = true
					}
				}
				var keep []Bit
				for _, b := range bits {
					if bad[b.Col/SW] {
						keep = append(keep, b)
					}
				}
				bits = keep
			}
			if err := imp(bits, false); err == nil {
				return mk("not_refused", "an import naming row 2 into a bool field was accepted")
			}
		default:
			res.SetInconclusive("unknown op " + op)
			return nil
		}
		if text, sym := c.observe(s, st, corrupt && i == len(beh)-1); text != "" {
			return mk(sym, text)
		}
	}
	return nil
}

// rowArgOf renders a concrete row id for PQL.
func (c *c13Case) rowArgOf(row uint64) string {
	if c.Kind == "bool" {
		return []string{"false", "true"}[row]
	}
	return fmt.Sprint(row)
}

func TestC13(t *testing.T) {
	seed := behav.Seed()
	corrupt := behav.EnvInt("VERIF_CORRUPT", 0) == 1
	nvar := behav.EnvInt("VERIF_VARIANTS", 2)
	group := behav.EnvInt("VERIF_GROUP", 30)
	drive(t,
		func(raw json.RawMessage) (caseT, error) {
			var c c13Case
			err := json.Unmarshal(raw, &c)
			return &c, err
		},
		func(all []behav.Behaviour) []caseT {
			var jobs []caseT
			g := 0
			for _, kind := range []string{"mutex", "bool"} {
				var behs []behav.Behaviour // the field type is the op of a behaviour's first record
				var idx []int
				for i, b := range all {
					if b[0].Str("op") == kind {
						behs = append(behs, b)
						idx = append(idx, i)
					}
				}
				for lo := 0; lo < len(behs); lo += group {
					hi := lo + group
					if hi > len(behs) {
						hi = len(behs)
					}
					ncols := behs[lo][0].Int("c")
					// (path, shards) combinations: nvar consecutive ones of the four per group
					for k := 0; k < nvar; k++ {
						combo := (g + k) % 4
						c := &c13Case{Prop: "C13", Kind: kind, Behs: behs[lo:hi], Idx: idx[lo], Seed: seed, Variant: []string{"pql", "field"}[combo%2]}
						c.Prof = c13MakeProfile(kind, seed, idx[lo], combo, ncols)
						if corrupt {
							c.Corrupt = 1 + g%(hi-lo)
						}
						jobs = append(jobs, c)
					}
					g++
				}
			}
			return jobs
		}, runC13)
}
