//go:build verif

// Package transferb binds spec/Transfer.tla (extra check X02: shard data transfer and
// schema propagation) to the real code: fragment.WriteTo / ReadFrom on real fragments,
// completed resizes and schema exchange on real in-process clusters.
package transferb

import (
	"archive/tar"
	"bytes"
	"fmt"
	"io"
	"math/rand"
	"os"
	"path/filepath"
	"runtime/debug"
	"sort"
	"strings"
	"sync"
	"sync/atomic"
	"time"

	"github.com/pilosa/pilosa"

	"verif/harness/behav"
	"verif/harness/bind/fragb"
)

// Case is one replay: a behaviour of Transfer.tla under one refinement / configuration.
type Case struct {
	Kind      string          `json:"kind"`
	Beh       behav.Behaviour `json:"beh"`
	Profile   string          `json:"profile"`
	Shard     uint64          `json:"shard"`
	Seed      int64           `json:"seed"`
	CacheType string          `json:"cache"`
	Loud      bool            `json:"loud"`
	Corrupt   string          `json:"corrupt,omitempty"`
}

// Mismatch is a disagreement of the code with the specification.
type Mismatch struct {
	Step   int
	Op     string
	Side   string // the fragment observed
	Obs    string
	Fl     string
	Detail string
}

func (m *Mismatch) String() string {
	return fmt.Sprintf("step %d (%s %s): %s fragment, %s: %s", m.Step, m.Op, m.Fl, m.Side, m.Obs, m.Detail)
}

var (
	scratchOnce sync.Once
	scratchPath string
	scratchSeq  int64
)

func scratchDir() string {
	scratchOnce.Do(func() {
		d := os.Getenv("VERIF_SCRATCH")
		if d == "" {
			d = os.Getenv("TMPDIR")
		}
		if d == "" {
			d = os.TempDir()
		}
		shm := filepath.Join("/dev/shm", filepath.Base(d)+".transferb", fmt.Sprintf("%d", os.Getpid()))
		if os.MkdirAll(shm, 0o755) == nil {
			scratchPath = shm
			return
		}
		scratchPath = filepath.Join(d, fmt.Sprintf("transferb-%d", os.Getpid()))
		_ = os.MkdirAll(scratchPath, 0o755)
	})
	return scratchPath
}

func newPath() string {
	return filepath.Join(scratchDir(), fmt.Sprintf("frag-%d", atomic.AddInt64(&scratchSeq, 1)))
}

func removeFragFiles(path string) {
	for _, ext := range []string{"", ".cache", ".snapshotting", ".copying", ".temp"} {
		_ = os.Remove(path + ext)
	}
}

type side struct {
	name string
	f    *pilosa.VerifFragment
	path string
}

type runner struct {
	c     *Case
	p     *fragb.Profile
	rows  []uint64
	depth uint
	s     map[string]*side
	cover func(string)
	step  int
	op    string
	fl    string
}

func (r *runner) cov(k string) {
	if r.cover != nil {
		r.cover(k)
	}
}

func rowsOfKind(kind string) []uint64 {
	switch kind {
	case "bool":
		return []uint64{0, 1}
	case "bsi":
		return []uint64{0, 1, 2, 3}
	}
	return []uint64{0, 99, 100}
}

func (r *runner) mm(sd, obs, format string, a ...interface{}) *Mismatch {
	return &Mismatch{Step: r.step, Op: r.op, Fl: r.fl, Side: sd, Obs: obs, Detail: fmt.Sprintf(format, a...)}
}

func (r *runner) open(name, maxopn string) (*side, error) {
	s := &side{name: name, path: newPath()}
	o := pilosa.VerifFragmentOptions{Shard: r.c.Shard, CacheType: r.c.CacheType, Kind: r.c.Kind}
	s.f = pilosa.VerifNewFragment(s.path, o)
	if maxopn == "tiny" {
		s.f.SetMaxOpN(0)
	} else {
		s.f.SetMaxOpN(1 << 40)
	}
	return s, s.f.Open()
}

func (r *runner) close() {
	for _, s := range r.s {
		s := s
		done := make(chan struct{})
		go func() {
			defer close(done)
			_, _ = behav.Protect(func() { _ = s.f.Close() })
		}()
		select {
		case <-done:
		case <-time.After(5 * time.Second):
			r.cov("close_abandoned_after_failure")
		}
		removeFragFiles(s.path)
	}
}

func rowBits(bits []fragb.Bit, row uint64) []uint64 {
	var out []uint64
	for _, b := range bits {
		if b.Row == row {
			out = append(out, b.Col)
		}
	}
	return out
}

// load puts initial contents into a fragment through the bulk import path.
func (r *runner) load(s *side, codes []int) error {
	if len(codes) == 0 {
		return nil
	}
	bits := r.p.Expand(codes)
	if r.c.Kind == "mutex" || r.c.Kind == "bool" {
		rows, cols := make([]uint64, len(bits)), make([]uint64, len(bits))
		for i, b := range bits {
			rows[i], cols[i] = b.Row, b.Col
		}
		return s.f.BulkImport(rows, cols, false)
	}
	if r.c.Kind == "bsi" {
		// values, as the API's value import does
		var cols []uint64
		var vals []int64
		for c := 0; c < 4; c++ {
			v, ok := decodeVal(codes, c, r.depth)
			if !ok {
				continue
			}
			for _, col := range r.p.Cols(c) {
				cols = append(cols, col)
				vals = append(vals, v)
			}
		}
		return s.f.ImportValue(cols, vals, r.depth, false)
	}
	for _, row := range r.rows {
		cs := rowBits(bits, row)
		if len(cs) == 0 {
			continue
		}
		rs := make([]uint64, len(cs))
		for i := range rs {
			rs[i] = row
		}
		if err := s.f.BulkImport(rs, cs, false); err != nil {
			return err
		}
	}
	return nil
}

// decodeVal reads the value of abstract column c out of spec codes (row 0 exists, row 1
// sign, row 2+i bit i).
func decodeVal(codes []int, c int, depth uint) (int64, bool) {
	has := map[int]bool{}
	for _, code := range codes {
		if code%10 == c {
			has[code/10] = true
		}
	}
	if !has[0] {
		return 0, false
	}
	var v int64
	for i := uint(0); i < depth; i++ {
		if has[int(2+i)] {
			v |= 1 << i
		}
	}
	if has[1] {
		v = -v
	}
	return v, true
}

func hasCard4096(pos []uint64) bool {
	n := map[uint64]int{}
	for _, v := range pos {
		n[v>>16]++
	}
	for _, c := range n {
		if c == 4096 {
			return true
		}
	}
	return false
}

func u64Equal(a, b []uint64) bool {
	if len(a) != len(b) {
		return false
	}
	for i := range a {
		if a[i] != b[i] {
			return false
		}
	}
	return true
}

func short(v []uint64) string {
	if len(v) <= 8 {
		return fmt.Sprint(v)
	}
	return fmt.Sprintf("[%d %d %d ... %d] (n=%d)", v[0], v[1], v[2], v[len(v)-1], len(v))
}

func bitsEqual(a, b []fragb.Bit) bool {
	if len(a) != len(b) {
		return false
	}
	for i := range a {
		if a[i] != b[i] {
			return false
		}
	}
	return true
}

func diffBits(want, got []fragb.Bit) string {
	w, g := map[fragb.Bit]bool{}, map[fragb.Bit]bool{}
	for _, b := range want {
		w[b] = true
	}
	for _, b := range got {
		g[b] = true
	}
	var miss, extra []string
	for _, b := range want {
		if !g[b] && len(miss) < 4 {
			miss = append(miss, fmt.Sprintf("(%d,%d)", b.Row, b.Col))
		}
	}
	for _, b := range got {
		if !w[b] && len(extra) < 4 {
			extra = append(extra, fmt.Sprintf("(%d,%d)", b.Row, b.Col))
		}
	}
	return fmt.Sprintf("want %d bits, got %d; missing %v, unexpected %v", len(want), len(got), miss, extra)
}

func (s *side) readAll() ([]fragb.Bit, error) {
	var got []fragb.Bit
	err := s.f.ForEachBit(func(row, col uint64) error {
		got = append(got, fragb.Bit{Row: row, Col: col})
		return nil
	})
	return got, err
}

// ---- reference block checksums: a fresh fragment holding exactly the expected bits

var refCache sync.Map

func (r *runner) refBlocks(codes []int) []pilosa.FragmentBlock {
	cs := append([]int(nil), codes...)
	sort.Ints(cs)
	key := fmt.Sprintf("%s/%d/%d/%v", r.c.Profile, r.c.Shard, r.c.Seed, cs)
	if v, ok := refCache.Load(key); ok {
		return v.([]pilosa.FragmentBlock)
	}
	path := newPath()
	f := pilosa.VerifNewFragment(path, pilosa.VerifFragmentOptions{Shard: r.c.Shard, CacheType: pilosa.CacheTypeNone, Kind: "set"})
	f.SetMaxOpN(1 << 40)
	if err := f.Open(); err != nil {
		panic("harness: reference fragment: " + err.Error())
	}
	defer func() {
		_ = f.Close()
		removeFragFiles(path)
	}()
	bits := r.p.Expand(cs)
	for _, row := range r.rows {
		cols := rowBits(bits, row)
		if len(cols) == 0 {
			continue
		}
		rs := make([]uint64, len(cols))
		for i := range rs {
			rs[i] = row
		}
		if err := f.BulkImport(rs, cols, false); err != nil {
			panic("harness: reference fragment import: " + err.Error())
		}
	}
	var out []pilosa.FragmentBlock
	for _, b := range f.Blocks() {
		out = append(out, pilosa.FragmentBlock{ID: b.ID, Checksum: append([]byte(nil), b.Checksum...)})
	}
	refCache.Store(key, out)
	return out
}

// ---- observation of one side against the specification's contents

func (r *runner) counts(codes []int) map[uint64]uint64 {
	out := map[uint64]uint64{}
	for _, code := range codes {
		out[uint64(code/10)] += uint64(len(r.p.Blocks[code%10]))
	}
	return out
}

func (r *runner) observeQuiet(s *side, codes []int) *Mismatch {
	want := r.p.Expand(codes)
	got, err := s.readAll()
	if err != nil {
		return r.mm(s.name, "error", "forEachBit: %v", err)
	}
	if !bitsEqual(want, got) {
		return r.mm(s.name, "foreach", "%s", diffBits(want, got))
	}
	return nil
}

func pairsString(ps []pilosa.Pair) string {
	var sb strings.Builder
	for _, p := range ps {
		fmt.Fprintf(&sb, "%d:%d ", p.ID, p.Count)
	}
	return sb.String()
}

// topN compares a TopN answer with the exact counts: every non-empty row, exact count,
// non-increasing order (ties free).
func (r *runner) topN(s *side, codes []int, n int, ids []uint64, obs string) *Mismatch {
	if r.c.CacheType == pilosa.CacheTypeNone {
		return nil
	}
	want := r.counts(codes)
	got, err := s.f.TopN(n, ids)
	if err != nil {
		return r.mm(s.name, "error", "top: %v", err)
	}
	seen := map[uint64]bool{}
	for i, p := range got {
		if want[p.ID] != p.Count || seen[p.ID] {
			return r.mm(s.name, obs, "TopN(n=%d, ids=%v) = %s; row %d holds %d columns", n, ids, pairsString(got), p.ID, want[p.ID])
		}
		if i > 0 && got[i-1].Count < p.Count {
			return r.mm(s.name, obs, "TopN(n=%d, ids=%v) = %s is not ordered by count", n, ids, pairsString(got))
		}
		seen[p.ID] = true
	}
	for row, cnt := range want {
		if cnt > 0 && !seen[row] {
			return r.mm(s.name, obs, "TopN(n=%d, ids=%v) = %s misses row %d with %d columns", n, ids, pairsString(got), row, cnt)
		}
	}
	return nil
}

func (r *runner) observeLoud(s *side, codes []int) *Mismatch {
	if m := r.observeQuiet(s, codes); m != nil {
		return m
	}
	bits := r.p.Expand(codes)
	counts := r.counts(codes)
	inRow := map[uint64]map[int]bool{}
	for _, code := range codes {
		row := uint64(code / 10)
		if inRow[row] == nil {
			inRow[row] = map[int]bool{}
		}
		inRow[row][code%10] = true
	}
	var wantRows []uint64
	for _, row := range r.rows {
		want := rowBits(bits, row)
		rw := s.f.Row(row)
		got := rw.Columns()
		if !u64Equal(want, got) {
			return r.mm(s.name, "row", "row(%d): want %s, got %s", row, short(want), short(got))
		}
		if rw.Count() != uint64(len(want)) {
			return r.mm(s.name, "row", "row(%d).Count() = %d, want %d", row, rw.Count(), len(want))
		}
		if len(want) > 0 {
			wantRows = append(wantRows, row)
		}
		for c := 0; c < 4; c++ {
			for _, col := range r.p.Rep(c) {
				got, err := s.f.Bit(row, col)
				if err != nil {
					return r.mm(s.name, "error", "bit: %v", err)
				}
				if got != inRow[row][c] {
					return r.mm(s.name, "bit", "bit(%d,%d) = %v, want %v", row, col, got, inRow[row][c])
				}
			}
		}
	}
	if got := s.f.Rows(0, nil, nil, false, nil); !u64Equal(wantRows, got) {
		return r.mm(s.name, "rows", "rows(0) = %v, want %v", got, wantRows)
	}
	mr, mc := s.f.VerifTransferMaxRow()
	if len(wantRows) == 0 {
		if mr != 0 || mc != 0 {
			return r.mm(s.name, "maxrow", "maxRow() = (%d,%d) on an empty fragment", mr, mc)
		}
	} else if mr != wantRows[len(wantRows)-1] || mc == 0 {
		return r.mm(s.name, "maxrow", "maxRow() = (%d,%d), want row %d", mr, mc, wantRows[len(wantRows)-1])
	}
	if mn, ok := s.f.MinRowID(); len(wantRows) > 0 && (!ok || mn != wantRows[0]) {
		return r.mm(s.name, "minrow", "minRowID() = (%d,%v), want row %d", mn, ok, wantRows[0])
	}
	if r.c.Kind == "bsi" {
		for c := 0; c < 4; c++ {
			wv, wok := decodeVal(codes, c, r.depth)
			for _, col := range r.p.Rep(c) {
				v, ok, err := s.f.Value(col, r.depth)
				if err != nil {
					return r.mm(s.name, "error", "value: %v", err)
				}
				if ok != wok || (ok && v != wv) {
					return r.mm(s.name, "value", "value(%d) = (%d,%v), want (%d,%v)", col, v, ok, wv, wok)
				}
			}
		}
	}
	// block checksums against a fresh fragment holding exactly the expected bits
	ref := r.refBlocks(codes)
	got := s.f.Blocks()
	if len(ref) != len(got) {
		return r.mm(s.name, "blocks", "Blocks() lists %d blocks, a fragment with these bits lists %d", len(got), len(ref))
	}
	for i := range ref {
		if ref[i].ID != got[i].ID || !bytes.Equal(ref[i].Checksum, got[i].Checksum) {
			return r.mm(s.name, "blocks", "block %d: checksum %x differs from the checksum %x (block %d) of a fragment with exactly these bits",
				got[i].ID, got[i].Checksum, ref[i].Checksum, ref[i].ID)
		}
		var want []fragb.Bit
		for _, b := range bits {
			if int(b.Row/100) == ref[i].ID {
				want = append(want, b)
			}
		}
		rs, cs := s.f.BlockData(ref[i].ID)
		if len(rs) != len(want) {
			return r.mm(s.name, "blockdata", "blockData(%d) has %d pairs, want %d", ref[i].ID, len(rs), len(want))
		}
		for j := range want {
			// blockData reports columns relative to the shard
			if rs[j] != want[j].Row || r.c.Shard*pilosa.ShardWidth+cs[j] != want[j].Col {
				return r.mm(s.name, "blockdata", "blockData(%d)[%d] = (%d,%d), want (%d,%d)", ref[i].ID, j, rs[j], cs[j], want[j].Row, want[j].Col)
			}
		}
	}
	if m := r.topN(s, codes, 0, r.rows, "topn_ids"); m != nil {
		return m
	}
	_ = counts
	return nil
}

// ---- archives

func (r *runner) archive(s *side) ([]byte, error) {
	var buf bytes.Buffer
	_, err := s.f.VerifTransferWriteTo(&buf)
	return buf.Bytes(), err
}

type entry struct {
	name string
	body []byte
}

func tarOf(entries ...entry) []byte {
	var buf bytes.Buffer
	tw := tar.NewWriter(&buf)
	for _, e := range entries {
		_ = tw.WriteHeader(&tar.Header{Name: e.name, Mode: 0600, Size: int64(len(e.body)), ModTime: time.Unix(1, 0)})
		_, _ = tw.Write(e.body)
	}
	_ = tw.Flush()
	return buf.Bytes()
}

func entriesOf(arch []byte) []entry {
	var out []entry
	tr := tar.NewReader(bytes.NewReader(arch))
	for {
		h, err := tr.Next()
		if err != nil {
			return out
		}
		b, _ := io.ReadAll(tr)
		out = append(out, entry{h.Name, b})
	}
}

func pad512(n int) int { return (n + 511) / 512 * 512 }

// badArchive derives a truncated / malformed archive from a good one.
func badArchive(kind string, good []byte, rng *rand.Rand) (data []byte, used string) {
	es := entriesOf(good)
	switch kind {
	case "garbage":
		b := make([]byte, 1500)
		rng.Read(b)
		return b, kind
	case "empty":
		return nil, kind
	case "trunc_header":
		return good[:300], kind
	case "trunc_cache":
		if len(es) == 2 && len(es[1].body) >= 2 {
			off := 512 + pad512(len(es[0].body)) + 512 + len(es[1].body)/2
			return good[:off], kind
		}
		fallthrough
	case "trunc_data":
		if len(es) > 0 && len(es[0].body) >= 2 {
			return good[:512+len(es[0].body)/2], "trunc_data"
		}
		return good[:300], "trunc_header"
	case "badname":
		return tarOf(append([]entry{{"extra", []byte("x")}}, es...)...), kind
	case "baddata":
		junk := make([]byte, 600)
		rng.Read(junk)
		junk[0], junk[1] = 0xff, 0xff // not a roaring cookie
		out := []entry{{"data", junk}}
		if len(es) == 2 {
			out = append(out, es[1])
		}
		return tarOf(out...), kind
	}
	panic("unknown bad archive kind " + kind)
}

// ---- one step

func (r *runner) exec(st behav.Step) *Mismatch {
	op := st.Str("op")
	sd := st.Str("side")
	s := r.s[sd]
	row := uint64(0)
	if st.Int("r") >= 0 {
		row = uint64(st.Int("r"))
	}
	c := st.Int("c")
	chg := st.Str("chg")
	switch op {
	case "SetBit", "ClearBit":
		for _, col := range r.p.Cols(c) {
			var got bool
			var err error
			if op == "SetBit" {
				got, err = s.f.SetBit(row, col)
			} else {
				got, err = s.f.ClearBit(row, col)
			}
			if err != nil {
				return r.mm(sd, "error", "%s(%d,%d): %v", op, row, col, err)
			}
			if got != (chg == "T") {
				return r.mm(sd, "changed", "%s(%d,%d) reported changed=%v, want %v", op, row, col, got, chg == "T")
			}
		}
	case "SetRow":
		var cols []uint64
		for _, a := range st.Ints("xs") {
			cols = append(cols, r.p.Cols(a)...)
		}
		if _, err := s.f.SetRow(pilosa.NewRow(cols...), row); err != nil {
			return r.mm(sd, "error", "setRow(%d): %v", row, err)
		}
	case "ClearRow":
		got, err := s.f.ClearRow(row)
		if err != nil {
			return r.mm(sd, "error", "clearRow(%d): %v", row, err)
		}
		if got != (chg == "T") {
			return r.mm(sd, "changed", "clearRow(%d) reported changed=%v, want %v", row, got, chg == "T")
		}
	case "BulkSet", "BulkClear", "BulkMutex":
		var rows, cols []uint64
		for _, code := range st.Ints("sq") {
			for _, col := range r.p.Cols(code % 10) {
				rows = append(rows, uint64(code/10))
				cols = append(cols, col)
			}
		}
		if err := s.f.BulkImport(rows, cols, op == "BulkClear"); err != nil {
			return r.mm(sd, "error", "bulkImport: %v", err)
		}
	case "RoaringSet", "RoaringClear":
		pos := r.p.Positions(st.Ints("xs"))
		var data []byte
		if st.Str("fl") == "official" && !hasCard4096(pos) {
			data, _ = fragb.EncodeOfficial(pos, r.c.Seed%2 == 0)
		} else {
			data = fragb.EncodePilosa(pos)
		}
		if err := s.f.ImportRoaring(data, op == "RoaringClear"); err != nil {
			return r.mm(sd, "error", "importRoaring: %v", err)
		}
	case "SetValue":
		v := int64(st.Int("r"))
		for _, col := range r.p.Cols(c) {
			got, err := s.f.SetValue(col, r.depth, v)
			if err != nil {
				return r.mm(sd, "error", "setValue(%d,%d): %v", col, v, err)
			}
			if got != (chg == "T") {
				return r.mm(sd, "changed", "setValue(%d,%d) reported changed=%v, want %v", col, v, got, chg == "T")
			}
		}
	case "ImportValue":
		sq := behav.ToList(st["sq"])
		acs, avs := behav.ToInts(sq[0]), behav.ToInts(sq[1])
		var cols []uint64
		var vals []int64
		for j := range acs {
			for _, col := range r.p.Cols(acs[j]) {
				cols = append(cols, col)
				vals = append(vals, int64(avs[j]))
			}
		}
		if err := s.f.ImportValue(cols, vals, r.depth, false); err != nil {
			return r.mm(sd, "error", "importValue: %v", err)
		}
	case "Snapshot":
		if err := s.f.Snapshot(); err != nil {
			return r.mm(sd, "error", "Snapshot: %v", err)
		}
	case "Reopen":
		if err := s.f.Reopen(); err != nil {
			return r.mm(sd, "error", "reopen: %v", err)
		}
	case "Row":
		want := rowBits(r.p.Expand(codesOfRow(row, st.Ints("xs"))), row)
		if got := s.f.Row(row).Columns(); !u64Equal(want, got) {
			return r.mm(sd, "row", "row(%d): want %s, got %s", row, short(want), short(got))
		}
	case "Blocks":
		if m := r.blocksOnly(s, st.Ints("dst")); m != nil {
			return m
		}
	case "TopN":
		s.f.RecalculateCache()
		if m := r.topN(s, st.Ints("dst"), 0, nil, "topn"); m != nil {
			return m
		}
	case "Transfer":
		src, dst := r.s["src"], r.s["dst"]
		var err error
		if st.Str("fl") == "pipe" {
			pr, pw := io.Pipe()
			werr := make(chan error, 1)
			go func() {
				_, e := src.f.VerifTransferWriteTo(pw)
				pw.CloseWithError(e)
				werr <- e
			}()
			_, err = dst.f.VerifTransferReadFrom(pr)
			pr.Close()
			if e := <-werr; e != nil {
				return r.mm("src", "error", "WriteTo: %v", e)
			}
		} else {
			var arch []byte
			if arch, err = r.archive(src); err != nil {
				return r.mm("src", "error", "WriteTo: %v", err)
			}
			_, err = dst.f.VerifTransferReadFrom(bytes.NewReader(arch))
		}
		if err != nil {
			return r.mm("dst", "error", "ReadFrom: %v", err)
		}
		if st.Bool("tail") {
			r.cov("transfer_with_oplog_tail")
		} else {
			r.cov("transfer_snapshotted_source")
		}
		if len(st.Ints("src")) == 0 {
			r.cov("transfer_empty_source")
		}
		// the counts the target answers TopN with right after the transfer (nobody
		// recalculates a cache after a resize)
		if m := r.topN(dst, st.Ints("dst"), 0, nil, "topn_after_transfer"); m != nil {
			return m
		}
	case "BadTransfer":
		src, dst := r.s["src"], r.s["dst"]
		good, err := r.archive(src)
		if err != nil {
			return r.mm("src", "error", "WriteTo: %v", err)
		}
		rng := rand.New(rand.NewSource(r.c.Seed*31 + int64(r.step)))
		bad, used := badArchive(st.Str("fl"), good, rng)
		r.fl = used
		r.cov("bad_" + used)
		_, err = dst.f.VerifTransferReadFrom(bytes.NewReader(bad))
		if err == nil && used != "empty" {
			return r.mm("dst", "accepted", "ReadFrom accepted a %s archive (%d of %d bytes)", used, len(bad), len(good))
		}
	default:
		panic("harness: unknown op " + op)
	}
	return nil
}

func (r *runner) blocksOnly(s *side, codes []int) *Mismatch {
	ref := r.refBlocks(codes)
	got := s.f.Blocks()
	if len(ref) != len(got) {
		return r.mm(s.name, "blocks", "Blocks() lists %d blocks, a fragment with these bits lists %d", len(got), len(ref))
	}
	for i := range ref {
		if ref[i].ID != got[i].ID || !bytes.Equal(ref[i].Checksum, got[i].Checksum) {
			return r.mm(s.name, "blocks", "block %d: checksum %x differs from the checksum %x (block %d) of a fragment with exactly these bits",
				got[i].ID, got[i].Checksum, ref[i].Checksum, ref[i].ID)
		}
	}
	return nil
}

func codesOfRow(row uint64, cols []int) []int {
	out := make([]int, len(cols))
	for i, c := range cols {
		out[i] = int(row)*10 + c
	}
	return out
}

// Run replays one case; nil = the code agreed with the specification at every step.
func Run(c *Case, cover func(string)) (m *Mismatch) {
	r := &runner{c: c, cover: cover, rows: rowsOfKind(c.Kind), depth: 2, s: map[string]*side{}}
	r.p = fragb.MakeProfile(c.Profile, c.Shard, c.Seed)
	old := debug.SetPanicOnFault(true)
	defer debug.SetPanicOnFault(old)
	defer r.close()
	defer func() {
		if pv := recover(); pv != nil {
			stack := string(debug.Stack())
			if s, ok := pv.(string); ok && strings.HasPrefix(s, "harness:") {
				panic(pv)
			}
			if !behav.PanicInCode(stack) {
				panic(pv)
			}
			m = r.mm("-", "panic", "%v\n%s", pv, firstLines(stack, 25))
		}
	}()
	init := c.Beh[0]
	for _, nm := range []string{"src", "dst"} {
		mo := init.Str("ms")
		if nm == "dst" {
			mo = init.Str("md")
		}
		s, err := r.open(nm, mo)
		r.s[nm] = s
		if err != nil {
			return r.mm(nm, "error", "open: %v", err)
		}
		if err := r.load(s, init.Ints(nm)); err != nil {
			return r.mm(nm, "error", "loading initial contents: %v", err)
		}
	}
	r.op = "Init"
	if init.Str("fl") == "snap" {
		if err := r.s["src"].f.Snapshot(); err != nil {
			return r.mm("src", "error", "Snapshot: %v", err)
		}
	}
	observe := func(st behav.Step) *Mismatch {
		for _, nm := range []string{"src", "dst"} {
			var m *Mismatch
			if c.Loud {
				m = r.observeLoud(r.s[nm], st.Ints(nm))
			} else {
				m = r.observeQuiet(r.s[nm], st.Ints(nm))
			}
			if m != nil {
				return m
			}
		}
		return nil
	}
	if m := observe(init); m != nil {
		return m
	}
	for i := 1; i < len(c.Beh); i++ {
		st := c.Beh[i]
		r.step, r.op, r.fl = i, st.Str("op"), st.Str("fl")
		r.cov("op_" + r.op)
		if m := r.exec(st); m != nil {
			return m
		}
		if m := observe(st); m != nil {
			return m
		}
	}
	// final state: every read path on both sides, then again after close + open
	last := c.Beh[len(c.Beh)-1]
	r.op, r.fl = "End", ""
	r.step = len(c.Beh)
	for _, nm := range []string{"src", "dst"} {
		if m := r.observeLoud(r.s[nm], last.Ints(nm)); m != nil {
			return m
		}
	}
	r.op = "EndReopen"
	for _, nm := range []string{"dst", "src"} {
		if err := r.s[nm].f.Reopen(); err != nil {
			return r.mm(nm, "error", "reopen: %v", err)
		}
		if m := r.observeLoud(r.s[nm], last.Ints(nm)); m != nil {
			return m
		}
		r.s[nm].f.RecalculateCache()
		if m := r.topN(r.s[nm], last.Ints(nm), 0, nil, "topn"); m != nil {
			return m
		}
	}
	return nil
}

func firstLines(s string, n int) string {
	l := strings.SplitN(s, "\n", n+1)
	if len(l) > n {
		l = l[:n]
	}
	return strings.Join(l, "\n")
}
