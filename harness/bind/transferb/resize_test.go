//go:build verif

package transferb

import (
	"bytes"
	"context"
	"encoding/json"
	"fmt"
	"os"
	"path/filepath"
	"sort"
	"strings"
	"testing"
	"time"

	"github.com/pilosa/pilosa"
	"github.com/pilosa/pilosa/test"
	"github.com/pilosa/pilosa/toml"

	"verif/harness/behav"
)

// A resize scenario of spec/TransferResize.tla replayed on real in-process servers: write
// rounds (every field type, time views, the existence field) and completed resizes (a node
// joins over gossip / is removed through the coordinator). After every step the
// predicates of the specification are evaluated on every real node:
//   OwnersHoldAll   - every owner (by the node's own cluster object) of a fragment that
//                     existed anywhere before the resize holds exactly the bits (and block
//                     checksums) its source held;
//   AvailExact      - Field.AvailableShards of every field on every node is the set of
//                     shards written so far;
//   identical reads - every node answers every query like the model of the writes.

type rzCase struct {
	Beh     behav.Behaviour `json:"beh"`
	Seed    int64           `json:"seed"`
	Corrupt string          `json:"corrupt,omitempty"`
}

const rzIndex = "x"

// the interval of gossip's complete state exchange (NodeStatus: schema and available
// shards); the default of 30 s would make every scenario wait that long for a joiner that
// had nothing to fetch
var rzPushPull = toml.Duration(1500 * time.Millisecond)

var rzFields = []string{"s", "m", "b", "v", "t", "tn"}

// model of the writes
type rzModel struct {
	set    map[uint64]map[uint64]bool // field s: row -> columns
	mutex  map[uint64]uint64          // field m: column -> row
	boolv  map[uint64]bool            // field b
	val    map[uint64]int64           // field v
	tcols  map[uint64]bool            // field t, row 1
	tncols map[uint64]bool            // field tn, row 1
	exists map[uint64]bool
	shards map[uint64]bool
}

func newRzModel() *rzModel {
	return &rzModel{set: map[uint64]map[uint64]bool{}, mutex: map[uint64]uint64{}, boolv: map[uint64]bool{}, val: map[uint64]int64{},
		tcols: map[uint64]bool{}, tncols: map[uint64]bool{}, exists: map[uint64]bool{}, shards: map[uint64]bool{}}
}

// writeRound returns the PQL of write round k on shard s and applies it to the model.
func (m *rzModel) writeRound(s uint64, k int) string {
	base := s * pilosa.ShardWidth
	kk := uint64(k)
	var q strings.Builder
	set := func(col, row uint64) {
		fmt.Fprintf(&q, "Set(%d, s=%d) ", col, row)
		if m.set[row] == nil {
			m.set[row] = map[uint64]bool{}
		}
		m.set[row][col] = true
		m.exists[col] = true
	}
	set(base+kk, 1)
	set(base+pilosa.ShardWidth-1-kk, 2+kk)
	set(base+70000+kk, 1)
	set(base+70000+kk, 150) // a second checksum block
	mut := func(col, row uint64) {
		fmt.Fprintf(&q, "Set(%d, m=%d) ", col, row)
		m.mutex[col] = row
		m.exists[col] = true
	}
	mut(base+kk, kk+1)
	mut(base+100, kk) // the same column moves from round to round (a clear in the op log)
	fmt.Fprintf(&q, "Set(%d, b=%v) ", base+kk, k%2 == 0)
	m.boolv[base+kk] = k%2 == 0
	m.exists[base+kk] = true
	fmt.Fprintf(&q, "Set(%d, b=%v) ", base+300, k%2 == 1)
	m.boolv[base+300] = k%2 == 1
	m.exists[base+300] = true
	v1, v2 := int64(k*37-50), int64(-k)
	fmt.Fprintf(&q, "Set(%d, v=%d) Set(%d, v=%d) ", base+kk, v1, base+200, v2)
	m.val[base+kk], m.val[base+200] = v1, v2
	m.exists[base+200] = true
	fmt.Fprintf(&q, "Set(%d, t=1, 2019-0%d-04T00:00) ", base+kk, k)
	m.tcols[base+kk] = true
	fmt.Fprintf(&q, "Set(%d, tn=1, 2018-1%d-01T00:00) ", base+500+kk, k%3)
	m.tncols[base+500+kk] = true
	m.exists[base+500+kk] = true
	m.shards[s] = true
	return q.String()
}

func sortedKeys(m map[uint64]bool) []uint64 {
	out := make([]uint64, 0, len(m))
	for k, v := range m {
		if v {
			out = append(out, k)
		}
	}
	sort.Slice(out, func(a, b int) bool { return out[a] < out[b] })
	return out
}

// expected answers of the probe queries, as strings
func (m *rzModel) probes() (queries []string, want []string) {
	add := func(q, w string) { queries = append(queries, q); want = append(want, w) }
	var rows []uint64
	for r := range m.set {
		rows = append(rows, r)
	}
	sort.Slice(rows, func(a, b int) bool { return rows[a] < rows[b] })
	for _, r := range rows {
		add(fmt.Sprintf("Row(s=%d)", r), fmt.Sprint(sortedKeys(m.set[r])))
	}
	byRow := map[uint64]map[uint64]bool{}
	for c, r := range m.mutex {
		if byRow[r] == nil {
			byRow[r] = map[uint64]bool{}
		}
		byRow[r][c] = true
	}
	for r := uint64(0); r <= 4; r++ {
		add(fmt.Sprintf("Row(m=%d)", r), fmt.Sprint(sortedKeys(byRow[r])))
	}
	tr, fa := map[uint64]bool{}, map[uint64]bool{}
	for c, v := range m.boolv {
		if v {
			tr[c] = true
		} else {
			fa[c] = true
		}
	}
	add("Row(b=true)", fmt.Sprint(sortedKeys(tr)))
	add("Row(b=false)", fmt.Sprint(sortedKeys(fa)))
	var sum int64
	neg, all := map[uint64]bool{}, map[uint64]bool{}
	for c, v := range m.val {
		sum += v
		all[c] = true
		if v < 0 {
			neg[c] = true
		}
	}
	add("Row(v < 0)", fmt.Sprint(sortedKeys(neg)))
	add("Row(v != null)", fmt.Sprint(sortedKeys(all)))
	add("Sum(field=v)", fmt.Sprintf("sum=%d count=%d", sum, len(m.val)))
	add("Row(t=1, from=2019-01-01T00:00, to=2019-12-31T00:00)", fmt.Sprint(sortedKeys(m.tcols)))
	add("Row(t=1)", fmt.Sprint(sortedKeys(m.tcols)))
	add("Row(tn=1, from=2018-01-01T00:00, to=2019-01-01T00:00)", fmt.Sprint(sortedKeys(m.tncols)))
	not := map[uint64]bool{}
	for c := range m.exists {
		if !m.set[1][c] {
			not[c] = true
		}
	}
	add("Not(Row(s=1))", fmt.Sprint(sortedKeys(not)))
	add("Count(Not(Row(s=999)))", fmt.Sprint(len(m.exists)))
	// TopN(s, ids=all rows): exact counts of every row (TopN(s, n) ranks what the last
	// recalculation of the rank cache saw - C12's subject - and is not asked here)
	var pairs, idl []string
	for _, r := range rows {
		pairs = append(pairs, fmt.Sprintf("%d:%d", r, len(m.set[r])))
		idl = append(idl, fmt.Sprint(r))
	}
	sort.Strings(pairs)
	if len(rows) > 0 {
		add("TopN(s, ids=["+strings.Join(idl, ",")+"])", fmt.Sprint(pairs))
	}
	return
}

func renderResult(v interface{}) string {
	switch x := v.(type) {
	case *pilosa.Row:
		return fmt.Sprint(append([]uint64{}, x.Columns()...))
	case uint64:
		return fmt.Sprint(x)
	case pilosa.ValCount:
		return fmt.Sprintf("sum=%d count=%d", x.Val, x.Count)
	case []pilosa.Pair:
		var pairs []string
		for _, p := range x {
			pairs = append(pairs, fmt.Sprintf("%d:%d", p.ID, p.Count))
		}
		sort.Strings(pairs)
		return fmt.Sprint(pairs)
	}
	return fmt.Sprintf("%T %v", v, v)
}

type rzFrag struct {
	Field, View string
	Shard       uint64
}

func (f rzFrag) String() string { return fmt.Sprintf("%s/%s/%d", f.Field, f.View, f.Shard) }

type rzFragData struct {
	bits   string // rendered (row, col) list
	n      int
	blocks []pilosa.FragmentBlock
	from   string
}

func fragData(h *pilosa.Holder, fr rzFrag) *rzFragData {
	vf := pilosa.VerifTransferHolderFragment(h, rzIndex, fr.Field, fr.View, fr.Shard)
	if vf == nil {
		return nil
	}
	var sb strings.Builder
	n := 0
	_ = vf.ForEachBit(func(r, c uint64) error {
		fmt.Fprintf(&sb, "%d.%d ", r, c)
		n++
		return nil
	})
	d := &rzFragData{bits: sb.String(), n: n}
	for _, b := range vf.Blocks() {
		d.blocks = append(d.blocks, pilosa.FragmentBlock{ID: b.ID, Checksum: append([]byte(nil), b.Checksum...)})
	}
	return d
}

type rzFail struct {
	symptom, field, act, detail string
}

func rzNodeName(x int) string { return fmt.Sprintf("node%d", x) }

func contains(l []string, s string) bool {
	for _, x := range l {
		if x == s {
			return true
		}
	}
	return false
}

// runResize replays one scenario. skipped != "" when the servers did not reach the state
// the scenario needs in time (not a verdict).
func runResize(t testing.TB, c *rzCase, cover func(string)) (fail *rzFail, skipped string) {
	init := c.Beh[0]
	r := init.Int("r")
	n0 := len(init.Ints("members"))
	clus := test.MustNewCluster(t, n0)
	nodes := map[string]*test.Command{}
	var dirs []string
	var gone []*test.Command
	defer func() {
		for _, m := range nodes {
			m.Close()
		}
		for _, m := range gone {
			m.Close()
		}
		for _, d := range dirs {
			os.RemoveAll(d)
		}
	}()
	for k, m := range clus {
		m.Config.Cluster.ReplicaN = r
		m.Config.Gossip.PushPullInterval = rzPushPull
		dirs = append(dirs, m.Config.DataDir)
		nodes[rzNodeName(k)] = m
	}
	if err := clus.Start(); err != nil {
		return nil, "cluster did not start: " + err.Error()
	}
	m0 := clus[0]
	settled := func(n int) string {
		deadline := time.Now().Add(60 * time.Second)
		for {
			ok := len(nodes) == n
			for _, m := range nodes {
				if m.API.State() != "NORMAL" || len(pilosa.VerifClusterOfAPI(m.API).NodeIDs()) != n {
					ok = false
				}
			}
			if ok {
				time.Sleep(200 * time.Millisecond)
				return ""
			}
			if time.Now().After(deadline) {
				st := ""
				for id, m := range nodes {
					st += fmt.Sprintf(" %s:%s%v", id, m.API.State(), pilosa.VerifClusterOfAPI(m.API).NodeIDs())
				}
				return "resize not completed in 60s:" + st
			}
			time.Sleep(20 * time.Millisecond)
		}
	}
	if why := settled(n0); why != "" {
		return nil, why
	}
	ctx := context.Background()
	if _, err := m0.API.CreateIndex(ctx, rzIndex, pilosa.IndexOptions{TrackExistence: true}); err != nil {
		return nil, "create index: " + err.Error()
	}
	fopts := map[string][]pilosa.FieldOption{
		"s":  {pilosa.OptFieldTypeSet(pilosa.CacheTypeRanked, 1000)},
		"m":  {pilosa.OptFieldTypeMutex(pilosa.CacheTypeLRU, 1000)},
		"b":  {pilosa.OptFieldTypeBool()},
		"v":  {pilosa.OptFieldTypeInt(-1000, 1000)},
		"t":  {pilosa.OptFieldTypeTime(pilosa.TimeQuantum("YMD"))},
		"tn": {pilosa.OptFieldTypeTime(pilosa.TimeQuantum("YM"), true)},
	}
	for _, fn := range rzFields {
		if _, err := m0.API.CreateField(ctx, rzIndex, fn, fopts[fn]...); err != nil {
			return nil, "create field " + fn + ": " + err.Error()
		}
	}
	model := newRzModel()
	ids := func() []string {
		out := make([]string, 0, len(nodes))
		for id := range nodes {
			out = append(out, id)
		}
		sort.Strings(out)
		return out
	}
	// every fragment that exists anywhere, with the data of one holder that owns it
	snapshot := func() map[rzFrag]*rzFragData {
		out := map[rzFrag]*rzFragData{}
		for _, id := range ids() {
			h := pilosa.VerifClusterHolderOfAPI(nodes[id].API)
			vc := pilosa.VerifClusterOfAPI(nodes[id].API)
			for _, f := range pilosa.VerifClusterFragments(h)[rzIndex] {
				fr := rzFrag{f.Field, f.View, f.Shard}
				if !contains(vc.ShardNodes(rzIndex, f.Shard), id) {
					continue // a leftover is not a source
				}
				if d := fragData(h, fr); d != nil && out[fr] == nil {
					d.from = id
					out[fr] = d
				}
			}
		}
		return out
	}
	check := func(act string, before map[rzFrag]*rzFragData) *rzFail {
		// OwnersHoldAll
		frs := make([]rzFrag, 0, len(before))
		for fr := range before {
			frs = append(frs, fr)
		}
		sort.Slice(frs, func(a, b int) bool { return frs[a].String() < frs[b].String() })
		for _, id := range ids() {
			h := pilosa.VerifClusterHolderOfAPI(nodes[id].API)
			vc := pilosa.VerifClusterOfAPI(nodes[id].API)
			for _, fr := range frs {
				src := before[fr]
				if !contains(vc.ShardNodes(rzIndex, fr.Shard), id) {
					continue
				}
				cover("owner_fragment_checked")
				got := fragData(h, fr)
				class := fr.Field
				if fr.View != "standard" && fr.View != "bsig_"+fr.Field {
					class += "/timeview"
				}
				if got == nil {
					if src.n == 0 {
						continue
					}
					return &rzFail{"owner_lacks_fragment", class, act, fmt.Sprintf("after %s, %s owns shard %d but has no fragment %s (its source on %s held %d bits)", act, id, fr.Shard, fr, src.from, src.n)}
				}
				if got.bits != src.bits {
					return &rzFail{"owner_bits_differ", class, act, fmt.Sprintf("after %s, fragment %s on owner %s holds %d bits, its source on %s held %d: %.300s vs %.300s", act, fr, id, got.n, src.from, src.n, got.bits, src.bits)}
				}
				if len(got.blocks) != len(src.blocks) {
					return &rzFail{"owner_blocks_differ", class, act, fmt.Sprintf("after %s, fragment %s on owner %s lists %d blocks, its source listed %d", act, fr, id, len(got.blocks), len(src.blocks))}
				}
				for i := range got.blocks {
					if got.blocks[i].ID != src.blocks[i].ID || !bytes.Equal(got.blocks[i].Checksum, src.blocks[i].Checksum) {
						return &rzFail{"owner_blocks_differ", class, act, fmt.Sprintf("after %s, fragment %s on owner %s: block %d checksum differs from the source's", act, fr, id, got.blocks[i].ID)}
					}
				}
			}
		}
		// AvailExact
		want := fmt.Sprint(sortedKeys(model.shards))
		for _, id := range ids() {
			h := pilosa.VerifClusterHolderOfAPI(nodes[id].API)
			idx := h.Index(rzIndex)
			// a joining node that has nothing to fetch gets no ResizeInstruction; the schema
			// reaches it with the next NodeStatus exchange (gossip push/pull): allow for it
			for t0 := time.Now(); (idx == nil || idx.Field("tn") == nil) && time.Since(t0) < 45*time.Second; {
				time.Sleep(100 * time.Millisecond)
				idx = h.Index(rzIndex)
				if idx != nil && idx.Field("tn") != nil {
					cover(fmt.Sprintf("schema_arrived_after_state_normal_%ds", int(time.Since(t0)/time.Second)))
				}
			}
			if idx == nil {
				return &rzFail{"index_missing", "", act, fmt.Sprintf("after %s, node %s has no index %s", act, id, rzIndex)}
			}
			if o := idx.Options(); !o.TrackExistence || o.Keys {
				return &rzFail{"index_options", "", act, fmt.Sprintf("after %s, node %s holds index %s with options %+v, created with trackExistence", act, id, rzIndex, o)}
			}
			for _, fn := range append([]string{"_exists"}, rzFields...) {
				f := idx.Field(fn)
				if f == nil {
					return &rzFail{"field_missing", fn, act, fmt.Sprintf("after %s, node %s has no field %s", act, id, fn)}
				}
				got := fmt.Sprint(f.AvailableShards().Slice())
				// the shards of a NodeStatus are merged right after its schema: allow a moment
				for t0 := time.Now(); got != want && time.Since(t0) < 5*time.Second; {
					time.Sleep(50 * time.Millisecond)
					got = fmt.Sprint(f.AvailableShards().Slice())
				}
				if got != want && !(len(model.shards) == 0 && got == "[]") {
					if fn == "_exists" {
						// the internal existence field is not part of the exchanged schema;
						// queries are routed by the union over the index's fields (checked below)
						cover("exists_field_available_shards_differ")
						continue
					}
					return &rzFail{"available_shards", fn, act, fmt.Sprintf("after %s, node %s: field %s AvailableShards = %s, shards written %s", act, id, fn, got, want)}
				}
				cover("available_shards_checked")
			}
			if got := fmt.Sprint(idx.AvailableShards().Slice()); got != want && len(model.shards) > 0 {
				return &rzFail{"available_shards", "(index)", act, fmt.Sprintf("after %s, node %s: index AvailableShards = %s, shards written %s", act, id, got, want)}
			}
		}
		// identical reads
		qs, wants := model.probes()
		for _, id := range ids() {
			for i, q := range qs {
				var resp pilosa.QueryResponse
				var err error
				for try := 0; try < 3; try++ {
					resp, err = nodes[id].API.Query(ctx, &pilosa.QueryRequest{Index: rzIndex, Query: q})
					if err == nil {
						break
					}
					time.Sleep(100 * time.Millisecond)
				}
				if err != nil {
					return &rzFail{"query_error", strings.SplitN(q, "(", 2)[0], act, fmt.Sprintf("after %s, node %s: %s: %v", act, id, q, err)}
				}
				got := renderResult(resp.Results[0])
				if got == "[]" && wants[i] == "[]" {
					continue
				}
				if got != wants[i] {
					return &rzFail{"query_differs", q[:strings.IndexAny(q, ",)")], act, fmt.Sprintf("after %s, node %s answers %s = %.400s, want %.400s", act, id, q, got, wants[i])}
				}
				cover("query_checked")
			}
		}
		return nil
	}
	for si := 1; si < len(c.Beh); si++ {
		st := c.Beh[si]
		act := st.Str("act")
		cover("act_" + act)
		switch act {
		case "write":
			k := st.Int("round")
			for _, s := range st.Ints("shards") {
				q := model.writeRound(uint64(s), k)
				at := nodes[ids()[(k+s)%len(nodes)]]
				if _, err := at.API.Query(ctx, &pilosa.QueryRequest{Index: rzIndex, Query: q}); err != nil {
					return nil, "write: " + err.Error()
				}
			}
			if c.Corrupt == "model" && si == 1 {
				model.set[1][12345] = true // binding self-test: a bit nobody wrote
			}
			if f := check(fmt.Sprintf("write%d", k), map[rzFrag]*rzFragData{}); f != nil {
				return f, ""
			}
		case "add", "remove":
			before := snapshot()
			if c.Corrupt == "source" {
				for _, d := range before {
					if d.n > 0 {
						d.bits = "9.9 " + d.bits // binding self-test
						break
					}
				}
			}
			name := rzNodeName(st.Int("node"))
			if act == "add" {
				m := test.NewCommandNode(false)
				dirs = append(dirs, m.Config.DataDir)
				if err := os.WriteFile(filepath.Join(m.Config.DataDir, ".id"), []byte(name), 0o600); err != nil {
					return nil, err.Error()
				}
				m.Config.Gossip.Port = "0"
				m.Config.Gossip.Seeds = []string{m0.GossipAddress()}
				m.Config.Cluster.ReplicaN = r
				m.Config.Gossip.PushPullInterval = rzPushPull
				if err := m.Start(); err != nil {
					return nil, "joining node did not start: " + err.Error()
				}
				nodes[name] = m
			} else {
				g := nodes[name]
				if _, err := m0.API.RemoveNode(name); err != nil {
					return nil, "RemoveNode: " + err.Error()
				}
				delete(nodes, name)
				gone = append(gone, g)
			}
			if why := settled(len(nodes)); why != "" {
				return nil, why
			}
			cover(fmt.Sprintf("resize_%s_to_%d_r%d", act, len(nodes), r))
			if f := check(fmt.Sprintf("%s(%s)", act, name), before); f != nil {
				return f, ""
			}
		}
	}
	return nil, ""
}

// TestTransferResize replays resize scenarios generated from spec/TransferResize.tla.
func TestTransferResize(t *testing.T) {
	res := behav.NewResult()
	defer func() {
		if err := res.Write(); err != nil {
			t.Fatal(err)
		}
	}()
	report := func(c *rzCase, f *rzFail) {
		res.Fail(behav.Failure{
			Match:  map[string]string{"test": "resize", "symptom": f.symptom, "field": f.field, "act": strings.SplitN(f.act, "(", 2)[0]},
			Detail: f.detail + "\nscenario: " + behav.JSON(c.Beh),
			Replay: c,
		})
	}
	if raw, ok := behav.LoadReplay(); ok {
		var c rzCase
		if err := json.Unmarshal(raw, &c); err != nil {
			t.Fatal(err)
		}
		res.Evaluations = 1
		for try := 0; try < 2; try++ {
			f, skipped := runResize(t, &c, func(string) {})
			if skipped != "" {
				continue
			}
			if f != nil {
				report(&c, f)
			}
			return
		}
		res.SetInconclusive("replay: the servers did not complete the scenario in time")
		return
	}
	behs := behav.LoadEnv()
	selftest := os.Getenv("VERIF_SELFTEST") != ""
	seed := behav.Seed()
	nskip := 0
	for i, b := range behs {
		c := &rzCase{Beh: b, Seed: seed}
		if selftest {
			c.Corrupt = []string{"source", "model"}[i%2]
		}
		var f *rzFail
		var skipped string
		pv, stack := behav.Protect(func() { f, skipped = runResize(t, c, res.Cover) })
		if pv != nil {
			if behav.PanicInCode(stack) {
				report(c, &rzFail{"panic", "", "", fmt.Sprintf("%v\n%s", pv, firstLines(stack, 25))})
			} else {
				res.SetInconclusive(fmt.Sprintf("harness panic: %v\n%s", pv, firstLines(stack, 30)))
			}
			continue
		}
		if skipped != "" {
			nskip++
			res.Cover("skipped")
			res.AddSample(map[string]interface{}{"skipped": skipped})
			continue
		}
		res.CountEval()
		res.CountNontrivial()
		if selftest {
			if f == nil {
				res.SetInconclusive("binding self-test: a planted wrong expectation (" + c.Corrupt + ") was not noticed")
			} else {
				res.Cover("selftest_detected_" + c.Corrupt)
			}
			continue
		}
		if i < 3 {
			res.AddSample(map[string]interface{}{"scenario": b})
		}
		if f != nil {
			report(c, f)
		}
	}
	if nskip == len(behs) && len(behs) > 0 {
		res.SetInconclusive("no resize scenario completed in time")
	}
	matches, _ := filepath.Glob("/tmp/pilosa-*")
	_ = matches
}
