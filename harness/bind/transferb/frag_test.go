//go:build verif

package transferb

import (
	"encoding/json"
	"fmt"
	"os"
	"path/filepath"
	"strings"
	"testing"

	"verif/harness/behav"
)

func hasPointOps(b behav.Behaviour) bool {
	for _, s := range b {
		switch s.Str("op") {
		case "SetBit", "ClearBit", "SetValue":
			return true
		}
	}
	return false
}

// casesFor chooses the refinements of one behaviour: always the singleton profile (shard
// and container edges), plus - for every `every`-th behaviour - one other block shape.
// Shard, cache type and the observation variant (loud: every read path of both fragments
// after every step; quiet: only forEachBit, which touches no cache) derive from the
// behaviour and VERIF_SEED.
func casesFor(kind string, b behav.Behaviour, seed int64, every int) []*Case {
	js, _ := json.Marshal(b)
	h := behav.Hash64(string(js)) ^ uint64(seed)*0x9e3779b97f4a7c15
	next := func(n int) int {
		h = h*6364136223846793005 + 1442695040888963407
		return int((h >> 33) % uint64(n))
	}
	caches := []string{"ranked", "lru", "none", "ranked"}
	if kind == "bsi" || kind == "bool" {
		caches = []string{"none"} // what int and bool fields use
	}
	mk := func(profile string) *Case {
		return &Case{Beh: b, Kind: kind, Profile: profile, Shard: []uint64{0, 0, 3}[next(3)], Seed: seed,
			CacheType: caches[next(len(caches))], Loud: next(2) == 0}
	}
	out := []*Case{mk("single")}
	if every > 1 && next(every) != 0 {
		return out
	}
	shapes := []string{"array", "thresh", "bitmap", "runs", "mixed"}
	if hasPointOps(b) {
		shapes = []string{"array"}
	} else if behav.Thorough() {
		shapes = append(shapes, "full")
	}
	out = append(out, mk(shapes[next(len(shapes))]))
	return out
}

func toggle(v interface{}, code int) []interface{} {
	var out []interface{}
	found := false
	for _, x := range behav.ToList(v) {
		if behav.ToInt(x) == code {
			found = true
			continue
		}
		out = append(out, x)
	}
	if !found {
		out = append(out, float64(code))
	}
	return out
}

// corrupt plants one wrong expected value in a copy of the behaviour (binding self-test):
// "chg" flips a changed result, "dst" / "src" toggle one abstract bit of the contents
// expected right after the first Transfer, "end" of the final contents of the target.
func corrupt(b behav.Behaviour, what string) (behav.Behaviour, bool) {
	js, _ := json.Marshal(b)
	var cpy behav.Behaviour
	_ = json.Unmarshal(js, &cpy)
	switch what {
	case "chg":
		for _, s := range cpy[1:] {
			switch s.Str("chg") {
			case "T":
				s["chg"] = "F"
				return cpy, true
			case "F":
				s["chg"] = "T"
				return cpy, true
			}
		}
	case "dst", "src":
		for _, s := range cpy[1:] {
			if s.Str("op") == "Transfer" {
				s[what] = toggle(s[what], 0)
				return cpy, true
			}
		}
	case "end":
		last := cpy[len(cpy)-1]
		last["dst"] = toggle(last["dst"], 0)
		return cpy, true
	}
	return nil, false
}

func nontrivial(b behav.Behaviour) bool {
	// a transfer that had something to change, or a refused one over a non-empty target
	for i := 1; i < len(b); i++ {
		switch b[i].Str("op") {
		case "Transfer":
			if fmt.Sprint(b[i-1].Ints("dst")) != fmt.Sprint(b[i].Ints("dst")) {
				return true
			}
		case "BadTransfer":
			if len(b[i].Ints("dst")) > 0 {
				return true
			}
		}
	}
	return false
}

// TestTransferFragment replays behaviours of spec/Transfer.tla (XT_*.cfg) into two real
// fragments: every write's `changed`, the contents of both fragments after every step
// (all read paths in the loud variant), TopN right after a transfer, and everything again
// at the end and after close + open.
func TestTransferFragment(t *testing.T) {
	res := behav.NewResult()
	defer func() {
		_ = os.RemoveAll(scratchDir())
		_ = os.Remove(filepath.Dir(scratchDir()))
		if err := res.Write(); err != nil {
			t.Fatal(err)
		}
	}()
	report := func(c *Case, m *Mismatch) {
		res.Fail(behav.Failure{
			Match: map[string]string{"test": "fragment", "op": m.Op, "obs": m.Obs, "fl": m.Fl, "side": m.Side, "kind": c.Kind},
			Detail: fmt.Sprintf("%s fragments, profile %s shard %d, cache %s, loud=%v: %s\nbehaviour: %s",
				c.Kind, c.Profile, c.Shard, c.CacheType, c.Loud, m.String(), behav.JSON(c.Beh)),
			Replay: c,
		})
	}
	if raw, ok := behav.LoadReplay(); ok {
		var c Case
		if err := json.Unmarshal(raw, &c); err != nil {
			t.Fatal(err)
		}
		res.Evaluations = 1
		var m *Mismatch
		pv, stack := behav.Protect(func() { m = Run(&c, nil) })
		if pv != nil {
			res.SetInconclusive(fmt.Sprintf("harness panic during replay: %v\n%s", pv, firstLines(stack, 30)))
			return
		}
		if m != nil {
			report(&c, m)
		}
		return
	}
	behs := behav.LoadEnv()
	kind := os.Getenv("VERIF_KIND")
	if kind == "" {
		kind = "set"
	}
	seed := behav.Seed()
	every := behav.EnvInt("VERIF_EXTRA_EVERY", 1)
	selftest := os.Getenv("VERIF_SELFTEST") != ""
	var jobs []*Case
	for _, b := range behs {
		cs := casesFor(kind, b, seed, every)
		if selftest {
			c := cs[0]
			what := []string{"dst", "chg", "end", "src"}[len(jobs)%4]
			cb, ok := corrupt(c.Beh, what)
			if !ok {
				what = "end"
				cb, _ = corrupt(c.Beh, what)
			}
			c.Beh, c.Corrupt = cb, what
			jobs = append(jobs, c)
			continue
		}
		jobs = append(jobs, cs...)
	}
	var distinct behav.Distinct
	behav.Parallel(len(jobs), func(i int) {
		c := jobs[i]
		var m *Mismatch
		pv, stack := behav.Protect(func() { m = Run(c, res.Cover) })
		if pv != nil {
			res.SetInconclusive(fmt.Sprintf("harness panic: %v\n%s", pv, firstLines(stack, 30)))
			return
		}
		res.CountEval()
		res.Cover("profile_" + c.Profile)
		res.Cover("cache_" + c.CacheType)
		if c.Loud {
			res.Cover("variant_loud")
		} else {
			res.Cover("variant_quiet")
		}
		if selftest {
			if m == nil {
				res.Cover("selftest_missed_" + c.Corrupt)
				res.SetInconclusive("binding self-test: a planted wrong expected value (" + c.Corrupt + ") was not noticed: " + behav.JSON(c.Beh))
			} else {
				res.Cover("selftest_detected_" + c.Corrupt)
			}
			return
		}
		js, _ := json.Marshal(c.Beh)
		if nontrivial(c.Beh) && distinct.Add(fmt.Sprintf("%s|%s|%d|%s|%v", js, c.Profile, c.Shard, c.CacheType, c.Loud)) {
			res.CountNontrivial()
		}
		if i%(len(jobs)/5+1) == 0 {
			res.AddSample(map[string]interface{}{"behaviour": c.Beh, "profile": c.Profile, "shard": c.Shard, "cache": c.CacheType, "loud": c.Loud})
		}
		if m != nil {
			if strings.HasPrefix(m.Obs, "panic") {
				res.Cover("panic_in_code")
			}
			report(c, m)
		}
	}, func(i int, v interface{}, stack string) {
		res.SetInconclusive(fmt.Sprintf("harness panic: %v\n%s", v, firstLines(stack, 30)))
	})
}
