//go:build verif

package transferb

import (
	"bytes"
	"context"
	"encoding/json"
	"fmt"
	"os"
	"path/filepath"
	"sort"
	"strings"
	"sync"
	"testing"
	"time"

	"github.com/pilosa/pilosa"
	"github.com/pilosa/pilosa/encoding/proto"
	"github.com/pilosa/pilosa/server"
	"github.com/pilosa/pilosa/test"

	"verif/harness/behav"
)

// A history of schema operations of spec/TransferSchema.tla replayed on real servers.
// The origin node executes the operations; its broadcast messages (the bytes its own
// serializer produced) are recorded and delivered to a second server late (lag of 0, 1,
// 2 operations, or all at the end) through API.ClusterMessage; a third server gets the
// whole schema as a NodeStatus (what gossip's LocalState sends); the late learner is
// restarted. For a fraction of the histories the operations are issued at the two nodes
// of a real cluster which a third node then joins. Every node's schema must equal the
// origin's and the specification's expected schema.

type scCase struct {
	Beh     behav.Behaviour `json:"beh"`
	Seed    int64           `json:"seed"`
	Lag     int             `json:"lag"`
	Join    bool            `json:"join"`
	Corrupt string          `json:"corrupt,omitempty"`
}

type scFail struct{ mode, symptom, detail string }

type fieldVariant struct {
	opts  []pilosa.FieldOption
	want  pilosa.FieldOptions
	views []string // after SetTime
}

var fieldVariants = map[string]fieldVariant{
	"set_ranked": {[]pilosa.FieldOption{pilosa.OptFieldTypeSet("ranked", 50000)}, pilosa.FieldOptions{Type: "set", CacheType: "ranked", CacheSize: 50000}, nil},
	"set_lru7":   {[]pilosa.FieldOption{pilosa.OptFieldTypeSet("lru", 7)}, pilosa.FieldOptions{Type: "set", CacheType: "lru", CacheSize: 7}, nil},
	"set_none":   {[]pilosa.FieldOption{pilosa.OptFieldTypeSet("none", 11)}, pilosa.FieldOptions{Type: "set", CacheType: "none", CacheSize: 0}, nil}, // applyOptions: a size given with cache type none is stored as 0
	"mutex":      {[]pilosa.FieldOption{pilosa.OptFieldTypeMutex("ranked", 123)}, pilosa.FieldOptions{Type: "mutex", CacheType: "ranked", CacheSize: 123}, nil},
	"bool":       {[]pilosa.FieldOption{pilosa.OptFieldTypeBool()}, pilosa.FieldOptions{Type: "bool", CacheType: "none"}, nil},
	"int":        {[]pilosa.FieldOption{pilosa.OptFieldTypeInt(-5, 900)}, pilosa.FieldOptions{Type: "int", CacheType: "none", Min: -5, Max: 900}, nil},
	"time_YMD": {[]pilosa.FieldOption{pilosa.OptFieldTypeTime(pilosa.TimeQuantum("YMD"))}, pilosa.FieldOptions{Type: "time", CacheType: "none", TimeQuantum: "YMD"},
		[]string{"standard", "standard_2019", "standard_201903", "standard_20190304"}},
	"time_D_nsv": {[]pilosa.FieldOption{pilosa.OptFieldTypeTime(pilosa.TimeQuantum("D"), true)}, pilosa.FieldOptions{Type: "time", CacheType: "none", TimeQuantum: "D", NoStandardView: true},
		[]string{"standard_20190304"}},
	"set_keys": {[]pilosa.FieldOption{pilosa.OptFieldTypeSet("ranked", 50000), pilosa.OptFieldKeys()}, pilosa.FieldOptions{Type: "set", CacheType: "ranked", CacheSize: 50000, Keys: true}, nil},
}

var indexVariants = map[string]pilosa.IndexOptions{
	"plain":   {Keys: false, TrackExistence: true},
	"keys":    {Keys: true, TrackExistence: true},
	"noexist": {Keys: false, TrackExistence: false},
}

// tapSerializer records the bytes the origin's serializer produced for schema messages.
type tapSerializer struct {
	proto.Serializer
	mu   sync.Mutex
	msgs [][]byte
}

func (s *tapSerializer) Marshal(m pilosa.Message) ([]byte, error) {
	b, err := s.Serializer.Marshal(m)
	if err == nil {
		switch m.(type) {
		case *pilosa.CreateIndexMessage, *pilosa.DeleteIndexMessage, *pilosa.CreateFieldMessage, *pilosa.DeleteFieldMessage,
			*pilosa.CreateViewMessage, *pilosa.DeleteViewMessage, *pilosa.CreateShardMessage:
			s.mu.Lock()
			s.msgs = append(s.msgs, append([]byte{pilosa.VerifGetMessageType(m)}, b...))
			s.mu.Unlock()
		}
	}
	return b, err
}

func (s *tapSerializer) take() [][]byte {
	s.mu.Lock()
	defer s.mu.Unlock()
	out := s.msgs
	s.msgs = nil
	return out
}

// canon renders a schema: every index with its options, every field with all its options
// and its views. full = with the options the specification does not predict (base, depth).
func canon(schema []*pilosa.IndexInfo, full bool) string {
	var sb strings.Builder
	idxs := append([]*pilosa.IndexInfo(nil), schema...)
	sort.Slice(idxs, func(a, b int) bool { return idxs[a].Name < idxs[b].Name })
	for _, ix := range idxs {
		fmt.Fprintf(&sb, "index %s keys=%v exist=%v\n", ix.Name, ix.Options.Keys, ix.Options.TrackExistence)
		fs := append([]*pilosa.FieldInfo(nil), ix.Fields...)
		sort.Slice(fs, func(a, b int) bool { return fs[a].Name < fs[b].Name })
		for _, f := range fs {
			o := f.Options
			fmt.Fprintf(&sb, "  field %s type=%s cache=%s/%d min=%d max=%d quantum=%s nsv=%v keys=%v", f.Name, o.Type, o.CacheType, o.CacheSize, o.Min, o.Max, o.TimeQuantum, o.NoStandardView, o.Keys)
			if full {
				fmt.Fprintf(&sb, " base=%d depth=%d", o.Base, o.BitDepth)
			}
			var vs []string
			for _, v := range f.Views {
				vs = append(vs, v.Name)
			}
			sort.Strings(vs)
			fmt.Fprintf(&sb, " views=%v\n", vs)
		}
	}
	return sb.String()
}

// expected renders the specification's final schema the same way (full = false).
func expectedSchema(exp behav.Step) string {
	var schema []*pilosa.IndexInfo
	byName := map[string]*pilosa.IndexInfo{}
	for _, x := range behav.ToList(exp["idx"]) {
		l := behav.ToList(x)
		ii := &pilosa.IndexInfo{Name: l[0].(string), Options: indexVariants[l[1].(string)]}
		byName[ii.Name] = ii
		schema = append(schema, ii)
	}
	viewed := map[string]bool{}
	for _, x := range behav.ToList(exp["viewed"]) {
		l := behav.ToList(x)
		viewed[l[0].(string)+"/"+l[1].(string)] = true
	}
	for _, x := range behav.ToList(exp["fld"]) {
		l := behav.ToList(x)
		in, fn, v := l[0].(string), l[1].(string), fieldVariants[l[2].(string)]
		fi := &pilosa.FieldInfo{Name: fn, Options: v.want}
		if viewed[in+"/"+fn] {
			for _, vn := range v.views {
				fi.Views = append(fi.Views, &pilosa.ViewInfo{Name: vn})
			}
		}
		byName[in].Fields = append(byName[in].Fields, fi)
	}
	return canon(schema, false)
}

// schemaOf is the node's full schema (Holder.Schema: with views, as the NodeStatus of a
// ResizeInstruction carries it; API.Schema and gossip's NodeStatus leave the views out).
func schemaOf(m *test.Command) []*pilosa.IndexInfo {
	h := pilosa.VerifClusterHolderOfAPI(m.API)
	var out []*pilosa.IndexInfo
	for _, ii := range h.Schema() {
		// the state of the node, not what Schema() chooses to report: options from the
		// index object itself, internal fields left out
		ni := &pilosa.IndexInfo{Name: ii.Name}
		if idx := h.Index(ii.Name); idx != nil {
			ni.Options = idx.Options()
		}
		for _, f := range ii.Fields {
			if !strings.HasPrefix(f.Name, "_") {
				ni.Fields = append(ni.Fields, f)
			}
		}
		out = append(out, ni)
	}
	return out
}

// statusSchema is the schema a node puts into the NodeStatus of a ResizeInstruction
// (cluster.nodeStatus: Holder.Schema()).
func statusSchema(m *test.Command) []*pilosa.IndexInfo {
	return pilosa.VerifClusterHolderOfAPI(m.API).Schema()
}

// noViews drops the view lists: a node that joined learns of views with the fragments it
// fetches, so they are compared only where every message / a full schema was delivered.
func noViews(c string) string {
	ls := strings.Split(c, "\n")
	for i, l := range ls {
		if k := strings.Index(l, " views="); k >= 0 {
			ls[i] = l[:k]
		}
	}
	return strings.Join(ls, "\n")
}

func firstDiff(a, b string) string {
	la, lb := strings.Split(a, "\n"), strings.Split(b, "\n")
	for i := 0; i < len(la) || i < len(lb); i++ {
		var x, y string
		if i < len(la) {
			x = la[i]
		}
		if i < len(lb) {
			y = lb[i]
		}
		if x != y {
			return fmt.Sprintf("%q vs %q", strings.TrimSpace(x), strings.TrimSpace(y))
		}
	}
	return ""
}

func applySchemaOp(ctx context.Context, m *test.Command, st behav.Step, keyed map[string]bool) error {
	in, fn, v := st.Str("i"), st.Str("f"), st.Str("v")
	switch st.Str("op") {
	case "CreateIndex":
		_, err := m.API.CreateIndex(ctx, in, indexVariants[v])
		keyed[in] = indexVariants[v].Keys
		return err
	case "DeleteIndex":
		return m.API.DeleteIndex(ctx, in)
	case "CreateField":
		_, err := m.API.CreateField(ctx, in, fn, fieldVariants[v].opts...)
		return err
	case "DeleteField":
		return m.API.DeleteField(ctx, in, fn)
	case "SetTime":
		col := "7"
		if keyed[in] {
			col = `"c7"`
		}
		_, err := m.API.Query(ctx, &pilosa.QueryRequest{Index: in, Query: fmt.Sprintf("Set(%s, %s=1, 2019-03-04T00:00)", col, fn)})
		return err
	}
	panic("harness: unknown schema op " + st.Str("op"))
}

func waitFor(d time.Duration, ok func() bool) bool {
	for t0 := time.Now(); time.Since(t0) < d; time.Sleep(30 * time.Millisecond) {
		if ok() {
			return true
		}
	}
	return ok()
}

func closeAll(ms ...*test.Command) {
	for _, m := range ms {
		if m != nil {
			dir := m.Config.DataDir
			m.Close()
			os.RemoveAll(dir)
		}
	}
}

// runSchemaLate: origin + late learner + whole-schema learner (three separate servers).
func runSchemaLate(t testing.TB, c *scCase, cover func(string)) (fail *scFail, skipped string) {
	ctx := context.Background()
	tap := &tapSerializer{}
	origin := test.MustRunCluster(t, 1, []server.CommandOption{server.OptCommandServerOptions(pilosa.OptServerSerializer(tap))})[0]
	late := test.MustRunCluster(t, 1)[0]
	whole := test.MustRunCluster(t, 1)[0]
	defer func() { closeAll(origin, late, whole) }()
	ops := c.Beh[:len(c.Beh)-1]
	exp := c.Beh[len(c.Beh)-1]
	keyed := map[string]bool{}
	var pending [][][]byte // messages per operation, not yet delivered
	deliver := func(msgs [][]byte) *scFail {
		for _, b := range msgs {
			cover("delivered_late_message")
			if err := late.API.ClusterMessage(ctx, bytes.NewReader(b)); err != nil {
				return &scFail{"late", "message_refused", fmt.Sprintf("the late learner refused a broadcast message (type %d): %v", b[0], err)}
			}
		}
		return nil
	}
	tap.take()
	for _, st := range ops {
		cover("op_" + st.Str("op"))
		if err := applySchemaOp(ctx, origin, st, keyed); err != nil {
			return nil, fmt.Sprintf("%s at the origin: %v", st.Str("op"), err)
		}
		pending = append(pending, tap.take())
		for len(pending) > c.Lag {
			if f := deliver(pending[0]); f != nil {
				return f, ""
			}
			pending = pending[1:]
		}
	}
	for _, p := range pending {
		if f := deliver(p); f != nil {
			return f, ""
		}
	}
	src := schemaOf(origin)
	want := canon(src, true)
	if c.Corrupt == "expect" {
		exp["idx"] = append(behav.ToList(exp["idx"]), []interface{}{"zz", "plain"})
	}
	if got, e := canon(src, false), expectedSchema(exp); got != e {
		return &scFail{"origin", "schema_differs", fmt.Sprintf("the origin's schema differs from the specification's: %s\norigin:\n%sexpected:\n%s", firstDiff(got, e), got, e)}, ""
	}
	if got := canon(schemaOf(late), true); got != want {
		return &scFail{"late", "schema_differs", fmt.Sprintf("lag %d: after all broadcast messages were delivered the learner's schema differs: %s\nlearner:\n%sorigin:\n%s", c.Lag, firstDiff(got, want), got, want)}, ""
	}
	// the whole schema as a NodeStatus
	// (every single-node test cluster calls its node "node0", and a status from oneself is ignored)
	on := *origin.API.Node()
	on.ID = "origin"
	ns := &pilosa.NodeStatus{Node: &on, Schema: &pilosa.Schema{Indexes: statusSchema(origin)}}
	buf, err := pilosa.MarshalInternalMessage(ns, proto.Serializer{})
	if err != nil {
		return nil, "marshalling NodeStatus: " + err.Error()
	}
	if c.Corrupt == "whole" {
		want += "x"
	}
	if err := whole.API.ClusterMessage(ctx, bytes.NewReader(buf)); err != nil {
		return &scFail{"whole", "message_refused", "NodeStatus refused: " + err.Error()}, ""
	}
	if !waitFor(8*time.Second, func() bool { return canon(schemaOf(whole), true) == want }) {
		got := canon(schemaOf(whole), true)
		return &scFail{"whole", "schema_differs", fmt.Sprintf("a node that received the whole schema in a NodeStatus differs: %s\nnode:\n%sorigin:\n%s", firstDiff(got, want), got, want)}, ""
	}
	cover("whole_schema_applied")
	// ... and on top of the delivered messages it changes nothing
	if err := late.API.ClusterMessage(ctx, bytes.NewReader(buf)); err != nil {
		return &scFail{"late", "message_refused", "NodeStatus refused: " + err.Error()}, ""
	}
	time.Sleep(150 * time.Millisecond)
	if got := canon(schemaOf(late), true); got != want {
		return &scFail{"late+whole", "schema_differs", fmt.Sprintf("a NodeStatus on top of the delivered messages changed the schema: %s", firstDiff(got, want))}, ""
	}
	// restart of both learners: the schema comes back from disk
	for name, m := range map[string]*test.Command{"late": late, "whole": whole} {
		if err := m.Reopen(); err != nil {
			return nil, "restart: " + err.Error()
		}
		if got := canon(schemaOf(m), true); got != want {
			return &scFail{"restart_" + name, "schema_differs", fmt.Sprintf("after a restart the %s learner's schema differs: %s\nnode:\n%sorigin:\n%s", name, firstDiff(got, want), got, want)}, ""
		}
		cover("restart_checked")
	}
	return nil, ""
}

// runSchemaJoin: the operations are issued at the two nodes of a real cluster, then a
// third node joins.
func runSchemaJoin(t testing.TB, c *scCase, cover func(string)) (fail *scFail, skipped string) {
	ctx := context.Background()
	clus := test.MustNewCluster(t, 2)
	var all []*test.Command
	defer func() { closeAll(all...) }()
	for _, m := range clus {
		m.Config.Gossip.PushPullInterval = rzPushPull
		all = append(all, m)
	}
	if err := clus.Start(); err != nil {
		return nil, "cluster did not start: " + err.Error()
	}
	normal := func(n int) bool {
		return waitFor(60*time.Second, func() bool {
			for _, m := range all {
				if m.API.State() != "NORMAL" || len(pilosa.VerifClusterOfAPI(m.API).NodeIDs()) != n {
					return false
				}
			}
			return true
		})
	}
	if !normal(2) {
		return nil, "two-node cluster not NORMAL in 60s"
	}
	ops := c.Beh[:len(c.Beh)-1]
	exp := c.Beh[len(c.Beh)-1]
	keyed := map[string]bool{}
	for _, st := range ops {
		cover("join_op_" + st.Str("op"))
		if err := applySchemaOp(ctx, clus[st.Int("at")], st, keyed); err != nil {
			return nil, fmt.Sprintf("%s at node %d: %v", st.Str("op"), st.Int("at"), err)
		}
	}
	e := expectedSchema(exp)
	for k, m := range all {
		if got := noViews(canon(schemaOf(m), false)); got != noViews(e) {
			return &scFail{"broadcast", "schema_differs", fmt.Sprintf("node %d of the cluster the operations were issued in differs from the specification: %s\nnode:\n%sexpected:\n%s", k, firstDiff(got, noViews(e)), got, noViews(e))}, ""
		}
	}
	j := test.NewCommandNode(false)
	all = append(all, j)
	if err := os.WriteFile(filepath.Join(j.Config.DataDir, ".id"), []byte("node2"), 0o600); err != nil {
		return nil, err.Error()
	}
	j.Config.Gossip.Port = "0"
	j.Config.Gossip.Seeds = []string{clus[0].GossipAddress()}
	j.Config.Gossip.PushPullInterval = rzPushPull
	if err := j.Start(); err != nil {
		return nil, "joining node did not start: " + err.Error()
	}
	if !normal(3) {
		return nil, "three-node cluster not NORMAL in 60s"
	}
	want := noViews(canon(schemaOf(clus[0]), true))
	if !waitFor(45*time.Second, func() bool { return noViews(canon(schemaOf(j), true)) == want }) {
		got := noViews(canon(schemaOf(j), true))
		return &scFail{"join", "schema_differs", fmt.Sprintf("45 s after it joined, the new node's schema differs: %s\njoiner:\n%scoordinator:\n%s", firstDiff(got, want), got, want)}, ""
	}
	cover("join_checked")
	return nil, ""
}

// TestSchemaPropagation replays schema histories generated from spec/TransferSchema.tla.
func TestSchemaPropagation(t *testing.T) {
	res := behav.NewResult()
	defer func() {
		if err := res.Write(); err != nil {
			t.Fatal(err)
		}
	}()
	report := func(c *scCase, f *scFail) {
		res.Fail(behav.Failure{
			Match:  map[string]string{"test": "schema", "mode": f.mode, "symptom": f.symptom},
			Detail: f.detail + "\nhistory: " + behav.JSON(c.Beh),
			Replay: c,
		})
	}
	run := func(c *scCase, cover func(string)) (f *scFail, skipped string) {
		if c.Join {
			return runSchemaJoin(t, c, cover)
		}
		return runSchemaLate(t, c, cover)
	}
	if raw, ok := behav.LoadReplay(); ok {
		var c scCase
		if err := json.Unmarshal(raw, &c); err != nil {
			t.Fatal(err)
		}
		res.Evaluations = 1
		f, skipped := run(&c, func(string) {})
		if skipped != "" {
			res.SetInconclusive("replay: " + skipped)
		} else if f != nil {
			report(&c, f)
		}
		return
	}
	behs := behav.LoadEnv()
	selftest := os.Getenv("VERIF_SELFTEST") != ""
	joinEvery := behav.EnvInt("VERIF_JOIN_EVERY", 5)
	seed := behav.Seed()
	var jobs []*scCase
	for i, b := range behs {
		h := behav.Hash64(behav.JSON(b)) ^ uint64(seed)*0x9e3779b97f4a7c15
		c := &scCase{Beh: b, Seed: seed, Lag: []int{0, 1, 2, 99}[h%4]}
		if selftest {
			c.Corrupt = []string{"expect", "whole"}[i%2]
		} else if joinEvery > 0 && i%joinEvery == joinEvery-1 {
			c.Join = true
		}
		jobs = append(jobs, c)
	}
	nskip := 0
	var mu sync.Mutex
	behav.Parallel(len(jobs), func(i int) {
		c := jobs[i]
		var f *scFail
		var skipped string
		pv, stack := behav.Protect(func() { f, skipped = run(c, res.Cover) })
		if pv != nil {
			if behav.PanicInCode(stack) {
				report(c, &scFail{"-", "panic", fmt.Sprintf("%v\n%s", pv, firstLines(stack, 25))})
			} else {
				res.SetInconclusive(fmt.Sprintf("harness panic: %v\n%s", pv, firstLines(stack, 30)))
			}
			return
		}
		if skipped != "" {
			mu.Lock()
			nskip++
			mu.Unlock()
			res.Cover("skipped")
			res.AddSample(map[string]interface{}{"skipped": skipped})
			return
		}
		res.CountEval()
		res.CountNontrivial()
		res.Cover(fmt.Sprintf("lag_%d", c.Lag))
		if c.Join {
			res.Cover("mode_join")
		} else {
			res.Cover("mode_late_whole_restart")
		}
		if selftest {
			if f == nil {
				res.SetInconclusive("binding self-test: a planted wrong expectation (" + c.Corrupt + ") was not noticed")
			} else {
				res.Cover("selftest_detected_" + c.Corrupt)
			}
			return
		}
		if i < 2 {
			res.AddSample(map[string]interface{}{"history": c.Beh, "lag": c.Lag, "join": c.Join})
		}
		if f != nil {
			report(c, f)
		}
	}, func(i int, v interface{}, stack string) {
		res.SetInconclusive(fmt.Sprintf("harness panic: %v\n%s", v, firstLines(stack, 30)))
	})
	if nskip*2 > len(jobs) {
		res.SetInconclusive(fmt.Sprintf("%d of %d schema histories could not be replayed", nskip, len(jobs)))
	}
}
