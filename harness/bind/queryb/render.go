package queryb

import (
	"fmt"
	"strings"

	"verif/harness/behav"
)

// Instr is one instruction <<k, fld, r, a, b, o>> of a postfix program of spec/Query.tla.
type Instr struct {
	K, F, O string
	R, A, B int
}

func decodeProg(v interface{}) []Instr {
	var out []Instr
	for _, x := range behav.ToList(v) {
		t := behav.ToList(x)
		if len(t) != 6 {
			panic(fmt.Sprintf("bad instruction %v", x))
		}
		k, _ := t[0].(string)
		f, _ := t[1].(string)
		o, _ := t[5].(string)
		out = append(out, Instr{K: k, F: f, O: o, R: behav.ToInt(t[2]), A: behav.ToInt(t[3]), B: behav.ToInt(t[4])})
	}
	return out
}

// Render turns a postfix program into PQL text under the profile. kind is the name of the
// outermost call. rowArg renders a row of a field (ids, or keys for keyed variants).
func Render(p *Profile, prog []Instr, rowArg func(fld string, r int) string) (pql string, kind string) {
	if rowArg == nil {
		rowArg = func(fld string, r int) string { return fmt.Sprint(p.Row(fld, r)) }
	}
	type ent struct{ s, kind string }
	var st []ent
	for _, in := range prog {
		switch in.K {
		case "row":
			st = append(st, ent{fmt.Sprintf("Row(%s=%s)", in.F, rowArg(in.F, in.R)), "Row"})
		case "rowt":
			s := fmt.Sprintf("Row(%s=%s", in.F, rowArg(in.F, in.R))
			if in.A != 0 {
				s += fmt.Sprintf(", from='%s'", p.Time(in.A))
			} else if !strings.Contains(p.Quantum, "Y") {
				// an omitted "from" makes viewsByTimeRange walk from year 1 in the quantum's
				// coarsest unit (700k day views for "D"): correct but slow, so quanta
				// without a year unit get an explicit early start instead
				s += ", from='2018-01-01T00:00'"
			}
			if in.B != 0 {
				s += fmt.Sprintf(", to='%s'", p.Time(in.B))
			}
			st = append(st, ent{s + ")", "RowTime"})
		case "cond":
			var s string
			switch in.O {
			case "><":
				s = fmt.Sprintf("Row(%s >< [%d,%d])", in.F, p.Val(in.A), p.Val(in.B))
			case "!=null":
				s = fmt.Sprintf("Row(%s != null)", in.F)
			default:
				s = fmt.Sprintf("Row(%s %s %d)", in.F, in.O, p.Val(in.A))
			}
			st = append(st, ent{s, "RowCond"})
		case "empty":
			st = append(st, ent{"Union()", "Union"})
		case "op":
			n := in.A
			args := make([]string, n)
			for i := 0; i < n; i++ {
				args[i] = st[len(st)-n+i].s
			}
			st = append(st[:len(st)-n], ent{fmt.Sprintf("%s(%s)", in.O, strings.Join(args, ", ")), in.O})
		case "not":
			st[len(st)-1] = ent{fmt.Sprintf("Not(%s)", st[len(st)-1].s), "Not"}
		case "shift":
			st[len(st)-1] = ent{fmt.Sprintf("Shift(%s, n=%d)", st[len(st)-1].s, in.A), "Shift"}
		default:
			panic("unknown instruction " + in.K)
		}
	}
	if len(st) != 1 {
		panic(fmt.Sprintf("ill-formed program: %d values left", len(st)))
	}
	return st[0].s, st[0].kind
}

// progShape summarises a program for coverage keys: operator names, depth.
func progOps(prog []Instr) []string {
	var out []string
	for _, in := range prog {
		switch in.K {
		case "op":
			out = append(out, fmt.Sprintf("%s/%d", in.O, in.A))
		case "not":
			out = append(out, "Not")
		case "shift":
			out = append(out, fmt.Sprintf("Shift/%d", in.A))
		case "row":
			out = append(out, "Row:"+in.F)
		case "rowt":
			out = append(out, "RowTime")
		case "cond":
			out = append(out, "RowCond:"+in.O)
		case "empty":
			out = append(out, "Union/0")
		}
	}
	return out
}

func hasOp(prog []Instr, k string) bool {
	for _, in := range prog {
		if in.K == k {
			return true
		}
	}
	return false
}
