package queryb

import (
	"fmt"
	"math/rand"
	"strings"
	"testing"

	"github.com/pilosa/pilosa"

	"verif/harness/behav"
)

var c16Fields = []FieldSpec{{"f", "set", false}, {"g", "set", false}, {"t", "time", false}, {"e", "set", false}}

// rowsCall renders Rows(fld, previous=, limit=, column=, from=, to=); -1 / 0 mean "omitted".
func rowsCall(p *Profile, fld string, prev, lim, col, a, b int) string {
	args := []string{fld}
	if prev >= 1 {
		args = append(args, fmt.Sprintf("previous=%d", p.Row(fld, prev)))
	} else if prev == 0 && p.Row(fld, 1) > 0 {
		// "previous" below every abstract row: the id just below the first concrete row
		// (when the first concrete row is 0 the argument cannot be expressed and is omitted,
		// which means the same)
		args = append(args, fmt.Sprintf("previous=%d", p.Row(fld, 1)-1))
	}
	if lim >= 0 {
		args = append(args, fmt.Sprintf("limit=%d", lim))
	}
	if col >= 0 {
		args = append(args, fmt.Sprintf("column=%d", p.Col(col)))
	}
	if a != 0 {
		args = append(args, fmt.Sprintf("from='%s'", p.Time(a)))
	} else if b != 0 && !strings.Contains(p.Quantum, "Y") {
		args = append(args, "from='2018-01-01T00:00'")
	}
	if b != 0 {
		args = append(args, fmt.Sprintf("to='%s'", p.Time(b)))
	}
	return "Rows(" + strings.Join(args, ", ") + ")"
}

func rowIDs(v interface{}) ([]uint64, string) {
	switch r := v.(type) {
	case pilosa.RowIdentifiers:
		return r.Rows, ""
	case *pilosa.RowIdentifiers:
		return r.Rows, ""
	case pilosa.RowIDs:
		return []uint64(r), ""
	}
	return nil, fmt.Sprintf("result is %T, not row identifiers", v)
}

func checkRows(p *Profile, fld string, got interface{}, want []int) string {
	ids, bad := rowIDs(got)
	if bad != "" {
		return bad
	}
	exp := make([]uint64, len(want))
	for i, r := range want {
		exp[i] = p.Row(fld, r)
	}
	if !equalU64(ids, exp) {
		return fmt.Sprintf("rows = %v, want %v (abstract %v)", ids, exp, want)
	}
	return ""
}

type groupT struct {
	rows []int
	n    int
}

func decodeGroups(v interface{}) []groupT {
	var out []groupT
	for _, e := range behav.ToList(v) {
		m := behav.ToMap(e)
		out = append(out, groupT{rows: behav.ToInts(m["g"]), n: behav.ToInt(m["n"])})
	}
	return out
}

type childT struct {
	f        string
	lim, col int
}

func decodeChildren(v interface{}) []childT {
	var out []childT
	for _, e := range behav.ToList(v) {
		m := behav.ToMap(e)
		f, _ := m["f"].(string)
		out = append(out, childT{f: f, lim: behav.ToInt(m["lim"]), col: behav.ToInt(m["col"])})
	}
	return out
}

func groupByCall(p *Profile, chs []childT, filt []Instr, prev []int, lim, off int) string {
	var args []string
	for i, ch := range chs {
		pr := -1
		if len(prev) > 0 {
			pr = prev[i]
		}
		args = append(args, rowsCall(p, ch.f, pr, ch.lim, ch.col, 0, 0))
	}
	if lim >= 0 {
		args = append(args, fmt.Sprintf("limit=%d", lim))
	}
	if off >= 0 {
		args = append(args, fmt.Sprintf("offset=%d", off))
	}
	if len(filt) > 0 {
		f, _ := Render(p, filt, nil)
		args = append(args, "filter="+f)
	}
	return "GroupBy(" + strings.Join(args, ", ") + ")"
}

// checkGroups compares a GroupBy result; it returns the result mapped back to abstract rows.
func checkGroups(p *Profile, chs []childT, got interface{}, want []groupT) ([]groupT, string) {
	gcs, ok := got.([]pilosa.GroupCount)
	if !ok {
		return nil, fmt.Sprintf("result is %T, not group counts", got)
	}
	var back []groupT
	var gotS, wantS []string
	for _, gc := range gcs {
		g := groupT{n: int(gc.Count)}
		var ids []uint64
		for i, fr := range gc.Group {
			if i < len(chs) && fr.Field != chs[i].f {
				return nil, fmt.Sprintf("group field %q at position %d, want %q", fr.Field, i, chs[i].f)
			}
			ids = append(ids, fr.RowID)
			fld := fr.Field
			g.rows = append(g.rows, p.RowBack(fld, fr.RowID))
		}
		back = append(back, g)
		gotS = append(gotS, fmt.Sprintf("%v:%d", ids, gc.Count))
	}
	for _, w := range want {
		var ids []uint64
		for i, r := range w.rows {
			ids = append(ids, p.Row(chs[i].f, r))
		}
		wantS = append(wantS, fmt.Sprintf("%v:%d", ids, w.n))
	}
	if strings.Join(gotS, " ") != strings.Join(wantS, " ") {
		return back, fmt.Sprintf("groups = %v, want %v", gotS, wantS)
	}
	return back, ""
}

func runC16(nd *Node, c *Case, res *behav.Result) *mismatch {
	p := c.Prof
	s, err := NewSess(nd, c.Index, p, c16Fields, false, c.Seed+int64(c.Idx))
	if err != nil {
		res.Cover("setup_failed")
		res.SetInconclusive("could not create index/fields: " + err.Error())
		return nil
	}
	defer s.Close()
	s.rng = rand.New(rand.NewSource(int64(behav.Hash64(behav.JSON(c.Beh))>>1) + c.Seed))
	var accRows []uint64  // pages of the running Rows loop
	var accGroups []string // pages of the running GroupBy loop
	for i, st := range c.Beh {
		op := st.Str("op")
		mk := func(kind, sym, text string) *mismatch {
			return &mismatch{Step: i, Op: op, Kind: kind, Symptom: sym, Text: text + " | profile " + p.Name + " | requests: " + lastLog(s.Log, 10)}
		}
		res.Cover("c16:op:" + op)
		corrupt := i == c.CorruptStep
		if wpql := writePQL(p, st); wpql != "" {
			r, err := s.Query(wpql)
			if err != nil {
				return mk(op, "error", wpql+": "+err.Error())
			}
			got, bad := boolResult(r[0])
			if bad != "" {
				return mk(op, "wrong_result", wpql+": "+bad)
			}
			if st.Bool("cmp") && got != (st.Bool("ch") != corrupt) {
				return mk(op, "wrong_changed", fmt.Sprintf("%s returned %v, want %v", wpql, got, st.Bool("ch")))
			}
			continue
		}
		switch op {
		case "Import":
			if err := importStep(s, st); err != nil {
				return mk("Import", "error", err.Error())
			}
		case "Rows", "PageRows":
			fld := st.Str("f")
			q := rowsCall(p, fld, st.Int("prev"), st.Int("lim"), st.Int("col"), st.Int("a"), st.Int("b"))
			r, err := s.Query(q)
			if err != nil {
				return mk("Rows", "error", q+": "+err.Error())
			}
			want := st.Ints("rows")
			if corrupt {
				want = append(append([]int{}, want...), c.Dim.NRows)
			}
			if mm := checkRows(p, fld, r[0], want); mm != "" {
				return mk("Rows", "wrong_result", q+": "+mm)
			}
			if len(want) > 0 {
				res.Cover("c16:rows_nonempty")
			}
			res.Cover(fmt.Sprintf("c16:rows:prev=%v,lim=%v,col=%v,time=%v", st.Int("prev") >= 0, st.Int("lim") >= 0, st.Int("col") >= 0, st.Int("a") != 0 || st.Int("b") != 0))
			if op == "PageRows" {
				if st.Bool("first") {
					accRows = nil
				}
				ids, _ := rowIDs(r[0])
				accRows = append(accRows, ids...)
				if st.Bool("done") {
					// PagesConcatenate on the real results
					if mm := checkRows(p, fld, pilosa.RowIDs(accRows), st.Ints("total")); mm != "" {
						return mk("Rows", "pages_do_not_concatenate", mm)
					}
					res.Cover("c16:rows_loop_done")
				}
			}
		case "GroupBy", "PageGroupBy":
			chs := decodeChildren(st["chs"])
			filt := decodeProg(st["filt"])
			q := groupByCall(p, chs, filt, st.Ints("prev"), st.Int("lim"), st.Int("off"))
			r, err := s.Query(q)
			if err != nil {
				return mk("GroupBy", "error", q+": "+err.Error())
			}
			want := decodeGroups(st["groups"])
			if corrupt && len(want) > 0 {
				want[0].n++
			}
			back, mm := checkGroups(p, chs, r[0], want)
			if mm != "" {
				sym := "wrong_result"
				return mk("GroupBy", sym, q+": "+mm)
			}
			if len(want) > 0 {
				res.Cover("c16:groupby_nonempty")
			}
			res.Cover(fmt.Sprintf("c16:groupby:n=%d,prev=%v,lim=%v,off=%v,filter=%v", len(chs), len(st.Ints("prev")) > 0, st.Int("lim") >= 0, st.Int("off") >= 0, len(filt) > 0))
			if op == "PageGroupBy" {
				if st.Bool("first") {
					accGroups = nil
				}
				for _, g := range back {
					accGroups = append(accGroups, fmt.Sprintf("%v:%d", g.rows, g.n))
				}
				if st.Bool("done") {
					var tot []string
					for _, g := range decodeGroups(st["total"]) {
						tot = append(tot, fmt.Sprintf("%v:%d", g.rows, g.n))
					}
					if strings.Join(accGroups, " ") != strings.Join(tot, " ") {
						return mk("GroupBy", "pages_do_not_concatenate", fmt.Sprintf("pages %v, unpaged %v", accGroups, tot))
					}
					res.Cover("c16:groupby_loop_done:" + st.Str("scheme"))
				}
			}
		case "MinRow", "MaxRow":
			fld := st.Str("f")
			filt := decodeProg(st["filt"])
			q := fmt.Sprintf("%s(field=%s)", op, fld)
			if len(filt) > 0 {
				f, _ := Render(p, filt, nil)
				q = fmt.Sprintf("%s(%s, field=%s)", op, f, fld)
			}
			r, err := s.Query(q)
			if err != nil {
				return mk(op, "error", q+": "+err.Error())
			}
			pair, ok := r[0].(pilosa.Pair)
			if !ok {
				return mk(op, "wrong_result", fmt.Sprintf("%s: result is %T", q, r[0]))
			}
			want := st.Int("row")
			if corrupt {
				want = want%c.Dim.NRows + 1
			}
			if want < 0 {
				// no row qualifies: the call reports count 0
				if pair.Count != 0 {
					return mk(op, "wrong_result", fmt.Sprintf("%s = {id %d count %d}, want count 0 (no row has a bit)", q, pair.ID, pair.Count))
				}
			} else if pair.Count == 0 || pair.ID != p.Row(fld, want) {
				return mk(op, "wrong_result", fmt.Sprintf("%s = {id %d count %d}, want row %d (abstract %d) with a positive count", q, pair.ID, pair.Count, p.Row(fld, want), want))
			} else {
				res.Cover("c16:minmax_nonempty")
			}
		case "end":
			if text, kind := endCheck(s, st, c.Dim, []string{"f", "g", "t"}, false, true, nil); text != "" {
				return mk(kind, "wrong_state", text)
			}
		}
	}
	return nil
}

func TestC16(t *testing.T) { Drive(t, "C16", runC16, nil, nil) }
