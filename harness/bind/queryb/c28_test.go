package queryb

import (
	"fmt"
	"math/rand"
	"sort"
	"strings"
	"testing"

	"github.com/pilosa/pilosa"

	"verif/harness/behav"
	"verif/harness/bind/roaringb"
)

// C28 variants: the same behaviour (abstract batch writes + queries) is replayed once per
// write-path policy into identical fields of a fresh index; every answer must equal the
// specification's (hence the answers of all policies equal each other).
//
//	pql    every write as Set / Clear queries
//	ids    bulk import by ids (API.Import / API.ImportValue), set and clear
//	idsbig the same, batches padded with repetitions of their last entry past the op-log
//	       threshold (the "large" import code path)
//	rp/ro  roaring import in Pilosa / official encoding into every view (set and time
//	       fields; the other field types fall back to ids)
//	mixed  each write through the path the specification assigned to it
//	rkeys  set / mutex / time fields with row keys: PQL with string keys or import by keys
//	ckeys  index with column keys: PQL with string keys or import by column keys
var c28Variants = []string{"pql", "ids", "idsbig", "rp", "ro", "mixed", "rkeys", "ckeys"}

type c28 struct {
	s       *Sess
	c       *Case
	p       *Profile
	variant string
	views   map[string]bool // time views written so far (roaring clears must visit them)
	colKeys bool
	rowKeys bool
}

func (x *c28) rowArg(fld string, r int) string {
	if x.rowKeys && (fld == "s" || fld == "m" || fld == "t") {
		return fmt.Sprintf("%q", x.rowKey(fld, r))
	}
	return fmt.Sprint(x.p.Row(fld, r))
}
func (x *c28) rowKey(fld string, r int) string { return fmt.Sprintf("row-%s-%d", fld, r) }
func (x *c28) colKey(a int) string            { return fmt.Sprintf("col-%d", a) }
func (x *c28) colArg(a int) string {
	if x.colKeys {
		return fmt.Sprintf("%q", x.colKey(a))
	}
	return fmt.Sprint(x.p.Col(a))
}

// path decides how one write of the behaviour is realised under this variant.
func (x *c28) path(st behav.Step) string {
	switch x.variant {
	case "mixed":
		return st.Str("path")
	case "rkeys", "ckeys":
		if st.Str("kpath") == "imp" {
			return "ids"
		}
		return "pql"
	}
	return x.variant
}

type wbit struct {
	r, c, ts int
}

func (x *c28) timeViews(ts int) []string {
	if ts == 0 {
		return []string{""}
	}
	t := x.p.TimeT(ts)
	out := []string{""}
	for _, u := range x.p.Quantum {
		switch u {
		case 'Y':
			out = append(out, t.Format("2006"))
		case 'M':
			out = append(out, t.Format("200601"))
		case 'D':
			out = append(out, t.Format("20060102"))
		case 'H':
			out = append(out, t.Format("2006010215"))
		}
	}
	return out
}

// roaringImport sends bits of a set/time field as roaring data, one request per shard.
func (x *c28) roaringImport(fld string, bits []wbit, clear bool, official bool) error {
	type key struct {
		shard uint64
		view  string
	}
	pos := map[key][]uint64{}
	shards := map[uint64]bool{}
	for _, b := range bits {
		col := x.p.Col(b.c)
		row := x.p.Row(fld, b.r)
		views := x.timeViews(b.ts)
		if clear && fld == "t" {
			views = []string{""}
			for v := range x.views {
				views = append(views, v)
			}
		}
		for _, v := range views {
			k := key{col / SW, v}
			pos[k] = append(pos[k], row*SW+col%SW)
			shards[col/SW] = true
			if !clear && v != "" {
				x.views[v] = true
			}
		}
	}
	var order []uint64
	for sh := range shards {
		order = append(order, sh)
	}
	sort.Slice(order, func(i, j int) bool { return order[i] < order[j] })
	for _, sh := range order {
		req := &pilosa.ImportRoaringRequest{Clear: clear, Views: map[string][]byte{}}
		for k, vals := range pos {
			if k.shard != sh {
				continue
			}
			sort.Slice(vals, func(i, j int) bool { return vals[i] < vals[j] })
			var uniq []uint64
			for i, v := range vals {
				if i == 0 || v != vals[i-1] {
					uniq = append(uniq, v)
				}
			}
			if official {
				data, _ := roaringb.EncodeOfficial(uniq, len(uniq)%2 == 1)
				req.Views[k.view] = data
			} else {
				req.Views[k.view] = roaringb.EncodePilosa(uniq)
			}
		}
		x.s.Log = append(x.s.Log, fmt.Sprintf("ImportRoaring(%s, shard %d, clear=%v, official=%v, %d views)", fld, sh, clear, official, len(req.Views)))
		if err := x.s.api().ImportRoaring(x.s.ctx, x.s.Index, fld, sh, false, req); err != nil {
			return err
		}
		x.s.NoteCols(sh * SW)
	}
	return nil
}

// importBits sends bits through API.Import with ids or keys according to the variant.
func (x *c28) importBits(fld string, bits []wbit, clear bool, pad int) error {
	if len(bits) > 0 && pad > 0 {
		last := bits[len(bits)-1]
		for i := 0; i < pad; i++ {
			bits = append(bits, last)
		}
	}
	keyedRows := x.rowKeys && (fld == "s" || fld == "m" || fld == "t")
	if !keyedRows && !x.colKeys {
		var bs []Bit
		for _, b := range bits {
			ts := int64(0)
			if b.ts != 0 {
				ts = x.p.TimeT(b.ts).UnixNano()
			}
			bs = append(bs, Bit{Row: x.p.Row(fld, b.r), Col: x.p.Col(b.c), TS: ts})
		}
		return x.s.ImportIDs(fld, bs, clear)
	}
	req := &pilosa.ImportRequest{Index: x.s.Index, Field: fld}
	hasTS := false
	for _, b := range bits {
		if keyedRows {
			req.RowKeys = append(req.RowKeys, x.rowKey(fld, b.r))
		} else {
			req.RowIDs = append(req.RowIDs, x.p.Row(fld, b.r))
		}
		if x.colKeys {
			req.ColumnKeys = append(req.ColumnKeys, x.colKey(b.c))
		} else {
			req.ColumnIDs = append(req.ColumnIDs, x.p.Col(b.c))
		}
		ts := int64(0)
		if b.ts != 0 {
			ts = x.p.TimeT(b.ts).UnixNano()
			hasTS = true
		}
		req.Timestamps = append(req.Timestamps, ts)
	}
	if !hasTS {
		req.Timestamps = nil
	}
	x.s.Log = append(x.s.Log, fmt.Sprintf("ImportKeys(%s, clear=%v, rows %v%v cols %v%v)", fld, clear, req.RowIDs, req.RowKeys, req.ColumnIDs, req.ColumnKeys))
	// translation happens on the coordinator
	err := x.s.Nd.C[0].API.Import(x.s.ctx, req, pilosa.OptImportOptionsClear(clear))
	x.s.SettleShards()
	return err
}

func (x *c28) importValues(seq [][2]int, pad int) error {
	if pad > 0 {
		last := seq[len(seq)-1]
		for i := 0; i < pad; i++ {
			seq = append(seq, last)
		}
	}
	if x.colKeys {
		req := &pilosa.ImportValueRequest{Index: x.s.Index, Field: "v"}
		for _, cv := range seq {
			req.ColumnKeys = append(req.ColumnKeys, x.colKey(cv[0]))
			req.Values = append(req.Values, x.p.Val(cv[1]))
		}
		x.s.Log = append(x.s.Log, fmt.Sprintf("ImportValueKeys(%v %v)", req.ColumnKeys, req.Values))
		err := x.s.Nd.C[0].API.ImportValue(x.s.ctx, req)
		x.s.SettleShards()
		return err
	}
	byShard := map[uint64]*pilosa.ImportValueRequest{}
	var order []uint64
	for _, cv := range seq {
		col := x.p.Col(cv[0])
		sh := col / SW
		if byShard[sh] == nil {
			byShard[sh] = &pilosa.ImportValueRequest{Index: x.s.Index, Field: "v", Shard: sh}
			order = append(order, sh)
		}
		byShard[sh].ColumnIDs = append(byShard[sh].ColumnIDs, col)
		byShard[sh].Values = append(byShard[sh].Values, x.p.Val(cv[1]))
	}
	for _, sh := range order {
		apis, err := x.s.owners(sh)
		if err != nil {
			return err
		}
		r := byShard[sh]
		if len(r.ColumnIDs) < 20 {
			x.s.Log = append(x.s.Log, fmt.Sprintf("ImportValue(shard %d, %v %v)", sh, r.ColumnIDs, r.Values))
		} else {
			x.s.Log = append(x.s.Log, fmt.Sprintf("ImportValue(shard %d, %d values, first %v %v)", sh, len(r.ColumnIDs), r.ColumnIDs[:3], r.Values[:3]))
		}
		for _, api := range apis {
			rr := *r
			rr.ColumnIDs = append([]uint64(nil), r.ColumnIDs...)
			rr.Values = append([]int64(nil), r.Values...)
			if err := api.ImportValue(x.s.ctx, &rr); err != nil {
				return err
			}
		}
		x.s.NoteCols(sh * SW)
	}
	return nil
}

func pairsOf(v interface{}) []wbit {
	var out []wbit
	for _, e := range behav.ToList(v) {
		t := behav.ToInts(e)
		b := wbit{r: t[0], c: t[1]}
		if len(t) > 2 {
			b.ts = t[2]
		}
		out = append(out, b)
	}
	return out
}

// write realises one abstract batch write under the variant.
func (x *c28) write(st behav.Step) error {
	op, fld := st.Str("op"), st.Str("f")
	path := x.path(st)
	pad := 0
	if x.variant == "idsbig" {
		pad = 6000
		path = "ids"
	}
	pqlBits := func(bits []wbit, clear bool) error {
		var calls []string
		for _, b := range bits {
			switch {
			case clear && fld == "b":
				calls = append(calls, fmt.Sprintf("Clear(%s, b=%v)", x.colArg(b.c), b.r == 1))
			case clear:
				calls = append(calls, fmt.Sprintf("Clear(%s, %s=%s)", x.colArg(b.c), fld, x.rowArg(fld, b.r)))
			case b.ts != 0:
				calls = append(calls, fmt.Sprintf("Set(%s, %s=%s, %s)", x.colArg(b.c), fld, x.rowArg(fld, b.r), x.p.Time(b.ts)))
			case fld == "b":
				calls = append(calls, fmt.Sprintf("Set(%s, b=%v)", x.colArg(b.c), b.r == 1))
			default:
				calls = append(calls, fmt.Sprintf("Set(%s, %s=%s)", x.colArg(b.c), fld, x.rowArg(fld, b.r)))
			}
		}
		_, err := x.s.Query(strings.Join(calls, " "))
		return err
	}
	switch op {
	case "WSet", "WTime":
		clear := st.Bool("clear")
		var bits []wbit
		if st.Has("tbits") {
			bits = pairsOf(st["tbits"])
		} else {
			bits = pairsOf(st["bits"])
		}
		if fld == "t" && !clear {
			// every time view written so far, whatever the path (a roaring clear must visit them)
			for _, b := range bits {
				for _, v := range x.timeViews(b.ts) {
					if v != "" {
						x.views[v] = true
					}
				}
			}
		}
		if fld == "t" && clear && path == "ids" {
			path = "pql" // a bulk import cannot clear time views (documented): Clear queries
		}
		if (path == "rp" || path == "ro") && (x.rowKeys || x.colKeys) {
			path = "ids"
		}
		switch path {
		case "pql":
			return pqlBits(bits, clear)
		case "ids":
			return x.importBits(fld, bits, clear, pad)
		default:
			return x.roaringImport(fld, bits, clear, path == "ro")
		}
	case "WMx":
		clear := st.Bool("clear")
		var bits []wbit
		if clear {
			bits = pairsOf(st["bits"])
		} else {
			bits = pairsOf(st["seq"])
		}
		if path == "rp" || path == "ro" {
			path = "ids" // roaring import is refused for mutex / bool fields
		}
		if path == "pql" {
			return pqlBits(bits, clear)
		}
		return x.importBits(fld, bits, clear, pad)
	case "WVal":
		var seq [][2]int
		for _, e := range behav.ToList(st["seq"]) {
			t := behav.ToInts(e)
			seq = append(seq, [2]int{t[0], t[1]})
		}
		if path == "pql" {
			var calls []string
			for _, cv := range seq {
				calls = append(calls, fmt.Sprintf("Set(%s, v=%d)", x.colArg(cv[0]), x.p.Val(cv[1])))
			}
			_, err := x.s.Query(strings.Join(calls, " "))
			return err
		}
		return x.importValues(seq, pad)
	}
	return fmt.Errorf("unknown write %s", op)
}

// cols maps a Row result back to abstract columns (ids or keys).
func (x *c28) checkRow(got interface{}, want []int) string {
	if !x.colKeys {
		return checkRow(x.p, got, want)
	}
	r, ok := got.(*pilosa.Row)
	if !ok {
		return fmt.Sprintf("result is %T, not a row", got)
	}
	var exp []string
	for _, a := range want {
		exp = append(exp, x.colKey(a))
	}
	keys := append([]string(nil), r.Keys...)
	sort.Strings(keys)
	sort.Strings(exp)
	if strings.Join(keys, ",") != strings.Join(exp, ",") {
		return fmt.Sprintf("column keys = %v, want %v", keys, exp)
	}
	return ""
}

func (x *c28) checkRowIDs(fld string, got interface{}, want []int) string {
	if !(x.rowKeys && (fld == "s" || fld == "m" || fld == "t")) {
		return checkRows(x.p, fld, got, want)
	}
	ri, ok := got.(pilosa.RowIdentifiers)
	if !ok {
		return fmt.Sprintf("result is %T, not row identifiers", got)
	}
	var exp []string
	for _, r := range want {
		exp = append(exp, x.rowKey(fld, r))
	}
	keys := append([]string(nil), ri.Keys...)
	sort.Strings(keys) // keyed rows come in id (= first use) order: compared as a set
	sort.Strings(exp)
	if strings.Join(keys, ",") != strings.Join(exp, ",") {
		return fmt.Sprintf("row keys = %v, want %v", keys, exp)
	}
	return ""
}

func (x *c28) timeArgs(a, b int) string {
	s := ""
	if a != 0 {
		s += fmt.Sprintf(", from='%s'", x.p.Time(a))
	} else if !strings.Contains(x.p.Quantum, "Y") {
		s += ", from='2018-01-01T00:00'"
	}
	if b != 0 {
		s += fmt.Sprintf(", to='%s'", x.p.Time(b))
	}
	return s
}

func runC28(nd *Node, c *Case, res *behav.Result) *mismatch {
	p := c.Prof
	x := &c28{c: c, p: p, variant: c.Variant, views: map[string]bool{}, colKeys: c.Variant == "ckeys", rowKeys: c.Variant == "rkeys"}
	fields := []FieldSpec{{"s", "set", x.rowKeys}, {"m", "mutex", x.rowKeys}, {"b", "bool", false}, {"t", "time", x.rowKeys}, {"v", "int", false}}
	s, err := NewSess(nd, c.Index, p, fields, x.colKeys, c.Seed+int64(c.Idx))
	if err != nil {
		res.Cover("setup_failed")
		res.SetInconclusive("could not create index/fields: " + err.Error())
		return nil
	}
	defer s.Close()
	x.s = s
	s.Only0 = x.colKeys || x.rowKeys
	s.rng = rand.New(rand.NewSource(int64(behav.Hash64(behav.JSON(c.Beh))>>1) + c.Seed))
	dirty := true // TopN caches must be recalculated after writes
	for i, st := range c.Beh {
		op, fld := st.Str("op"), st.Str("f")
		mk := func(kind, sym, text string) *mismatch {
			return &mismatch{Step: i, Op: op, Kind: kind, Symptom: sym, Text: text + " | profile " + p.Name + " | requests: " + lastLog(s.Log, 12)}
		}
		corrupt := i == c.CorruptStep
		res.Cover("c28:op:" + op + ":" + c.Variant)
		switch op {
		case "WSet", "WMx", "WTime", "WVal":
			res.Cover("c28:path:" + fld + ":" + x.path(st))
			if err := x.write(st); err != nil {
				return mk(fld, "error", fmt.Sprintf("%s via %s: %v", op, x.path(st), err))
			}
			dirty = true
		case "QRow", "QRowT", "QCond":
			var q string
			switch op {
			case "QRow":
				if fld == "b" {
					q = fmt.Sprintf("Row(b=%v)", st.Int("r") == 1)
				} else {
					q = fmt.Sprintf("Row(%s=%s)", fld, x.rowArg(fld, st.Int("r")))
				}
			case "QRowT":
				q = fmt.Sprintf("Row(t=%s%s)", x.rowArg("t", st.Int("r")), x.timeArgs(st.Int("a"), st.Int("b")))
			case "QCond":
				switch st.Str("o") {
				case "><":
					q = fmt.Sprintf("Row(v >< [%d,%d])", p.Val(st.Int("x")), p.Val(st.Int("y")))
				case "!=null":
					q = "Row(v != null)"
				default:
					q = fmt.Sprintf("Row(v %s %d)", st.Str("o"), p.Val(st.Int("x")))
				}
			}
			r, err := s.Query(q + " Count(" + q + ")")
			if err != nil {
				return mk(fld, "error", q+": "+err.Error())
			}
			want := st.Ints("cols")
			if corrupt {
				want = append(append([]int{}, want...), c.Dim.NCols-1)
			}
			if mm := x.checkRow(r[0], want); mm != "" {
				return mk(fld, "wrong_result", q+": "+mm)
			}
			if n, ok := r[1].(uint64); !ok || n != uint64(len(want)) {
				return mk(fld, "wrong_count", fmt.Sprintf("Count(%s) = %v, want %d", q, r[1], len(want)))
			}
		case "QRows", "QRowsT":
			if fld == "b" {
				res.Cover("c28:rows_bool_skipped") // Rows() is not offered for bool fields (key translation rejects it)
				continue
			}
			q := "Rows(" + fld
			if col := st.Int("col"); op == "QRows" && col >= 0 {
				q += ", column=" + x.colArg(col)
			}
			if op == "QRowsT" {
				q += x.timeArgs(st.Int("a"), st.Int("b"))
			}
			q += ")"
			r, err := s.Query(q)
			if err != nil {
				return mk(fld, "error", q+": "+err.Error())
			}
			if mm := x.checkRowIDs(fld, r[0], st.Ints("rows")); mm != "" {
				return mk(fld, "wrong_result", q+": "+mm)
			}
		case "QTopN":
			if (fld != "s" && fld != "m") || p.Cache != pilosa.CacheTypeRanked {
				res.Cover("c28:topn_skipped")
				continue
			}
			if dirty {
				if err := s.Recalculate(); err != nil {
					return mk(fld, "error", "RecalculateCaches: "+err.Error())
				}
				dirty = false
			}
			q := fmt.Sprintf("TopN(%s)", fld)
			if n := st.Int("n"); n > 0 {
				q = fmt.Sprintf("TopN(%s, n=%d)", fld, n)
			}
			r, err := s.Query(q)
			if err != nil {
				return mk(fld, "error", q+": "+err.Error())
			}
			if mm := x.checkTopN(fld, r[0], st, st.Int("n")); mm != "" {
				return mk(fld, "wrong_topn", q+": "+mm)
			}
		case "QAgg":
			filt := ""
			if fr := st.Int("fr"); fr > 0 {
				filt = fmt.Sprintf("Row(s=%s), ", x.rowArg("s", fr))
			}
			q := fmt.Sprintf("Sum(%sfield=v) Min(%sfield=v) Max(%sfield=v)", filt, filt, filt)
			r, err := s.Query(q)
			if err != nil {
				return mk("v", "error", q+": "+err.Error())
			}
			cnt := st.Int("cnt")
			sum, _ := r[0].(pilosa.ValCount)
			wantSum := int64(0)
			if cnt > 0 {
				wantSum = int64(st.Int("sum"))*p.VMul + int64(cnt)*p.VOff
			}
			if sum.Count != int64(cnt) || sum.Val != wantSum {
				return mk("v", "wrong_result", fmt.Sprintf("%s: Sum = %+v, want value %d count %d", q, sum, wantSum, cnt))
			}
			// Min / Max: the value (the count of a tie is C14/C17's subject)
			mn, _ := r[1].(pilosa.ValCount)
			mxv, _ := r[2].(pilosa.ValCount)
			if cnt > 0 && (mn.Val != p.Val(st.Int("min")) || mn.Count == 0 || mxv.Val != p.Val(st.Int("max")) || mxv.Count == 0) {
				return mk("v", "wrong_result", fmt.Sprintf("%s: Min = %+v Max = %+v, want %d and %d", q, mn, mxv, p.Val(st.Int("min")), p.Val(st.Int("max"))))
			}
			if cnt == 0 && (mn.Count != 0 || mxv.Count != 0) {
				return mk("v", "wrong_result", fmt.Sprintf("%s: Min = %+v Max = %+v, want no value", q, mn, mxv))
			}
		case "end":
			if text, kind := x.endCheck(st); text != "" {
				return mk(kind, "wrong_state", text)
			}
		}
	}
	return nil
}

// checkTopN: the answer must list min(n, #rows) rows (all rows for n = 0), each with its
// exact count, ordered by count descending (ties in any order), and no row left out may
// have a larger count than a listed one.
func (x *c28) checkTopN(fld string, got interface{}, st behav.Step, n int) string {
	pairs, ok := got.([]pilosa.Pair)
	if !ok {
		return fmt.Sprintf("result is %T, not pairs", got)
	}
	want := map[string]int{}
	var counts []int
	for _, e := range behav.ToList(st["pairs"]) {
		m := behav.ToMap(e)
		want[x.rowName(fld, behav.ToInt(m["id"]))] = behav.ToInt(m["n"])
		counts = append(counts, behav.ToInt(m["n"]))
	}
	sort.Sort(sort.Reverse(sort.IntSlice(counts)))
	k := len(counts)
	if n > 0 && n < k {
		k = n
	}
	if len(pairs) != k {
		return fmt.Sprintf("%d pairs %v, want %d (counts %v)", len(pairs), pairs, k, counts)
	}
	seen := map[string]bool{}
	for i, pr := range pairs {
		name := fmt.Sprint(pr.ID)
		if pr.Key != "" {
			name = pr.Key
		}
		if seen[name] {
			return fmt.Sprintf("row %s listed twice in %v", name, pairs)
		}
		seen[name] = true
		w, ok := want[name]
		if !ok || uint64(w) != pr.Count {
			return fmt.Sprintf("pair %d = {%s %d}, want count %d (all: %v)", i, name, pr.Count, w, want)
		}
		if int(pr.Count) != counts[i] {
			return fmt.Sprintf("pair %d has count %d but the %d-th largest count is %d (%v)", i, pr.Count, i+1, counts[i], pairs)
		}
	}
	return ""
}

func (x *c28) rowName(fld string, r int) string {
	if x.rowKeys && (fld == "s" || fld == "m" || fld == "t") {
		return x.rowKey(fld, r)
	}
	return fmt.Sprint(x.p.Row(fld, r))
}

// endCheck compares the projected final state: every row of every field, every value, every
// (row, time point).
func (x *c28) endCheck(st behav.Step) (string, string) {
	p, d := x.p, x.c.Dim
	var calls []string
	var wants [][]int
	var kinds []string
	rows := behav.ToMap(st["rows"])
	for _, fld := range []string{"s", "m", "b", "t"} {
		for _, e := range behav.ToList(rows[fld]) {
			m := behav.ToMap(e)
			r := behav.ToInt(m["r"])
			if fld == "b" {
				calls = append(calls, fmt.Sprintf("Row(b=%v)", r == 1))
			} else {
				calls = append(calls, fmt.Sprintf("Row(%s=%s)", fld, x.rowArg(fld, r)))
			}
			wants = append(wants, behav.ToInts(m["cols"]))
			kinds = append(kinds, fld)
		}
	}
	byVal := map[int][]int{}
	var nn []int
	for _, e := range behav.ToList(st["vals"]) {
		cv := behav.ToInts(e)
		byVal[cv[1]] = append(byVal[cv[1]], cv[0])
		nn = append(nn, cv[0])
	}
	for v := -d.VAbs; v <= d.VAbs; v++ {
		calls = append(calls, fmt.Sprintf("Row(v == %d)", p.Val(v)))
		wants = append(wants, byVal[v])
		kinds = append(kinds, "v")
	}
	calls = append(calls, "Row(v != null)")
	wants = append(wants, nn)
	kinds = append(kinds, "v")
	type key struct{ r, ts int }
	by := map[key][]int{}
	for _, e := range behav.ToList(st["tb"]) {
		b := behav.ToInts(e)
		if b[2] != 0 {
			by[key{b[0], b[2]}] = append(by[key{b[0], b[2]}], b[1])
		}
	}
	for r := 1; r <= d.NRows; r++ {
		for j := 1; j <= d.NT; j++ {
			calls = append(calls, fmt.Sprintf("Row(t=%s, from='%s', to='%s')", x.rowArg("t", r), p.Time(j), p.Time(j+1)))
			w := by[key{r, j}]
			sortInts(w)
			wants = append(wants, w)
			kinds = append(kinds, "t")
		}
	}
	res, err := x.s.Query(strings.Join(calls, " "))
	if err != nil {
		return "final state: " + err.Error(), "error"
	}
	for i := range calls {
		if mm := x.checkRow(res[i], wants[i]); mm != "" {
			return fmt.Sprintf("final state %s: %s", calls[i], mm), kinds[i]
		}
	}
	return "", ""
}

func TestC28(t *testing.T) {
	Drive(t, "C28", runC28, func(i int) []string {
		if behav.Thorough() {
			return c28Variants
		}
		// quick tier: pql and mixed always, two of the others in rotation
		rest := []string{"ids", "idsbig", "rp", "ro", "rkeys", "ckeys"}
		return []string{"pql", "mixed", rest[i%6], rest[(i+3)%6]}
	}, nil)
}
