// Package queryb binds spec/Query.tla (C15, C16, C28) to the real query layer: every
// behaviour TLC emits is rendered to PQL / import requests, executed through API.Query and
// the import APIs of in-process servers, and every answer is compared with the value the
// specification computed.
package queryb

import (
	"context"
	"fmt"
	"math/rand"
	"os"
	"path/filepath"
	"regexp"
	"sort"
	"strconv"
	"strings"
	"sync"
	"sync/atomic"
	"testing"
	"time"

	"github.com/pilosa/pilosa"
	"github.com/pilosa/pilosa/test"

	"verif/harness/behav"
)

// SW is the shard width of the build under test.
const SW = uint64(pilosa.ShardWidth)

// ---------------------------------------------------------------------------------------
// data refinement

// Dim are the constants of the TLC configuration that produced the behaviours.
type Dim struct {
	NCols  int  `json:"ncols"`
	NRows  int  `json:"nrows"`
	NT     int  `json:"nt"`
	VAbs   int  `json:"vabs"`
	Window bool `json:"window"`
	Edge   int  `json:"edge"`
	Exist  bool `json:"exist"`
}

// DimFromEnv reads the dimensions handed over by the check.
func DimFromEnv() Dim {
	return Dim{
		NCols:  behav.EnvInt("VERIF_NCOLS", 6),
		NRows:  behav.EnvInt("VERIF_NROWS", 3),
		NT:     behav.EnvInt("VERIF_NT", 3),
		VAbs:   behav.EnvInt("VERIF_VABS", 2),
		Window: behav.EnvInt("VERIF_WINDOW", 0) == 1,
		Edge:   behav.EnvInt("VERIF_EDGE", 3),
		Exist:  behav.EnvInt("VERIF_EXIST", 1) == 1,
	}
}

// Profile is the refinement of one replay: abstract columns, rows, time points and int
// values to concrete ones, plus the deployment (nodes, existence tracking, cache type).
// It is explicit data so that a replay file is self-contained.
type Profile struct {
	Name        string   `json:"name"`
	Cols        []uint64 `json:"cols"`          // abstract column i -> concrete id (strictly increasing)
	Window      bool     `json:"window"`        // Cols[i] = Cols[0] + i
	EdgeIsShard bool     `json:"edge_is_shard"` // window: the edge is a shard edge (else a container edge)
	Rows        []uint64 `json:"rows"`          // abstract row r (1..NRows) -> concrete id; Rows[0] unused
	Quantum     string   `json:"quantum"`
	Times       []string `json:"times"` // Times[j-1]: abstract time point / cut j, j = 1..NT+1
	VMul        int64    `json:"vmul"`  // abstract value x -> x*VMul + VOff
	VOff        int64    `json:"voff"`
	VLo         int64    `json:"vlo"` // int field min / max
	VHi         int64    `json:"vhi"`
	Nodes       int      `json:"nodes"`
	Exist       bool     `json:"exist"`
	Cache       string   `json:"cache"`
}

const timeFmt = "2006-01-02T15:04"

var colOffsets = []uint64{0, 1, 2, 65534, 65535, 65536, 65537, 131071, 131072, SW - 65537, SW - 65536, SW - 65535, SW - 2, SW - 1}

var shardSets = [][]uint64{{0, 1, 2}, {0, 1}, {1, 2}, {0, 2}, {1, 3}, {0, 1, 2}, {2}, {0}, {0, 1, 3}}

var rowSets = [][]uint64{{1, 2, 3, 4, 5}, {0, 1, 2, 3, 4}, {0, 5, 9, 10, 77}, {3, 100, 101, 102, 250}, {7, 64, 200, 201, 300}, {1, 2, 3, 4, 5}}

type timeProfile struct {
	q     string
	times []string
}

// time points are aligned to the finest unit of the quantum and strictly increasing; the
// last entry is the cut after the last point.
var timeProfiles = []timeProfile{
	{"YMDH", []string{"2018-12-31T22:00", "2018-12-31T23:00", "2019-01-01T00:00", "2019-01-01T01:00", "2019-01-01T02:00", "2019-01-01T03:00"}},
	{"YMDH", []string{"2019-02-28T23:00", "2019-03-01T00:00", "2019-03-01T13:00", "2020-02-29T12:00", "2020-03-01T00:00", "2020-03-01T01:00"}},
	{"YMD", []string{"2019-02-27T00:00", "2019-02-28T00:00", "2019-03-01T00:00", "2019-03-02T00:00", "2019-03-03T00:00", "2019-03-04T00:00"}},
	{"YMD", []string{"2018-12-30T00:00", "2018-12-31T00:00", "2019-01-01T00:00", "2019-01-31T00:00", "2019-02-01T00:00", "2020-01-01T00:00"}},
	{"YM", []string{"2018-11-01T00:00", "2018-12-01T00:00", "2019-01-01T00:00", "2019-02-01T00:00", "2019-03-01T00:00", "2019-04-01T00:00"}},
	{"Y", []string{"2016-01-01T00:00", "2017-01-01T00:00", "2018-01-01T00:00", "2019-01-01T00:00", "2020-01-01T00:00", "2021-01-01T00:00"}},
	{"MD", []string{"2019-01-30T00:00", "2019-01-31T00:00", "2019-02-01T00:00", "2019-02-02T00:00", "2019-02-03T00:00", "2019-02-04T00:00"}},
	{"D", []string{"2019-03-30T00:00", "2019-03-31T00:00", "2019-04-01T00:00", "2019-04-02T00:00", "2019-04-03T00:00", "2019-04-04T00:00"}},
	{"MDH", []string{"2019-05-31T22:00", "2019-05-31T23:00", "2019-06-01T00:00", "2019-06-01T01:00", "2019-06-01T02:00", "2019-06-01T03:00"}},
	{"YMDH", []string{"2017-06-30T23:00", "2018-01-01T00:00", "2018-06-15T10:00", "2018-06-15T11:00", "2019-12-31T23:00", "2020-01-01T00:00"}},
}

type valProfile struct{ mul, off, lo, hi int64 }

// MakeProfile derives the refinement of behaviour number i deterministically from the seed.
func MakeProfile(d Dim, seed int64, i int, nodes int) *Profile {
	r := rand.New(rand.NewSource(seed*1000003 + int64(i)*7919 + 17))
	p := &Profile{Window: d.Window, Nodes: nodes, Exist: d.Exist}
	if d.Window {
		// concrete id = base + i, the edge between abstract columns Edge-1 and Edge
		edges := []uint64{SW, 2 * SW, SW, 65536, SW + 65536, 3 * SW, SW}
		e := edges[r.Intn(len(edges))]
		p.EdgeIsShard = e%SW == 0
		base := e - uint64(d.Edge)
		for k := 0; k < d.NCols+8; k++ {
			p.Cols = append(p.Cols, base+uint64(k))
		}
		p.Name = fmt.Sprintf("window@%d", e)
	} else {
		shards := shardSets[r.Intn(len(shardSets))]
		var cand []uint64
		for _, s := range shards {
			for _, o := range colOffsets {
				cand = append(cand, s*SW+o)
			}
		}
		r.Shuffle(len(cand), func(a, b int) { cand[a], cand[b] = cand[b], cand[a] })
		p.Cols = append(p.Cols, cand[:d.NCols]...)
		sort.Slice(p.Cols, func(a, b int) bool { return p.Cols[a] < p.Cols[b] })
		p.Name = fmt.Sprintf("shards%v", shards)
	}
	rs := rowSets[r.Intn(len(rowSets))]
	p.Rows = append([]uint64{0}, rs[:d.NRows]...)
	tp := timeProfiles[r.Intn(len(timeProfiles))]
	p.Quantum = tp.q
	p.Times = tp.times[:d.NT+1]
	va := int64(d.VAbs)
	vps := []valProfile{
		{1, 0, -va, va}, {1, 0, -va - 3, va + 5}, {1000, 0, -1000 * va, 1000 * va}, {1, 10, 10 - va, 10 + va},
		{7, -100, -100 - 7*va - 1, -100 + 7*va}, {1, va, 0, 2 * va}, {3, 1 << 33, (1 << 33) - 3*va, (1 << 33) + 3*va + 2}, {1, -va, -2 * va, 0},
	}
	vp := vps[r.Intn(len(vps))]
	p.VMul, p.VOff, p.VLo, p.VHi = vp.mul, vp.off, vp.lo, vp.hi
	p.Cache = []string{pilosa.CacheTypeRanked, pilosa.CacheTypeRanked, pilosa.CacheTypeLRU, pilosa.CacheTypeNone}[r.Intn(4)]
	p.Name += fmt.Sprintf("/rows%v/%s/val*%d+%d/n%d/%s", rs[:d.NRows], p.Quantum, p.VMul, p.VOff, nodes, p.Cache)
	return p
}

// Col maps an abstract column.
func (p *Profile) Col(i int) uint64 {
	if i < len(p.Cols) {
		return p.Cols[i]
	}
	if p.Window {
		return p.Cols[0] + uint64(i)
	}
	panic(fmt.Sprintf("abstract column %d outside the profile", i))
}

// ColSet maps a set of abstract columns (ascending) to concrete ids (ascending).
func (p *Profile) ColSet(a []int) []uint64 {
	out := make([]uint64, len(a))
	for i, x := range a {
		out[i] = p.Col(x)
	}
	sort.Slice(out, func(i, j int) bool { return out[i] < out[j] })
	return out
}

// Row maps an abstract row of a field; bool rows are 0/1 themselves.
func (p *Profile) Row(fld string, r int) uint64 {
	if fld == "b" {
		return uint64(r)
	}
	return p.Rows[r]
}

// RowBack maps a concrete row id back to the abstract one (-1 when unknown).
func (p *Profile) RowBack(fld string, id uint64) int {
	if fld == "b" {
		return int(id)
	}
	for r := 1; r < len(p.Rows); r++ {
		if p.Rows[r] == id {
			return r
		}
	}
	return -1
}

// Val maps an abstract int value.
func (p *Profile) Val(x int) int64 { return int64(x)*p.VMul + p.VOff }

// Time returns abstract time point / cut j (1-based).
func (p *Profile) Time(j int) string { return p.Times[j-1] }

// TimeT parses Time(j).
func (p *Profile) TimeT(j int) time.Time {
	t, err := time.Parse(timeFmt, p.Times[j-1])
	if err != nil {
		panic(err)
	}
	return t.UTC()
}

// ---------------------------------------------------------------------------------------
// servers

// Node is one in-process cluster reused for many behaviours.
type Node struct {
	C   test.Cluster
	N   int
	seq int64
}

// Pool hands out clusters of 1 and 3 nodes.
type Pool struct {
	one   chan *Node
	three chan *Node
	all   []*Node
	dirs  []string
}

var indexSeq int64

var traceReq = os.Getenv("VERIF_TRACE") != ""

// HangHook is called (once, from a timer goroutine) when a request has not returned after
// hangAfter; Drive installs it.
var HangHook func(index, pql string)

var hangAfter = time.Duration(behav.EnvInt("VERIF_HANG_S", 60)) * time.Second

// NewPool starts nOne single-node servers and nThree 3-node clusters.
func NewPool(t testing.TB, nOne, nThree int) *Pool {
	p := &Pool{one: make(chan *Node, nOne+1), three: make(chan *Node, nThree+1)}
	var mu sync.Mutex
	var wg sync.WaitGroup
	start := func(n int, ch chan *Node) {
		defer wg.Done()
		c := test.MustRunCluster(t, n)
		nd := &Node{C: c, N: n}
		mu.Lock()
		p.all = append(p.all, nd)
		for _, cmd := range c {
			p.dirs = append(p.dirs, cmd.Config.DataDir)
		}
		mu.Unlock()
		ch <- nd
	}
	for i := 0; i < nOne; i++ {
		wg.Add(1)
		go start(1, p.one)
	}
	for i := 0; i < nThree; i++ {
		wg.Add(1)
		go start(3, p.three)
	}
	wg.Wait()
	return p
}

// Get blocks until a cluster of the requested size is free.
func (p *Pool) Get(nodes int) *Node {
	if nodes == 3 {
		return <-p.three
	}
	return <-p.one
}

// Put returns a cluster.
func (p *Pool) Put(n *Node) {
	if n.N == 3 {
		p.three <- n
	} else {
		p.one <- n
	}
}

// Replace discards a cluster whose state can no longer be trusted (panic inside a request)
// and starts a fresh one in its place.
func (p *Pool) Replace(t testing.TB, n *Node) {
	func() {
		defer func() { recover() }()
		n.C.Close()
	}()
	c := test.MustRunCluster(t, n.N)
	nd := &Node{C: c, N: n.N}
	p.all = append(p.all, nd)
	for _, cmd := range c {
		p.dirs = append(p.dirs, cmd.Config.DataDir)
	}
	p.Put(nd)
}

// Close stops every cluster and removes the data directories.
func (p *Pool) Close() {
	for _, n := range p.all {
		func() {
			defer func() { recover() }()
			n.C.Close()
		}()
	}
	for _, d := range p.dirs {
		if strings.Contains(filepath.Base(d), "pilosa-") {
			os.RemoveAll(d)
		}
	}
}

// FieldSpec describes a field to create.
type FieldSpec struct {
	Name string
	Type string // set | time | int | mutex | bool
	Keys bool
}

// Sess is one behaviour replayed on one cluster in a fresh index.
type Sess struct {
	Nd    *Node
	Index string
	P     *Profile
	rng   *rand.Rand
	Log   []string // every request sent, for failure details
	Only0 bool     // send every request to node 0 (key translation is the coordinator's job; C24 covers replicas)
	shards map[uint64]bool // shards written so far (clusters: see WaitShards)
	ctx   context.Context
}

// NewSess creates a fresh index with the given fields.
func NewSess(nd *Node, name string, p *Profile, fields []FieldSpec, indexKeys bool, salt int64) (*Sess, error) {
	var s *Sess
	var err error
	// creating an index can fail for reasons that have nothing to do with the property
	// (boltdb open timeouts under load): retry before giving up
	for try := 0; try < 3; try++ {
		if try > 0 {
			time.Sleep(time.Duration(try) * 300 * time.Millisecond)
			nd.C[0].API.DeleteIndex(context.Background(), name)
		}
		if s, err = newSess(nd, name, p, fields, indexKeys, salt); err == nil {
			return s, nil
		}
	}
	return nil, err
}

func newSess(nd *Node, name string, p *Profile, fields []FieldSpec, indexKeys bool, salt int64) (*Sess, error) {
	s := &Sess{Nd: nd, P: p, ctx: context.Background(), rng: rand.New(rand.NewSource(salt))}
	s.Index = name
	if name == "" {
		s.Index = fmt.Sprintf("x%d", atomic.AddInt64(&indexSeq, 1))
	}
	api := nd.C[0].API
	if _, err := api.CreateIndex(s.ctx, s.Index, pilosa.IndexOptions{TrackExistence: p.Exist, Keys: indexKeys}); err != nil {
		// In a cluster the broadcast of the new index can lose a race against the schema
		// carried by the gossiped node status: the peer already has the index and answers
		// "already exists". The index name is unique, so the index is the one just created.
		if !strings.Contains(err.Error(), "already exists") {
			return nil, fmt.Errorf("CreateIndex: %v", err)
		}
	}
	for _, f := range fields {
		if err := s.CreateField(f); err != nil {
			return nil, err
		}
	}
	return s, nil
}

// CreateField creates one field according to the profile.
func (s *Sess) CreateField(f FieldSpec) error {
	p := s.P
	var opts []pilosa.FieldOption
	cache := p.Cache
	if cache == "" {
		cache = pilosa.CacheTypeRanked
	}
	switch f.Type {
	case "set":
		opts = append(opts, pilosa.OptFieldTypeSet(cache, 1000))
	case "time":
		opts = append(opts, pilosa.OptFieldTypeTime(pilosa.TimeQuantum(p.Quantum)))
	case "int":
		opts = append(opts, pilosa.OptFieldTypeInt(p.VLo, p.VHi))
	case "mutex":
		opts = append(opts, pilosa.OptFieldTypeMutex(cache, 1000))
	case "bool":
		opts = append(opts, pilosa.OptFieldTypeBool())
	}
	if f.Keys {
		opts = append(opts, pilosa.OptFieldKeys())
	}
	if _, err := s.Nd.C[0].API.CreateField(s.ctx, s.Index, f.Name, opts...); err != nil {
		if !strings.Contains(err.Error(), "already exists") { // see NewSess
			return fmt.Errorf("CreateField %s: %v", f.Name, err)
		}
	}
	return nil
}

// Close deletes the index.
func (s *Sess) Close() {
	defer func() { recover() }()
	s.Nd.C[0].API.DeleteIndex(s.ctx, s.Index)
}

// api picks the node that receives the next request (node 0 on single servers; any node
// of a cluster, so that forwarding between nodes is exercised).
func (s *Sess) api() *pilosa.API {
	if s.Nd.N == 1 || s.Only0 {
		return s.Nd.C[0].API
	}
	return s.Nd.C[s.rng.Intn(s.Nd.N)].API
}

// Query sends PQL and returns the results of its calls.
func (s *Sess) Query(pql string) ([]interface{}, error) {
	s.Log = append(s.Log, pql)
	if traceReq {
		fmt.Fprintf(os.Stderr, "REQ %s %s\n", s.Index, pql)
	}
	// a request that does not return is a verdict too: the watchdog records it and ends the
	// process (a goroutine spinning inside the server cannot be stopped any other way)
	var wd *time.Timer
	if HangHook != nil {
		wd = time.AfterFunc(hangAfter, func() { HangHook(s.Index, pql) })
	}
	resp, err := s.api().Query(s.ctx, &pilosa.QueryRequest{Index: s.Index, Query: pql})
	if wd != nil {
		wd.Stop()
	}
	if err != nil {
		return nil, err
	}
	if s.Nd.N > 1 && strings.Contains(pql, "Set(") {
		var cols []uint64
		for _, m := range setColRE.FindAllStringSubmatch(pql, -1) {
			c, _ := strconv.ParseUint(m[1], 10, 64)
			cols = append(cols, c)
		}
		s.NoteCols(cols...)
		if len(cols) == 0 {
			s.SettleShards()
		}
	}
	return resp.Results, nil
}

// owner returns the API of a node owning the shard.
func (s *Sess) owners(shard uint64) ([]*pilosa.API, error) {
	if s.Nd.N == 1 {
		return []*pilosa.API{s.Nd.C[0].API}, nil
	}
	nodes, err := s.Nd.C[0].API.ShardNodes(s.ctx, s.Index, shard)
	if err != nil {
		return nil, err
	}
	var out []*pilosa.API
	for _, n := range nodes {
		for _, cmd := range s.Nd.C {
			if cmd.API.Node().ID == n.ID {
				out = append(out, cmd.API)
			}
		}
	}
	if len(out) == 0 {
		return nil, fmt.Errorf("no owner found for shard %d", shard)
	}
	return out, nil
}

// NoteCols records the shards of written columns; on a cluster it then waits until every
// node knows every written shard. A node learns of a shard created on another node by an
// asynchronous broadcast; a query it coordinates before that skips the shard. That window
// is cluster membership propagation (C17/C20-C23), not query semantics, and it makes
// failures irreproducible, so the replay waits it out.
func (s *Sess) NoteCols(cols ...uint64) {
	if s.shards == nil {
		s.shards = map[uint64]bool{}
	}
	fresh := false
	for _, c := range cols {
		if !s.shards[c/SW] {
			s.shards[c/SW] = true
			fresh = true
		}
	}
	if !fresh || s.Nd.N == 1 {
		return
	}
	deadline := time.Now().Add(3 * time.Second)
	for {
		ok := true
		for _, cmd := range s.Nd.C {
			bm := cmd.API.AvailableShardsByIndex(s.ctx)[s.Index]
			for sh := range s.shards {
				if bm == nil || !bm.Contains(sh) {
					ok = false
				}
			}
		}
		if ok || time.Now().After(deadline) {
			return
		}
		time.Sleep(5 * time.Millisecond)
	}
}

// SettleShards waits until all nodes of a cluster report the same available shards (used
// where the written columns are not known to the harness: column keys).
func (s *Sess) SettleShards() {
	if s.Nd.N == 1 {
		return
	}
	deadline := time.Now().Add(3 * time.Second)
	same := 0
	for same < 2 && time.Now().Before(deadline) {
		var first []uint64
		eq := true
		for i, cmd := range s.Nd.C {
			var cur []uint64
			if bm := cmd.API.AvailableShardsByIndex(s.ctx)[s.Index]; bm != nil {
				cur = bm.Slice()
			}
			if i == 0 {
				first = cur
			} else if !equalU64(first, cur) {
				eq = false
			}
		}
		if eq {
			same++
		} else {
			same = 0
		}
		time.Sleep(4 * time.Millisecond)
	}
}

var setColRE = regexp.MustCompile(`Set\((\d+),`)

// Bit is one concrete bit of an import.
type Bit struct {
	Row, Col uint64
	TS       int64 // unix nanoseconds, 0 = none
}

// ImportIDs sends bits through API.Import, one request per shard, to the shard's owner.
// The order of the bits is preserved inside each shard's request.
func (s *Sess) ImportIDs(field string, bits []Bit, clear bool) error {
	s.Log = append(s.Log, fmt.Sprintf("Import(%s, clear=%v, %v)", field, clear, bits))
	byShard := map[uint64][]Bit{}
	var order []uint64
	for _, b := range bits {
		sh := b.Col / SW
		if _, ok := byShard[sh]; !ok {
			order = append(order, sh)
		}
		byShard[sh] = append(byShard[sh], b)
	}
	for _, sh := range order {
		req := &pilosa.ImportRequest{Index: s.Index, Field: field, Shard: sh}
		hasTS := false
		for _, b := range byShard[sh] {
			req.RowIDs = append(req.RowIDs, b.Row)
			req.ColumnIDs = append(req.ColumnIDs, b.Col)
			req.Timestamps = append(req.Timestamps, b.TS)
			hasTS = hasTS || b.TS != 0
		}
		if !hasTS {
			req.Timestamps = nil
		}
		apis, err := s.owners(sh)
		if err != nil {
			return err
		}
		for _, api := range apis {
			r := *req
			r.RowIDs = append([]uint64(nil), req.RowIDs...)
			r.ColumnIDs = append([]uint64(nil), req.ColumnIDs...)
			if err := api.Import(s.ctx, &r, pilosa.OptImportOptionsClear(clear)); err != nil {
				return err
			}
		}
		s.NoteCols(sh * SW)
	}
	return nil
}

// Recalculate refreshes the TopN caches on every node.
func (s *Sess) Recalculate() error {
	for _, cmd := range s.Nd.C {
		if err := cmd.API.RecalculateCaches(s.ctx); err != nil {
			return err
		}
	}
	return nil
}

// ---------------------------------------------------------------------------------------
// result helpers

func u64s(a []uint64) string {
	if len(a) > 40 {
		return fmt.Sprintf("%v…(%d)", a[:40], len(a))
	}
	return fmt.Sprint(a)
}

func equalU64(a, b []uint64) bool {
	if len(a) != len(b) {
		return false
	}
	for i := range a {
		if a[i] != b[i] {
			return false
		}
	}
	return true
}

// rowColumns extracts the columns of a Row result.
func rowColumns(v interface{}) ([]uint64, error) {
	r, ok := v.(*pilosa.Row)
	if !ok {
		return nil, fmt.Errorf("result is %T, not a row", v)
	}
	return r.Columns(), nil
}

// mismatch describes the first disagreement of a replay.
type mismatch struct {
	Step    int
	Op      string
	Kind    string // top-level call of the query that disagreed
	Symptom string
	Text    string
}

func (m *mismatch) String() string {
	return fmt.Sprintf("step %d (%s/%s) %s: %s", m.Step, m.Op, m.Kind, m.Symptom, m.Text)
}

func lastLog(log []string, n int) string {
	if len(log) > n {
		return "… " + strings.Join(log[len(log)-n:], " ; ")
	}
	return strings.Join(log, " ; ")
}
