package queryb

import (
	"fmt"
	"math/rand"
	"strings"
	"testing"

	"verif/harness/behav"
)

var c15Fields = []FieldSpec{{"f", "set", false}, {"g", "set", false}, {"t", "time", false}, {"v", "int", false}, {"e", "set", false}}

// checkRow compares a Row result with the expected abstract set.
func checkRow(p *Profile, got interface{}, want []int) string {
	cols, err := rowColumns(got)
	if err != nil {
		return err.Error()
	}
	exp := p.ColSet(want)
	if !equalU64(cols, exp) {
		return fmt.Sprintf("columns = %s, want %s (abstract %v)", u64s(cols), u64s(exp), want)
	}
	return ""
}

func boolResult(v interface{}) (bool, string) {
	b, ok := v.(bool)
	if !ok {
		return false, fmt.Sprintf("result is %T (%v), not a bool", v, v)
	}
	return b, ""
}

// endQueries renders the projected-state comparison of the final "end" record: one request
// with one call per row of every listed field, per int value, per time point, and existence.
func endCheck(s *Sess, st behav.Step, d Dim, fields []string, withVals, withTimes bool, rowArg func(string, int) string) (string, string) {
	p := s.P
	if rowArg == nil {
		rowArg = func(fld string, r int) string { return fmt.Sprint(p.Row(fld, r)) }
	}
	var calls []string
	var wants [][]int
	var labels []string
	rows := behav.ToMap(st["rows"])
	for _, fld := range fields {
		for _, e := range behav.ToList(rows[fld]) {
			m := behav.ToMap(e)
			r := behav.ToInt(m["r"])
			calls = append(calls, fmt.Sprintf("Row(%s=%s)", fld, rowArg(fld, r)))
			wants = append(wants, behav.ToInts(m["cols"]))
			labels = append(labels, "Row")
		}
	}
	if withVals {
		byVal := map[int][]int{}
		var nn []int
		for _, e := range behav.ToList(st["vals"]) {
			cv := behav.ToInts(e)
			byVal[cv[1]] = append(byVal[cv[1]], cv[0])
			nn = append(nn, cv[0])
		}
		for x := -d.VAbs; x <= d.VAbs; x++ {
			calls = append(calls, fmt.Sprintf("Row(v == %d)", p.Val(x)))
			wants = append(wants, byVal[x])
			labels = append(labels, "RowCond")
		}
		calls = append(calls, "Row(v != null)")
		wants = append(wants, nn)
		labels = append(labels, "RowCond")
	}
	if withTimes {
		type key struct{ r, ts int }
		by := map[key][]int{}
		for _, e := range behav.ToList(st["tb"]) {
			b := behav.ToInts(e)
			if b[2] != 0 {
				by[key{b[0], b[2]}] = append(by[key{b[0], b[2]}], b[1])
			}
		}
		for r := 1; r <= d.NRows; r++ {
			for j := 1; j <= d.NT; j++ {
				calls = append(calls, fmt.Sprintf("Row(t=%s, from='%s', to='%s')", rowArg("t", r), p.Time(j), p.Time(j+1)))
				w := by[key{r, j}]
				sortInts(w)
				wants = append(wants, w)
				labels = append(labels, "RowTime")
			}
		}
	}
	if p.Exist && st.Has("ex") && rowArg("f", 1) == fmt.Sprint(p.Row("f", 1)) {
		calls = append(calls, "Not(Union())")
		wants = append(wants, st.Ints("ex"))
		labels = append(labels, "Not")
	}
	res, err := s.Query(strings.Join(calls, " "))
	if err != nil {
		return "final state: " + err.Error(), "error"
	}
	for i := range calls {
		if mm := checkRow(p, res[i], wants[i]); mm != "" {
			return fmt.Sprintf("final state %s: %s", calls[i], mm), labels[i]
		}
	}
	return "", ""
}

func sortInts(a []int) {
	for i := 1; i < len(a); i++ {
		for j := i; j > 0 && a[j] < a[j-1]; j-- {
			a[j], a[j-1] = a[j-1], a[j]
		}
	}
}

// writePQL renders the single-call writes shared by the C15 and C16 alphabets.
func writePQL(p *Profile, st behav.Step) string {
	switch st.Str("op") {
	case "Set":
		return fmt.Sprintf("Set(%d, %s=%d)", p.Col(st.Int("c")), st.Str("f"), p.Row(st.Str("f"), st.Int("r")))
	case "SetT":
		if ts := st.Int("ts"); ts != 0 {
			return fmt.Sprintf("Set(%d, t=%d, %s)", p.Col(st.Int("c")), p.Row("t", st.Int("r")), p.Time(ts))
		}
		return fmt.Sprintf("Set(%d, t=%d)", p.Col(st.Int("c")), p.Row("t", st.Int("r")))
	case "SetV":
		return fmt.Sprintf("Set(%d, v=%d)", p.Col(st.Int("c")), p.Val(st.Int("x")))
	case "Clear":
		return fmt.Sprintf("Clear(%d, %s=%d)", p.Col(st.Int("c")), st.Str("f"), p.Row(st.Str("f"), st.Int("r")))
	case "ClearRow":
		return fmt.Sprintf("ClearRow(%s=%d)", st.Str("f"), p.Row(st.Str("f"), st.Int("r")))
	}
	return ""
}

// importStep realises the spec's Import(fld, r, S) action.
func importStep(s *Sess, st behav.Step) error {
	var bits []Bit
	for _, a := range st.Ints("S") {
		bits = append(bits, Bit{Row: s.P.Row(st.Str("f"), st.Int("r")), Col: s.P.Col(a)})
	}
	return s.ImportIDs(st.Str("f"), bits, false)
}

// runC15 replays one C15 behaviour.
func runC15(nd *Node, c *Case, res *behav.Result) *mismatch {
	p := c.Prof
	s, err := NewSess(nd, c.Index, p, c15Fields, false, c.Seed+int64(c.Idx))
	if err != nil {
		res.Cover("setup_failed")
		res.SetInconclusive("could not create index/fields: " + err.Error())
		return nil
	}
	defer s.Close()
	all := append([]behav.Behaviour{c.Beh}, c.More...)
	for k, beh := range all {
		if mm := runC15Beh(s, c, beh, k > 0, res); mm != nil {
			c.Beh, c.More = beh, nil
			return mm
		}
	}
	return nil
}

// c15GroupKey groups read-only behaviours (stack steps only) by their initial dataset.
func c15GroupKey(b behav.Behaviour) string {
	if len(b) == 0 || b[0].Str("op") != "init" {
		return ""
	}
	for _, st := range b[1:] {
		switch st.Str("op") {
		case "push", "apply", "drop", "end", "not_err":
		default:
			return ""
		}
	}
	return behav.JSON(b[0])
}

func runC15Beh(s *Sess, c *Case, beh behav.Behaviour, skipInit bool, res *behav.Result) *mismatch {
	p := c.Prof
	tainted := false
	// the node receiving each request is a function of the behaviour alone (replayable)
	s.rng = rand.New(rand.NewSource(int64(behav.Hash64(behav.JSON(beh))>>1) + c.Seed))
	for i, st := range beh {
		op := st.Str("op")
		mk := func(kind, sym, text string) *mismatch {
			// known finding: the executor evaluates Shift per shard, so a bit carried over a
			// shard edge is invisible to an enclosing operator / Not, and Store misplaces it
			if (st.Bool("xn") || tainted) && p.EdgeIsShard && sym != "panic" {
				sym = "shift_shard_carry"
			}
			return &mismatch{Step: i, Op: op, Kind: kind, Symptom: sym, Text: text + " | profile " + p.Name + " | requests: " + lastLog(s.Log, 14)}
		}
		res.Cover("c15:op:" + op)
		wpql := writePQL(p, st)
		switch op {
		case "Store":
			src, _ := Render(p, decodeProg(st["sq"]), nil)
			wpql = fmt.Sprintf("Store(%s, %s=%d)", src, st.Str("f"), p.Row(st.Str("f"), st.Int("r")))
			if st.Bool("sxs") && p.EdgeIsShard {
				tainted = true
			}
		case "init":
			if skipInit {
				continue
			}
			for _, x := range []struct {
				key, fld string
				r        int
			}{{"f1", "f", 1}, {"g1", "g", 1}, {"f2", "f", 2}} {
				var bits []Bit
				for _, a := range st.Ints(x.key) {
					bits = append(bits, Bit{Row: p.Row(x.fld, x.r), Col: p.Col(a)})
				}
				if len(bits) > 0 {
					if err := s.ImportIDs(x.fld, bits, false); err != nil {
						return mk("Import", "error", err.Error())
					}
				}
			}
		case "Import":
			if err := importStep(s, st); err != nil {
				return mk("Import", "error", err.Error())
			}
		case "not_err":
			q, _ := Render(p, decodeProg(st["eq"]), nil)
			if _, err := s.Query(q); err == nil {
				return mk("Not", "missing_error", "Not() on an index without existence tracking returned no error: "+q)
			}
		case "end":
			if text, kind := endCheck(s, st, c.Dim, []string{"f", "g", "t"}, true, true, nil); text != "" {
				sym := "wrong_state"
				if kind == "error" {
					sym = "error"
				}
				return mk(kind, sym, text)
			}
		}
		if wpql != "" {
			r, err := s.Query(wpql)
			if err != nil {
				return mk(op, "error", wpql+": "+err.Error())
			}
			got, bad := boolResult(r[0])
			if bad != "" {
				return mk(op, "wrong_result", wpql+": "+bad)
			}
			want := st.Bool("ch")
			if i == c.CorruptStep {
				want = !want
			}
			if st.Bool("cmp") && got != want {
				return mk(op, "wrong_changed", fmt.Sprintf("%s returned %v, want %v", wpql, got, want))
			}
		}
		// the expression on top of the stack, evaluated over the state after this step
		prog := decodeProg(st["q"])
		if len(prog) == 0 {
			continue
		}
		q, kind := Render(p, prog, nil)
		for _, o := range progOps(prog) {
			res.Cover("c15:expr:" + o)
		}
		r, err := s.Query(q + " Count(" + q + ")")
		if err != nil {
			return mk(kind, "error", q+": "+err.Error())
		}
		want := st.Ints("qv")
		if i == c.CorruptStep {
			want = append(append([]int{}, want...), c.Dim.NCols-1)
			if len(st.Ints("qv")) > 0 && st.Ints("qv")[len(st.Ints("qv"))-1] == c.Dim.NCols-1 {
				want = want[:len(want)-2]
			}
		}
		if mm := checkRow(p, r[0], want); mm != "" {
			return mk(kind, "wrong_result", q+": "+mm)
		}
		if n, ok := r[1].(uint64); !ok || n != uint64(len(want)) {
			return mk(kind, "wrong_count", fmt.Sprintf("Count(%s) = %v, want %d", q, r[1], len(want)))
		}
		if len(want) > 0 {
			res.Cover("c15:nonempty_result")
		}
	}
	return nil
}

func TestC15(t *testing.T) { Drive(t, "C15", runC15, nil, c15GroupKey) }
