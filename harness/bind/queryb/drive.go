package queryb

import (
	"encoding/json"
	"fmt"
	"os"
	"runtime"
	"strings"
	"sync"
	"testing"

	"verif/harness/behav"
)

// Case is a self-contained replay: one behaviour under one explicit profile.
type Case struct {
	Prop    string          `json:"prop"`
	Beh     behav.Behaviour `json:"beh"`
	Dim     Dim             `json:"dim"`
	Prof    *Profile        `json:"profile"`
	Seed    int64           `json:"seed"`
	Idx     int             `json:"idx"`
	Variant string          `json:"variant,omitempty"`
	// Index is the index name: shard placement in a cluster is a hash of (index, shard), so a
	// replay must use the same name to reach the same placement.
	Index string `json:"index"`
	// More are further read-only behaviours with the same initial dataset, replayed in the
	// same index (never part of a replay file: a failing one becomes Beh).
	More []behav.Behaviour `json:"-"`
	// CorruptStep >= 0 flips one expected value (binding self-test).
	CorruptStep int `json:"corrupt_step,omitempty"`
}

// runner replays one case on a cluster; nil means every answer agreed with the specification.
type runner func(nd *Node, c *Case, res *behav.Result) *mismatch

func firstLines(s string, n int) string {
	lines := strings.Split(s, "\n")
	if len(lines) > n {
		lines = lines[:n]
	}
	return strings.Join(lines, "\n")
}

// runProtected runs the case, converting panics into a mismatch (in code) or an
// inconclusive result (harness bug). broken reports that the cluster must be replaced.
func runProtected(run runner, nd *Node, c *Case, res *behav.Result) (mm *mismatch, broken bool) {
	pv, stack := behav.Protect(func() { mm = run(nd, c, res) })
	if pv != nil {
		txt := fmt.Sprintf("panic: %v\n%s", pv, firstLines(stack, 40))
		if !behav.PanicInCode(stack) {
			res.SetInconclusive("harness panic: " + txt)
			return nil, true
		}
		return &mismatch{Step: -1, Op: "?", Kind: "?", Symptom: "panic", Text: txt}, true
	}
	return mm, false
}

func fail(res *behav.Result, c *Case, mm *mismatch) {
	res.Fail(behav.Failure{
		Match: map[string]string{
			"op": mm.Op, "kind": mm.Kind, "symptom": mm.Symptom,
			"nodes": fmt.Sprint(c.Prof.Nodes), "variant": c.Variant,
		},
		Detail: fmt.Sprintf("%s behaviour #%d profile %s variant %q: %s", c.Prop, c.Idx, c.Prof.Name, c.Variant, mm.String()),
		Replay: c,
	})
}

// Drive is the common test body: replay mode, or all behaviours of $VERIF_BEH in parallel
// on a pool of servers. variants lists the variants every behaviour is replayed under
// (nil: one unnamed variant).
func Drive(t *testing.T, prop string, run runner, variants func(i int) []string, groupKey func(b behav.Behaviour) string) {
	res := behav.NewResult()
	defer func() {
		if err := res.Write(); err != nil {
			t.Fatal(err)
		}
	}()
	// requests that never return: record the case as a failure, write the result, leave
	var running sync.Map // index name -> *Case
	var hangOnce sync.Once
	HangHook = func(index, pql string) {
		hangOnce.Do(func() {
			if v, ok := running.Load(index); ok {
				c := v.(*Case)
				fail(res, c, &mismatch{Step: -1, Op: "?", Kind: callName(pql), Symptom: "hang",
					Text: fmt.Sprintf("request did not return within %v: %s", hangAfter, pql)})
			} else {
				res.SetInconclusive("a request did not return: " + pql)
			}
			res.Write()
			os.Exit(3)
		})
	}
	if raw, ok := behav.LoadReplay(); ok {
		var c Case
		if err := json.Unmarshal(raw, &c); err != nil {
			t.Fatal(err)
		}
		c.CorruptStep = -1
		pool := newPoolFor(t, c.Prof.Nodes)
		defer pool.Close()
		nd := pool.Get(c.Prof.Nodes)
		res.Evaluations = 1
		running.Store(c.Index, &c)
		mm, _ := runProtected(run, nd, &c, res)
		if mm != nil {
			fail(res, &c, mm)
		}
		return
	}
	behs := behav.LoadEnv()
	d := DimFromEnv()
	seed := behav.Seed()
	nOne := behav.EnvInt("VERIF_SERVERS", runtime.GOMAXPROCS(0)*3/4)
	if nOne < 2 {
		nOne = 2
	}
	every3 := behav.EnvInt("VERIF_EVERY3", 6) // every n-th behaviour runs on a 3-node cluster (0: never)
	nThree := 0
	if every3 > 0 {
		nThree = behav.EnvInt("VERIF_CLUSTERS", 2)
	}
	corrupt := behav.EnvInt("VERIF_CORRUPT", 0) == 1 // binding self-test
	pool := NewPool(t, nOne, nThree)
	defer pool.Close()
	type job struct {
		bi      int
		variant string
		more    []int
	}
	var jobs []job
	groups := map[string]int{} // group key -> index of the open job
	for bi := range behs {
		vs := []string{""}
		if variants != nil {
			vs = variants(bi)
		}
		if groupKey != nil {
			if k := groupKey(behs[bi]); k != "" {
				if ji, ok := groups[k]; ok && len(jobs[ji].more) < 150 {
					jobs[ji].more = append(jobs[ji].more, bi)
					continue
				}
				groups[k] = len(jobs)
			}
		}
		for _, v := range vs {
			jobs = append(jobs, job{bi: bi, variant: v})
		}
	}
	workers := nOne + nThree
	t.Setenv("VERIF_WORKERS", fmt.Sprint(workers))
	behav.Parallel(len(jobs), func(i int) {
		j := jobs[i]
		nodes := 1
		if every3 > 0 && j.bi%every3 == every3-1 {
			nodes = 3
		}
		c := &Case{Prop: prop, Beh: behs[j.bi], Dim: d, Seed: seed, Idx: j.bi, Variant: j.variant, CorruptStep: -1}
		c.Prof = MakeProfile(d, seed, j.bi, nodes)
		c.Index = fmt.Sprintf("b%ds%dv%d", j.bi, seed, behav.Hash64(j.variant)%1000)
		for _, mi := range j.more {
			c.More = append(c.More, behs[mi])
		}
		if corrupt && j.bi%7 == 3 {
			c.CorruptStep = len(c.Beh) / 2
		}
		nd := pool.Get(nodes)
		running.Store(c.Index, c)
		mm, broken := runProtected(run, nd, c, res)
		running.Delete(c.Index)
		// A new index can reach a peer through the gossiped schema before (and without) its
		// existence field; requests then fail with "local field not found: _exists". That is a
		// schema-propagation race of index creation, not a query answer: run the case again
		// in another index.
		for try := 0; try < 2 && mm != nil && !broken && strings.Contains(mm.Text, "local field not found"); try++ {
			res.Cover("schema_race_retry")
			c.Index += "r"
			running.Store(c.Index, c)
			mm, broken = runProtected(run, nd, c, res)
			running.Delete(c.Index)
		}
		if broken {
			pool.Replace(t, nd)
		} else {
			pool.Put(nd)
		}
		for k := 0; k <= len(j.more); k++ {
			res.CountEval()
			res.CountNontrivial()
		}
		if i%(len(jobs)/5+1) == 0 {
			res.AddSample(map[string]interface{}{"behaviour": c.Beh, "profile": c.Prof.Name, "variant": j.variant})
		}
		if mm != nil {
			fail(res, c, mm)
		}
	}, func(i int, v interface{}, stack string) {
		res.SetInconclusive(fmt.Sprintf("harness panic outside a replay: %v\n%s", v, firstLines(stack, 30)))
	})
}

func newPoolFor(t testing.TB, nodes int) *Pool {
	if nodes == 3 {
		return NewPool(t, 0, 1)
	}
	return NewPool(t, 1, 0)
}

// callName returns the name of the first call of a PQL string.
func callName(pql string) string {
	if i := strings.Index(pql, "("); i > 0 {
		return pql[:i]
	}
	return pql
}
