package queryb

// TestC15Row binds spec/RowAlgebra.tla (C15, anchor row.go) to the real pilosa.Row: the
// binary set operations on rows that span several shards, where the two operands hold
// different sets of segments (including present-but-empty ones).

import (
	"encoding/json"
	"fmt"
	"sort"
	"testing"

	"github.com/pilosa/pilosa"

	"verif/harness/behav"
)

type rowCase struct {
	Step  behav.Step `json:"step"`
	Shape string     `json:"shape"`
}

// rowBlock: concrete columns (inside shard s) of abstract column c under a shape.
func rowBlock(shape string, s, c int) []uint64 {
	base := uint64(s) * pilosa.ShardWidth
	switch shape {
	case "edge": // first / last column of the shard, container edges
		e := []uint64{0, pilosa.ShardWidth - 1, 65535, 65536}
		return []uint64{base + e[c%len(e)]}
	case "block":
		return []uint64{base + uint64(c)*70000 + 3, base + uint64(c)*70000 + 4, base + uint64(c)*70000 + 65540}
	default: // single
		return []uint64{base + uint64(c)*7 + 1}
	}
}

const rowMarker = 200001 // marker column (inside each shard) used to create a segment, then removed

// buildRow returns a row that has a segment for exactly the shards in seg and the given bits.
// The marker bits are removed with a Difference whose operands hold the same shards on both
// sides (the aligned path), so the construction does not depend on the walk under test.
func buildRow(shape string, seg []int, bits [][]int) (*pilosa.Row, []uint64, error) {
	full, mark := pilosa.NewRow(), pilosa.NewRow()
	for _, s := range seg {
		m := uint64(s)*pilosa.ShardWidth + rowMarker
		full.SetBit(m)
		mark.SetBit(m)
	}
	var want []uint64
	for _, b := range bits {
		for _, col := range rowBlock(shape, b[0], b[1]) {
			full.SetBit(col)
			want = append(want, col)
		}
	}
	sort.Slice(want, func(i, j int) bool { return want[i] < want[j] })
	r := full.Difference(mark)
	if len(r.Segments()) != len(seg) {
		return nil, nil, fmt.Errorf("built row has %d segments, want %d", len(r.Segments()), len(seg))
	}
	if got := r.Columns(); !sameCols(got, want) {
		return nil, nil, fmt.Errorf("built row has columns %v, want %v", got, want)
	}
	return r, want, nil
}

func sameCols(a, b []uint64) bool {
	if len(a) != len(b) {
		return false
	}
	for i := range a {
		if a[i] != b[i] {
			return false
		}
	}
	return true
}

func pairs(v interface{}) [][]int {
	var out [][]int
	for _, p := range behav.ToList(v) {
		out = append(out, behav.ToInts(p))
	}
	return out
}

// runRow executes one case; what == "" means agreement, "harness" a problem of the driver.
func runRow(c *rowCase) (what, detail string) {
	st := c.Step
	op := st.Str("op")
	a, acols, err := buildRow(c.Shape, st.Ints("aseg"), pairs(st["abits"]))
	if err != nil {
		return "harness", err.Error()
	}
	b, bcols, err := buildRow(c.Shape, st.Ints("bseg"), pairs(st["bbits"]))
	if err != nil {
		return "harness", err.Error()
	}
	var want []uint64
	for _, p := range pairs(st["want"]) {
		want = append(want, rowBlock(c.Shape, p[0], p[1])...)
	}
	sort.Slice(want, func(i, j int) bool { return want[i] < want[j] })
	var res *pilosa.Row
	switch op {
	case "Union":
		res = a.Union(b)
	case "Union3":
		c3, c3cols, err := buildRow(c.Shape, st.Ints("cseg"), pairs(st["cbits"]))
		if err != nil {
			return "harness", err.Error()
		}
		res = a.Union(b, c3)
		if got := c3.Columns(); !sameCols(got, c3cols) {
			return "operand_changed", fmt.Sprintf("Union3: third operand now has columns %v, want %v", got, c3cols)
		}
	case "Merge":
		a.Merge(b)
		res = a
	case "Intersect":
		res = a.Intersect(b)
	case "Difference":
		res = a.Difference(b)
	case "Xor":
		res = a.Xor(b)
	default:
		return "harness", "unknown op " + op
	}
	desc := fmt.Sprintf("%s of a (segments %v, columns %v) and b (segments %v, columns %v), shape %s", op, st.Ints("aseg"), acols, st.Ints("bseg"), bcols, c.Shape)
	if got := res.Columns(); !sameCols(got, want) {
		return "row_algebra", fmt.Sprintf("%s: columns %v, want %v", desc, got, want)
	}
	if got := res.Count(); got != uint64(len(want)) {
		return "row_algebra", fmt.Sprintf("%s: Count() = %d, want %d", desc, got, len(want))
	}
	// (Columns() concatenates the segments in order: a result whose segments are not in
	// ascending shard order fails the comparison above)
	if op != "Merge" {
		if got := a.Columns(); !sameCols(got, acols) {
			return "operand_changed", fmt.Sprintf("%s: receiver now has columns %v", desc, got)
		}
	}
	if got := b.Columns(); !sameCols(got, bcols) {
		return "operand_changed", fmt.Sprintf("%s: argument now has columns %v", desc, got)
	}
	return "", ""
}

func TestC15Row(t *testing.T) {
	res := behav.NewResult()
	defer func() {
		if err := res.Write(); err != nil {
			t.Fatal(err)
		}
	}()
	exec := func(c *rowCase) {
		var what, detail string
		pv, stack := behav.Protect(func() { what, detail = runRow(c) })
		if pv != nil {
			if !behav.PanicInCode(stack) {
				res.SetInconclusive(fmt.Sprintf("harness panic: %v\n%s", pv, stack))
				return
			}
			what, detail = "panic", fmt.Sprintf("panic: %v\n%.2000s", pv, stack)
		}
		if what == "harness" {
			res.SetInconclusive(detail)
			return
		}
		if what != "" {
			res.Fail(behav.Failure{
				Match:  map[string]string{"op": c.Step.Str("op"), "symptom": what, "level": "row"},
				Detail: detail,
				Replay: c,
			})
		}
	}
	if raw, ok := behav.LoadReplay(); ok {
		var c rowCase
		if err := json.Unmarshal(raw, &c); err != nil {
			t.Fatal(err)
		}
		res.Evaluations = 1
		exec(&c)
		return
	}
	behs := behav.LoadEnv()
	shapes := []string{"single", "edge", "block"}
	behav.Parallel(len(behs)*len(shapes), func(i int) {
		st := behs[i/len(shapes)][0]
		c := &rowCase{Step: st, Shape: shapes[i%len(shapes)]}
		exec(c)
		res.CountEval()
		res.Cover("op:" + st.Str("op"))
		as, bs := st.Ints("aseg"), st.Ints("bseg")
		if !sameInts(as, bs) {
			res.CountNontrivial() // the operands hold different sets of segments
			res.Cover("segments differ")
		}
		if len(bs) > 0 && len(as) > 0 && bs[0] < as[0] {
			res.Cover("argument starts at a lower shard")
		}
		if i%997 == 0 {
			res.AddSample(c)
		}
	}, func(i int, v interface{}, stack string) {
		res.SetInconclusive(fmt.Sprintf("driver panic: %v\n%s", v, stack))
	})
}

func sameInts(a, b []int) bool {
	if len(a) != len(b) {
		return false
	}
	for i := range a {
		if a[i] != b[i] {
			return false
		}
	}
	return true
}
