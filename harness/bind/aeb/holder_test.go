//go:build verif

package aeb

import (
	"context"
	"fmt"
	"os"
	"strings"
	"testing"

	"github.com/pilosa/pilosa"
	"github.com/pilosa/pilosa/test"
)

// HCase is one configuration of spec/AntiEntropyHolder.tla: a cluster with more nodes than
// replicas (ReplicaN = 2), several shards each owned by a ring slice of two nodes, divergent
// contents on the owners, one pass on the initiator.
type HCase struct {
	N       int        `json:"n"`
	Ini     int        `json:"ini"`  // node index, 0-based
	Prim    []int      `json:"prim"` // per shard: index of its primary node
	Owned   []bool     `json:"owned"`
	Init    [][][]bool `json:"init"` // [shard][replica 0 = primary, 1 = next][position]
	Want    [][][]bool `json:"want"`
	Profile int        `json:"profile"`
}

const hfield = "h"
const window = 64 // abstract shard j is realised by a concrete shard in [64j, 64j+63]

// hclus is an n-node cluster with ReplicaN = 2 and, for every abstract shard j and every
// primary p, a concrete shard whose real owners are nodes p and p+1 (table[j][p]); all of
// them exist (are "available shards" of the index), so a pass on any node walks over owned
// and unowned shards interleaved.
type hclus struct {
	c     test.Cluster
	n     int
	table [][]uint64
}

func newHClus(t testing.TB, n, nshards int) (*hclus, error) {
	c := test.MustNewCluster(t, n)
	for _, m := range c {
		m.Config.Cluster.ReplicaN = 2
		m.Config.AntiEntropy.Interval = 0
	}
	if err := c.Start(); err != nil {
		return nil, err
	}
	ctx := context.Background()
	if _, err := c[0].API.CreateIndex(ctx, index, pilosa.IndexOptions{}); err != nil {
		return nil, err
	}
	if _, err := c[0].API.CreateField(ctx, index, hfield, pilosa.OptFieldTypeSet("ranked", 1000)); err != nil {
		return nil, err
	}
	idOf := map[string]int{}
	for i, m := range c {
		idOf[m.API.Node().ID] = i
	}
	h := &hclus{c: c, n: n}
	for j := 0; j < nshards; j++ {
		row := make([]uint64, n)
		found := make([]bool, n)
		for sh := uint64(j * window); sh < uint64((j+1)*window); sh++ {
			nodes, err := c[0].API.ShardNodes(ctx, index, sh)
			if err != nil {
				return nil, err
			}
			if len(nodes) != 2 {
				return nil, fmt.Errorf("shard %d has %d owners, want 2", sh, len(nodes))
			}
			p, ok1 := idOf[nodes[0].ID]
			q, ok2 := idOf[nodes[1].ID]
			if !ok1 || !ok2 || q != (p+1)%n {
				return nil, fmt.Errorf("owners of shard %d are not a ring slice: %s, %s", sh, nodes[0].ID, nodes[1].ID)
			}
			if !found[p] {
				found[p], row[p] = true, sh
			}
		}
		for p := range found {
			if !found[p] {
				return nil, fmt.Errorf("no shard in [%d,%d) has node %d as its primary", j*window, (j+1)*window, p)
			}
		}
		h.table = append(h.table, row)
		// an ordinary replicated write creates the fragment on both owners
		for _, sh := range row {
			q := fmt.Sprintf("Set(%d, %s=0)", sh*SW+9, hfield)
			if _, err := c[0].API.Query(ctx, &pilosa.QueryRequest{Index: index, Query: q}); err != nil {
				return nil, err
			}
		}
	}
	return h, nil
}

func (h *hclus) close() {
	defer func() { recover() }()
	for _, m := range h.c {
		os.RemoveAll(m.Config.DataDir)
	}
	h.c.Close()
}

func (h *hclus) frag(node int, shard uint64) *pilosa.VerifFragment {
	return pilosa.VerifHolderFragment(h.c[node].Server.Holder(), index, hfield, "standard", shard)
}

func runHCase(h *hclus, cs *HCase) (*mismatch, error) {
	base := profiles[cs.Profile%len(profiles)]
	none := []bool{false, false, false, false}
	type slot struct {
		j, p  int
		shard uint64
		used  bool
	}
	var slots []slot
	for j := range h.table {
		for p, sh := range h.table[j] {
			slots = append(slots, slot{j, p, sh, j < len(cs.Prim) && cs.Prim[j] == p})
		}
	}
	prof := func(sh uint64) profile { return profile{shard: sh, c0: base.c0, c1: base.c1} }
	for _, sl := range slots {
		for rep := 0; rep < 2; rep++ {
			node := (sl.p + rep) % h.n
			f := h.frag(node, sl.shard)
			if f == nil {
				return nil, fmt.Errorf("node %d has no fragment of shard %d", node, sl.shard)
			}
			want := none
			if sl.used {
				want = cs.Init[sl.j][rep]
			}
			if err := setExact(f, prof(sl.shard), want); err != nil {
				return nil, err
			}
		}
	}
	desc := func() string {
		var s []string
		for j := range cs.Prim {
			sh := h.table[j][cs.Prim[j]]
			s = append(s, fmt.Sprintf("shard %d (nodes %d,%d%s): %s | %s", sh, cs.Prim[j], (cs.Prim[j]+1)%h.n,
				map[bool]string{true: ", owned by the initiator", false: ""}[cs.Owned[j]],
				renderWant(cs.Init[j][0]), renderWant(cs.Init[j][1])))
		}
		return fmt.Sprintf("%d nodes, 2 replicas, pass on node %d, columns c0=%d c1=%d; before: %s", h.n, cs.Ini, base.c0, base.c1, strings.Join(s, "; "))
	}
	mk := func(m map[string]string, format string, a ...interface{}) *mismatch {
		m["n"] = fmt.Sprint(h.n)
		m["replicas"] = "2"
		return &mismatch{match: m, detail: desc() + "; " + fmt.Sprintf(format, a...)}
	}
	if err := h.c[cs.Ini].Server.SyncData(); err != nil {
		return mk(map[string]string{"symptom": "sync_error"}, "SyncData on the initiator failed: %v", err), nil
	}
	// does an unowned shard precede this one in the walk?
	unownedBefore := func(sh uint64) bool {
		for _, sl := range slots {
			if sl.shard < sh && sl.p != cs.Ini && (sl.p+1)%h.n != cs.Ini {
				return true
			}
		}
		return false
	}
	for _, sl := range slots {
		p := prof(sl.shard)
		var sums []string
		for rep := 0; rep < 2; rep++ {
			node := (sl.p + rep) % h.n
			want := none
			if sl.used {
				want = cs.Want[sl.j][rep]
			}
			f := h.frag(node, sl.shard)
			got := readAll(f)
			gs := map[int]bool{}
			for _, b := range got {
				gs[p.posOf(b.row, b.col)] = true
			}
			for k := 0; k < 4; k++ {
				if gs[k] != want[k] || gs[-1] {
					owned := sl.p == cs.Ini || (sl.p+1)%h.n == cs.Ini
					sym := "shard_not_repaired"
					if !owned {
						sym = "unowned_shard_changed"
					}
					return mk(map[string]string{"symptom": sym, "unowned_shard_before": fmt.Sprint(unownedBefore(sl.shard))},
						"after the pass node %d holds %s in shard %d, want %s (the initiator %s this shard; a pass repairs exactly the shards its node owns)",
						node, render(p, got), sl.shard, renderWant(want), map[bool]string{true: "owns", false: "does not own"}[owned]), nil
				}
			}
			var s []string
			for _, b := range f.Blocks() {
				s = append(s, fmt.Sprintf("%d:%x", b.ID, b.Checksum))
			}
			sums = append(sums, strings.Join(s, " "))
		}
		if (sl.p == cs.Ini || (sl.p+1)%h.n == cs.Ini) && sums[0] != sums[1] {
			return mk(map[string]string{"symptom": "checksums_differ"}, "the owners of shard %d report blocks [%s] and [%s]", sl.shard, sums[0], sums[1]), nil
		}
	}
	return nil, nil
}
