//go:build verif

// Package aeb binds spec/AntiEntropy.tla (property C11) to the real code: for every
// configuration TLC enumerates (replica count, divergent view, initiator, contents of every
// replica) the contents are written straight into each node's own fragment of a real
// in-process cluster (no replication), Server.SyncData() runs on the initiator (real HTTP
// client, real API.ImportRoaring on the peers), and every replica is read back.
package aeb

import (
	"context"
	"encoding/json"
	"fmt"
	"os"
	"sort"
	"strings"
	"sync"
	"testing"

	"github.com/pilosa/pilosa"
	"github.com/pilosa/pilosa/test"

	"verif/harness/behav"
)

const SW = uint64(pilosa.ShardWidth)

// Case is one configuration (and the replay payload).
type Case struct {
	R       int      `json:"R"`
	View    string   `json:"view"`
	Ini     int      `json:"ini"`
	Init    [][]bool `json:"init"`  // per replica: positions 1..4 held in the divergent view
	Other   []bool   `json:"other"` // what every replica holds in the other view
	Want    [][]bool `json:"want"`  // per replica: what the property demands after the pass
	Differs []bool   `json:"differs"`
	Profile int      `json:"profile"`
	Corrupt bool     `json:"corrupt,omitempty"`
}

var views = []string{"standard", "standard_2019"}

// position k (1..4) -> (row, column): rows 0, 0, 99, 100; columns c0, c1, c0, c0
var posRow = []uint64{0, 0, 99, 100}

type profile struct {
	shard  uint64
	c0, c1 uint64
}

var profiles = []profile{
	{0, 0, 1}, {0, 65535, 65536}, {0, 7, SW - 1}, {3, 0, 1}, {3, 65535, SW - 1},
}

func (p profile) col(k int) uint64 {
	c := p.c0
	if k == 1 {
		c = p.c1
	}
	return p.shard*SW + c
}

func (p profile) posOf(row, col uint64) int {
	for k := 0; k < 4; k++ {
		if posRow[k] == row && p.col(k) == col {
			return k
		}
	}
	return -1
}

// cluster of R nodes, every node a replica of every shard
type clus struct {
	c  test.Cluster
	r  int
	mu sync.Mutex
}

const index, field = "i", "f"

func newClus(t testing.TB, r int) (*clus, error) {
	c := test.MustNewCluster(t, r)
	for _, m := range c {
		m.Config.Cluster.ReplicaN = r
		m.Config.AntiEntropy.Interval = 0
	}
	if err := c.Start(); err != nil {
		return nil, err
	}
	ctx := context.Background()
	if _, err := c[0].API.CreateIndex(ctx, index, pilosa.IndexOptions{}); err != nil {
		return nil, err
	}
	if _, err := c[0].API.CreateField(ctx, index, field, pilosa.OptFieldTypeTime(pilosa.TimeQuantum("Y"))); err != nil {
		return nil, err
	}
	// a replicated write per shard creates both views and their fragments on every node
	for _, sh := range []uint64{0, 3} {
		q := fmt.Sprintf("Set(%d, %s=0, 2019-03-04T05:06)", sh*SW+9, field)
		if _, err := c[0].API.Query(ctx, &pilosa.QueryRequest{Index: index, Query: q}); err != nil {
			return nil, err
		}
	}
	return &clus{c: c, r: r}, nil
}

func (cl *clus) close() {
	defer func() { recover() }()
	for _, m := range cl.c {
		os.RemoveAll(m.Config.DataDir)
	}
	cl.c.Close()
}

func (cl *clus) frag(node int, view string, shard uint64) *pilosa.VerifFragment {
	return pilosa.VerifHolderFragment(cl.c[node].Server.Holder(), index, field, view, shard)
}

type bit struct{ row, col uint64 }

func readAll(f *pilosa.VerifFragment) []bit {
	var out []bit
	f.ForEachBit(func(r, c uint64) error {
		out = append(out, bit{r, c})
		return nil
	})
	return out
}

// setExact makes the fragment hold exactly the given positions, writing only to this
// node's fragment (fragment.setBit / clearBit: nothing is forwarded to the other replicas).
func setExact(f *pilosa.VerifFragment, p profile, want []bool) error {
	wantSet := map[bit]bool{}
	for k, on := range want {
		if on {
			wantSet[bit{posRow[k], p.col(k)}] = true
		}
	}
	for _, b := range readAll(f) {
		if !wantSet[b] {
			if _, err := f.ClearBit(b.row, b.col); err != nil {
				return err
			}
		}
		delete(wantSet, b)
	}
	for b := range wantSet {
		if _, err := f.SetBit(b.row, b.col); err != nil {
			return err
		}
	}
	return nil
}

func render(p profile, bits []bit) string {
	var s []string
	for _, b := range bits {
		if k := p.posOf(b.row, b.col); k >= 0 {
			s = append(s, fmt.Sprintf("%d", k+1))
		} else {
			s = append(s, fmt.Sprintf("(%d,%d)", b.row, b.col))
		}
	}
	sort.Strings(s)
	return "{" + strings.Join(s, ",") + "}"
}

func renderWant(w []bool) string {
	var s []string
	for k, on := range w {
		if on {
			s = append(s, fmt.Sprintf("%d", k+1))
		}
	}
	return "{" + strings.Join(s, ",") + "}"
}

type mismatch struct {
	match  map[string]string
	detail string
}

// need classifies what a replica needed from the pass: sets, clears, both or none.
func need(init, want []bool) string {
	s, c := false, false
	for k := range want {
		if want[k] && !init[k] {
			s = true
		}
		if !want[k] && init[k] {
			c = true
		}
	}
	switch {
	case s && c:
		return "both"
	case s:
		return "sets"
	case c:
		return "clears"
	}
	return "none"
}

func runCase(cl *clus, cs *Case) (mm *mismatch, err error) {
	p := profiles[cs.Profile%len(profiles)]
	other := views[0]
	if cs.View == views[0] {
		other = views[1]
	}
	// shards of the profile not under test hold nothing
	for n := 0; n < cs.R; n++ {
		for _, sh := range []uint64{0, 3} {
			for _, v := range views {
				f := cl.frag(n, v, sh)
				if f == nil {
					return nil, fmt.Errorf("node %d has no fragment %s/%d", n, v, sh)
				}
				want := []bool{false, false, false, false}
				if sh == p.shard {
					if v == cs.View {
						want = cs.Init[n]
					} else {
						want = cs.Other
					}
				}
				if err := setExact(f, p, want); err != nil {
					return nil, err
				}
			}
		}
	}
	base := map[string]string{"R": fmt.Sprint(cs.R), "view": cs.View}
	desc := func() string {
		var s []string
		for r := 0; r < cs.R; r++ {
			s = append(s, fmt.Sprintf("replica %d %s", r+1, renderWant(cs.Init[r])))
		}
		return fmt.Sprintf("R=%d view=%s initiator=%d shard=%d columns c0=%d c1=%d; before: %s (positions 1=(0,c0) 2=(0,c1) 3=(99,c0) 4=(100,c0))",
			cs.R, cs.View, cs.Ini, p.shard, p.c0, p.c1, strings.Join(s, ", "))
	}
	mk := func(m map[string]string, format string, a ...interface{}) *mismatch {
		for k, v := range base {
			m[k] = v
		}
		return &mismatch{match: m, detail: desc() + "; " + fmt.Sprintf(format, a...)}
	}
	// the pass
	if err := cl.c[cs.Ini-1].Server.SyncData(); err != nil {
		return mk(map[string]string{"symptom": "sync_error"}, "SyncData on the initiator failed: %v", err), nil
	}
	// read every replica back
	for n := 0; n < cs.R; n++ {
		want := cs.Want[n]
		if cs.Corrupt && n == cs.R-1 {
			want = append([]bool{}, want...)
			want[0] = !want[0]
		}
		got := readAll(cl.frag(n, cs.View, p.shard))
		gotSet := map[int]bool{}
		for _, b := range got {
			k := p.posOf(b.row, b.col)
			if k < 0 {
				return mk(map[string]string{"symptom": "stray_bit"}, "replica %d holds a bit nobody had: (%d,%d)", n+1, b.row, b.col), nil
			}
			gotSet[k] = true
		}
		for k := 0; k < 4; k++ {
			if gotSet[k] != want[k] {
				role := "remote"
				if n == cs.Ini-1 {
					role = "initiator"
				}
				wrong := "missing"
				if gotSet[k] {
					wrong = "extra"
				}
				cnt := 0
				for r := 0; r < cs.R; r++ {
					if cs.Init[r][k] {
						cnt++
					}
				}
				return mk(map[string]string{"symptom": "replica_content", "role": role, "need": need(cs.Init[n], cs.Want[n]),
					"wrong": wrong, "pos": fmt.Sprint(k + 1)},
					"after the pass replica %d (%s) holds %s in %s, the majority (position %d was set on %d of %d replicas; tie => set) demands %s",
					n+1, role, render(p, got), cs.View, k+1, cnt, cs.R, renderWant(want)), nil
			}
		}
		// repairs land in the view they were computed for: the other view is untouched
		gotOther := readAll(cl.frag(n, other, p.shard))
		gs := map[int]bool{}
		for _, b := range gotOther {
			gs[p.posOf(b.row, b.col)] = true
		}
		for k := 0; k < 4; k++ {
			if gs[k] != cs.Other[k] || gs[-1] {
				return mk(map[string]string{"symptom": "other_view_changed", "need": need(cs.Init[n], cs.Want[n])},
					"after the pass replica %d holds %s in view %s (all replicas held %s there and it was not under repair)",
					n+1, render(p, gotOther), other, renderWant(cs.Other)), nil
			}
		}
	}
	// afterwards all replicas report identical block checksums
	var ref string
	for n := 0; n < cs.R; n++ {
		var s []string
		for _, b := range cl.frag(n, cs.View, p.shard).Blocks() {
			s = append(s, fmt.Sprintf("%d:%x", b.ID, b.Checksum))
		}
		str := strings.Join(s, " ")
		if n == 0 {
			ref = str
		} else if str != ref {
			return mk(map[string]string{"symptom": "checksums_differ"}, "replica 1 reports blocks [%s], replica %d reports [%s]", ref, n+1, str), nil
		}
	}
	return nil, nil
}

func caseOf(b behav.Behaviour) (*Case, error) {
	if len(b) != 1 {
		return nil, fmt.Errorf("behaviour of %d steps", len(b))
	}
	js, _ := json.Marshal(b[0])
	var cs Case
	if err := json.Unmarshal(js, &cs); err != nil {
		return nil, err
	}
	if cs.R < 2 || len(cs.Init) != cs.R || len(cs.Want) != cs.R || cs.Ini < 1 || cs.Ini > cs.R {
		return nil, fmt.Errorf("malformed configuration %s", js)
	}
	return &cs, nil
}

func TestC11(t *testing.T) {
	res := behav.NewResult()
	defer res.Write()
	if raw, ok := behav.LoadReplay(); ok {
		var hc HCase
		if err := json.Unmarshal(raw, &hc); err == nil && hc.N > 0 && len(hc.Prim) > 0 {
			h, err := newHClus(t, hc.N, len(hc.Prim))
			if err != nil {
				res.SetInconclusive("cluster: " + err.Error())
				return
			}
			defer h.close()
			driveH(res, h, &hc)
			return
		}
		var cs Case
		if err := json.Unmarshal(raw, &cs); err != nil {
			res.SetInconclusive("unreadable replay payload")
			return
		}
		cl, err := newClus(t, cs.R)
		if err != nil {
			res.SetInconclusive("cluster: " + err.Error())
			return
		}
		defer cl.close()
		drive(res, cl, &cs)
		return
	}
	seed := behav.Seed()
	byR := map[int][]*Case{}
	byN := map[int][]*HCase{}
	for i, b := range behav.LoadEnv() {
		if len(b) == 1 && b[0].Str("op") == "Holder" {
			js, _ := json.Marshal(b[0])
			var hc HCase
			if err := json.Unmarshal(js, &hc); err != nil || hc.N < 3 || len(hc.Prim) == 0 || len(hc.Init) != len(hc.Prim) {
				res.SetInconclusive("malformed holder configuration " + string(js))
				return
			}
			hc.Profile = int((seed + int64(i)) % int64(len(profiles)))
			byN[hc.N] = append(byN[hc.N], &hc)
			continue
		}
		cs, err := caseOf(b)
		if err != nil {
			res.SetInconclusive(err.Error())
			return
		}
		cs.Profile = int((seed + int64(i)) % int64(len(profiles)))
		if os.Getenv("VERIF_CORRUPT") != "" {
			cs.Corrupt = true
		}
		byR[cs.R] = append(byR[cs.R], cs)
	}
	for n, cases := range byN {
		h, err := newHClus(t, n, len(cases[0].Prim))
		if err != nil {
			res.SetInconclusive("cluster: " + err.Error())
			return
		}
		for _, hc := range cases {
			if !driveH(res, h, hc) {
				break
			}
		}
		h.close()
	}
	max := behav.EnvInt("VERIF_MAXCASES", 0)
	for r, cases := range byR {
		if max > 0 && len(cases) > max {
			cases = cases[:max]
		}
		// several clusters side by side for the large groups
		nc := 1
		if len(cases) > 2000 {
			nc = behav.EnvInt("VERIF_CLUSTERS", 3)
		}
		var wg sync.WaitGroup
		for k := 0; k < nc; k++ {
			cl, err := newClus(t, r)
			if err != nil {
				res.SetInconclusive("cluster: " + err.Error())
				return
			}
			wg.Add(1)
			go func(k int, cl *clus) {
				defer wg.Done()
				defer cl.close()
				for i := k; i < len(cases); i += nc {
					if !drive(res, cl, cases[i]) {
						return
					}
				}
			}(k, cl)
		}
		wg.Wait()
	}
}

// drive runs one case; it reports false when the cluster can no longer be used.
func drive(res *behav.Result, cl *clus, cs *Case) bool {
	var mm *mismatch
	var err error
	pv, stack := behav.Protect(func() { mm, err = runCase(cl, cs) })
	if pv != nil {
		if !behav.PanicInCode(stack) {
			res.SetInconclusive(fmt.Sprintf("harness panic: %v\n%s", pv, stack))
			return false
		}
		res.Fail(behav.Failure{Match: map[string]string{"symptom": "panic", "R": fmt.Sprint(cs.R), "view": cs.View},
			Detail: fmt.Sprintf("panic during the pass: %v\n%s", pv, stack), Replay: cs})
		return false
	}
	if err != nil {
		res.SetInconclusive("harness: " + err.Error())
		return false
	}
	res.CountEval()
	res.Cover(fmt.Sprintf("R:%d", cs.R))
	res.Cover("view:" + cs.View)
	nontrivial := false
	for b, d := range cs.Differs {
		if d {
			res.Cover(fmt.Sprintf("block%d_differs", b))
			nontrivial = true
		}
	}
	for n := 0; n < cs.R; n++ {
		res.Cover("replica_needs:" + need(cs.Init[n], cs.Want[n]))
	}
	if nontrivial {
		res.CountNontrivial()
	}
	if mm != nil {
		res.Fail(behav.Failure{Match: mm.match, Detail: mm.detail, Replay: cs})
	}
	return true
}

// driveH runs one holder-level case; it reports false when the cluster can no longer be used.
func driveH(res *behav.Result, h *hclus, hc *HCase) bool {
	var mm *mismatch
	var err error
	pv, stack := behav.Protect(func() { mm, err = runHCase(h, hc) })
	if pv != nil {
		if !behav.PanicInCode(stack) {
			res.SetInconclusive(fmt.Sprintf("harness panic: %v\n%s", pv, stack))
			return false
		}
		res.Fail(behav.Failure{Match: map[string]string{"symptom": "panic", "n": fmt.Sprint(hc.N), "replicas": "2"},
			Detail: fmt.Sprintf("panic during the pass: %v\n%s", pv, stack), Replay: hc})
		return false
	}
	if err != nil {
		res.SetInconclusive("harness: " + err.Error())
		return false
	}
	res.CountEval()
	res.Cover(fmt.Sprintf("nodes:%d,replicas:2", hc.N))
	nontrivial, sawUnowned := false, false
	for j := range hc.Prim {
		if hc.Owned[j] {
			res.Cover("shard_owned")
			if sawUnowned {
				res.Cover("owned_shard_after_unowned_shard")
			}
			for k := 0; k < 4; k++ {
				if hc.Init[j][0][k] != hc.Init[j][1][k] {
					nontrivial = true
				}
			}
		} else {
			res.Cover("shard_unowned")
			sawUnowned = true
		}
	}
	if nontrivial {
		res.CountNontrivial()
	}
	if mm != nil {
		res.Fail(behav.Failure{Match: mm.match, Detail: mm.detail, Replay: hc})
	}
	return true
}
