package wireb

import (
	"encoding/json"
	"fmt"
	"strconv"
	"strings"
	"testing"

	"github.com/pilosa/pilosa/pql"

	"verif/harness/behav"
)

// c26Case is one replayable case: a derivation, its concretisation and the binding.
type c26Case struct {
	Mode string          `json:"mode"` // "parse" | "fwd"
	Beh  behav.Behaviour `json:"beh"`
	Prof Profile         `json:"prof"`
	// Corrupt is the binding self-test: the expectation of the first integer is shifted.
	Corrupt bool `json:"corrupt,omitempty"`
}

type c26Outcome struct {
	Text    string
	Fail    *behav.Failure
	Harness string // harness problem (never a verdict)
}

func firstLines(s string, n int) string {
	lines := strings.Split(s, "\n")
	if len(lines) > n {
		lines = lines[:n]
	}
	return strings.Join(lines, "\n")
}

func behHas(b behav.Behaviour, kinds ...string) bool {
	js := behav.JSON(b)
	if len(js) > 1400 { // JSON() truncates; fall back to a full encoding
		raw, _ := json.Marshal(b)
		js = string(raw)
	}
	for _, k := range kinds {
		if strings.Contains(js, k) {
			return true
		}
	}
	return false
}

// parseProtected parses text; a panic becomes (nil, nil, stack).
func parseProtected(text string) (q *pql.Query, err error, stack string, pv interface{}) {
	pv, stack = behav.Protect(func() { q, err = pql.ParseString(text) })
	return
}

func runParseCase(c *c26Case) (out c26Outcome) {
	tops, err := assemble(c.Beh)
	if err != nil {
		out.Harness = "assemble: " + err.Error()
		return
	}
	var text string
	if pv, stack := behav.Protect(func() { text = Print(tops, c.Prof) }); pv != nil {
		out.Harness = fmt.Sprintf("printer panic: %v\n%s", pv, stack)
		return
	}
	out.Text = text
	base := map[string]string{
		"test": "parse", "form": tops[0].Form, "strprof": c.Prof.Str, "intprof": c.Prof.Int,
		"style": strconv.Itoa(c.Prof.Style), "nonascii": strconv.FormatBool(hasNonASCII(text)),
		"zeros": strconv.FormatBool(c.Prof.Zeros),
	}
	fail := func(symptom, where, kind, detail string) {
		m := map[string]string{"symptom": symptom, "where": where, "kind": kind}
		for k, v := range base {
			m[k] = v
		}
		out.Fail = &behav.Failure{Match: m, Detail: fmt.Sprintf("query %q: %s", text, detail), Replay: c}
	}
	q, perr, stack, pv := parseProtected(text)
	if pv != nil {
		if !behav.PanicInCode(stack) {
			out.Harness = fmt.Sprintf("panic outside the code under test: %v\n%s", pv, stack)
			return
		}
		fail("panic", "", "", fmt.Sprintf("ParseString panicked: %v\n%s", pv, firstLines(stack, 25)))
		return
	}
	if perr != nil {
		fail("parse_error", "", "", "a query of the grammar was rejected: "+strings.Replace(perr.Error(), "\n", " ", -1))
		return
	}
	if len(q.Calls) != len(tops) {
		fail("wrong_shape", "query", "calls", fmt.Sprintf("want %d calls, parser delivered %d: %s", len(tops), len(q.Calls), q.String()))
		return
	}
	for i, n := range tops {
		if c.Corrupt {
			corruptFirstInt(n)
		}
		if m := matchCall(n, q.Calls[i], c.Prof, n.Name); m != nil {
			sym := "wrong_value"
			if m.Kind == "args" || m.Kind == "children" || m.Kind == "name" || m.Kind == "call" {
				sym = "wrong_shape"
			}
			fail(sym, m.Class(), m.Kind, m.String())
			return
		}
	}
	return
}

func corruptFirstInt(n *node) {
	for i := range n.Items {
		if n.Items[i].Kind == "kw" && n.Items[i].Exp["k"] == "int" {
			e := val{}
			for k, v := range n.Items[i].Exp {
				e[k] = v
			}
			e["adj"] = float64(behav.ToInt(e["adj"]) + 1)
			n.Items[i].Exp = e
			return
		}
	}
}

func runFwdCase(c *c26Case) (out c26Outcome) {
	tops, err := assemble(c.Beh)
	if err != nil {
		out.Harness = "assemble: " + err.Error()
		return
	}
	sent := &pql.Query{}
	for _, n := range tops {
		sent.Calls = append(sent.Calls, buildCall(n, c.Prof))
	}
	var text string
	pv, stack := behav.Protect(func() { text = sent.String() })
	base := map[string]string{"test": "fwd", "strprof": c.Prof.Str, "intprof": c.Prof.Int, "name": tops[0].Name}
	fail := func(symptom, where, kind, detail string) {
		m := map[string]string{"symptom": symptom, "where": where, "kind": kind}
		for k, v := range base {
			m[k] = v
		}
		out.Fail = &behav.Failure{Match: m, Detail: detail, Replay: c}
	}
	if pv != nil {
		fail("panic", "String", "", fmt.Sprintf("Call.String panicked: %v\n%s", pv, firstLines(stack, 25)))
		return
	}
	out.Text = text
	base["nonascii"] = strconv.FormatBool(hasNonASCII(text))
	// the Go kinds present, for failure matching: the kind at the differing path is found below
	q, perr, stack, pv := parseProtected(text)
	if pv != nil {
		if !behav.PanicInCode(stack) {
			out.Harness = fmt.Sprintf("panic outside the code under test: %v\n%s", pv, stack)
			return
		}
		fail("panic", "", culprit(sent, text), fmt.Sprintf("forwarded text %q: ParseString panicked: %v\n%s", text, pv, firstLines(stack, 25)))
		return
	}
	if perr != nil {
		fail("parse_error", "", culprit(sent, text), fmt.Sprintf("forwarded text %q is rejected by the receiving parser: %s", text, strings.Replace(perr.Error(), "\n", " ", -1)))
		return
	}
	if len(q.Calls) != len(sent.Calls) {
		fail("wrong_shape", "query", "calls", fmt.Sprintf("forwarded text %q: sent %d calls, re-parsed %d", text, len(sent.Calls), len(q.Calls)))
		return
	}
	for i := range sent.Calls {
		if c.Corrupt && len(q.Calls[i].Args) > 0 {
			for k := range q.Calls[i].Args {
				q.Calls[i].Args[k] = "corrupted"
				break
			}
		}
		if path, d := diffNorm(normCall(sent.Calls[i]), normCall(q.Calls[i]), sent.Calls[i].Name); d != "" {
			fail("wrong_value", pathClass(path), kindAt(sent.Calls[i], path), fmt.Sprintf("forwarded text %q: at %s: %s", text, path, d))
			return
		}
	}
	return
}

// culprit names the Go kind of the first argument value whose own rendering does not
// parse back (used to classify a forwarded text the parser rejects).
func culprit(q *pql.Query, text string) string {
	var walk func(c *pql.Call) string
	walk = func(c *pql.Call) string {
		keys := make([]string, 0, len(c.Args))
		for k := range c.Args {
			keys = append(keys, k)
		}
		sortStrings(keys)
		for _, k := range keys {
			v := c.Args[k]
			if sub, ok := v.(*pql.Call); ok {
				if r := walk(sub); r != "" {
					return r
				}
				continue
			}
			probe := &pql.Call{Name: "Row", Args: map[string]interface{}{"f": v}}
			var err error
			pv, _ := behav.Protect(func() { _, err = pql.ParseString(probe.String()) })
			if pv != nil || err != nil {
				return goKind(v)
			}
		}
		for _, ch := range c.Children {
			if r := walk(ch); r != "" {
				return r
			}
		}
		return ""
	}
	for _, c := range q.Calls {
		if r := walk(c); r != "" {
			return r
		}
	}
	return "shape"
}

func sortStrings(a []string) {
	for i := 1; i < len(a); i++ {
		for j := i; j > 0 && a[j] < a[j-1]; j-- {
			a[j], a[j-1] = a[j-1], a[j]
		}
	}
}

// pathClass reduces a diff path (Name/args/key/...) to the argument class.
func pathClass(path string) string {
	parts := strings.Split(path, "/")
	for i, p := range parts {
		if p == "args" && i+1 < len(parts) {
			return "kw"
		}
	}
	return "call"
}

// kindAt returns the Go kind of the sent value at the argument named by a diff path.
func kindAt(c *pql.Call, path string) string {
	parts := strings.Split(path, "/")
	cur := c
	for i := 1; i < len(parts); i++ {
		switch {
		case parts[i] == "args" && i+1 < len(parts):
			key := strings.SplitN(parts[i+1], "[", 2)[0]
			v, ok := cur.Args[key]
			if !ok {
				return "missing"
			}
			if sub, ok := v.(*pql.Call); ok {
				cur = sub
				i++
				continue
			}
			return goKind(v)
		case strings.HasPrefix(parts[i], "children["):
			idx, _ := strconv.Atoi(strings.TrimSuffix(strings.TrimPrefix(parts[i], "children["), "]"))
			if idx < len(cur.Children) {
				cur = cur.Children[idx]
			}
		}
	}
	return "call"
}

// variants lists the concretisations one behaviour is replayed under.
func variants(b behav.Behaviour, mode string, seed int64, idx int) []Profile {
	hasStr := behHas(b, `"k":"str"`, `"t":"str"`, `"t":"strs"`)
	hasInt := behHas(b, `"k":"int"`, `"t":"i64"`, `"t":"u64"`, `"t":"i64s"`, `"t":"u64s"`, `"k":"btwc"`)
	hasFloat := mode != "fwd" && behHas(b, `"k":"float"`)
	h := int(behav.Hash64(fmt.Sprintf("%d|%d", seed, idx)) % 1000)
	var out []Profile
	if mode == "fwd" {
		out = append(out, Profile{Str: "ascii", Int: "id", Seed: seed})
		if hasStr {
			for i, sp := range StrProfileNames[1:] {
				if !behav.Thorough() && (h+i)%(len(StrProfileNames)-1) >= 3 {
					continue // quick tier: three of the other profiles per behaviour
				}
				out = append(out, Profile{Str: sp, Int: "id", Seed: seed})
			}
		}
		if hasInt {
			out = append(out, Profile{Str: StrProfileNames[h%len(StrProfileNames)], Int: "edge", Seed: seed})
		}
		if behHas(b, `"t":"f64"`) {
			// floats that need the full float64 precision to survive Call.String()
			out = append(out, Profile{Str: "ascii", Int: "id", Seed: seed, Float: "precise"})
		}
		return out
	}
	few := !behav.Thorough() || behav.EnvInt("VERIF_FEW_VARIANTS", 0) == 1
	if !few {
		for s := 0; s < NStyles; s++ {
			out = append(out, Profile{Str: "ascii", Int: "id", Style: s, Seed: seed})
		}
	} else {
		// quick tier: two of the five styles per behaviour (every style is still used by a
		// fifth of the behaviours); a parse costs a 512 KB token buffer in the generated parser
		second := Profile{Str: "ascii", Int: "id", Style: (h + 3) % NStyles, Seed: seed}
		if hasInt || hasFloat {
			// numbers written with leading zeros, over values whose digits would read
			// differently in another base (010, 0644, -011)
			second.Int, second.Zeros = "ten", true
		}
		if hasFloat {
			second.Float = "precise"
		}
		out = append(out, Profile{Str: "ascii", Int: "id", Style: h % NStyles, Seed: seed}, second)
	}
	if !few && (hasInt || hasFloat) {
		out = append(out, Profile{Str: "ascii", Int: "ten", Style: h % NStyles, Seed: seed, Zeros: true},
			Profile{Str: "ascii", Int: "ten", Style: (h + 2) % NStyles, Seed: seed, Zeros: true},
			Profile{Str: "ascii", Int: "edge", Style: (h + 1) % NStyles, Seed: seed, Zeros: true})
		if hasFloat {
			out = append(out, Profile{Str: "ascii", Int: "id", Style: (h + 4) % NStyles, Seed: seed, Float: "precise"},
				Profile{Str: "ascii", Int: "ten", Style: h % NStyles, Seed: seed, Zeros: true, Float: "precise"})
		}
	}
	if hasStr {
		for i, sp := range StrProfileNames[1:] {
			if few && (h+i)%(len(StrProfileNames)-1) >= 3 {
				continue // three of the other profiles per behaviour
			}
			out = append(out, Profile{Str: sp, Int: "id", Style: (h + i) % NStyles, Seed: seed})
			if !few {
				out = append(out, Profile{Str: sp, Int: "id", Style: (h + i + 2) % NStyles, Seed: seed})
			}
		}
	}
	if hasInt {
		out = append(out, Profile{Str: StrProfileNames[h%len(StrProfileNames)], Int: "edge", Style: h % NStyles, Seed: seed})
	}
	return out
}

func runC26(t *testing.T, mode string) {
	res := behav.NewResult()
	defer func() {
		if err := res.Write(); err != nil {
			t.Fatal(err)
		}
	}()
	run := runParseCase
	if mode == "fwd" {
		run = runFwdCase
	}
	if raw, ok := behav.LoadReplay(); ok {
		var c c26Case
		if err := json.Unmarshal(raw, &c); err != nil {
			t.Fatal(err)
		}
		res.Evaluations = 1
		out := run(&c)
		if out.Harness != "" {
			res.SetInconclusive(out.Harness)
		}
		if out.Fail != nil {
			res.Fail(*out.Fail)
		}
		return
	}
	behs := behav.LoadEnv()
	seed := behav.Seed()
	corrupt := behav.EnvInt("VERIF_SELFTEST", 0) == 1
	type job struct {
		bi int
		p  Profile
	}
	var jobs []job
	for bi := range behs {
		for _, p := range variants(behs[bi], mode, seed, bi) {
			jobs = append(jobs, job{bi, p})
		}
	}
	var distinct behav.Distinct
	behav.Parallel(len(jobs), func(i int) {
		j := jobs[i]
		c := &c26Case{Mode: mode, Beh: behs[j.bi], Prof: j.p, Corrupt: corrupt}
		out := run(c)
		if out.Harness != "" {
			res.SetInconclusive(out.Harness + " / behaviour " + behav.JSON(c.Beh))
			return
		}
		res.CountEval()
		for _, st := range c.Beh {
			switch st.Str("op") {
			case "open":
				res.Cover(mode + "/form/" + st.Str("form") + "/" + st.Str("role"))
			case "kw":
				res.Cover(mode + "/value/" + kindOf(behav.ToMap(st["w"])))
			}
		}
		res.Cover(fmt.Sprintf("%s/strprof/%s", mode, j.p.Str))
		res.Cover(fmt.Sprintf("%s/style/%d", mode, j.p.Style))
		if j.p.Zeros {
			res.Cover(mode + "/leading-zeros")
		}
		if len(c.Beh) > 2 && distinct.Add(out.Text) {
			res.CountNontrivial()
		}
		if i%(len(jobs)/6+1) == 0 {
			res.AddSample(map[string]interface{}{"text": out.Text, "profile": j.p, "steps": len(c.Beh)})
		}
		if out.Fail != nil {
			res.Fail(*out.Fail)
		}
	}, func(i int, v interface{}, stack string) {
		res.SetInconclusive(fmt.Sprintf("harness panic: %v\n%s", v, stack))
	})
}

// TestC26Parse: text printed from a generated AST parses to that AST.
func TestC26Parse(t *testing.T) { runC26(t, "parse") }

// TestC26Forward: parse(Call.String()) of a call holding executor-placed values is that call.
func TestC26Forward(t *testing.T) { runC26(t, "fwd") }
