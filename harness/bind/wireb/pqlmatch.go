package wireb

import (
	"fmt"
	"sort"
	"strings"

	"github.com/pilosa/pilosa/pql"

	"verif/harness/behav"
)

// mismatch describes the first difference between a parsed call and the expected one.
type mismatch struct {
	Where  string // path of the argument
	Kind   string // kind of the expected value (int, str/dq, cond, ...)
	Detail string
}

func (m *mismatch) String() string {
	return fmt.Sprintf("%s (%s): %s", m.Where, m.Kind, m.Detail)
}

// Class reduces the path of the mismatch to the class used for failure matching: the
// reserved key of a positional, "kw" for keyword arguments, with the suffixes [i] /
// [last] (list element), .cond (condition value) kept.
func (m *mismatch) Class() string {
	w := m.Where
	if i := strings.LastIndex(w, ">"); i >= 0 {
		w = w[i+1:]
	}
	if i := strings.Index(w, "."); i >= 0 {
		return w[i+1:]
	}
	return "call"
}

func desc(v interface{}) string {
	switch x := v.(type) {
	case *pql.Condition:
		if x == nil {
			return "(*Condition)(nil)"
		}
		return fmt.Sprintf("Condition{%s %s}", x.Op, desc(x.Value))
	case *pql.Call:
		return "Call " + x.String()
	case []interface{}:
		parts := make([]string, len(x))
		for i := range x {
			parts[i] = desc(x[i])
		}
		return "[" + strings.Join(parts, ", ") + "]"
	}
	return fmt.Sprintf("%T(%#v)", v, v)
}

// matchValue compares a parsed argument value with the expected value of the spec
// (values and Go types). Weakest reading (DESIGN 5.5): a single-quoted string may come
// back with its escapes kept raw.
func matchValue(exp val, got interface{}, p Profile, where string) *mismatch {
	bad := func(format string, a ...interface{}) *mismatch {
		return &mismatch{Where: where, Kind: kindOf(exp), Detail: fmt.Sprintf(format, a...) + ", parser delivered " + desc(got)}
	}
	switch exp["k"] {
	case "int":
		want := p.int(behav.ToInt(exp["n"]), behav.ToInt(exp["adj"]))
		g, ok := got.(int64)
		if !ok || g != want {
			return bad("want int64(%d)", want)
		}
	case "float":
		_, want := p.float(exp["t"].(string))
		g, ok := got.(float64)
		if !ok || g != want {
			return bad("want float64(%v)", want)
		}
	case "bool":
		g, ok := got.(bool)
		if !ok || g != exp["b"].(bool) {
			return bad("want bool(%v)", exp["b"])
		}
	case "null":
		if got != nil {
			return bad("want nil")
		}
	case "str":
		want := p.str(exp["t"].(string))
		g, ok := got.(string)
		if !ok || (g != want && !(exp["q"] == "sq" && g == escSQ(want))) {
			return bad("want string(%q)", want)
		}
	case "lit":
		g, ok := got.(string)
		if !ok || g != exp["s"].(string) {
			return bad("want string(%q)", exp["s"])
		}
	case "list":
		want := behav.ToList(exp["l"])
		g, ok := got.([]interface{})
		if !ok || len(g) != len(want) {
			return bad("want []interface{} of %d elements", len(want))
		}
		for i := range want {
			if m := matchValue(behav.ToMap(want[i]), g[i], p, fmt.Sprintf("%s[%d]", where, i)); m != nil {
				if i == len(want)-1 {
					m.Where = where + "[last]"
				} else {
					m.Where = where + "[i]"
				}
				return m
			}
		}
	case "cond":
		g, ok := got.(*pql.Condition)
		if !ok || g == nil {
			return bad("want *pql.Condition %s", exp["op"])
		}
		if g.Op.String() != exp["op"].(string) {
			return bad("want condition operator %s", exp["op"])
		}
		if m := matchValue(behav.ToMap(exp["v"]), g.Value, p, where+".cond"); m != nil {
			m.Kind = "cond:" + m.Kind
			return m
		}
	default:
		return bad("harness: unknown expected kind %v", exp["k"])
	}
	return nil
}

// matchCall compares a parsed call with the assembled derivation node.
func matchCall(n *node, c *pql.Call, p Profile, where string) *mismatch {
	if c == nil {
		return &mismatch{Where: where, Kind: "call", Detail: "missing call"}
	}
	if c.Name != n.Name {
		return &mismatch{Where: where, Kind: "name", Detail: fmt.Sprintf("want call name %q, parser delivered %q", n.Name, c.Name)}
	}
	want := map[string]bool{}
	var class func(string) string
	check := func(key string, exp val) *mismatch {
		want[key] = true
		got, ok := c.Args[key]
		if !ok {
			return &mismatch{Where: where + "." + class(key), Kind: kindOf(exp), Detail: fmt.Sprintf("argument %q missing; call is %s", key, c.String())}
		}
		return matchValue(exp, got, p, where+"."+class(key))
	}
	class = func(key string) string { return key }
	for _, pa := range n.Pos {
		if m := check(pa.Key, pa.Exp); m != nil {
			return m
		}
	}
	if n.Ts != nil && n.Ts["k"] == "ts" {
		if m := check("_timestamp", val{"k": "lit", "s": n.Ts["s"]}); m != nil {
			return m
		}
	}
	var children []*node
	class = func(string) string { return "kw" }
	for _, it := range n.Items {
		switch it.Kind {
		case "child":
			children = append(children, it.Call)
		case "argcall":
			want[it.Key] = true
			got, ok := c.Args[it.Key].(*pql.Call)
			if !ok {
				return &mismatch{Where: where + ".kw", Kind: "call", Detail: fmt.Sprintf("argument %q: want a call, parser delivered %s", it.Key, desc(c.Args[it.Key]))}
			}
			if m := matchCall(it.Call, got, p, where+"="+">"+it.Call.Name); m != nil {
				return m
			}
		default:
			if m := check(it.Key, it.Exp); m != nil {
				return m
			}
		}
	}
	if len(c.Args) != len(want) {
		var extra []string
		for k := range c.Args {
			if !want[k] {
				extra = append(extra, fmt.Sprintf("%q=%s", k, desc(c.Args[k])))
			}
		}
		sort.Strings(extra)
		return &mismatch{Where: where, Kind: "args", Detail: "unexpected arguments " + strings.Join(extra, ", ")}
	}
	if len(c.Children) != len(children) {
		return &mismatch{Where: where, Kind: "children", Detail: fmt.Sprintf("want %d children, parser delivered %d (%s)", len(children), len(c.Children), c.String())}
	}
	for i, ch := range children {
		if m := matchCall(ch, c.Children[i], p, where+">"+ch.Name); m != nil {
			return m
		}
	}
	return nil
}

// argClass classifies an argument key for failure matching: positional reserved keys
// keep their name, everything else is "kw".
func argClass(key string) string {
	switch key {
	case "_col", "_row", "_field", "_timestamp", "from", "to":
		return key
	}
	return "kw"
}

// ---- forwarded calls (mode "fwd") ---------------------------------------------------

// goValue builds the Go value of a forwarded-argument record.
func goValue(v val, p Profile) interface{} {
	x := v["x"]
	switch v["t"] {
	case "u64":
		return uint64(p.int(behav.ToInt(x), 0))
	case "i64":
		return p.int(behav.ToInt(x), 0)
	case "f64":
		_, f := p.float(x.(string))
		return f
	case "bool":
		return x.(bool)
	case "nil":
		return nil
	case "str":
		return p.str(x.(string))
	case "u64s":
		out := []uint64{}
		for _, n := range behav.ToInts(x) {
			out = append(out, uint64(p.int(n, 0)))
		}
		return out
	case "i64s":
		out := []int64{}
		for _, n := range behav.ToInts(x) {
			out = append(out, p.int(n, 0))
		}
		return out
	case "strs":
		out := []string{}
		for _, s := range behav.ToList(x) {
			out = append(out, p.str(s.(string)))
		}
		return out
	case "list":
		out := []interface{}{}
		for _, e := range behav.ToList(x) {
			out = append(out, goValue(behav.ToMap(e), p))
		}
		return out
	case "cond":
		m := behav.ToMap(x)
		var op pql.Token
		for t := pql.ASSIGN; t <= pql.BETWEEN; t++ {
			if t.String() == m["op"].(string) {
				op = t
			}
		}
		return &pql.Condition{Op: op, Value: goValue(behav.ToMap(m["v"]), p)}
	}
	panic(fmt.Sprintf("goValue: unknown %v", v))
}

// buildCall builds the pql.Call a node would forward.
func buildCall(n *node, p Profile) *pql.Call {
	c := &pql.Call{Name: n.Name}
	for _, it := range n.Items {
		switch it.Kind {
		case "child":
			c.Children = append(c.Children, buildCall(it.Call, p))
		case "argcall":
			if c.Args == nil {
				c.Args = map[string]interface{}{}
			}
			c.Args[it.Key] = buildCall(it.Call, p)
		default:
			if c.Args == nil {
				c.Args = map[string]interface{}{}
			}
			c.Args[it.Key] = goValue(it.W, p)
		}
	}
	return c
}

// norm maps a call-argument value to its PQL meaning: PQL has one integer type (the
// accessors UintArg/IntArg/UintSliceArg accept both signednesses) and one list type, so
// int64/uint64 of the same value and []int64/[]uint64/[]string/[]interface{} of the same
// elements are the same forwarded value; float, bool, nil, string, condition and call
// keep their type.
func norm(v interface{}) interface{} {
	switch x := v.(type) {
	case int64:
		if x < 0 {
			return fmt.Sprintf("int:-%d", uint64(-x))
		}
		return fmt.Sprintf("int:%d", x)
	case uint64:
		return fmt.Sprintf("int:%d", x)
	case float64:
		return fmt.Sprintf("float:%v", x)
	case bool:
		return fmt.Sprintf("bool:%v", x)
	case nil:
		return "nil"
	case string:
		return "str:" + x
	case []int64:
		out := make([]interface{}, len(x))
		for i := range x {
			out[i] = norm(x[i])
		}
		return out
	case []uint64:
		out := make([]interface{}, len(x))
		for i := range x {
			out[i] = norm(x[i])
		}
		return out
	case []string:
		out := make([]interface{}, len(x))
		for i := range x {
			out[i] = norm(x[i])
		}
		return out
	case []interface{}:
		out := make([]interface{}, len(x))
		for i := range x {
			out[i] = norm(x[i])
		}
		return out
	case *pql.Condition:
		if x == nil {
			return "cond:nil"
		}
		return map[string]interface{}{"cond": x.Op.String(), "v": norm(x.Value)}
	case *pql.Call:
		return normCall(x)
	}
	return fmt.Sprintf("other:%T:%v", v, v)
}

func normCall(c *pql.Call) interface{} {
	if c == nil {
		return "call:nil"
	}
	args := map[string]interface{}{}
	for k, v := range c.Args {
		args[k] = norm(v)
	}
	ch := make([]interface{}, len(c.Children))
	for i := range c.Children {
		ch[i] = normCall(c.Children[i])
	}
	return map[string]interface{}{"call": c.Name, "args": args, "children": ch}
}

// diffNorm returns the path and a description of the first difference of two
// normalised values, or "" when equal.
func diffNorm(a, b interface{}, path string) (string, string) {
	switch x := a.(type) {
	case map[string]interface{}:
		y, ok := b.(map[string]interface{})
		if !ok {
			return path, fmt.Sprintf("sent %s, re-parsed %s", behav.JSON(a), behav.JSON(b))
		}
		keys := map[string]bool{}
		for k := range x {
			keys[k] = true
		}
		for k := range y {
			keys[k] = true
		}
		var ks []string
		for k := range keys {
			ks = append(ks, k)
		}
		sort.Strings(ks)
		for _, k := range ks {
			xv, okx := x[k]
			yv, oky := y[k]
			if !okx || !oky {
				return path + "/" + k, fmt.Sprintf("present in sent call: %v, in re-parsed call: %v", okx, oky)
			}
			if p, d := diffNorm(xv, yv, path+"/"+k); d != "" {
				return p, d
			}
		}
		return "", ""
	case []interface{}:
		y, ok := b.([]interface{})
		if !ok || len(x) != len(y) {
			return path, fmt.Sprintf("sent %s, re-parsed %s", behav.JSON(a), behav.JSON(b))
		}
		for i := range x {
			if p, d := diffNorm(x[i], y[i], fmt.Sprintf("%s[%d]", path, i)); d != "" {
				return p, d
			}
		}
		return "", ""
	}
	if a != b {
		return path, fmt.Sprintf("sent %s, re-parsed %s", behav.JSON(a), behav.JSON(b))
	}
	return "", ""
}

// goKind names the Go type of a value for failure matching.
func goKind(v interface{}) string {
	switch x := v.(type) {
	case *pql.Condition:
		if x == nil {
			return "cond"
		}
		return "cond:" + goKind(x.Value)
	case nil:
		return "nil"
	}
	return fmt.Sprintf("%T", v)
}
