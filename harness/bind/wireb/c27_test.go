package wireb

import (
	"bytes"
	"encoding/json"
	"fmt"
	"math/rand"
	"reflect"
	"regexp"
	"sort"
	"strings"
	"testing"

	"github.com/pilosa/pilosa"
	"github.com/pilosa/pilosa/encoding/proto"

	"verif/harness/behav"
)

var ser = proto.Serializer{}

// broadcastTypes are the message types that travel with a type byte
// (MarshalInternalMessage / API.ClusterMessage).
var broadcastTypes = []string{"CreateShardMessage", "CreateIndexMessage", "DeleteIndexMessage", "CreateFieldMessage",
	"DeleteFieldMessage", "DeleteAvailableShardMessage", "CreateViewMessage", "DeleteViewMessage", "ClusterStatus",
	"ResizeInstruction", "ResizeInstructionComplete", "SetCoordinatorMessage", "UpdateCoordinatorMessage",
	"NodeStateMessage", "RecalculateCaches", "NodeEvent", "NodeStatus"}

func isBroadcast(typ string) bool {
	for _, b := range broadcastTypes {
		if b == typ {
			return true
		}
	}
	return false
}

var frameRE = regexp.MustCompile(`github\.com/pilosa/pilosa(?:/[a-z/]+)?\.(?:\(\*?[A-Za-z]+\)\.)?([A-Za-z0-9_]+)`)

// topFrame names the innermost function of the code under test on a panic stack.
func topFrame(stack string) string {
	for _, line := range strings.Split(stack, "\n") {
		if strings.HasPrefix(line, "\t") || !strings.Contains(line, "github.com/pilosa/pilosa") {
			continue
		}
		if strings.Contains(line, "verif/harness") {
			continue
		}
		if m := frameRE.FindStringSubmatch(line); m != nil {
			return m[1]
		}
	}
	return "?"
}

// wireCase is the replay payload of a round trip.
type wireCase struct {
	Type    string      `json:"type"`
	Val     interface{} `json:"val"`
	Corrupt bool        `json:"corrupt,omitempty"`
}

func marshalProtected(m interface{}) (buf []byte, err error, pv interface{}, stack string) {
	pv, stack = behav.Protect(func() { buf, err = ser.Marshal(m) })
	return
}

func unmarshalProtected(buf []byte, m interface{}) (err error, pv interface{}, stack string) {
	pv, stack = behav.Protect(func() { err = ser.Unmarshal(buf, m) })
	return
}

// runRoundTrip checks one spec value; harness problems are returned in harness.
func runRoundTrip(c *wireCase, sf specFields) (fails []behav.Failure, harness string, stale string) {
	msg, err := BuildMessage(c.Type, c.Val, sf)
	if err != nil {
		if se, ok := err.(staleError); ok {
			return nil, "", string(se)
		}
		var se staleError
		if asStale(err, &se) {
			return nil, "", string(se)
		}
		return nil, "builder: " + err.Error(), ""
	}
	want := canon(reflect.ValueOf(msg))
	if c.Corrupt {
		corruptCanon(want)
	}
	fail := func(phase, symptom, field, where, detail string) {
		fails = append(fails, behav.Failure{
			Match:  map[string]string{"test": "roundtrip", "type": c.Type, "phase": phase, "symptom": symptom, "field": field, "where": where},
			Detail: fmt.Sprintf("%s %s: %s", c.Type, behav.JSON(c.Val), detail),
			Replay: c,
		})
	}
	check := func(phase string, buf []byte, fresh interface{}) {
		uerr, pv, stack := unmarshalProtected(buf, fresh)
		if pv != nil {
			if !behav.PanicInCode(stack) {
				harness = fmt.Sprintf("panic outside the code under test: %v\n%s", pv, stack)
				return
			}
			fail(phase, "panic", "", topFrame(stack), fmt.Sprintf("Unmarshal of the value's own encoding panicked: %v\n%s", pv, firstLines(stack, 22)))
			return
		}
		if uerr != nil {
			fail(phase, "error", "", "", "Unmarshal of the value's own encoding failed: "+uerr.Error())
			return
		}
		got := canon(reflect.ValueOf(fresh))
		var diffs [][2]string
		diffAll(want, got, c.Type, &diffs)
		seen := map[string]bool{}
		for _, d := range diffs {
			if f := fieldOfPath(d[0]); !seen[f] {
				seen[f] = true
				fail(phase, "mismatch", f, "", fmt.Sprintf("decoded value differs at %s: %s", d[0], d[1]))
			}
		}
	}
	buf, merr, pv, stack := marshalProtected(msg)
	if pv != nil {
		if !behav.PanicInCode(stack) {
			return nil, fmt.Sprintf("panic outside the code under test: %v\n%s", pv, stack), ""
		}
		fail("marshal", "panic", "", topFrame(stack), fmt.Sprintf("Marshal panicked: %v\n%s", pv, firstLines(stack, 22)))
		return
	}
	if merr != nil {
		fail("marshal", "error", "", "", "Marshal failed: "+merr.Error())
		return
	}
	check("unmarshal", buf, NewMessage(c.Type))
	if harness != "" || !isBroadcast(c.Type) {
		return
	}
	// the same through the type byte
	var ibuf []byte
	pv, stack = behav.Protect(func() { ibuf, merr = pilosa.MarshalInternalMessage(msg, ser) })
	if pv != nil {
		fail("typebyte", "panic", "", topFrame(stack), fmt.Sprintf("MarshalInternalMessage panicked: %v\n%s", pv, firstLines(stack, 22)))
		return
	}
	if merr != nil || len(ibuf) == 0 {
		fail("typebyte", "error", "", "", fmt.Sprintf("MarshalInternalMessage failed: %v", merr))
		return
	}
	var fresh interface{}
	pv, stack = behav.Protect(func() { fresh = pilosa.VerifGetMessage(ibuf[0]) })
	if pv != nil {
		fail("typebyte", "panic", "", topFrame(stack), fmt.Sprintf("getMessage(%d) panicked: %v", ibuf[0], pv))
		return
	}
	if fresh == nil || reflect.TypeOf(fresh) != reflect.TypeOf(msg) {
		fail("typebyte", "mismatch", "type", "", fmt.Sprintf("type byte %d gives %T, sent %T", ibuf[0], fresh, msg))
		return
	}
	if !bytes.Equal(ibuf[1:], buf) {
		fail("typebyte", "mismatch", "body", "", "MarshalInternalMessage body differs from Marshal")
		return
	}
	check("typebyte", ibuf[1:], fresh)
	return
}

// batchCase is the replay payload of the frame-condition check: the values are encoded
// one after the other and only then decoded.
type batchCase struct {
	Batch []wireCase `json:"batch"`
}

// runBatch checks the frame condition of Marshal / MarshalInternalMessage: the byte
// string an encoding call returned is a value — later encoding calls (of other values, or
// of the same value again) must not change it. Every value is encoded (Marshal twice and,
// for broadcast messages, MarshalInternalMessage twice), all byte slices are kept, and only
// after the whole batch has been encoded is each of them decoded and compared.
func runBatch(items []wireCase, sf specFields) (fails []behav.Failure, harness string) {
	type enc struct {
		want       interface{}
		b1, b2     []byte // Serializer.Marshal, twice
		i1, i2     []byte // MarshalInternalMessage, twice (broadcast messages)
		snapB, snI []byte // copies taken immediately after the call
	}
	encs := make([]*enc, len(items))
	for k := range items {
		c := &items[k]
		msg, err := BuildMessage(c.Type, c.Val, sf)
		if err != nil {
			return nil, "builder: " + err.Error()
		}
		e := &enc{want: canon(reflect.ValueOf(msg))}
		var merr error
		pv, _ := behav.Protect(func() {
			if e.b1, merr = ser.Marshal(msg); merr != nil {
				return
			}
			e.snapB = append([]byte(nil), e.b1...)
			if e.b2, merr = ser.Marshal(msg); merr != nil {
				return
			}
			if isBroadcast(c.Type) {
				if e.i1, merr = pilosa.MarshalInternalMessage(msg, ser); merr != nil {
					return
				}
				e.snI = append([]byte(nil), e.i1...)
				e.i2, merr = pilosa.MarshalInternalMessage(msg, ser)
			}
		})
		if pv != nil || merr != nil {
			continue // reported by the single round trip
		}
		encs[k] = e
	}
	replayFrom := func(k int) batchCase {
		end := k + 5
		if end > len(items) {
			end = len(items)
		}
		return batchCase{Batch: append([]wireCase(nil), items[k:end]...)}
	}
	for k, e := range encs {
		if e == nil {
			continue
		}
		c := &items[k]
		fail := func(phase, symptom, field, detail string) {
			fails = append(fails, behav.Failure{
				Match:  map[string]string{"test": "batch", "type": c.Type, "phase": phase, "symptom": symptom, "field": field, "where": ""},
				Detail: fmt.Sprintf("%s %s, encoded before %d other values and decoded afterwards: %s", c.Type, behav.JSON(c.Val), len(items)-k-1, detail),
				Replay: replayFrom(k),
			})
		}
		check := func(phase string, buf, snap []byte, fresh interface{}) {
			if snap != nil && !bytes.Equal(buf, snap) {
				fail(phase, "encoding_changed", "", "the byte slice the call returned was changed by a later encoding call")
			}
			uerr, pv, stack := unmarshalProtected(buf, fresh)
			if pv != nil {
				if !behav.PanicInCode(stack) {
					harness = fmt.Sprintf("panic outside the code under test: %v\n%s", pv, stack)
					return
				}
				fail(phase, "panic", "", fmt.Sprintf("decoding panicked: %v\n%s", pv, firstLines(stack, 16)))
				return
			}
			if uerr != nil {
				fail(phase, "error", "", "decoding failed: "+uerr.Error())
				return
			}
			var diffs [][2]string
			diffAll(e.want, canon(reflect.ValueOf(fresh)), c.Type, &diffs)
			if len(diffs) > 0 {
				fail(phase, "mismatch", fieldOfPath(diffs[0][0]), fmt.Sprintf("decoded value differs at %s: %s", diffs[0][0], diffs[0][1]))
			}
		}
		check("marshal", e.b1, e.snapB, NewMessage(c.Type))
		check("marshal", e.b2, nil, NewMessage(c.Type))
		if !bytes.Equal(e.b1, e.b2) && !strings.Contains(c.Type, "ImportRoaringRequest") {
			// (the views of an ImportRoaringRequest are a map: their order is free)
			fail("marshal", "encoding_differs", "", "two Marshal calls on the same value returned different bytes")
		}
		if e.i1 != nil {
			for n, ib := range [][]byte{e.i1, e.i2} {
				if len(ib) == 0 {
					fail("typebyte", "error", "", "empty frame")
					continue
				}
				var fresh interface{}
				if pv, _ := behav.Protect(func() { fresh = pilosa.VerifGetMessage(ib[0]) }); pv != nil || fresh == nil ||
					reflect.TypeOf(fresh) != reflect.TypeOf(NewMessage(c.Type)) {
					fail("typebyte", "mismatch", "type", fmt.Sprintf("after later encodings the frame's type byte %d gives %T", ib[0], fresh))
					continue
				}
				snap := e.snI
				if n == 1 {
					snap = nil
				}
				if snap != nil && !bytes.Equal(ib, snap) {
					fail("typebyte", "encoding_changed", "", "the frame MarshalInternalMessage returned was changed by a later encoding call")
				}
				check("typebyte", ib[1:], nil, fresh)
			}
			if !bytes.Equal(e.i1, e.i2) {
				fail("typebyte", "encoding_differs", "", "two MarshalInternalMessage calls on the same value hold different bytes after both returned")
			}
		}
		if harness != "" {
			return
		}
	}
	return
}

func asStale(err error, out *staleError) bool {
	for err != nil {
		if se, ok := err.(staleError); ok {
			*out = se
			return true
		}
		u, ok := err.(interface{ Unwrap() error })
		if !ok {
			return false
		}
		err = u.Unwrap()
	}
	return false
}

// corruptCanon is the binding self-test: it changes the first scalar of the expectation.
func corruptCanon(v interface{}) bool {
	switch x := v.(type) {
	case map[string]interface{}:
		keys := make([]string, 0, len(x))
		for k := range x {
			keys = append(keys, k)
		}
		sort.Strings(keys)
		for _, k := range keys {
			switch e := x[k].(type) {
			case string:
				x[k] = e + "#"
				return true
			case bool:
				x[k] = !e
				return true
			case uint64:
				x[k] = e + 1
				return true
			case int64:
				x[k] = e + 1
				return true
			default:
				if corruptCanon(e) {
					return true
				}
			}
		}
	case []interface{}:
		for _, e := range x {
			if corruptCanon(e) {
				return true
			}
		}
	}
	return false
}

// TestC27RoundTrip: every value of spec/Wire.tla survives Marshal/Unmarshal (nil = empty),
// also through MarshalInternalMessage/getMessage; the real structs have no field the spec
// does not know.
func TestC27RoundTrip(t *testing.T) {
	res := behav.NewResult()
	defer func() {
		if err := res.Write(); err != nil {
			t.Fatal(err)
		}
	}()
	sf := specFields{}
	if raw, ok := behav.LoadReplay(); ok {
		var bc batchCase
		if err := json.Unmarshal(raw, &bc); err == nil && len(bc.Batch) > 0 {
			res.Evaluations = 1
			fails, harness := runBatch(bc.Batch, sf)
			if harness != "" {
				res.SetInconclusive(harness)
			}
			for _, f := range fails {
				res.Fail(f)
			}
			return
		}
		var c wireCase
		if err := json.Unmarshal(raw, &c); err != nil {
			t.Fatal(err)
		}
		res.Evaluations = 1
		fails, harness, stale := runRoundTrip(&c, sf)
		if harness != "" || stale != "" {
			res.SetInconclusive(harness + stale)
		}
		for _, f := range fails {
			res.Fail(f)
		}
		return
	}
	behs := behav.LoadEnv()
	corrupt := behav.EnvInt("VERIF_SELFTEST", 0) == 1
	seenTypes := map[string]bool{}
	kindsSeen := map[string]bool{}
	var distinct behav.Distinct
	for i, b := range behs {
		if len(b) != 1 {
			res.SetInconclusive("behaviour of unexpected length")
			return
		}
		c := &wireCase{Type: b[0].Str("type"), Val: b[0]["val"], Corrupt: corrupt}
		seenTypes[c.Type] = true
		fails, harness, stale := runRoundTrip(c, sf)
		if harness != "" {
			res.SetInconclusive(harness)
			return
		}
		if stale != "" {
			res.SetInconclusive("spec stale: " + stale)
			return
		}
		res.CountEval()
		res.Cover("roundtrip/type/" + c.Type)
		if c.Type == "QueryResponse" {
			for _, r := range behav.ToList(behav.ToMap(c.Val)["Results"]) {
				res.Cover("roundtrip/result/" + behav.ToMap(r)["kind"].(string))
				kindsSeen[behav.ToMap(r)["kind"].(string)] = true
			}
		}
		if distinct.Add(behav.JSON(b)) && len(behav.ToMap(c.Val)) > 0 {
			res.CountNontrivial()
		}
		if i%(len(behs)/6+1) == 0 {
			res.AddSample(b)
		}
		for _, f := range fails {
			res.Fail(f)
		}
	}
	// frame condition: encode the whole set (types interleaved by a seeded order), decode
	// afterwards
	if !corrupt {
		items := make([]wireCase, 0, len(behs))
		for _, b := range behs {
			items = append(items, wireCase{Type: b[0].Str("type"), Val: b[0]["val"]})
		}
		seed := behav.Seed()
		sort.SliceStable(items, func(i, j int) bool {
			return behav.Hash64(fmt.Sprintf("%d|%s", seed, behav.JSON(items[i]))) < behav.Hash64(fmt.Sprintf("%d|%s", seed, behav.JSON(items[j])))
		})
		fails, harness := runBatch(items, sf)
		if harness != "" {
			res.SetInconclusive(harness)
			return
		}
		for range items {
			res.CountEval()
		}
		res.Cover("roundtrip/batch")
		for _, f := range fails {
			res.Fail(f)
		}
	}
	// stale-spec checks: every spec type must have been emitted, every Go struct field
	// must be known to the spec, every type byte the code knows must be a spec type
	for typ := range wireTypes {
		if !seenTypes[typ] {
			res.SetInconclusive("vacuous: no value of type " + typ + " was generated")
		}
	}
	for _, k := range resultKinds {
		if !kindsSeen[k] {
			res.SetInconclusive("vacuous: no query result of kind " + k)
		}
	}
	for _, s := range staleness(sf) {
		res.SetInconclusive("spec stale: " + s)
	}
	byName := map[string]bool{}
	for b := 0; b < 256; b++ {
		var m interface{}
		if pv, _ := behav.Protect(func() { m = pilosa.VerifGetMessage(byte(b)) }); pv != nil || m == nil {
			continue
		}
		name := reflect.TypeOf(m).Elem().Name()
		byName[name] = true
		if _, ok := wireTypes[name]; !ok || !isBroadcast(name) {
			res.SetInconclusive(fmt.Sprintf("spec stale: type byte %d carries %s, which spec/Wire.tla does not list as a broadcast message", b, name))
		}
	}
	for _, name := range broadcastTypes {
		if !byName[name] {
			res.Fail(behav.Failure{
				Match:  map[string]string{"test": "roundtrip", "type": name, "phase": "typebyte", "symptom": "no_type_byte", "field": "", "where": "getMessage"},
				Detail: "broadcast message " + name + " has no type byte in getMessage",
				Replay: wireCase{Type: name, Val: map[string]interface{}{}},
			})
		}
	}
}

// ---- damaged encodings ----------------------------------------------------------------

// damageCase is the replay payload of a damaged-encoding case.
type damageCase struct {
	Type   string `json:"type"`   // type decoded into; "" = through the type byte (getMessage)
	Bytes  []byte `json:"bytes"`  // the damaged encoding
	Damage string `json:"damage"` // truncation | flip | cross | random | tag | typebyte
}

// decodeDamaged decodes bytes into a fresh value; only a panic is a failure.
func decodeDamaged(c *damageCase) (f *behav.Failure, harness string) {
	var pv interface{}
	var stack string
	if c.Type == "" {
		pv, stack = behav.Protect(func() {
			if len(c.Bytes) == 0 {
				return
			}
			m := pilosa.VerifGetMessage(c.Bytes[0])
			if m == nil {
				return
			}
			_ = ser.Unmarshal(c.Bytes[1:], m)
		})
	} else {
		fresh := NewMessage(c.Type)
		pv, stack = behav.Protect(func() { _ = ser.Unmarshal(c.Bytes, fresh) })
	}
	if pv == nil {
		return nil, ""
	}
	if !behav.PanicInCode(stack) {
		return nil, fmt.Sprintf("panic outside the code under test: %v\n%s", pv, stack)
	}
	typ := c.Type
	if typ == "" {
		typ = "typebyte"
	}
	return &behav.Failure{
		Match:  map[string]string{"test": "damage", "type": typ, "symptom": "panic", "where": topFrame(stack), "damage": c.Damage},
		Detail: fmt.Sprintf("decoding %d damaged bytes (%s) into %s panicked: %v\n%s", len(c.Bytes), c.Damage, typ, pv, firstLines(stack, 22)),
		Replay: c,
	}, ""
}

// tiny protobuf writer for hand-made QueryResponse bodies
func pbVarint(x uint64) []byte {
	var b []byte
	for x >= 0x80 {
		b = append(b, byte(x)|0x80)
		x >>= 7
	}
	return append(b, byte(x))
}
func pbTag(field, wire int) []byte { return pbVarint(uint64(field<<3 | wire)) }
func pbBytes(field int, body []byte) []byte {
	return append(append(pbTag(field, 2), pbVarint(uint64(len(body)))...), body...)
}
func pbUint(field int, x uint64) []byte { return append(pbTag(field, 0), pbVarint(x)...) }

// craftedResults: QueryResponse bodies with every result-type tag value, with and
// without the payload field the tag announces.
func craftedResults() [][]byte {
	row := pbBytes(1, append(pbUint(1, 3), pbBytes(3, []byte("k"))...))                   // QueryResult.Row
	pair := pbBytes(3, append(pbUint(1, 1), pbUint(2, 2)...))                             // QueryResult.Pairs (one)
	valcount := pbBytes(5, append(pbUint(1, 7), pbUint(2, 1)...))                         // QueryResult.ValCount
	rowids := pbBytes(7, []byte{1, 2})                                                    // packed RowIDs
	group := pbBytes(8, append(pbBytes(1, append(pbBytes(1, []byte("f")), pbUint(2, 1)...)), pbUint(2, 4)...)) // GroupCounts
	rowidents := pbBytes(9, pbBytes(1, []byte{1}))                                        // RowIdentifiers
	payloads := [][]byte{nil, row, pair, valcount, rowids, group, rowidents, pbUint(2, 9), pbUint(4, 1),
		bytes.Join([][]byte{row, pair, valcount, rowids, group, rowidents}, nil)}
	var out [][]byte
	for tag := uint64(0); tag <= 14; tag++ {
		for _, p := range payloads {
			result := append(pbUint(6, tag), p...)
			out = append(out, pbBytes(2, result))
			out = append(out, bytes.Join([][]byte{pbBytes(1, []byte("err")), pbBytes(2, result), pbBytes(2, result)}, nil))
		}
	}
	for _, tag := range []uint64{255, 1 << 31, 1<<32 - 1} {
		out = append(out, pbBytes(2, pbUint(6, tag)))
	}
	return out
}

// TestC27Damage: damaged encodings decode to an error or a value, never a panic.
func TestC27Damage(t *testing.T) {
	res := behav.NewResult()
	defer func() {
		if err := res.Write(); err != nil {
			t.Fatal(err)
		}
	}()
	if raw, ok := behav.LoadReplay(); ok {
		var c damageCase
		if err := json.Unmarshal(raw, &c); err != nil {
			t.Fatal(err)
		}
		res.Evaluations = 1
		f, harness := decodeDamaged(&c)
		if harness != "" {
			res.SetInconclusive(harness)
		}
		if f != nil {
			res.Fail(*f)
		}
		return
	}
	behs := behav.LoadEnv()
	sf := specFields{}
	rng := rand.New(rand.NewSource(behav.Seed()*104729 + 17))
	// valid encodings per type: the longest ones carry the most structure
	valid := map[string][][]byte{}
	for _, b := range behs {
		typ := b[0].Str("type")
		msg, err := BuildMessage(typ, b[0]["val"], sf)
		if err != nil {
			res.SetInconclusive("builder: " + err.Error())
			return
		}
		buf, merr, pv, _ := marshalProtected(msg)
		if pv != nil || merr != nil {
			continue // reported by TestC27RoundTrip
		}
		valid[typ] = append(valid[typ], buf)
	}
	var types []string
	for typ := range wireTypes {
		types = append(types, typ)
	}
	sort.Strings(types)
	perType := 6
	if behav.Thorough() {
		perType = 40
	}
	pick := map[string][][]byte{}
	for _, typ := range types {
		v := valid[typ]
		if len(v) == 0 && typ != "RecalculateCaches" {
			res.SetInconclusive("vacuous: no valid encoding of " + typ)
			continue
		}
		sort.SliceStable(v, func(i, j int) bool { return len(v[i]) > len(v[j]) })
		seen := map[string]bool{}
		for _, e := range v {
			if len(pick[typ]) >= perType {
				break
			}
			if !seen[string(e)] {
				seen[string(e)] = true
				pick[typ] = append(pick[typ], e)
			}
		}
		// plus seeded random ones
		for i := 0; i < perType/2 && len(v) > 0; i++ {
			pick[typ] = append(pick[typ], v[rng.Intn(len(v))])
		}
	}
	var distinct behav.Distinct
	try := func(c *damageCase) {
		f, harness := decodeDamaged(c)
		if harness != "" {
			res.SetInconclusive(harness)
			return
		}
		res.CountEval()
		res.Cover("damage/" + c.Damage)
		if distinct.Add(c.Type + "|" + string(c.Bytes)) {
			res.CountNontrivial()
		}
		if f != nil {
			res.Fail(*f)
		}
	}
	maxLen := 400
	for _, typ := range types {
		for _, e := range pick[typ] {
			// every truncation
			for i := 0; i < len(e) && i < 4*maxLen; i++ {
				try(&damageCase{Type: typ, Bytes: append([]byte(nil), e[:i]...), Damage: "truncation"})
			}
			// byte flips
			for i := 0; i < len(e) && i < maxLen; i++ {
				for _, mask := range []byte{0xFF, 0x01, 0x80, 0x08} {
					d := append([]byte(nil), e...)
					d[i] ^= mask
					try(&damageCase{Type: typ, Bytes: d, Damage: "flip"})
				}
			}
			// through the type byte: every type byte in front of this body
			for b := 0; b < 24; b++ {
				try(&damageCase{Type: "", Bytes: append([]byte{byte(b)}, e...), Damage: "typebyte"})
			}
		}
		// bytes of every other type
		for _, other := range types {
			if other == typ {
				continue
			}
			for i, e := range pick[other] {
				if i >= 3 && !behav.Thorough() {
					break
				}
				try(&damageCase{Type: typ, Bytes: e, Damage: "cross"})
			}
		}
		// seeded random bytes
		n := 150
		if behav.Thorough() {
			n = 1500
		}
		for i := 0; i < n; i++ {
			d := make([]byte, rng.Intn(48))
			rng.Read(d)
			try(&damageCase{Type: typ, Bytes: d, Damage: "random"})
		}
	}
	for _, body := range craftedResults() {
		try(&damageCase{Type: "QueryResponse", Bytes: body, Damage: "tag"})
	}
	// short cluster messages: empty, a lone type byte, unknown type bytes
	try(&damageCase{Type: "", Bytes: nil, Damage: "typebyte"})
	for b := 0; b < 256; b++ {
		try(&damageCase{Type: "", Bytes: []byte{byte(b)}, Damage: "typebyte"})
		try(&damageCase{Type: "", Bytes: []byte{byte(b), 0x0a}, Damage: "typebyte"})
		try(&damageCase{Type: "", Bytes: []byte{byte(b), 0x12, 0x00, 0x1a, 0x00}, Damage: "typebyte"})
	}
}
