// Package wireb binds spec/Pql.tla (C26) and spec/Wire.tla (C27) to the real code.
//
// This file is the C26 half that does not touch the code under test: it assembles the
// derivations emitted by Pql.tla into call trees, prints them as PQL text with its own
// printer (never Call.String()), and matches parsed calls against the expected values.
package wireb

import (
	"fmt"
	"math"
	"math/rand"
	"strconv"
	"strings"
	"unicode/utf8"

	"verif/harness/behav"
)

// ---- profiles -----------------------------------------------------------------------

// StrProfiles maps the spec's string tokens to concrete strings.
var StrProfiles = map[string]map[string]string{
	"ascii":  {"s1": "abc", "s2": "x y,z=1)"},
	"esc":    {"s1": "a\"b\\c", "s2": "q'uote\nline\ttab\\"},
	"bmp":    {"s1": "é", "s2": "日本語 ñ"},
	"astral": {"s1": "😀", "s2": "a😀b𝄞"},
	"empty":  {"s1": "", "s2": "z"},
	"mixed":  {"s1": "é😀\"'", "s2": "plain"},
	// quote kinds x trailing backslashes: a printer that picks the quoting by content
	// must still escape; `\'` / `\"` / `\\` are units of the quoted-string rules
	"qbs1": {"s1": `say "hi"\`, "s2": `a"b\\\`},          // double quote only; 1 and 3 trailing
	"qbs2": {"s1": `it's\`, "s2": `x"y\\`},               // single only, 1 trailing; double only, 2 trailing
	"qbs3": {"s1": `"\`, "s2": `it's "both"\`},           // a lone quote + backslash; both kinds
	"qbs4": {"s1": `neither\`, "s2": `it's\\ neither\\\`}, // no quote, 1 trailing; single, inner 2 and 3 trailing
	// printf verbs, a literal backslash-n, braces, dollar, backtick, a lone trailing %
	"pct": {"s1": "50% off", "s2": "%d a%sb %% %! 100%v {} $x `q` \\n \\\\ %"},
}

// StrProfileNames in a fixed order.
var StrProfileNames = []string{"ascii", "esc", "bmp", "astral", "empty", "mixed", "pct", "qbs1", "qbs2", "qbs3", "qbs4"}

// IntProfiles maps the spec's abstract integers to concrete ones.
var IntProfiles = map[string]map[int]int64{
	"id":   {},
	"edge": {7: math.MaxInt64, -7: math.MinInt64, 1: 1 << 32, -1: -(1 << 31) - 1, 0: 0},
	// values whose digits read differently in another base (written with leading zeros)
	"ten": {7: 10, -7: -10, 1: 644, -1: -11, 0: 0},
}

// zeroPad writes a number literal with leading zeros where the grammar's value rule
// (`'-'? [0-9]+ ('.' [0-9]*)?`) admits them; the written value stays decimal.
func zeroPad(lit string, n int) string {
	neg := strings.HasPrefix(lit, "-")
	body := strings.TrimPrefix(lit, "-")
	if body == "" || body[0] == '.' {
		return lit // "-.5": the second number rule has no integer part
	}
	body = strings.Repeat("0", n) + body
	if neg {
		return "-" + body
	}
	return body
}

// preciseFloats is the float profile "precise": the same tokens stand for values that need
// the full float64 precision (more than 7 significant digits, 0.1+0.2, tiny and huge
// magnitudes, the smallest denormal), written in the grammar's plain decimal notation.
var preciseFloats = map[string]float64{
	"f1": 3.14159265358979,
	"f2": -99.999999,
	"f3": 123456789, // written "123456789." — a float with an integral value
	"f4": -0.30000000000000004,
	"f5": math.MaxFloat64,
	"f6": -2.5e-10,
	"f7": 123456789.125,
	"f8": 5e-324,
}

// float returns the literal text and the value of a float token under the profile.
func (p Profile) float(tok string) (string, float64) {
	if p.Float != "precise" {
		e := floatTable[tok]
		return e.text, e.val
	}
	v := preciseFloats[tok]
	text := strconv.FormatFloat(v, 'f', -1, 64)
	switch {
	case !strings.Contains(text, "."):
		text += "." // the grammar reads "123." as a float
	case strings.HasPrefix(text, "-0."):
		text = "-" + text[2:] // "-.3": the rule without an integer part
	}
	return text, v
}

// floatTable gives the literal text and the value of the spec's float tokens.
var floatTable = map[string]struct {
	text string
	val  float64
}{
	"f1": {"1.5", 1.5},
	"f2": {"-0.25", -0.25},
	"f3": {"3.", 3},
	"f4": {"-.5", -0.5},
	"f5": {"", 1e21},
	"f6": {"", 1e-7},
	"f7": {"", -2},
	"f8": {"", 0.5},
}

// Profile selects the concretisation of one replay.
type Profile struct {
	Str   string `json:"str"`
	Int   string `json:"int"`
	Style int    `json:"style"`
	Seed  int64  `json:"seed"`
	// Zeros: number literals of keyword arguments, list elements and condition values are
	// written with leading zeros ("010", "-007", "00", "01.5"). Positional column/row
	// ids and the bounds of `lo < f < hi` are not (the grammar does not admit it there).
	Zeros bool `json:"zeros,omitempty"`
	// Float: "" (simple values: 1.5, -0.25, 3., -.5, 1e21, 1e-7, -2) | "precise"
	Float string `json:"float,omitempty"`
}

func (p Profile) str(tok string) string {
	if tok == "ts" {
		return "2017-01-02T03:04"
	}
	return StrProfiles[p.Str][tok]
}

func (p Profile) int(n, adj int) int64 {
	if v, ok := IntProfiles[p.Int][n]; ok {
		return v + int64(adj)
	}
	return int64(n) + int64(adj)
}

// ---- assembling a derivation --------------------------------------------------------

type val = map[string]interface{}

type posArg struct {
	Key string
	W   val
	Exp val
}

type item struct {
	Kind string // "child" | "kw" | "argcall"
	Key  string
	W    val
	Exp  val
	Call *node
}

type node struct {
	Form   string
	Name   string
	Pos    []posArg
	Ts     val
	Labels []bool
	Items  []item
}

// assemble turns a derivation into the list of top-level calls.
func assemble(b behav.Behaviour) ([]*node, error) {
	var tops []*node
	var stack []*node
	for i, st := range b {
		switch st.Str("op") {
		case "open":
			n := &node{Form: st.Str("form"), Name: st.Str("name"), Ts: behav.ToMap(st["ts"])}
			for _, p := range behav.ToList(st["pos"]) {
				pm := behav.ToMap(p)
				n.Pos = append(n.Pos, posArg{Key: pm["key"].(string), W: behav.ToMap(pm["w"]), Exp: behav.ToMap(pm["exp"])})
			}
			for _, l := range behav.ToList(st["labels"]) {
				b, _ := l.(bool)
				n.Labels = append(n.Labels, b)
			}
			switch st.Str("role") {
			case "top":
				if len(stack) != 0 {
					return nil, fmt.Errorf("step %d: top-level open inside a call", i)
				}
				tops = append(tops, n)
			case "child":
				p := stack[len(stack)-1]
				p.Items = append(p.Items, item{Kind: "child", Call: n})
			case "arg":
				p := stack[len(stack)-1]
				p.Items = append(p.Items, item{Kind: "argcall", Key: st.Str("rkey"), Call: n})
			default:
				return nil, fmt.Errorf("step %d: unknown role %q", i, st.Str("role"))
			}
			stack = append(stack, n)
		case "kw":
			if len(stack) == 0 {
				return nil, fmt.Errorf("step %d: kw outside a call", i)
			}
			p := stack[len(stack)-1]
			p.Items = append(p.Items, item{Kind: "kw", Key: st.Str("key"), W: behav.ToMap(st["w"]), Exp: behav.ToMap(st["exp"])})
		case "close":
			if len(stack) == 0 {
				return nil, fmt.Errorf("step %d: close outside a call", i)
			}
			stack = stack[:len(stack)-1]
		default:
			return nil, fmt.Errorf("step %d: unknown op %q", i, st.Str("op"))
		}
	}
	if len(stack) != 0 {
		return nil, fmt.Errorf("derivation leaves %d calls open", len(stack))
	}
	return tops, nil
}

// ---- the printer --------------------------------------------------------------------

// Styles: 0 compact, 1 canonical (", "), 2 spaces wherever the grammar admits them,
// 3 mixed blanks/tabs/newlines + trailing commas + \u escapes in double-quoted strings,
// 4 like 1 with control characters written raw inside double-quoted strings.
const NStyles = 5

// posValue prints a positional column / row id (`uint`: no leading zeros).
func (pr *printer) posValue(w val) string {
	pr.positional = true
	defer func() { pr.positional = false }()
	return pr.value(w)
}

type printer struct {
	positional bool

	p   Profile
	rng *rand.Rand
	sb  strings.Builder
}

func newPrinter(p Profile) *printer {
	return &printer{p: p, rng: rand.New(rand.NewSource(p.Seed*7919 + int64(p.Style)))}
}

// ws returns optional whitespace at a place where the grammar has `sp`.
func (pr *printer) ws() string {
	switch pr.p.Style {
	case 2:
		return " "
	case 3:
		return []string{"", " ", "\t", "\n", "  ", " \n\t"}[pr.rng.Intn(6)]
	}
	return ""
}

func (pr *printer) comma() string {
	switch pr.p.Style {
	case 0:
		return ","
	case 1, 4:
		return ", "
	}
	return pr.ws() + "," + pr.ws()
}

func (pr *printer) open() string  { return "(" + pr.ws() }
func (pr *printer) close() string { return ")" + pr.ws() }

func escDQ(s string, style int) string {
	var sb strings.Builder
	for _, r := range s {
		switch {
		case r == '"':
			sb.WriteString(`\"`)
		case r == '\\':
			sb.WriteString(`\\`)
		case r == '\n' && style != 4:
			sb.WriteString(`\n`)
		case r == '\t' && style != 4:
			sb.WriteString(`\t`)
		case r >= 0x80 && style == 3 && r <= 0xFFFF:
			fmt.Fprintf(&sb, `\u%04x`, r)
		case r >= 0x80 && style == 3:
			fmt.Fprintf(&sb, `\U%08x`, r)
		default:
			sb.WriteRune(r)
		}
	}
	return sb.String()
}

func escSQ(s string) string {
	s = strings.Replace(s, `\`, `\\`, -1)
	return strings.Replace(s, `'`, `\'`, -1)
}

func (pr *printer) value(w val) string {
	switch w["k"] {
	case "int":
		lit := strconv.FormatInt(pr.p.int(behav.ToInt(w["n"]), behav.ToInt(w["adj"])), 10)
		if pr.p.Zeros && !pr.positional {
			return zeroPad(lit, 1+pr.rng.Intn(2))
		}
		return lit
	case "float":
		text, _ := pr.p.float(w["t"].(string))
		if pr.p.Zeros && !pr.positional {
			return zeroPad(text, 1+pr.rng.Intn(2))
		}
		return text
	case "bool":
		if w["b"].(bool) {
			return "true"
		}
		return "false"
	case "null":
		return "null"
	case "str":
		s := pr.p.str(w["t"].(string))
		if w["q"] == "sq" {
			return "'" + escSQ(s) + "'"
		}
		return `"` + escDQ(s, pr.p.Style) + `"`
	case "bare":
		return w["s"].(string)
	case "ts":
		switch w["q"] {
		case "dq":
			return `"` + w["s"].(string) + `"`
		case "sq":
			return "'" + w["s"].(string) + "'"
		}
		return w["s"].(string)
	case "list":
		var parts []string
		for _, e := range behav.ToList(w["l"]) {
			parts = append(parts, pr.value(behav.ToMap(e)))
		}
		return "[" + pr.ws() + strings.Join(parts, pr.comma()) + pr.ws() + "]" + pr.ws()
	}
	panic(fmt.Sprintf("printer: unknown written value %v", w))
}

// arg prints one keyword argument.
func (pr *printer) arg(key string, w val) string {
	switch w["k"] {
	case "cond":
		sp1, sp2 := pr.ws(), pr.ws()
		if pr.p.Style == 1 || pr.p.Style == 4 {
			sp1, sp2 = " ", " "
		}
		return key + sp1 + w["op"].(string) + sp2 + pr.value(behav.ToMap(w["w"]))
	case "btwc":
		a := strconv.FormatInt(pr.p.int(behav.ToInt(w["a"]), 0), 10)
		b := strconv.FormatInt(pr.p.int(behav.ToInt(w["b"]), 0), 10)
		return a + pr.ws() + w["oa"].(string) + pr.ws() + key + pr.ws() + w["ob"].(string) + pr.ws() + b + pr.ws()
	}
	return key + pr.ws() + "=" + pr.ws() + pr.value(w)
}

// items prints children and keyword arguments; it reports whether anything was printed
// and whether blanks may follow (the last element ends with `sp` in the grammar).
func (pr *printer) items(n *node) (string, bool) {
	var parts []string
	for _, it := range n.Items {
		switch it.Kind {
		case "child":
			parts = append(parts, pr.call(it.Call))
		case "argcall":
			parts = append(parts, it.Key+pr.ws()+"="+pr.ws()+pr.call(it.Call))
		default:
			parts = append(parts, pr.arg(it.Key, it.W))
		}
	}
	return strings.Join(parts, pr.comma()), len(parts) > 0
}

func (pr *printer) call(n *node) string {
	var sb strings.Builder
	sb.WriteString(n.Name)
	sb.WriteString(pr.open())
	body, any := pr.items(n)
	switch n.Form {
	case "gen", "go":
		sb.WriteString(body)
		if any {
			sb.WriteString(pr.ws())
			if pr.p.Style == 3 && pr.rng.Intn(2) == 0 {
				sb.WriteString(pr.comma())
			}
		}
	case "Set", "SetColumnAttrs", "Clear":
		sb.WriteString(pr.posValue(n.Pos[0].W))
		sb.WriteString(pr.comma())
		sb.WriteString(body)
		if n.Ts != nil && n.Ts["k"] == "ts" {
			sb.WriteString(pr.comma())
			sb.WriteString(pr.value(n.Ts))
		} else {
			sb.WriteString(pr.ws())
		}
	case "SetRowAttrs":
		sb.WriteString(pr.value(n.Pos[0].W))
		sb.WriteString(pr.comma())
		sb.WriteString(pr.posValue(n.Pos[1].W))
		sb.WriteString(pr.comma())
		sb.WriteString(body)
		sb.WriteString(pr.ws())
	case "ClearRow", "Store":
		// `open arg close` / `open Call comma arg close`: a single arg, no trailing sp
		sb.WriteString(body)
	case "TopN", "Rows":
		sb.WriteString(pr.value(n.Pos[0].W))
		if any {
			sb.WriteString(pr.comma())
			sb.WriteString(body)
			sb.WriteString(pr.ws())
		}
	case "RangeTS":
		sb.WriteString(pr.arg(n.Pos[0].Key, n.Pos[0].W))
		sb.WriteString(pr.comma())
		if n.Labels[0] {
			sb.WriteString("from=")
		}
		sb.WriteString(pr.value(n.Pos[1].W))
		sb.WriteString(pr.comma())
		if n.Labels[1] {
			sb.WriteString("to=")
			sb.WriteString(pr.ws())
		}
		sb.WriteString(pr.value(n.Pos[2].W))
	default:
		panic("printer: unknown form " + n.Form)
	}
	sb.WriteString(pr.close())
	return sb.String()
}

// Print renders the query.
func Print(tops []*node, p Profile) string {
	pr := newPrinter(p)
	var sb strings.Builder
	sb.WriteString(pr.ws())
	for i, n := range tops {
		if i > 0 && (p.Style == 1 || p.Style == 4) {
			sb.WriteString("\n")
		}
		sb.WriteString(pr.call(n))
	}
	return sb.String()
}

func hasNonASCII(s string) bool {
	for i := 0; i < len(s); i++ {
		if s[i] >= utf8.RuneSelf {
			return true
		}
	}
	return false
}

// kindOf names the kind of a written / expected value for failure matching.
func kindOf(v val) string {
	k, _ := v["k"].(string)
	if q, ok := v["q"].(string); ok {
		return k + "/" + q
	}
	if k == "go" {
		return "go/" + v["t"].(string)
	}
	return k
}
