package wireb

import (
	"fmt"
	"testing"

	"github.com/pilosa/pilosa/pql"
)

func dump(c *pql.Call, ind string) {
	fmt.Printf("%sCall %s\n", ind, c.Name)
	for k, v := range c.Args {
		if cc, ok := v.(*pql.Condition); ok {
			fmt.Printf("%s  %s: COND %v %T %#v\n", ind, k, cc.Op, cc.Value, cc.Value)
		} else if cl, ok := v.(*pql.Call); ok {
			fmt.Printf("%s  %s: CALL\n", ind, k)
			dump(cl, ind+"    ")
		} else {
			fmt.Printf("%s  %s: %T %#v\n", ind, k, v, v)
		}
	}
	for _, ch := range c.Children {
		dump(ch, ind+"  > ")
	}
}

func TestProbe(t *testing.T) {
	for _, s := range []string{
		`Set(1, f=2)`, `Set("é", f=2)`, `Set('é', f="x")`, `Row(f="é", g=3)`, `Row(f="é", g="abc")`,
		`Row(f='a\'b')`, `Row(f="a\"b\\c\nd")`, `Row(f="")`, `Row(f='')`, `Row(f=-5)`, `Row(f=1.5)`, `Row(f=-.5)`, `Row(f=1.)`,
		`Row(f=null)`, `Row(f=true)`, `Row(f=false)`, `Row(f=[1,2])`, `Row(f=["a","b"])`, `Row(f=[])`, `Row(f > 5)`, `Row(f >< [1,5])`, `Row(1 < f <= 5)`, `Row(-3<=f<4)`,
		`Row(f != null)`, `Row(f == 1.5)`, `Row(f=abc)`, `Row(f=a-b:c_1)`, `Row(f=2017-01-02T03:04)`, `Row(f="2017-01-02T03:04")`, `Row(f=x, from='2017-01-02T03:04', to="2018-01-02T03:04")`,
		`Range(f=1, 2017-01-02T03:04, 2018-01-02T03:04)`, `Range(f=1, from=2017-01-02T03:04, to=2018-01-02T03:04)`,
		`Set(1, f=2, 2017-01-02T03:04)`, `Set(1, f=2, "2017-01-02T03:04")`, `TopN(f, Row(g=1), n=5, ids=[1,2])`, `TopN(f)`, `Rows(f, previous="é", limit=2)`,
		`GroupBy(Rows(f), Rows(g), filter=Row(h=1), limit=3, previous=[1,"a"])`, `Options(Row(f=1), columnAttrs=true, shards=[0,1])`,
		`SetRowAttrs(f, 1, x="é", y=2, z=1.5, w=null, v=true)`, `SetRowAttrs(f, "rk", x=1)`, `SetColumnAttrs(1, x="a")`, `SetColumnAttrs("ck", x="a")`,
		`Count(Union(Row(f=1), Row(g=2)))`, `Store(Row(f=1), g=2)`, `ClearRow(f=1)`, `Clear(1, f=2)`, `Not(Row(f=1))`, `Shift(Row(f=1), n=2)`,
		`Row(f="é")Row(g="x")`, `Row(f=truex)`, `Row(f=nullx)`, `Row(f=true,g=1)`, `Row(f= true )`, `Row( f = 1 , g = 2 )`, "Row(\tf=1\n)", `Row(_row=1)`, `Row(f=9223372036854775808)`, `Set(18446744073709551615, f=1)`,
		`Row(f=-0)`, `Row(f=007)`, `Row(f=[1,"a",true,null,1.5,-2])`, `Row(f >< [-1,5])`, `Row(f == "é")`, `Row(f=1, f=2)`, `Sum(Row(f=1), field=v)`, `Row(f=Row(g=1))`,
		`Row(f=1,)`, `TopN(f,)`, `Rows(f, column="ck")`, `Row(f='é', g='x')`, `Row(f="😀", g="x")`, `Set('😀', f='y')`,
	} {
		q, err := pql.ParseString(s)
		fmt.Printf("=== %s\n", s)
		if err != nil {
			fmt.Printf("  ERR %v\n", err)
			continue
		}
		for _, c := range q.Calls {
			dump(c, "  ")
		}
		fmt.Printf("  STR %s\n", q.String())
	}
}
