package wireb

// C27 half: builds the Go values of spec/Wire.tla records by reflection over the real
// structs, compares values up to "nil = empty", and knows which Go types exist.

import (
	"errors"
	"fmt"
	"math"
	"reflect"
	"sort"
	"strings"

	"github.com/pilosa/pilosa"
	"github.com/pilosa/pilosa/roaring"

	"verif/harness/behav"
)

// UnicodeToken is what the spec's string token "u" stands for.
const UnicodeToken = "é日本😀\"\\\x00z"

var wireFloats = map[string]float64{"f1": 1.5, "f2": -0.25, "f3": 3, "f9": math.MaxFloat64}

// wireTypes maps the spec's type names to the Go message types.
var wireTypes = map[string]reflect.Type{
	"CreateShardMessage":          reflect.TypeOf(pilosa.CreateShardMessage{}),
	"CreateIndexMessage":          reflect.TypeOf(pilosa.CreateIndexMessage{}),
	"DeleteIndexMessage":          reflect.TypeOf(pilosa.DeleteIndexMessage{}),
	"CreateFieldMessage":          reflect.TypeOf(pilosa.CreateFieldMessage{}),
	"DeleteFieldMessage":          reflect.TypeOf(pilosa.DeleteFieldMessage{}),
	"DeleteAvailableShardMessage": reflect.TypeOf(pilosa.DeleteAvailableShardMessage{}),
	"CreateViewMessage":           reflect.TypeOf(pilosa.CreateViewMessage{}),
	"DeleteViewMessage":           reflect.TypeOf(pilosa.DeleteViewMessage{}),
	"ClusterStatus":               reflect.TypeOf(pilosa.ClusterStatus{}),
	"ResizeInstruction":           reflect.TypeOf(pilosa.ResizeInstruction{}),
	"ResizeInstructionComplete":   reflect.TypeOf(pilosa.ResizeInstructionComplete{}),
	"SetCoordinatorMessage":       reflect.TypeOf(pilosa.SetCoordinatorMessage{}),
	"UpdateCoordinatorMessage":    reflect.TypeOf(pilosa.UpdateCoordinatorMessage{}),
	"NodeStateMessage":            reflect.TypeOf(pilosa.NodeStateMessage{}),
	"RecalculateCaches":           reflect.TypeOf(pilosa.RecalculateCaches{}),
	"NodeEvent":                   reflect.TypeOf(pilosa.NodeEvent{}),
	"NodeStatus":                  reflect.TypeOf(pilosa.NodeStatus{}),
	"Node":                        reflect.TypeOf(pilosa.Node{}),
	"QueryRequest":                reflect.TypeOf(pilosa.QueryRequest{}),
	"QueryResponse":               reflect.TypeOf(pilosa.QueryResponse{}),
	"ImportRequest":               reflect.TypeOf(pilosa.ImportRequest{}),
	"ImportValueRequest":          reflect.TypeOf(pilosa.ImportValueRequest{}),
	"ImportRoaringRequest":        reflect.TypeOf(pilosa.ImportRoaringRequest{}),
	"ImportResponse":              reflect.TypeOf(pilosa.ImportResponse{}),
	"BlockDataRequest":            reflect.TypeOf(pilosa.BlockDataRequest{}),
	"BlockDataResponse":           reflect.TypeOf(pilosa.BlockDataResponse{}),
	"TranslateKeysRequest":        reflect.TypeOf(pilosa.TranslateKeysRequest{}),
	"TranslateKeysResponse":       reflect.TypeOf(pilosa.TranslateKeysResponse{}),
}

var (
	bitmapPtrType = reflect.TypeOf((*roaring.Bitmap)(nil))
	rowPtrType    = reflect.TypeOf((*pilosa.Row)(nil))
	errorType     = reflect.TypeOf((*error)(nil)).Elem()
	attrMapType   = reflect.TypeOf(map[string]interface{}(nil))
	ifaceSlice    = reflect.TypeOf([]interface{}(nil))
)

// specFields records, per Go struct type, the field names the spec uses (union over all
// values seen); compared with the real struct by staleness().
type specFields map[reflect.Type]map[string]bool

func (sf specFields) note(t reflect.Type, name string) {
	m := sf[t]
	if m == nil {
		m = map[string]bool{}
		sf[t] = m
	}
	m[name] = true
}

func isNilRec(v interface{}) bool {
	m, ok := v.(map[string]interface{})
	if !ok {
		return false
	}
	b, _ := m["isNil"].(bool)
	return b
}

func strTok(s string) string {
	if s == "u" {
		return UnicodeToken
	}
	return s
}

// buildInto sets dst (settable) from the decoded JSON value v of a spec record.
func buildInto(dst reflect.Value, v interface{}, sf specFields) error {
	t := dst.Type()
	switch {
	case t == bitmapPtrType:
		bm := roaring.NewBitmap()
		for _, n := range behav.ToList(v) {
			bm.Add(uintTok(behav.ToInt(n), 64))
		}
		dst.Set(reflect.ValueOf(bm))
		return nil
	case t == errorType:
		if s, _ := v.(string); s != "" {
			dst.Set(reflect.ValueOf(errors.New(strTok(s))))
		}
		return nil
	case t == attrMapType:
		m, err := buildAttrs(v)
		if err != nil {
			return err
		}
		dst.Set(reflect.ValueOf(m))
		return nil
	case t == ifaceSlice:
		var out []interface{}
		for _, r := range behav.ToList(v) {
			x, err := buildResult(behav.ToMap(r), sf)
			if err != nil {
				return err
			}
			out = append(out, x)
		}
		dst.Set(reflect.ValueOf(out))
		return nil
	}
	switch t.Kind() {
	case reflect.String:
		s, ok := v.(string)
		if !ok {
			return fmt.Errorf("want string for %s, spec has %v", t, v)
		}
		dst.SetString(strTok(s))
	case reflect.Bool:
		b, ok := v.(bool)
		if !ok {
			return fmt.Errorf("want bool for %s, spec has %v", t, v)
		}
		dst.SetBool(b)
	case reflect.Uint, reflect.Uint8, reflect.Uint16, reflect.Uint32, reflect.Uint64:
		dst.SetUint(uintTok(behav.ToInt(v), t.Bits()))
	case reflect.Int, reflect.Int8, reflect.Int16, reflect.Int32, reflect.Int64:
		dst.SetInt(intTok(behav.ToInt(v), t.Bits()))
	case reflect.Ptr:
		if isNilRec(v) {
			return nil
		}
		p := reflect.New(t.Elem())
		if err := buildInto(p.Elem(), v, sf); err != nil {
			return err
		}
		dst.Set(p)
	case reflect.Struct:
		m, ok := v.(map[string]interface{})
		if !ok {
			return fmt.Errorf("want a record for %s, spec has %v", t, v)
		}
		for name, fv := range m {
			if name == "none" { // the spec's record for a struct without fields
				continue
			}
			sf.note(t, name)
			f := dst.FieldByName(name)
			if !f.IsValid() {
				return staleError(fmt.Sprintf("spec field %s.%s does not exist in the Go struct", t.Name(), name))
			}
			if err := buildInto(f, fv, sf); err != nil {
				return fmt.Errorf("%s.%s: %w", t.Name(), name, err)
			}
		}
	case reflect.Slice:
		l := behav.ToList(v)
		if len(l) == 0 {
			return nil // nil slice; nil = empty
		}
		s := reflect.MakeSlice(t, len(l), len(l))
		for i := range l {
			if err := buildInto(s.Index(i), l[i], sf); err != nil {
				return err
			}
		}
		dst.Set(s)
	case reflect.Map:
		m, _ := v.(map[string]interface{})
		if len(m) == 0 {
			return nil
		}
		mv := reflect.MakeMap(t)
		for k, ev := range m {
			e := reflect.New(t.Elem()).Elem()
			if err := buildInto(e, ev, sf); err != nil {
				return err
			}
			mv.SetMapIndex(reflect.ValueOf(strTok(k)), e)
		}
		dst.Set(mv)
	default:
		return fmt.Errorf("builder: unsupported Go kind %s (%s)", t.Kind(), t)
	}
	return nil
}

type staleError string

func (e staleError) Error() string { return string(e) }

func uintTok(n int, bits int) uint64 {
	if n == 9 {
		if bits >= 64 {
			return math.MaxUint64
		}
		return 1<<uint(bits) - 1
	}
	return uint64(n)
}

func intTok(n int, bits int) int64 {
	switch n {
	case 9:
		return 1<<uint(bits-1) - 1
	case -9:
		return -1 << uint(bits-1)
	}
	return int64(n)
}

func buildAttrs(v interface{}) (map[string]interface{}, error) {
	m, _ := v.(map[string]interface{})
	if len(m) == 0 {
		return nil, nil
	}
	out := map[string]interface{}{}
	for k, av := range m {
		a := behav.ToMap(av)
		switch a["t"] {
		case "s":
			out[strTok(k)] = strTok(a["v"].(string))
		case "i":
			out[strTok(k)] = intTok(behav.ToInt(a["v"]), 64)
		case "b":
			out[strTok(k)] = a["v"].(bool)
		case "f":
			out[strTok(k)] = wireFloats[a["v"].(string)]
		case "nil":
			out[strTok(k)] = nil
		default:
			return nil, fmt.Errorf("builder: unknown attr kind %v", a["t"])
		}
	}
	return out, nil
}

// resultKinds lists the spec's query-result kinds.
var resultKinds = []string{"Row", "RowNil", "Pairs", "Pair", "ValCount", "Uint64", "Bool", "RowIDs", "GroupCounts", "RowIdentifiers", "Nil"}

func buildResult(r map[string]interface{}, sf specFields) (interface{}, error) {
	sub := func(dst interface{}, v interface{}) error {
		return buildInto(reflect.ValueOf(dst).Elem(), v, sf)
	}
	switch r["kind"] {
	case "Row":
		row := pilosa.NewRow()
		for _, c := range behav.ToList(r["Columns"]) {
			row.SetBit(uintTok(behav.ToInt(c), 64))
		}
		if err := sub(&row.Keys, r["Keys"]); err != nil {
			return nil, err
		}
		attrs, err := buildAttrs(r["Attrs"])
		if err != nil {
			return nil, err
		}
		row.Attrs = attrs
		for _, f := range []string{"Keys", "Attrs"} {
			sf.note(rowPtrType.Elem(), f)
		}
		return row, nil
	case "RowNil":
		return (*pilosa.Row)(nil), nil
	case "Pairs":
		out := []pilosa.Pair{}
		if err := sub(&out, r["list"]); err != nil {
			return nil, err
		}
		if out == nil {
			out = []pilosa.Pair{}
		}
		return out, nil
	case "Pair":
		var p pilosa.Pair
		return p, subInto(&p, r["pair"], sf)
	case "ValCount":
		var vc pilosa.ValCount
		err := subInto(&vc, map[string]interface{}{"Val": r["Val"], "Count": r["Count"]}, sf)
		return vc, err
	case "Uint64":
		return uintTok(behav.ToInt(r["n"]), 64), nil
	case "Bool":
		return r["b"].(bool), nil
	case "RowIDs":
		var ids pilosa.RowIDs
		err := sub(&ids, r["ids"])
		return ids, err
	case "GroupCounts":
		out := []pilosa.GroupCount{}
		if err := sub(&out, r["groups"]); err != nil {
			return nil, err
		}
		if out == nil {
			out = []pilosa.GroupCount{}
		}
		return out, nil
	case "RowIdentifiers":
		var ri pilosa.RowIdentifiers
		err := subInto(&ri, map[string]interface{}{"Rows": r["Rows"], "Keys": r["Keys"]}, sf)
		return ri, err
	case "Nil":
		return nil, nil
	}
	return nil, fmt.Errorf("builder: unknown result kind %v", r["kind"])
}

func subInto(dst interface{}, v interface{}, sf specFields) error {
	return buildInto(reflect.ValueOf(dst).Elem(), v, sf)
}

// BuildMessage builds a pointer to a fresh Go value of the spec type from a spec record.
func BuildMessage(typ string, v interface{}, sf specFields) (interface{}, error) {
	t, ok := wireTypes[typ]
	if !ok {
		return nil, staleError("spec type " + typ + " has no Go type in the driver")
	}
	p := reflect.New(t)
	if err := buildInto(p.Elem(), v, sf); err != nil {
		return nil, err
	}
	return p.Interface(), nil
}

// NewMessage returns a pointer to the zero value of the spec type.
func NewMessage(typ string) interface{} { return reflect.New(wireTypes[typ]).Interface() }

// staleness compares the spec's field sets with the real structs: a Go field the spec
// never mentions means the spec is stale (a new field could be dropped by the codec
// unnoticed). Only types the spec builds through struct records are checked.
func staleness(sf specFields) []string {
	var out []string
	for t, names := range sf {
		if t.Kind() != reflect.Struct {
			continue
		}
		for i := 0; i < t.NumField(); i++ {
			f := t.Field(i)
			if f.PkgPath != "" { // unexported
				continue
			}
			if !names[f.Name] {
				out = append(out, fmt.Sprintf("Go struct %s has field %s which spec/Wire.tla does not know", t.Name(), f.Name))
			}
		}
	}
	sort.Strings(out)
	return out
}

// ---- comparison up to nil = empty -----------------------------------------------------

// canon maps a Go value to a plain tree: nil pointers become the empty struct, nil slices
// and maps become empty ones, rows and bitmaps their contents, errors their text; values
// held in interfaces keep their dynamic type name (a uint64 result is not an int64 one).
func canon(v reflect.Value) interface{} {
	if !v.IsValid() {
		return nil
	}
	t := v.Type()
	switch {
	case t == bitmapPtrType:
		if v.IsNil() {
			return []interface{}{}
		}
		out := []interface{}{}
		for _, x := range v.Interface().(*roaring.Bitmap).Slice() {
			out = append(out, x)
		}
		return out
	case t == rowPtrType:
		if v.IsNil() {
			return "nil-row"
		}
		r := v.Interface().(*pilosa.Row)
		cols := []interface{}{}
		for _, c := range r.Columns() {
			cols = append(cols, c)
		}
		return map[string]interface{}{"Columns": cols, "Keys": canon(reflect.ValueOf(r.Keys)), "Attrs": canon(reflect.ValueOf(r.Attrs))}
	case t == errorType || t.Implements(errorType) && t.Kind() == reflect.Interface:
		if v.IsNil() {
			return ""
		}
		return v.Interface().(error).Error()
	}
	switch t.Kind() {
	case reflect.Ptr:
		if v.IsNil() {
			return canon(reflect.Zero(t.Elem()))
		}
		return canon(v.Elem())
	case reflect.Interface:
		if v.IsNil() {
			return nil
		}
		e := v.Elem()
		et := e.Type()
		for et.Kind() == reflect.Ptr && et != rowPtrType {
			et = et.Elem()
		}
		return map[string]interface{}{"T": et.String(), "V": canon(e)}
	case reflect.Struct:
		out := map[string]interface{}{}
		for i := 0; i < t.NumField(); i++ {
			if t.Field(i).PkgPath != "" {
				continue
			}
			out[t.Field(i).Name] = canon(v.Field(i))
		}
		return out
	case reflect.Slice, reflect.Array:
		out := []interface{}{}
		for i := 0; i < v.Len(); i++ {
			out = append(out, canon(v.Index(i)))
		}
		return out
	case reflect.Map:
		out := map[string]interface{}{}
		for _, k := range v.MapKeys() {
			out[fmt.Sprint(k.Interface())] = canon(v.MapIndex(k))
		}
		return out
	case reflect.String:
		return v.String()
	case reflect.Bool:
		return v.Bool()
	case reflect.Uint, reflect.Uint8, reflect.Uint16, reflect.Uint32, reflect.Uint64:
		return v.Uint()
	case reflect.Int, reflect.Int8, reflect.Int16, reflect.Int32, reflect.Int64:
		return v.Int()
	case reflect.Float32, reflect.Float64:
		return v.Float()
	}
	return fmt.Sprintf("?%s", t)
}

// diffCanon returns the path and description of the first difference ("" when equal).
func diffCanon(a, b interface{}, path string) (string, string) {
	switch x := a.(type) {
	case map[string]interface{}:
		y, ok := b.(map[string]interface{})
		if !ok {
			return path, fmt.Sprintf("sent %s, received %s", short(a), short(b))
		}
		keys := map[string]bool{}
		for k := range x {
			keys[k] = true
		}
		for k := range y {
			keys[k] = true
		}
		ks := make([]string, 0, len(keys))
		for k := range keys {
			ks = append(ks, k)
		}
		sort.Strings(ks)
		for _, k := range ks {
			xv, okx := x[k]
			yv, oky := y[k]
			if !okx || !oky {
				return path + "." + k, fmt.Sprintf("sent %s, received %s", short(xv), short(yv))
			}
			if p, d := diffCanon(xv, yv, path+"."+k); d != "" {
				return p, d
			}
		}
		return "", ""
	case []interface{}:
		y, ok := b.([]interface{})
		if !ok || len(x) != len(y) {
			return path, fmt.Sprintf("sent %s, received %s", short(a), short(b))
		}
		for i := range x {
			if p, d := diffCanon(x[i], y[i], path+"[]"); d != "" {
				return p, d
			}
		}
		return "", ""
	}
	if !reflect.DeepEqual(a, b) {
		return path, fmt.Sprintf("sent %s, received %s", short(a), short(b))
	}
	return "", ""
}

// diffAll collects every differing leaf (path, description), so that a known finding on
// one field cannot hide a different loss in the same value.
func diffAll(a, b interface{}, path string, out *[][2]string) {
	if len(*out) >= 12 {
		return
	}
	switch x := a.(type) {
	case map[string]interface{}:
		if y, ok := b.(map[string]interface{}); ok {
			keys := map[string]bool{}
			for k := range x {
				keys[k] = true
			}
			for k := range y {
				keys[k] = true
			}
			ks := make([]string, 0, len(keys))
			for k := range keys {
				ks = append(ks, k)
			}
			sort.Strings(ks)
			for _, k := range ks {
				xv, okx := x[k]
				yv, oky := y[k]
				if !okx || !oky {
					*out = append(*out, [2]string{path + "." + k, fmt.Sprintf("sent %s, received %s", short(xv), short(yv))})
					continue
				}
				diffAll(xv, yv, path+"."+k, out)
			}
			return
		}
	case []interface{}:
		if y, ok := b.([]interface{}); ok && len(x) == len(y) {
			for i := range x {
				diffAll(x[i], y[i], path+"[]", out)
			}
			return
		}
	}
	if !reflect.DeepEqual(a, b) {
		*out = append(*out, [2]string{path, fmt.Sprintf("sent %s, received %s", short(a), short(b))})
	}
}

func short(v interface{}) string {
	s := fmt.Sprintf("%#v", v)
	if len(s) > 160 {
		s = s[:160] + "…"
	}
	return s
}

// fieldOfPath reduces a diff path (Type.Field[].Sub...) to "Field.Sub" without indexes.
func fieldOfPath(p string) string {
	p = strings.Replace(p, "[]", "", -1)
	if i := strings.Index(p, "."); i >= 0 {
		return p[i+1:]
	}
	return ""
}
