package wireb

import (
	"context"
	"encoding/json"
	"fmt"
	"os"
	"path/filepath"
	"reflect"
	"strconv"
	"strings"
	"sync"
	"testing"

	"github.com/pilosa/pilosa"
	"github.com/pilosa/pilosa/pql"
	"github.com/pilosa/pilosa/server"
	"github.com/pilosa/pilosa/test"

	"verif/harness/behav"
)

// TestC26Cluster: on real 2-node clusters the text remoteExec sends for keyed and
// unkeyed queries (captured by the verif hook at the send site) re-parses to the call
// object the sending node holds at that moment (translated, with the executor's
// converted argument types), and attributes forwarded to the other node arrive with the
// written values and types.

type fwdEvent struct {
	Node  string
	Index string
	Text  string
	Norm  []interface{} // normCall of every call of the forwarded query, taken inside the hook
	Kinds []string      // Go kinds of the argument values
}

type fwdRecorder struct {
	mu     sync.Mutex
	events []fwdEvent
}

func (r *fwdRecorder) hook(nodeID, index string, q *pql.Query, text string) {
	ev := fwdEvent{Node: nodeID, Index: index, Text: text}
	for _, c := range q.Calls {
		ev.Norm = append(ev.Norm, normCall(c))
		collectKinds(c, &ev.Kinds)
	}
	r.mu.Lock()
	r.events = append(r.events, ev)
	r.mu.Unlock()
}

func (r *fwdRecorder) take() []fwdEvent {
	r.mu.Lock()
	defer r.mu.Unlock()
	out := r.events
	r.events = nil
	return out
}

func collectKinds(c *pql.Call, out *[]string) {
	for _, v := range c.Args {
		if sub, ok := v.(*pql.Call); ok {
			collectKinds(sub, out)
			continue
		}
		*out = append(*out, goKind(v))
	}
	for _, ch := range c.Children {
		collectKinds(ch, out)
	}
}

// clusterCase is the replay payload: one query template under one string profile.
type clusterCase struct {
	Cluster string `json:"cluster"` // "A" (unkeyed index, 1 replica) | "B" (keyed index, 2 replicas)
	Query   string `json:"query"`   // template: $1/$2 are replaced by the profile's strings (PQL-quoted), $C/$D by columns of shards the other node owns, $L by a local column
	StrProf string `json:"strprof"`
	Setup   bool   `json:"setup"` // part of the data setup (still checked)
}

var clusterATemplates = []string{
	`Set($C, f=1)`, `Set($D, f=2)`, `Set($C, f=2)`, `Set($L, f=1)`,
	`Set($C, t=1, 2017-01-02T03:04)`, `Set($C, t=2, "2017-06-02T03:04")`,
	`Set($C, kf=$1)`, `Set($D, kf=$2)`, `Set($L, kf=$2)`,
	`Set($C, v=-5)`, `Set($D, v=3)`, `Set($L, v=900)`, `Set($C, b=true)`, `Set($D, b=false)`, `Set($C, m=3)`,
	`Row(f=1)`, `Row(kf=$1)`, `Row(kf=$2)`, `Row(v > -7)`, `Row(v >< [-7, 9])`, `Row(-7 < v <= 9)`, `Row(-5 <= v < 3)`,
	`Row(v != null)`, `Row(v == 3)`, `Row(v < 3)`, `Row(b=true)`, `Row(m=3)`,
	`Row(t=1, from='2017-01-01T00:00', to="2018-01-01T00:00")`, `Range(t=1, 2017-01-01T00:00, 2018-01-01T00:00)`,
	`Count(Union(Row(f=1), Row(kf=$2)))`, `Count(Intersect(Row(f=1), Row(kf=$1)))`, `Difference(Row(f=1), Row(f=2))`,
	`Xor(Row(f=1), Row(kf=$2))`, `Not(Row(f=1))`, `Shift(Row(f=1), n=2)`,
	`TopN(f, n=2)`, `TopN(f, Row(kf=$1), n=1)`, `TopN(f, ids=[1,2])`, `TopN(kf, n=2)`, `TopN(f)`,
	`Rows(f)`, `Rows(f, limit=2, previous=1)`, `Rows(kf, previous=$1)`, `Rows(f, column=$C)`,
	`GroupBy(Rows(f), Rows(kf), limit=5, filter=Row(f=1))`, `GroupBy(Rows(f), Rows(kf), previous=[1,$1])`,
	`Sum(field=v)`, `Sum(Row(f=1), field=v)`, `Min(field=v)`, `Max(Row(kf=$2), field=v)`, `MinRow(field=f)`, `MaxRow(field=f)`,
	`SetRowAttrs(f, 1, a=$1, b=1.0, c=-2, d=true, g=2.5, h=$2)`, `SetRowAttrs(f, 1, c=null)`, `SetRowAttrs(kf, $1, a=$2, z=10.)`,
	`SetColumnAttrs($C, a=$2, x=3.0, y=-0.25, n=7)`, `SetColumnAttrs($C, n=null)`,
	// floats that need the full float64 precision on the other node
	`SetRowAttrs(f, 2, p=3.14159265358979, q=99.999999, r=0.30000000000000004, s=123456789.125, t=-0.00000000025, u=12345678.0)`,
	`SetColumnAttrs($D, p=3.14159265358979, q=0.0000001, r=-99.999999)`,
	`Options(Row(f=1), excludeColumns=true, shards=[0,1,2,3])`, `Options(Count(Row(kf=$1)), columnAttrs=true)`,
	`Store(Row(f=1), f=9)`, `Row(f=9)`, `ClearRow(f=9)`, `Clear($C, f=2)`, `Clear($D, kf=$2)`,
}

var clusterBTemplates = []string{
	`Set($1, kf=$2)`, `Set($2, kf=$2)`, `Set($2, f=1)`, `Set($1, v=-3)`,
	`SetColumnAttrs($1, a=$2, x=1.0)`, `SetRowAttrs(kf, $2, a=$1, w=2.0, e=2.718281828459045)`,
	`Row(kf=$2)`, `Count(Row(f=1))`, `TopN(kf, n=1)`, `Rows(kf, column=$1)`, `Row(v > -7)`,
	`Clear($1, kf=$2)`, `Store(Row(kf=$2), f=7)`, `ClearRow(f=7)`,
}

type clusterEnv struct {
	name     string
	c        test.Cluster
	index    string
	rec      *fwdRecorder
	remote   []uint64 // columns in shards node 0 does not own
	local    uint64
	dirs     []string
	keyedIdx bool
}

func startClusterEnv(t testing.TB, name string, rec *fwdRecorder) *clusterEnv {
	var opts [][]server.CommandOption
	if name == "B" {
		opts = append(opts, []server.CommandOption{server.OptCommandServerOptions(pilosa.OptServerReplicaN(2))})
	}
	c := test.MustRunCluster(t, 2, opts...)
	e := &clusterEnv{name: name, c: c, rec: rec, index: "c26" + strings.ToLower(name), keyedIdx: name == "B"}
	for _, cmd := range c {
		e.dirs = append(e.dirs, cmd.Config.DataDir)
	}
	ctx := context.Background()
	api := c[0].API
	if _, err := api.CreateIndex(ctx, e.index, pilosa.IndexOptions{Keys: e.keyedIdx, TrackExistence: true}); err != nil {
		t.Fatalf("create index: %v", err)
	}
	mk := func(name string, opts ...pilosa.FieldOption) {
		if _, err := api.CreateField(ctx, e.index, name, opts...); err != nil {
			t.Fatalf("create field %s: %v", name, err)
		}
	}
	mk("f", pilosa.OptFieldTypeSet(pilosa.CacheTypeRanked, 100))
	mk("kf", pilosa.OptFieldTypeSet(pilosa.CacheTypeRanked, 100), pilosa.OptFieldKeys())
	mk("v", pilosa.OptFieldTypeInt(-1000, 1000))
	if !e.keyedIdx {
		mk("t", pilosa.OptFieldTypeTime(pilosa.TimeQuantum("YMD")))
		mk("b", pilosa.OptFieldTypeBool())
		mk("m", pilosa.OptFieldTypeMutex(pilosa.CacheTypeRanked, 100))
		self := c[0].API.Node().ID
		for shard := uint64(0); shard < 16 && (len(e.remote) < 2 || e.local == 0); shard++ {
			nodes, err := api.ShardNodes(ctx, e.index, shard)
			if err != nil || len(nodes) == 0 {
				t.Fatalf("ShardNodes: %v", err)
			}
			if nodes[0].ID != self {
				if len(e.remote) < 2 {
					e.remote = append(e.remote, shard*pilosa.ShardWidth+uint64(5+len(e.remote)))
				}
			} else if e.local == 0 {
				e.local = shard*pilosa.ShardWidth + 3
			}
		}
		if len(e.remote) < 2 {
			t.Fatalf("no shard owned by the second node among the first 16")
		}
	}
	return e
}

func (e *clusterEnv) close() {
	func() {
		defer func() { recover() }()
		e.c.Close()
	}()
	for _, d := range e.dirs {
		if strings.Contains(filepath.Base(d), "pilosa-") {
			os.RemoveAll(d)
		}
	}
}

// quoteFor writes s as a PQL double-quoted literal (the harness's own escaping).
func quoteFor(s string) string { return `"` + escDQ(s, 1) + `"` }

func (e *clusterEnv) instantiate(tmpl, prof string) string {
	q := tmpl
	if !e.keyedIdx {
		q = strings.Replace(q, "$D", strconv.FormatUint(e.remote[1], 10), -1)
		q = strings.Replace(q, "$C", strconv.FormatUint(e.remote[0], 10), -1)
		q = strings.Replace(q, "$L", strconv.FormatUint(e.local, 10), -1)
	}
	q = strings.Replace(q, "$1", quoteFor(StrProfiles[prof]["s1"]), -1)
	q = strings.Replace(q, "$2", quoteFor(StrProfiles[prof]["s2"]), -1)
	return q
}

// runClusterCase executes one query on node 0 and checks everything it forwarded.
func (e *clusterEnv) runClusterCase(cc *clusterCase, res *behav.Result) (fails []behav.Failure) {
	text := e.instantiate(cc.Query, cc.StrProf)
	e.rec.take()
	var qerr error
	pv, stack := behav.Protect(func() {
		_, qerr = e.c[0].API.Query(context.Background(), &pilosa.QueryRequest{Index: e.index, Query: text})
	})
	base := func(sym, kind string) map[string]string {
		return map[string]string{"test": "cluster", "cluster": cc.Cluster, "symptom": sym, "kind": kind,
			"call": strings.SplitN(cc.Query, "(", 2)[0], "strprof": cc.StrProf}
	}
	if pv != nil {
		if !strings.Contains(stack, "github.com/pilosa/pilosa/pql") {
			// a crash of the executor that does not pass through the parser / printer is not
			// this property's subject (C06/C15); the run says nothing about forwarding then
			res.SetInconclusive(fmt.Sprintf("query %q panicked outside pql: %v\n%s", text, pv, firstLines(stack, 30)))
			return
		}
		fails = append(fails, behav.Failure{Match: base("panic", ""), Detail: fmt.Sprintf("query %q panicked: %v\n%s", text, pv, firstLines(stack, 25)), Replay: cc})
		return
	}
	evs := e.rec.take()
	for _, ev := range evs {
		res.Cover("cluster/forwarded/" + strings.SplitN(ev.Text, "(", 2)[0])
		for _, k := range ev.Kinds {
			res.Cover("cluster/kind/" + k)
		}
		q, perr, pstack, ppv := parseProtected(ev.Text)
		switch {
		case ppv != nil:
			fails = append(fails, behav.Failure{Match: base("panic", "reparse"), Detail: fmt.Sprintf("query %q: forwarded text %q: ParseString panicked: %v\n%s", text, ev.Text, ppv, firstLines(pstack, 20)), Replay: cc})
		case perr != nil:
			fails = append(fails, behav.Failure{Match: base("parse_error", strings.Join(uniq(ev.Kinds), ",")), Detail: fmt.Sprintf("query %q: node %s forwarded %q, which the receiving parser rejects: %s", text, ev.Node, ev.Text, strings.Replace(perr.Error(), "\n", " ", -1)), Replay: cc})
		case len(q.Calls) != len(ev.Norm):
			fails = append(fails, behav.Failure{Match: base("wrong_shape", "calls"), Detail: fmt.Sprintf("query %q: forwarded %q: %d calls sent, %d re-parsed", text, ev.Text, len(ev.Norm), len(q.Calls)), Replay: cc})
		default:
			for i := range q.Calls {
				if path, d := diffNorm(ev.Norm[i], normCall(q.Calls[i]), q.Calls[i].Name); d != "" {
					fails = append(fails, behav.Failure{Match: base("wrong_value", "forwarded"), Detail: fmt.Sprintf("query %q: forwarded text %q differs from the call the sender holds at %s: %s", text, ev.Text, path, d), Replay: cc})
					break
				}
			}
		}
	}
	if qerr != nil {
		// a query of the fixed program that fails is a lost meaning when the failure comes
		// from the receiving node's parser; other errors make the case vacuous
		msg := qerr.Error()
		if strings.Contains(msg, "parse error") || strings.Contains(msg, "parsing") {
			fails = append(fails, behav.Failure{Match: base("remote_parse_error", ""), Detail: fmt.Sprintf("query %q failed on the receiving node: %s", text, strings.Replace(msg, "\n", " ", -1)), Replay: cc})
		} else {
			res.SetInconclusive(fmt.Sprintf("cluster %s: query %q failed: %s", cc.Cluster, text, msg))
		}
		return
	}
	// attributes written through node 0 must be the same values and types on node 1
	if strings.HasPrefix(cc.Query, "SetRowAttrs(") || strings.HasPrefix(cc.Query, "SetColumnAttrs(") {
		if d := e.attrDiff(); d != "" {
			fails = append(fails, behav.Failure{Match: base("attr_differs", "attrs"), Detail: fmt.Sprintf("after %q: %s", text, d), Replay: cc})
		}
	}
	return
}

func uniq(a []string) []string {
	seen := map[string]bool{}
	var out []string
	for _, s := range a {
		if !seen[s] {
			seen[s] = true
			out = append(out, s)
		}
	}
	sortStrings(out)
	return out
}

// attrDiff compares the row attributes of f and kf (ids 1..3) and the column
// attributes of the probe columns on both nodes, values and Go types.
func (e *clusterEnv) attrDiff() string {
	type probe struct {
		what string
		get  func(h *pilosa.Holder) (map[string]interface{}, error)
	}
	var probes []probe
	for _, fld := range []string{"f", "kf"} {
		for id := uint64(1); id <= 3; id++ {
			fld, id := fld, id
			probes = append(probes, probe{fmt.Sprintf("row attrs %s/%d", fld, id), func(h *pilosa.Holder) (map[string]interface{}, error) {
				f := h.Index(e.index).Field(fld)
				if f == nil {
					return nil, fmt.Errorf("no field %s", fld)
				}
				return f.RowAttrStore().Attrs(id)
			}})
		}
	}
	cols := append([]uint64{1, 2, 3}, e.remote...)
	for _, col := range cols {
		col := col
		probes = append(probes, probe{fmt.Sprintf("column attrs %d", col), func(h *pilosa.Holder) (map[string]interface{}, error) {
			return h.Index(e.index).ColumnAttrStore().Attrs(col)
		}})
	}
	for _, p := range probes {
		a, err0 := p.get(e.c[0].Server.Holder())
		b, err1 := p.get(e.c[1].Server.Holder())
		if err0 != nil || err1 != nil {
			return fmt.Sprintf("%s: read error %v / %v", p.what, err0, err1)
		}
		if len(a) == 0 && len(b) == 0 {
			continue
		}
		if !reflect.DeepEqual(a, b) {
			return fmt.Sprintf("%s: sending node has %s, receiving node has %s", p.what, descMap(a), descMap(b))
		}
	}
	return ""
}

func descMap(m map[string]interface{}) string {
	keys := make([]string, 0, len(m))
	for k := range m {
		keys = append(keys, k)
	}
	sortStrings(keys)
	parts := make([]string, len(keys))
	for i, k := range keys {
		parts[i] = fmt.Sprintf("%s=%T(%v)", k, m[k], m[k])
	}
	return "{" + strings.Join(parts, " ") + "}"
}

func TestC26Cluster(t *testing.T) {
	res := behav.NewResult()
	defer func() {
		if err := res.Write(); err != nil {
			t.Fatal(err)
		}
	}()
	rec := &fwdRecorder{}
	pilosa.VerifForward = rec.hook
	defer func() { pilosa.VerifForward = nil }()

	runProgram := func(name string, tmpls []string, prof string, only *clusterCase) {
		env := startClusterEnv(t, name, rec)
		defer env.close()
		forwarded := 0
		for _, tm := range tmpls {
			cc := &clusterCase{Cluster: name, Query: tm, StrProf: prof}
			before := res.NFailures()
			fails := env.runClusterCase(cc, res)
			res.CountEval()
			res.CountNontrivial()
			_ = before
			for _, f := range fails {
				if only == nil || only.Query == tm {
					res.Fail(f)
				}
			}
			if only != nil && only.Query == tm {
				break
			}
		}
		_ = forwarded
	}

	if raw, ok := behav.LoadReplay(); ok {
		var cc clusterCase
		if err := json.Unmarshal(raw, &cc); err != nil {
			t.Fatal(err)
		}
		// a replay re-runs the program of its cluster up to and including the failing query
		tm := clusterATemplates
		if cc.Cluster == "B" {
			tm = clusterBTemplates
		}
		runProgram(cc.Cluster, tm, cc.StrProf, &cc)
		return
	}
	profs := []string{"ascii", "esc", "bmp", "astral", "mixed", "pct", "qbs1", "qbs2", "qbs3", "qbs4"}
	if !behav.Thorough() {
		profs = []string{"ascii", []string{"esc", "bmp", "astral", "mixed"}[int(behav.Seed()%4+4)%4], "pct", "qbs1"}
	}
	for _, p := range uniq(profs) {
		runProgram("A", clusterATemplates, p, nil)
		runProgram("B", clusterBTemplates, p, nil)
	}
	// vacuity: the program must really have forwarded calls of the main kinds
	if err := res.Write(); err == nil {
		need := []string{"cluster/forwarded/Set", "cluster/forwarded/Row", "cluster/forwarded/TopN", "cluster/forwarded/Rows",
			"cluster/forwarded/GroupBy", "cluster/forwarded/SetRowAttrs", "cluster/forwarded/SetColumnAttrs", "cluster/forwarded/Count",
			"cluster/kind/uint64", "cluster/kind/int64", "cluster/kind/string", "cluster/kind/float64", "cluster/kind/[]uint64", "cluster/kind/[]int64", "cluster/kind/nil", "cluster/kind/bool"}
		for _, k := range need {
			if v, _ := res.Coverage[k].(int64); v == 0 {
				res.SetInconclusive("vacuous: nothing forwarded for " + k)
			}
		}
	}
}
