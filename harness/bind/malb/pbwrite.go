package malb

import (
	"fmt"
	"strings"
)

// A minimal protobuf writer (tag + varint / tag + length + bytes), independent of the
// code under test, and the message trees of internal/private.proto for every cluster
// message that nests messages. pbEncode writes a tree field by field; the field named by
// a dotted path is dropped ("absent") or written with length 0 ("empty"), everything
// else carries a benign value.

type pbField struct {
	name string
	num  int
	// exactly one of: str (wire type 2), varint (wire type 0), msg (wire type 2, nested)
	str    *string
	varint *uint64
	msg    []pbField
	isMsg  bool
}

func pbStr(name string, num int, v string) pbField { return pbField{name: name, num: num, str: &v} }
func pbInt(name string, num int, v uint64) pbField { return pbField{name: name, num: num, varint: &v} }
func pbMsg(name string, num int, fs ...pbField) pbField {
	return pbField{name: name, num: num, msg: fs, isMsg: true}
}

func pbVarint(b []byte, v uint64) []byte {
	for v >= 0x80 {
		b = append(b, byte(v)|0x80)
		v >>= 7
	}
	return append(b, byte(v))
}

// pbEncode encodes fields; path names the nested field to damage ("" = none).
func pbEncode(fields []pbField, path string, mode string, hit *bool) []byte {
	var out []byte
	head, rest := path, ""
	if i := strings.Index(path, "."); i >= 0 {
		head, rest = path[:i], path[i+1:]
	}
	for _, f := range fields {
		switch {
		case f.isMsg:
			sub := ""
			if path != "" && f.name == head {
				if rest == "" {
					*hit = true
					if mode == "absent" {
						continue
					}
					// present but empty
					out = pbVarint(out, uint64(f.num)<<3|2)
					out = pbVarint(out, 0)
					continue
				}
				sub = rest
			}
			body := pbEncode(f.msg, sub, mode, hit)
			out = pbVarint(out, uint64(f.num)<<3|2)
			out = pbVarint(out, uint64(len(body)))
			out = append(out, body...)
		case f.str != nil:
			if *f.str == "" {
				continue // proto3: default values are not written
			}
			out = pbVarint(out, uint64(f.num)<<3|2)
			out = pbVarint(out, uint64(len(*f.str)))
			out = append(out, *f.str...)
		default:
			if *f.varint == 0 {
				continue
			}
			out = pbVarint(out, uint64(f.num)<<3)
			out = pbVarint(out, *f.varint)
		}
	}
	return out
}

type nodeVals struct {
	id, scheme, host, state string
	port                    uint64
	coord                   bool
}

func pbNodeFields(n nodeVals) []pbField {
	c := uint64(0)
	if n.coord {
		c = 1
	}
	return []pbField{
		pbStr("ID", 1, n.id),
		pbMsg("URI", 2, pbStr("Scheme", 1, n.scheme), pbStr("Host", 2, n.host), pbInt("Port", 3, n.port)),
		pbInt("IsCoordinator", 3, c),
		pbStr("State", 4, n.state),
	}
}

func pbFieldOptions() []pbField {
	return []pbField{pbStr("Type", 8, "set"), pbStr("CacheType", 3, "ranked"), pbInt("CacheSize", 4, 1000)}
}

func pbSchemaFields() []pbField {
	return []pbField{
		pbMsg("Indexes", 1,
			pbStr("Name", 1, "i"),
			pbMsg("Fields", 4, pbStr("Name", 1, "f"), pbMsg("Meta", 2, pbFieldOptions()...), pbStr("Views", 3, "standard")),
			pbMsg("Options", 5)),
	}
}

func pbNodeStatusFields(n nodeVals) []pbField {
	return []pbField{
		pbMsg("Node", 1, pbNodeFields(n)...),
		pbMsg("Schema", 3, pbSchemaFields()...),
		pbMsg("Indexes", 4, pbStr("Name", 1, "i"), pbMsg("Fields", 2, pbStr("Name", 1, "f"), pbInt("AvailableShards", 2, 1))),
	}
}

func pbClusterStatusFields(n nodeVals, state string) []pbField {
	return []pbField{pbStr("ClusterID", 1, "c06"), pbStr("State", 2, state), pbMsg("Nodes", 3, pbNodeFields(n)...)}
}

// pbMessageTree is the well-formed message of the given type byte, as a field tree.
func pbMessageTree(typ int, n nodeVals, clusterState string) ([]pbField, error) {
	switch typ {
	case 1:
		return []pbField{pbStr("Index", 1, "c06n"), pbMsg("Meta", 2)}, nil
	case 3:
		return []pbField{pbStr("Index", 1, "i"), pbStr("Field", 2, "c06n"), pbMsg("Meta", 3, pbFieldOptions()...)}, nil
	case 7:
		return pbClusterStatusFields(n, clusterState), nil
	case 8:
		return []pbField{
			pbInt("JobID", 1, 1),
			pbMsg("Node", 2, pbNodeFields(n)...),
			pbMsg("Coordinator", 3, pbNodeFields(n)...),
			pbMsg("Sources", 4, pbMsg("Node", 1, pbNodeFields(n)...), pbStr("Index", 2, "i"), pbStr("Field", 3, "f"), pbStr("View", 4, "standard"), pbInt("Shard", 5, 0)),
			pbMsg("NodeStatus", 7, pbNodeStatusFields(n)...),
			pbMsg("ClusterStatus", 6, pbClusterStatusFields(n, clusterState)...),
		}, nil
	case 9:
		return []pbField{pbInt("JobID", 1, 1), pbMsg("Node", 2, pbNodeFields(n)...)}, nil
	case 10, 11:
		return []pbField{pbMsg("New", 1, pbNodeFields(n)...)}, nil
	case 14:
		return []pbField{pbInt("Event", 1, 2), pbMsg("Node", 2, pbNodeFields(n)...)}, nil
	case 15:
		return pbNodeStatusFields(n), nil
	}
	return nil, fmt.Errorf("message type %d nests no message", typ)
}

// NestedMessage materialises a msg case of body kind "nested".
func NestedMessage(typ int, path, mode string, n nodeVals, clusterState string) ([]byte, error) {
	tree, err := pbMessageTree(typ, n, clusterState)
	if err != nil {
		return nil, err
	}
	hit := false
	body := pbEncode(tree, path, mode, &hit)
	if !hit {
		return nil, fmt.Errorf("message type %d has no nested field %q", typ, path)
	}
	return body, nil
}
