package malb

import (
	"bytes"
	"context"
	"crypto/sha1"
	"encoding/binary"
	"encoding/json"
	"fmt"
	"io/ioutil"
	"net/http"
	"os"
	"path/filepath"
	"runtime/debug"
	"sort"
	"strings"
	"time"

	"github.com/pilosa/pilosa"
	"github.com/pilosa/pilosa/encoding/proto"
	"github.com/pilosa/pilosa/gossip"
	"github.com/pilosa/pilosa/pql"
	"github.com/pilosa/pilosa/roaring"
	"github.com/pilosa/pilosa/test"
)

// Verdict is what running one case produced.
type Verdict struct {
	Class   string `json:"class"`             // "accepted" | "rejected" | "" (failed before an answer)
	Symptom string `json:"symptom,omitempty"` // "" | "crash" | "hang" | "state_changed" | "lock_held" | "not_accepted" | "harness"
	Detail  string `json:"detail,omitempty"`
	Cover   string `json:"cover,omitempty"`
}

// baseline is what every target holds before a case: bits in each of the three
// containers a payload can address, overlapping array, bitmap and run payloads.
func baselineVals() []uint64 {
	var out []uint64
	for _, k := range ContKeys {
		for _, v := range []uint64{1, 7, 13, 100, 101, 102, 103, 104, 105, 106, 107, 108, 109, 110, 65535} {
			out = append(out, k<<16|v)
		}
	}
	return out
}

// allPayloadVals is the union of everything a valid payload can set (used to put a
// server target back to the baseline after an accepted case).
func allPayloadVals() []uint64 {
	m := map[uint64]bool{}
	for _, k := range ContKeys {
		for _, t := range []string{"a", "b", "r"} {
			for _, v := range ContVals(t) {
				m[k<<16|uint64(v)] = true
			}
		}
	}
	for _, v := range []uint64{3<<16 | 9, 3<<16 | 1, 3<<16 | 2, 5 << 16, 6<<16 | 2, 6<<16 | 4} {
		m[v] = true
	}
	out := make([]uint64, 0, len(m))
	for v := range m {
		out = append(out, v)
	}
	sort.Slice(out, func(i, j int) bool { return out[i] < out[j] })
	return out
}

func hashVals(vals []uint64) string {
	h := sha1.New()
	var b [8]byte
	for _, v := range vals {
		binary.LittleEndian.PutUint64(b[:], v)
		h.Write(b[:])
	}
	return fmt.Sprintf("%d:%x", len(vals), h.Sum(nil)[:8])
}

// protect runs fn; a panic is returned as text with its stack.
func protect(fn func()) (panicked string) {
	defer func() {
		if v := recover(); v != nil {
			panicked = fmt.Sprintf("%v\n%s", v, debug.Stack())
		}
	}()
	fn()
	return ""
}

func crashVerdict(p string) Verdict {
	sym := "crash"
	if !strings.Contains(p, "github.com/pilosa/pilosa") {
		sym = "harness"
	}
	if len(p) > 1800 {
		p = p[:1800]
	}
	return Verdict{Symptom: sym, Detail: "panic on the caller's goroutine: " + p}
}

// Env is the per-child-process state.
type Env struct {
	Dir  string
	srv  *server
	nseq int
}

// Close releases the server.
func (e *Env) Close() {
	if e.srv != nil {
		e.srv.close()
		e.srv = nil
	}
}

// Run executes one case.
func (e *Env) Run(c *Case) Verdict {
	e.nseq++
	switch c.Fam {
	case "roaring":
		data, err := Materialise(c)
		if err != nil {
			return Verdict{Symptom: "harness", Detail: err.Error()}
		}
		var v Verdict
		switch {
		case c.Entry == "unmarshal":
			v = runUnmarshal(data)
		case strings.HasPrefix(c.Entry, "irb_"):
			v = runImportBits(c, data)
		case c.Entry == "frag_open":
			v = e.runFragOpen(c, data)
		case strings.HasPrefix(c.Entry, "api_import_"), strings.HasPrefix(c.Entry, "http_import_"):
			v = e.runServerImport(c, data)
		default:
			return Verdict{Symptom: "harness", Detail: "unknown entry " + c.Entry}
		}
		if v.Symptom == "" && len(c.Cors) == 0 && v.Class != "accepted" {
			v.Symptom = "not_accepted"
			v.Detail = "the valid encoding (no corruption) was rejected: " + v.Detail
		}
		return v
	case "pql":
		return e.runPQL(c)
	case "msg":
		return e.runMsg(c)
	case "env":
		return e.runEnvelope(c)
	}
	return Verdict{Symptom: "harness", Detail: "unknown family " + c.Fam}
}

// ---- roaring.Bitmap level ----------------------------------------------------

func readBack(b *roaring.Bitmap) {
	_ = b.Count()
	_ = b.Max()
	_ = b.Slice()
	_, _ = b.WriteTo(ioutil.Discard)
}

func runUnmarshal(data []byte) Verdict {
	var v Verdict
	for _, kind := range []string{"slice", "btree"} {
		g := Guarded(data)
		var err error
		if p := protect(func() {
			var b *roaring.Bitmap
			if kind == "slice" {
				b = roaring.NewSliceBitmap()
			} else {
				b = roaring.NewBTreeBitmap()
			}
			err = b.UnmarshalBinary(g)
			if err == nil {
				readBack(b)
			}
		}); p != "" {
			return crashVerdict(p)
		}
		cl := "accepted"
		if err != nil {
			cl = "rejected"
			v.Detail = err.Error()
		}
		if v.Class != "" && v.Class != cl {
			return Verdict{Class: cl, Symptom: "state_changed", Detail: "slice and B-tree bitmaps disagree on accepting the same bytes: " + v.Detail}
		}
		v.Class = cl
	}
	// follow-up: a valid decode is served
	var err error
	if p := protect(func() { err = roaring.NewBitmap().UnmarshalBinary(EncodePilosaVals([]uint64{1, 2, 70000})) }); p != "" || err != nil {
		return Verdict{Class: v.Class, Symptom: "lock_held", Detail: fmt.Sprintf("valid decode after the case failed: %v %s", err, p)}
	}
	return v
}

func runImportBits(c *Case, data []byte) Verdict {
	clear := strings.Contains(c.Entry, "_clear_")
	var t *roaring.Bitmap
	if strings.HasSuffix(c.Entry, "_btree") {
		t = roaring.NewBTreeBitmap(baselineVals()...)
	} else {
		t = roaring.NewSliceBitmap(baselineVals()...)
	}
	before := t.Slice()
	g := Guarded(data)
	var err error
	var after []uint64
	if p := protect(func() {
		_, _, err = t.ImportRoaringBits(g, clear, false, 16)
		after = t.Slice()
		if err == nil {
			readBack(t)
		}
	}); p != "" {
		return crashVerdict(p)
	}
	v := Verdict{Class: "accepted"}
	if err != nil {
		v.Class = "rejected"
		v.Detail = err.Error()
		if hashVals(before) != hashVals(after) {
			v.Symptom = "state_changed"
			v.Detail = fmt.Sprintf("rejected (%v) but the target changed: %d values before, %d after", err, len(before), len(after))
			return v
		}
	}
	// follow-up: a valid import into the same target has exactly its effect
	probe := uint64(9<<16 | 77)
	if p := protect(func() { _, _, err = t.ImportRoaringBits(EncodePilosaVals([]uint64{probe}), false, false, 16) }); p != "" || err != nil {
		v.Symptom = "lock_held"
		v.Detail = fmt.Sprintf("valid import after the case failed: %v %s", err, p)
		return v
	}
	if !t.Contains(probe) || (v.Class == "rejected" && int(t.Count()) != len(before)+1) {
		v.Symptom = "lock_held"
		v.Detail = fmt.Sprintf("valid import after the case did not take effect (count %d, before %d)", t.Count(), len(before))
	}
	return v
}

// ---- fragment file -------------------------------------------------------------

func (e *Env) runFragOpen(c *Case, data []byte) Verdict {
	path := filepath.Join(e.Dir, fmt.Sprintf("frag-%d", e.nseq))
	defer os.Remove(path)
	defer os.Remove(path + ".cache")
	if len(data) == 0 {
		// an empty file is a new fragment, not stored data
		return Verdict{Class: "accepted", Cover: "empty_file"}
	}
	if err := ioutil.WriteFile(path, data, 0o644); err != nil {
		return Verdict{Symptom: "harness", Detail: err.Error()}
	}
	var err error
	if p := protect(func() {
		f := pilosa.VerifNewFragment(path, pilosa.VerifFragmentOptions{Kind: "set"})
		err = f.Open()
		if err == nil {
			_ = f.Rows(0, nil, nil, false, nil)
			_ = f.ForEachBit(func(r, col uint64) error { return nil })
			_ = f.Checksum()
			_ = f.Row(0).Columns()
			_, _ = f.TopN(3, nil)
			err2 := f.Close()
			_ = err2
		}
	}); p != "" {
		return crashVerdict(p)
	}
	v := Verdict{Class: "accepted"}
	if err != nil {
		v.Class = "rejected"
		v.Detail = err.Error()
		now, rerr := ioutil.ReadFile(path)
		if rerr != nil || !bytes.Equal(now, data) {
			v.Symptom = "state_changed"
			v.Detail = fmt.Sprintf("open rejected (%v) but the data file changed: %d bytes before, %d after (%v)", err, len(data), len(now), rerr)
			return v
		}
	}
	// follow-up: a valid file at the same path opens (file lock and handles released)
	valid, _ := Materialise(&Case{Fam: "roaring", Fmt: "pilosa", Shape: []string{"a", "r"}})
	os.Remove(path + ".cache")
	if werr := ioutil.WriteFile(path, valid, 0o644); werr != nil {
		return Verdict{Symptom: "harness", Detail: werr.Error()}
	}
	var n uint64
	if p := protect(func() {
		f := pilosa.VerifNewFragment(path, pilosa.VerifFragmentOptions{Kind: "set"})
		err = f.Open()
		if err == nil {
			n = f.Row(0).Count()
			err = f.Close()
		}
	}); p != "" || err != nil || n != uint64(len(ContVals("a"))) {
		v.Symptom = "lock_held"
		v.Detail = fmt.Sprintf("valid file at the same path after the case: err=%v row0=%d %s", err, n, p)
	}
	return v
}

// ---- server ----------------------------------------------------------------------

type memberSet interface {
	NotifyMsg([]byte)
	MergeRemoteState([]byte, bool)
}

type server struct {
	cmd     *test.Command
	ms      memberSet
	client  *http.Client
	follow  uint64
	novel   uint64
	dirty   bool // the target may differ from the baseline
	created map[string]bool
}

func (e *Env) server() (*server, error) {
	if e.srv != nil {
		return e.srv, nil
	}
	s := &server{client: &http.Client{Timeout: 25 * time.Second}}
	var err error
	if p := protect(func() {
		s.cmd = test.MustRunCommand()
		ctx := context.Background()
		if _, err = s.cmd.API.CreateIndex(ctx, "i", pilosa.IndexOptions{}); err != nil {
			return
		}
		if _, err = s.cmd.API.CreateField(ctx, "i", "f", pilosa.OptFieldTypeSet(pilosa.CacheTypeRanked, 1000)); err != nil {
			return
		}
		err = s.importValid(baselineVals(), false)
	}); p != "" {
		return nil, fmt.Errorf("starting server: %s", p)
	}
	if err != nil {
		return nil, err
	}
	// the digest must see what was just imported (a digest that reads nothing would make
	// every state comparison vacuous)
	d, err := s.digest()
	if err != nil {
		return nil, err
	}
	if !strings.Contains(d, "/standard="+hashVals(baselineVals())+"/") {
		return nil, fmt.Errorf("digest %s does not show the baseline %s", d, hashVals(baselineVals()))
	}
	e.srv = s
	return s, nil
}

func (s *server) close() {
	if s.cmd != nil {
		protect(func() { s.cmd.Close() })
	}
}

// dropServer abandons a server a panic may have left with locks held.
func (e *Env) dropServer() {
	if e.srv != nil {
		srv := e.srv
		e.srv = nil
		go srv.close()
	}
}

func (s *server) importValid(vals []uint64, clear bool) error {
	return s.cmd.API.ImportRoaring(context.Background(), "i", "f", 0, false,
		&pilosa.ImportRoaringRequest{Clear: clear, Views: map[string][]byte{"": EncodePilosaVals(vals)}})
}

// reset puts the target fragment back to the baseline.
func (s *server) reset() error {
	if err := s.importValid(allPayloadVals(), true); err != nil {
		return err
	}
	s.dirty = false
	return s.importValid(baselineVals(), false)
}

// digest projects the stored state the cases can touch: the schema and every bit of
// field f's standard view, shard 0.
func (s *server) digest() (string, error) {
	ctx := context.Background()
	sch, _ := json.Marshal(schemaDigest(s.cmd.API.Schema(ctx)))
	out := fmt.Sprintf("%x", sha1.Sum(sch))
	h := s.cmd.Server.Holder()
	var views []string
	if fld := h.Field("i", "f"); fld != nil {
		views = pilosa.VerifClusterFieldViews(fld)
	}
	sort.Strings(views)
	for _, view := range views {
		// the open fragment the node serves requests from (read under the fragment's
		// own lock: a lock left held by a failed request shows up as a hang here)
		f := pilosa.VerifHolderFragment(h, "i", "f", view, 0)
		if f == nil {
			continue // a view without a fragment holds no bits
		}
		var vals []uint64
		if err := f.ForEachBit(func(row, col uint64) error {
			vals = append(vals, row<<20|col)
			return nil
		}); err != nil {
			return "", err
		}
		if len(vals) == 0 {
			continue // neither does an empty fragment
		}
		out += "/" + view + "=" + hashVals(vals)
	}
	return out + "/", nil
}

// schemaDigest names the indexes and fields only: views and fragments that hold no
// bits are not stored data.
func schemaDigest(idxs []*pilosa.IndexInfo) []string {
	var out []string
	for _, ix := range idxs {
		out = append(out, ix.Name)
		for _, f := range ix.Fields {
			out = append(out, ix.Name+"/"+f.Name)
		}
	}
	sort.Strings(out)
	return out
}

// followUp issues a valid import and a query that must see it.
func (s *server) followUp() error {
	s.follow++
	col := s.follow % 1000
	ctx, cancel := context.WithTimeout(context.Background(), 30*time.Second)
	defer cancel()
	err := s.cmd.API.ImportRoaring(ctx, "i", "f", 0, false,
		&pilosa.ImportRoaringRequest{Views: map[string][]byte{"": EncodePilosaVals([]uint64{5<<20 | col})}})
	if err != nil {
		return fmt.Errorf("valid import: %v", err)
	}
	resp, err := s.cmd.API.Query(ctx, &pilosa.QueryRequest{Index: "i", Query: "Row(f=5)"})
	if err != nil {
		return fmt.Errorf("valid query: %v", err)
	}
	if len(resp.Results) != 1 {
		return fmt.Errorf("valid query: %d results", len(resp.Results))
	}
	row, ok := resp.Results[0].(*pilosa.Row)
	if !ok {
		return fmt.Errorf("valid query: result %T", resp.Results[0])
	}
	for _, x := range row.Columns() {
		if x == col {
			return nil
		}
	}
	return fmt.Errorf("valid query: column %d imported by the follow-up is not in Row(f=5)", col)
}

func (s *server) post(path, ctype string, body []byte) (int, string, error) {
	req, err := http.NewRequest("POST", s.cmd.URL()+path, bytes.NewReader(body))
	if err != nil {
		return 0, "", err
	}
	if ctype != "" {
		req.Header.Set("Content-Type", ctype)
		req.Header.Set("Accept", ctype)
	}
	if strings.HasPrefix(path, "/internal/cluster/message") {
		req.Header.Set("Accept", "application/json")
	}
	resp, err := s.client.Do(req)
	if err != nil {
		return 0, "", err
	}
	defer resp.Body.Close()
	b, _ := ioutil.ReadAll(resp.Body)
	return resp.StatusCode, string(b), nil
}

// judge applies the common oracle of a server case: on rejection the digest is
// unchanged; afterwards a valid request is served.
func (e *Env) judge(s *server, v Verdict, before string, checkState, mayLeaveService bool) Verdict {
	if v.Class == "rejected" && checkState {
		after, err := s.digest()
		if err != nil {
			v.Symptom, v.Detail = "state_changed", fmt.Sprintf("stored data unreadable after the rejected request: %v", err)
			e.dropServer()
			return v
		}
		if after != before {
			v.Symptom = "state_changed"
			v.Detail = fmt.Sprintf("rejected (%s) but the stored data changed: %s -> %s", v.Detail, before, after)
			s.dirty = true
			return v
		}
	}
	if err := s.followUp(); err != nil {
		if v.Class == "accepted" && mayLeaveService {
			// an accepted cluster message may legitimately take the node out of
			// service; the next case gets a fresh server
			e.dropServer()
			v.Cover = "accepted_then_restarted"
			return v
		}
		v.Symptom = "lock_held"
		v.Detail = fmt.Sprintf("after the %s request a valid request failed: %v", v.Class, err)
		e.dropServer()
	}
	return v
}

func (e *Env) runServerImport(c *Case, data []byte) Verdict {
	s, err := e.server()
	if err != nil {
		return Verdict{Symptom: "harness", Detail: err.Error()}
	}
	if s.dirty {
		if err := s.reset(); err != nil {
			e.dropServer()
			return Verdict{Symptom: "harness", Detail: "reset: " + err.Error()}
		}
	}
	before, err := s.digest()
	if err != nil {
		return Verdict{Symptom: "harness", Detail: "digest: " + err.Error()}
	}
	clear := strings.HasSuffix(c.Entry, "_clear")
	v := Verdict{}
	if strings.HasPrefix(c.Entry, "api_") {
		req := &pilosa.ImportRoaringRequest{Clear: clear, Views: map[string][]byte{"": Guarded(data)}}
		if c.Entry == "api_import_views" {
			// a second, well-formed view with a bit no earlier case has set: whichever
			// view the server looks at first, a rejected request must apply neither
			s.novel++
			req.Views["c06"] = EncodePilosaVals([]uint64{s.novel % (1 << 20)})
		}
		var ierr error
		if p := protect(func() {
			ctx, cancel := context.WithTimeout(context.Background(), 30*time.Second)
			defer cancel()
			ierr = s.cmd.API.ImportRoaring(ctx, "i", "f", 0, false, req)
		}); p != "" {
			e.dropServer()
			return crashVerdict(p)
		}
		v.Class = "accepted"
		if ierr != nil {
			v.Class, v.Detail = "rejected", ierr.Error()
			if ierr == context.DeadlineExceeded {
				e.dropServer()
				return Verdict{Symptom: "hang", Detail: "API.ImportRoaring did not answer within 30s"}
			}
		}
	} else {
		body, merr := proto.Serializer{}.Marshal(&pilosa.ImportRoaringRequest{Clear: clear, Views: map[string][]byte{"": data}})
		if merr != nil {
			return Verdict{Symptom: "harness", Detail: merr.Error()}
		}
		code, txt, perr := s.post("/index/i/field/f/import-roaring/0", "application/x-protobuf", body)
		if perr != nil {
			// the server stopped answering: let the deadline / process death decide
			e.dropServer()
			return Verdict{Symptom: "hang", Detail: "HTTP import-roaring: " + perr.Error()}
		}
		v.Class = "accepted"
		if code != 200 {
			v.Class, v.Detail = "rejected", fmt.Sprintf("HTTP %d %.200s", code, txt)
		}
	}
	if v.Class == "accepted" {
		s.dirty = true
	}
	return e.judge(s, v, before, true, false)
}

// runEnvelope submits an import-roaring request whose ENVELOPE is the subject: the
// number of views, their names, the class of their data, the clear flag alone, no view
// map at all.
func (e *Env) runEnvelope(c *Case) Verdict {
	s, err := e.server()
	if err != nil {
		return Verdict{Symptom: "harness", Detail: err.Error()}
	}
	before, err := s.digest()
	if err != nil {
		return Verdict{Symptom: "harness", Detail: "digest: " + err.Error()}
	}
	req := &pilosa.ImportRoaringRequest{Clear: c.Clear}
	if c.Form == "map" {
		req.Views = map[string][]byte{}
	}
	for _, vw := range c.Views {
		var data []byte
		switch vw.Data {
		case "valid":
			// a bit no earlier case has set (or, with the clear flag, one that an
			// earlier case may have set): applying this view alone is visible
			s.novel++
			data = EncodePilosaVals([]uint64{7<<20 | s.novel%(1<<20)})
		case "zero":
			data = []byte{}
		case "short":
			data = []byte{0x3c}
		case "garbage":
			data = []byte{1, 2, 3, 4, 5, 6, 7, 8}
		default:
			return Verdict{Symptom: "harness", Detail: "unknown data class " + vw.Data}
		}
		req.Views[vw.Name] = data
	}
	v := Verdict{}
	if c.Entry == "api_import_env" {
		var ierr error
		if p := protect(func() {
			ctx, cancel := context.WithTimeout(context.Background(), 20*time.Second)
			defer cancel()
			ierr = s.cmd.API.ImportRoaring(ctx, "i", "f", 0, false, req)
		}); p != "" {
			e.dropServer()
			return crashVerdict(p)
		}
		v.Class = "accepted"
		if ierr != nil {
			v.Class, v.Detail = "rejected", ierr.Error()
			if ierr == context.DeadlineExceeded {
				e.dropServer()
				return Verdict{Symptom: "hang", Detail: "API.ImportRoaring did not answer within 20s"}
			}
		}
	} else {
		// an absent map and no clear flag is the empty protobuf body
		body, merr := proto.Serializer{}.Marshal(req)
		if merr != nil {
			return Verdict{Symptom: "harness", Detail: merr.Error()}
		}
		code, txt, perr := s.post("/index/i/field/f/import-roaring/0", "application/x-protobuf", body)
		if perr != nil {
			e.dropServer()
			return Verdict{Symptom: "hang", Detail: "HTTP import-roaring: " + perr.Error()}
		}
		v.Class = "accepted"
		if code != 200 {
			v.Class, v.Detail = "rejected", fmt.Sprintf("HTTP %d %.200s", code, txt)
		}
	}
	if v.Class == "accepted" {
		s.dirty = true
	}
	return e.judge(s, v, before, true, false)
}

// ---- PQL ---------------------------------------------------------------------------

func (e *Env) runPQL(c *Case) Verdict {
	text, err := PQLText(c)
	if err != nil {
		return Verdict{Symptom: "harness", Detail: err.Error()}
	}
	s, err := e.server()
	if err != nil {
		return Verdict{Symptom: "harness", Detail: err.Error()}
	}
	before, err := s.digest()
	if err != nil {
		return Verdict{Symptom: "harness", Detail: "digest: " + err.Error()}
	}
	v := Verdict{}
	if c.Entry == "api_query" {
		var qerr error
		if p := protect(func() {
			ctx, cancel := context.WithTimeout(context.Background(), 60*time.Second)
			defer cancel()
			_, qerr = s.cmd.API.Query(ctx, &pilosa.QueryRequest{Index: "i", Query: text})
		}); p != "" {
			e.dropServer()
			return crashVerdict(p)
		}
		v.Class = "accepted"
		if qerr != nil {
			v.Class, v.Detail = "rejected", qerr.Error()
		}
	} else {
		code, txt, perr := s.post("/index/i/query", "", []byte(text))
		if perr != nil {
			e.dropServer()
			return Verdict{Symptom: "hang", Detail: "HTTP query: " + perr.Error()}
		}
		v.Class = "accepted"
		if code != 200 {
			v.Class, v.Detail = "rejected", fmt.Sprintf("HTTP %d %.200s", code, txt)
		}
	}
	// "A rejected request leaves stored data unchanged" is enforced for text that is
	// rejected as text (it does not parse). A well-formed multi-call query whose later
	// call fails at execution has run its earlier calls: PQL calls are sequential and
	// not transactional, which is not what this property is about (DESIGN 5.5).
	parses := false
	protect(func() {
		_, perr := pql.ParseString(text)
		parses = perr == nil
	})
	if parses {
		v.Cover = "parses"
	}
	return e.judge(s, v, before, !parses, false)
}

// ---- cluster messages ------------------------------------------------------------------

// NMsgTypes is the number of message types broadcast.go knows (type bytes 0..16).
const NMsgTypes = 17

// validMessage builds a well-formed message of the given type with the repository's own
// serializer (the malformed variants are derived from these bytes).
func (s *server) validMessage(typ int) ([]byte, error) {
	api := s.cmd.API
	node := api.Node()
	var m pilosa.Message
	switch typ {
	case 0:
		m = &pilosa.CreateShardMessage{Index: "i", Field: "f", Shard: 0}
	case 1:
		m = &pilosa.CreateIndexMessage{Index: "c06x", Meta: &pilosa.IndexOptions{}}
	case 2:
		m = &pilosa.DeleteIndexMessage{Index: "c06x"}
	case 3:
		m = &pilosa.CreateFieldMessage{Index: "i", Field: "c06f", Meta: &pilosa.FieldOptions{Type: pilosa.FieldTypeSet, CacheType: pilosa.CacheTypeRanked, CacheSize: 100}}
	case 4:
		m = &pilosa.DeleteFieldMessage{Index: "i", Field: "c06f"}
	case 5:
		m = &pilosa.CreateViewMessage{Index: "i", Field: "f", View: "standard_2019"}
	case 6:
		m = &pilosa.DeleteViewMessage{Index: "i", Field: "f", View: "standard_2019"}
	case 7:
		m = &pilosa.ClusterStatus{ClusterID: "c06", State: api.State(), Nodes: api.Hosts(context.Background())}
	case 8:
		m = &pilosa.ResizeInstruction{JobID: 1, Node: node, Coordinator: node,
			Sources:       []*pilosa.ResizeSource{{Node: node, Index: "i", Field: "f", View: "standard", Shard: 0}},
			NodeStatus:    &pilosa.NodeStatus{Node: node, Schema: &pilosa.Schema{}},
			ClusterStatus: &pilosa.ClusterStatus{ClusterID: "c06", State: api.State(), Nodes: api.Hosts(context.Background())}}
	case 9:
		m = &pilosa.ResizeInstructionComplete{JobID: 1, Node: node, Error: ""}
	case 10:
		m = &pilosa.SetCoordinatorMessage{New: node}
	case 11:
		m = &pilosa.UpdateCoordinatorMessage{New: node}
	case 12:
		m = &pilosa.NodeStateMessage{NodeID: node.ID, State: "READY"}
	case 13:
		m = &pilosa.RecalculateCaches{}
	case 14:
		m = &pilosa.NodeEvent{Event: pilosa.NodeUpdate, Node: node}
	case 15:
		m = &pilosa.NodeStatus{Node: node, Schema: &pilosa.Schema{Indexes: api.Schema(context.Background())}}
	case 16:
		m = &pilosa.DeleteAvailableShardMessage{Index: "i", Field: "f", ShardID: 99}
	default:
		return nil, fmt.Errorf("no message of type %d", typ)
	}
	return proto.Serializer{}.Marshal(m)
}

// ValidControlTypes are the message types whose well-formed message is harmless to
// deliver to a running single node (the controls of the msg family).
var ValidControlTypes = map[int]bool{0: true, 5: true, 13: true, 15: true}

// MessageBytes materialises a msg case (type byte + body).
func (s *server) MessageBytes(c *Case) ([]byte, error) {
	if c.MBody == "none" {
		return []byte{}, nil
	}
	own := c.MType
	if own >= NMsgTypes {
		own = 0
	}
	var body []byte
	switch c.MBody {
	case "empty":
	case "nested":
		nd := s.cmd.API.Node()
		b, err := NestedMessage(c.MType, c.MPath, c.MMode, nodeVals{id: nd.ID, scheme: nd.URI.Scheme, host: nd.URI.Host,
			port: uint64(nd.URI.Port), state: nd.State, coord: nd.IsCoordinator}, s.cmd.API.State())
		if err != nil {
			return nil, err
		}
		body = b
	case "onebyte":
		body = []byte{0x08}
	case "onebyte_ff":
		body = []byte{0xff}
	case "valid", "trunc1", "trunchalf":
		b, err := s.validMessage(own)
		if err != nil {
			return nil, err
		}
		switch c.MBody {
		case "trunc1":
			if len(b) > 0 {
				b = b[:len(b)-1]
			}
		case "trunchalf":
			b = b[:len(b)/2]
		}
		body = b
	case "other", "other2":
		d := 1
		if c.MBody == "other2" {
			d = 7
		}
		b, err := s.validMessage((own + d) % NMsgTypes)
		if err != nil {
			return nil, err
		}
		body = b
	default:
		return nil, fmt.Errorf("unknown body class %q", c.MBody)
	}
	return append([]byte{byte(c.MType)}, body...), nil
}

func (e *Env) runMsg(c *Case) Verdict {
	s, err := e.server()
	if err != nil {
		return Verdict{Symptom: "harness", Detail: err.Error()}
	}
	msg, err := s.MessageBytes(c)
	if err != nil {
		return Verdict{Symptom: "harness", Detail: err.Error()}
	}
	before, err := s.digest()
	if err != nil {
		return Verdict{Symptom: "harness", Detail: "digest: " + err.Error()}
	}
	v := Verdict{}
	switch c.Entry {
	case "api_msg":
		var merr error
		if p := protect(func() { merr = s.cmd.API.ClusterMessage(context.Background(), bytes.NewReader(msg)) }); p != "" {
			e.dropServer()
			return crashVerdict(p)
		}
		v.Class = "accepted"
		if merr != nil {
			v.Class, v.Detail = "rejected", merr.Error()
		}
	case "http_msg":
		code, txt, perr := s.post("/internal/cluster/message", "application/x-protobuf", msg)
		if perr != nil {
			e.dropServer()
			return Verdict{Symptom: "hang", Detail: "HTTP cluster message: " + perr.Error()}
		}
		v.Class = "accepted"
		if code != 200 {
			v.Class, v.Detail = "rejected", fmt.Sprintf("HTTP %d %.200s", code, txt)
		}
	case "gossip_msg", "gossip_merge":
		if s.ms == nil {
			var gerr error
			if p := protect(func() {
				s.ms, gerr = gossip.NewMemberSet(gossip.Config{Port: "0"}, s.cmd.API, gossip.WithLogOutput(ioutil.Discard))
			}); p != "" || gerr != nil {
				return Verdict{Symptom: "harness", Detail: fmt.Sprintf("gossip member set: %v %s", gerr, p)}
			}
		}
		// memberlist calls the delegate on its own goroutines with no recover: a panic
		// here is a dead process.
		if p := protect(func() {
			if c.Entry == "gossip_msg" {
				s.ms.NotifyMsg(msg)
			} else {
				s.ms.MergeRemoteState(msg, false)
			}
		}); p != "" {
			e.dropServer()
			return crashVerdict(p)
		}
		// the delegate reports nothing: the class is judged by the effect
		after, derr := s.digest()
		v.Class = "rejected"
		if derr == nil && after != before {
			v.Class = "accepted"
		}
		v.Cover = "gossip_no_answer"
		if err := s.followUp(); err != nil {
			e.dropServer()
			v.Cover = "gossip_then_restarted"
		}
		return v
	default:
		return Verdict{Symptom: "harness", Detail: "unknown entry " + c.Entry}
	}
	if c.MBody == "valid" && ValidControlTypes[c.MType] && v.Class != "accepted" {
		v.Symptom, v.Detail = "not_accepted", "well-formed control message rejected: "+v.Detail
		return v
	}
	return e.judge(s, v, before, true, true)
}
