package malb

import (
	"syscall"
)

const pageSize = 4096

// Guarded returns a copy of data placed so that it ends exactly at the start of an
// inaccessible page: a decoder that reads even one byte past the end of the payload
// faults (and the child process dies) instead of silently consuming whatever happens to
// follow the buffer on the heap. The mapping is never released (the child is short-lived
// and decoded bitmaps may keep pointing into it).
func Guarded(data []byte) []byte {
	n := len(data)
	pages := (n + pageSize - 1) / pageSize
	if pages == 0 {
		pages = 1
	}
	total := (pages + 1) * pageSize
	m, err := syscall.Mmap(-1, 0, total, syscall.PROT_READ|syscall.PROT_WRITE, syscall.MAP_ANON|syscall.MAP_PRIVATE)
	if err != nil {
		// out of mappings: fall back to the heap (the case still runs, without the guard)
		return append(make([]byte, 0, n), data...)
	}
	if err := syscall.Mprotect(m[pages*pageSize:], syscall.PROT_NONE); err != nil {
		return append(make([]byte, 0, n), data...)
	}
	start := pages*pageSize - n
	copy(m[start:], data)
	return m[start : start+n : start+n]
}
