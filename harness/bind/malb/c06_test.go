package malb

import (
	"bufio"
	"encoding/json"
	"fmt"
	"io/ioutil"
	"os"
	"os/exec"
	"path/filepath"
	"runtime/pprof"
	"sort"
	"strings"
	"sync"
	"testing"
	"time"

	"verif/harness/behav"
)

// TestC06 replays the cases spec/Malformed.tla emitted.
//
// Parent mode (default): the cases are cut into batches; each batch runs in a CHILD
// process (this test binary re-executed with VERIF_C06_CHILD naming the batch file),
// because a panic on a goroutine the server owns (the import worker) or a fault on a
// guard page kills the whole process. The child appends one line per event to a
// progress file: start of case i, verdict of case i. A child that dies or hangs is
// attributed to the case in flight; that case is run again alone in a fresh child
// (and, if it does not fail alone, with growing prefixes of what preceded it) and the
// smallest failing sequence becomes the replay.
//
// Child mode: runs the cases of its batch in order against one in-process server, with
// a deadline per case.

type batchFile struct {
	Cases    []Case `json:"cases"`
	Deadline int    `json:"deadline_s"`
}

type progress struct {
	I  int      `json:"i"`
	Ev string   `json:"ev"` // "start" | "done" | "hang" | "end"
	V  *Verdict `json:"v,omitempty"`
}

type replayPayload struct {
	Cases []Case `json:"cases"`
	Seed  int64  `json:"seed"`
}

func TestC06(t *testing.T) {
	if p := os.Getenv("VERIF_C06_CHILD"); p != "" {
		childMain(p)
		return
	}
	res := behav.NewResult()
	defer func() {
		if err := res.Write(); err != nil {
			t.Fatal(err)
		}
	}()
	scratch := os.Getenv("VERIF_SCRATCH")
	if scratch == "" {
		scratch = os.TempDir()
	}
	work, err := ioutil.TempDir(scratch, "c06-")
	if err != nil {
		t.Fatal(err)
	}
	defer os.RemoveAll(work)
	p := &parent{res: res, work: work, deadline: behav.EnvInt("VERIF_C06_DEADLINE", 30)}

	if raw, ok := behav.LoadReplay(); ok {
		var rp replayPayload
		if err := json.Unmarshal(raw, &rp); err != nil {
			t.Fatal(err)
		}
		// a two-view request is applied in map order: give a failure that depends on
		// that order a few chances to show again
		for try := 0; try < 4 && res.NFailures() == 0; try++ {
			p.runSequence(rp.Cases, true)
		}
		return
	}

	var cases []Case
	for _, b := range behav.LoadEnv() {
		if len(b) != 1 {
			res.SetInconclusive(fmt.Sprintf("behaviour of length %d", len(b)))
			return
		}
		js, _ := json.Marshal(b[0])
		var c Case
		if err := json.Unmarshal(js, &c); err != nil {
			res.SetInconclusive("bad case: " + err.Error())
			return
		}
		cases = append(cases, c)
	}
	// deterministic order: by entry class so that a child needs one kind of target
	sort.SliceStable(cases, func(i, j int) bool { return cases[i].Entry < cases[j].Entry })
	bs := behav.EnvInt("VERIF_C06_BATCH", 400)
	var batches [][]Case
	for i := 0; i < len(cases); {
		j := i
		for j < len(cases) && j-i < bs && cases[j].Entry == cases[i].Entry {
			j++
		}
		batches = append(batches, cases[i:j])
		i = j
	}
	if os.Getenv("VERIF_WORKERS") == "" {
		os.Setenv("VERIF_WORKERS", "8")
	}
	behav.Parallel(len(batches), func(i int) { p.runSequence(batches[i], false) },
		func(i int, v interface{}, stack string) {
			res.SetInconclusive(fmt.Sprintf("parent panic in batch %d: %v\n%s", i, v, stack))
		})
	p.flushSamples()
}

type parent struct {
	res      *behav.Result
	work     string
	deadline int
	seq      int
	mu       sync.Mutex
	crashes  int
	distinct behav.Distinct
	samples  map[string]interface{}
}

// flushSamples hands the collected samples to the result, most telling first.
func (p *parent) flushSamples() {
	for _, k := range []string{"roaring/rejected/true", "pql/rejected/false", "msg/rejected/false",
		"roaring/accepted/true", "pql/accepted/false", "msg/accepted/false", "roaring/accepted/false"} {
		if s, ok := p.samples[k]; ok {
			p.res.AddSample(s)
		}
	}
}

func (p *parent) nextID() int {
	p.mu.Lock()
	defer p.mu.Unlock()
	p.seq++
	return p.seq
}

// childResult is what one child process reported.
type childResult struct {
	verdicts map[int]*Verdict
	inflight int    // index of the case started but not finished (-1: none)
	hang     bool   // the child reported a hang of the case in flight
	dead     bool   // the child ended without the "end" line
	output   string // tail of its stderr/stdout
}

func (p *parent) spawn(cases []Case) childResult {
	id := p.nextID()
	bf := filepath.Join(p.work, fmt.Sprintf("batch-%d.json", id))
	pf := filepath.Join(p.work, fmt.Sprintf("progress-%d.ndjson", id))
	js, _ := json.Marshal(batchFile{Cases: cases, Deadline: p.deadline})
	if err := ioutil.WriteFile(bf, js, 0o644); err != nil {
		panic(err)
	}
	defer os.Remove(bf)
	defer os.Remove(pf)
	cdir, _ := ioutil.TempDir(p.work, "child-")
	defer os.RemoveAll(cdir)
	self, err := os.Executable()
	if err != nil {
		panic(err)
	}
	cmd := exec.Command(self, "-test.run", "^TestC06$", "-test.timeout", "0", "-test.count", "1")
	cmd.Env = append(os.Environ(), "VERIF_C06_CHILD="+bf, "VERIF_C06_PROGRESS="+pf, "TMPDIR="+cdir,
		"VERIF_REPLAY=", "VERIF_OUT="+filepath.Join(cdir, "unused.json"))
	of := filepath.Join(p.work, fmt.Sprintf("out-%d.txt", id))
	out, _ := os.Create(of)
	defer os.Remove(of)
	cmd.Stdout, cmd.Stderr = out, out
	cmd.Dir = cdir
	done := make(chan error, 1)
	if err := cmd.Start(); err != nil {
		panic(err)
	}
	go func() { done <- cmd.Wait() }()
	// whole-batch deadline: the child enforces the per-case deadline itself; this one
	// only covers a child that is stuck outside a case
	limit := time.Duration(p.deadline*3+len(cases)/2+120) * time.Second
	select {
	case <-done:
	case <-time.After(limit):
		cmd.Process.Kill()
		<-done
	}
	out.Close()
	r := childResult{verdicts: map[int]*Verdict{}, inflight: -1, dead: true}
	if f, err := os.Open(pf); err == nil {
		sc := bufio.NewScanner(f)
		sc.Buffer(make([]byte, 1<<20), 1<<26)
		for sc.Scan() {
			var pr progress
			if json.Unmarshal(sc.Bytes(), &pr) != nil {
				continue
			}
			switch pr.Ev {
			case "start":
				r.inflight = pr.I
			case "done":
				r.verdicts[pr.I] = pr.V
				r.inflight = -1
			case "hang":
				r.hang = true
			case "end":
				r.dead = false
			}
		}
		f.Close()
	}
	if b, err := ioutil.ReadFile(of); err == nil {
		s := string(b)
		if i := strings.Index(s, "panic:"); i >= 0 {
			s = s[i:]
		} else if i := strings.Index(s, "fatal error:"); i >= 0 {
			s = s[i:]
		} else if i := strings.Index(s, "unexpected fault address"); i >= 0 {
			s = s[i:]
		} else if len(s) > 1500 {
			s = s[len(s)-1500:]
		}
		if len(s) > 2500 {
			s = s[:2500]
		}
		r.output = s
	}
	return r
}

func (p *parent) tooMany() bool {
	p.mu.Lock()
	defer p.mu.Unlock()
	return p.crashes >= behav.EnvInt("VERIF_C06_MAXCRASH", 25)
}

// runSequence runs cases in order in child processes, restarting after the case a
// child died on. In replay mode the whole sequence is one unit: any failure in it is
// reported again.
func (p *parent) runSequence(cases []Case, replay bool) {
	start := 0
	for start < len(cases) {
		if !replay && p.tooMany() {
			return // enough dead children for a verdict; the rest is not counted
		}
		r := p.spawn(cases[start:])
		last := start
		for i := start; i < len(cases); i++ {
			v, ok := r.verdicts[i-start]
			if !ok {
				break
			}
			last = i + 1
			p.account(&cases[i], v, cases[start:i+1], replay)
		}
		if !r.dead && r.inflight < 0 {
			return
		}
		if r.inflight < 0 {
			// died between cases (start-up or shutdown)
			if last >= len(cases) {
				// after the last case: closing the server killed it
				p.res.SetInconclusive("child died after its last case:\n" + r.output)
				return
			}
			if last == start {
				p.res.SetInconclusive("child died before its first case:\n" + r.output)
				return
			}
			start = last
			continue
		}
		bad := start + r.inflight
		sym := "crash"
		if r.hang {
			sym = "hang"
		}
		p.mu.Lock()
		p.crashes++
		p.mu.Unlock()
		p.res.CountEval()
		detail := fmt.Sprintf("child process %s while running case %s\n%s", map[string]string{"crash": "died", "hang": "hung (case deadline exceeded)"}[sym], behav.JSON(cases[bad]), r.output)
		if replay {
			p.fail(&cases[bad], sym, detail, cases)
		} else {
			p.fail(&cases[bad], sym, detail, p.minimise(cases[start:bad+1], sym))
		}
		start = bad + 1
	}
}

// minimise finds the shortest suffix of seq (which ends with the case in flight when
// the child failed) that still fails: the case alone, then with 1, 3, 7, ... predecessors.
func (p *parent) minimise(seq []Case, sym string) []Case {
	n := len(seq)
	for k := 1; k < n; k = 2*k + 1 {
		sub := seq[n-k:]
		r := p.spawn(sub)
		if r.inflight >= 0 || (r.dead && len(r.verdicts) < len(sub)) {
			return sub
		}
		if v := r.verdicts[len(sub)-1]; v != nil && v.Symptom != "" {
			return sub
		}
	}
	return seq
}

func (p *parent) fail(c *Case, symptom, detail string, seq []Case) {
	m := map[string]string{"entry": c.Entry, "fam": c.Fam, "cor": c.CorKind(), "symptom": symptom}
	if c.Fam == "roaring" {
		m["fmt"] = c.Fmt
	}
	if c.Fam == "msg" {
		m["mtype"] = fmt.Sprint(c.MType)
	}
	p.res.Fail(behav.Failure{Match: m, Detail: detail, Replay: replayPayload{Cases: seq, Seed: behav.Seed()}})
}

func (p *parent) account(c *Case, v *Verdict, upTo []Case, replay bool) {
	p.res.CountEval()
	js, _ := json.Marshal(c)
	if p.distinct.Add(string(js)) && (len(c.Cors) > 0 || c.Fam != "roaring") {
		p.res.CountNontrivial()
	}
	p.res.Cover("entry:" + c.Entry)
	p.res.Cover("class:" + c.Entry + ":" + v.Class)
	p.res.Cover("cor:" + c.CorKind())
	if c.IsControl() && v.Class != "" {
		p.res.Cover("ctl:" + c.Entry + ":" + v.Class)
	}
	if v.Cover != "" {
		p.res.Cover("note:" + v.Cover)
	}
	switch v.Symptom {
	case "":
		// one sample per (family, outcome class, corrupted or not), reported in a fixed
		// order of preference at the end
		k := fmt.Sprintf("%s/%s/%v", c.Fam, v.Class, len(c.Cors) > 0)
		p.mu.Lock()
		if p.samples == nil {
			p.samples = map[string]interface{}{}
		}
		if _, ok := p.samples[k]; !ok {
			p.samples[k] = map[string]interface{}{"case": c, "class": v.Class, "detail": trunc(v.Detail, 160)}
		}
		p.mu.Unlock()
	case "harness":
		p.res.SetInconclusive("harness error on " + behav.JSON(c) + ": " + v.Detail)
	default:
		seq := []Case{*c}
		if replay {
			seq = upTo
		}
		p.fail(c, v.Symptom, fmt.Sprintf("%s on case %s: %s", v.Symptom, behav.JSON(c), v.Detail), seq)
	}
}

func trunc(s string, n int) string {
	if len(s) > n {
		return s[:n]
	}
	return s
}

// ---- child ------------------------------------------------------------------------

func childMain(batchPath string) {
	b, err := ioutil.ReadFile(batchPath)
	if err != nil {
		fmt.Fprintln(os.Stderr, "child:", err)
		os.Exit(4)
	}
	var bf batchFile
	if err := json.Unmarshal(b, &bf); err != nil {
		fmt.Fprintln(os.Stderr, "child:", err)
		os.Exit(4)
	}
	pf, err := os.OpenFile(os.Getenv("VERIF_C06_PROGRESS"), os.O_CREATE|os.O_WRONLY|os.O_APPEND, 0o644)
	if err != nil {
		fmt.Fprintln(os.Stderr, "child:", err)
		os.Exit(4)
	}
	emit := func(pr progress) {
		js, _ := json.Marshal(pr)
		pf.Write(append(js, '\n'))
	}
	dir, _ := ioutil.TempDir("", "c06frag-")
	env := &Env{Dir: dir}
	deadline := time.Duration(bf.Deadline) * time.Second
	if deadline <= 0 {
		deadline = 30 * time.Second
	}
	for i := range bf.Cases {
		emit(progress{I: i, Ev: "start"})
		ch := make(chan Verdict, 1)
		go func(c *Case) { ch <- env.Run(c) }(&bf.Cases[i])
		select {
		case v := <-ch:
			if v.Symptom == "hang" {
				// the entry point itself saw no answer within its own (longer) limit
				emit(progress{I: i, Ev: "hang"})
				os.Exit(3)
			}
			emit(progress{I: i, Ev: "done", V: &v})
		case <-time.After(deadline):
			emit(progress{I: i, Ev: "hang"})
			fmt.Fprintln(os.Stderr, "fatal error: case deadline exceeded; goroutines:")
			pprof.Lookup("goroutine").WriteTo(os.Stderr, 1)
			os.Exit(3)
		}
	}
	env.Close()
	os.RemoveAll(dir)
	emit(progress{Ev: "end"})
	pf.Close()
	os.Exit(0)
}
