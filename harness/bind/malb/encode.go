// Package malb binds spec/Malformed.tla (C06) to the real code: every abstract case TLC
// emits (a valid abstract encoding plus structured corruptions, a PQL token string, a
// cluster message) is materialised to bytes by the encoders in this file — written from
// the format descriptions, independent of the code under test — and submitted through
// the entry point the case names.
package malb

import (
	"encoding/binary"
	"fmt"
	"hash/fnv"
	"sort"
	"strings"
)

// Cor is one structured corruption (spec: Cor(kind, sec, idx, val)).
type Cor struct {
	Kind string `json:"kind"`
	Sec  string `json:"sec"`
	Idx  int    `json:"idx"`
	Val  string `json:"val"`
}

// Case is one abstract input (spec: the record c).
type Case struct {
	Fam      string   `json:"fam"`
	Entry    string   `json:"entry"`
	Fmt      string   `json:"fmt"`
	Shape    []string `json:"shape"`
	Tail     []string `json:"tail"`
	Cors     []Cor    `json:"cors"`
	Toks     []string `json:"toks"`
	NestKind string   `json:"nestkind"`
	Nest     int      `json:"nest"`
	MType    int      `json:"mtype"`
	MBody    string   `json:"mbody"`
	MPath    string   `json:"mpath"` // msg, body "nested": dotted path of the damaged nested field
	MMode    string   `json:"mmode"` // msg, body "nested": "absent" | "empty"
	Form     string   `json:"form"`  // env: "nilmap" | "map"
	Clear    bool     `json:"clear"` // env: the request's clear flag
	Views    []View   `json:"views"` // env: the views of the request
}

// View is one view of an import-roaring request envelope: its name and the class of its
// data ("valid" | "zero" | "short" | "garbage").
type View struct {
	Name string `json:"name"`
	Data string `json:"data"`
}

// IsControl reports whether the case is one of the deterministic controls every run
// submits at every entry point whatever the seed: a certainly well-formed input (valid
// encoding, valid query, valid control message, request without views) or a certainly
// malformed one (three bytes of roaring data, ")", a one-byte message body, a
// zero-length view). The vacuity guard of checks/c06.py looks at these only.
func (c *Case) IsControl() bool {
	switch c.Fam {
	case "roaring":
		return len(c.Cors) == 0 ||
			(len(c.Cors) == 1 && c.Cors[0] == Cor{Kind: "trunc", Sec: "abs", Idx: 3, Val: "at"})
	case "pql":
		if c.NestKind != "" {
			return c.Nest == 1 && (c.NestKind == "balanced" || c.NestKind == "overclosed")
		}
		return len(c.Toks) == 1 && (c.Toks[0] == "SETCALL" || c.Toks[0] == "RP")
	case "msg":
		return (c.MBody == "valid") || (c.MBody == "onebyte" && c.MType == 0)
	case "env":
		return len(c.Views) == 0 || (len(c.Views) == 1 && c.Views[0].Data == "zero")
	}
	return false
}

// CorKind is the matcher field "cor": kind/sec of every corruption, sorted, joined by '+'.
func (c *Case) CorKind() string {
	switch c.Fam {
	case "pql":
		if c.NestKind != "" {
			return "nest/" + c.NestKind
		}
		return "tokens"
	case "msg":
		if c.MBody == "nested" {
			return "body/nested/" + c.MMode + "/" + c.MPath
		}
		return "body/" + c.MBody
	case "env":
		k := fmt.Sprintf("env/%s/%dviews", c.Form, len(c.Views))
		for _, v := range c.Views {
			k += "/" + v.Data
		}
		return k
	}
	if len(c.Cors) == 0 {
		return "none"
	}
	var ks []string
	for _, k := range c.Cors {
		ks = append(ks, k.Kind+"/"+k.Sec)
	}
	sort.Strings(ks)
	return strings.Join(ks, "+")
}

// ContKeys are the container keys of the 1..3 containers of a payload: rows 0, 1, 2 of a
// fragment (16 containers per row at the default shard width).
var ContKeys = []uint64{0, 17, 40}

// contRuns is the content of a run container: (start, last) pairs.
var contRuns = [][2]uint16{{10, 20}, {100, 300}, {65000, 65535}}

// ContVals returns the values of a container of the given abstract type.
func ContVals(t string) []uint16 {
	switch t {
	case "a":
		return []uint16{1, 5, 100, 1000, 65535}
	case "b":
		out := make([]uint16, 5000)
		for i := range out {
			out[i] = uint16(i * 13)
		}
		return out
	default:
		var out []uint16
		for _, r := range contRuns {
			for v := int(r[0]); v <= int(r[1]); v++ {
				out = append(out, uint16(v))
			}
		}
		return out
	}
}

// PayloadValues is the set the valid encoding of shape denotes (sorted).
func PayloadValues(shape []string) []uint64 {
	var out []uint64
	for i, t := range shape {
		for _, v := range ContVals(t) {
			out = append(out, ContKeys[i]<<16|uint64(v))
		}
	}
	return out
}

type fieldPos struct{ off, width int }

// layout is a materialised valid encoding with the positions of its named fields and
// the end offsets of its sections.
type layout struct {
	b      []byte
	fields map[string]fieldPos
	bounds map[string]int
	opAt   []int // start of each tail op
	opKind []string
}

func key(sec string, idx int) string { return fmt.Sprintf("%s/%d", sec, idx) }

type wbuf struct{ b []byte }

func (w *wbuf) u8(v uint8)   { w.b = append(w.b, v) }
func (w *wbuf) u16(v uint16) { w.b = binary.LittleEndian.AppendUint16(w.b, v) }
func (w *wbuf) u32(v uint32) { w.b = binary.LittleEndian.AppendUint32(w.b, v) }
func (w *wbuf) u64(v uint64) { w.b = binary.LittleEndian.AppendUint64(w.b, v) }

func contData(t string, official bool) []byte {
	w := &wbuf{}
	switch t {
	case "a":
		for _, v := range ContVals("a") {
			w.u16(v)
		}
	case "b":
		var words [1024]uint64
		for _, v := range ContVals("b") {
			words[v/64] |= 1 << (v % 64)
		}
		for _, x := range words {
			w.u64(x)
		}
	default:
		w.u16(uint16(len(contRuns)))
		for _, r := range contRuns {
			w.u16(r[0])
			if official {
				w.u16(r[1] - r[0]) // official format: start, length-1
			} else {
				w.u16(r[1]) // pilosa format: start, last
			}
		}
	}
	return w.b
}

func typeCode(t string) uint16 {
	switch t {
	case "a":
		return 1
	case "b":
		return 2
	}
	return 3
}

// encodeValid encodes the containers of shape under keys.  Pilosa format: u16 magic
// 12348, u8 version 0, u8 flags, u32 key count; per container u64 key, u16 type, u16 N-1;
// per container u32 offset; container data (run: u16 count, then start/last pairs).
// Official format (RoaringFormatSpec): u32 cookie 12346 + u32 count, or u32 cookie
// 12347|(n-1)<<16 + run bitmap; per container u16 key, u16 N-1; offsets (no-run cookie
// only, fewer than 4 containers); data (run: u16 count, then start/length-1 pairs).
func encodeValid(format string, shape []string, keys []uint64) *layout {
	l := &layout{fields: map[string]fieldPos{}, bounds: map[string]int{}}
	w := &wbuf{}
	n := len(shape)
	fld := func(sec string, idx, width int) { l.fields[key(sec, idx)] = fieldPos{len(w.b), width} }
	switch format {
	case "pilosa":
		fld("magic", 0, 2)
		w.u16(12348)
		fld("version", 0, 1)
		w.u8(0)
		w.u8(0) // flags
		fld("keyn", 0, 4)
		w.u32(uint32(n))
		l.bounds[key("hdr", 0)] = len(w.b)
		for i, t := range shape {
			fld("key", i+1, 8)
			w.u64(keys[i])
			fld("type", i+1, 2)
			w.u16(typeCode(t))
			fld("card", i+1, 2)
			w.u16(uint16(len(ContVals(t)) - 1))
			l.bounds[key("desc", i+1)] = len(w.b)
		}
		off := len(w.b) + 4*n
		for i, t := range shape {
			fld("offset", i+1, 4)
			w.u32(uint32(off))
			l.bounds[key("offs", i+1)] = len(w.b)
			off += len(contData(t, false))
		}
		for i, t := range shape {
			if t == "r" {
				fld("runcount", i+1, 2)
			}
			w.b = append(w.b, contData(t, false)...)
			l.bounds[key("data", i+1)] = len(w.b)
		}
	case "official":
		fld("magic", 0, 2)
		w.u16(12346)
		fld("cookiehi", 0, 2)
		w.u16(0)
		fld("keyn", 0, 4)
		w.u32(uint32(n))
		l.bounds[key("hdr", 0)] = len(w.b)
		for i, t := range shape {
			fld("key", i+1, 2)
			w.u16(uint16(keys[i]))
			fld("card", i+1, 2)
			w.u16(uint16(len(ContVals(t)) - 1))
			l.bounds[key("desc", i+1)] = len(w.b)
		}
		off := len(w.b) + 4*n
		for i, t := range shape {
			fld("offset", i+1, 4)
			w.u32(uint32(off))
			l.bounds[key("offs", i+1)] = len(w.b)
			off += len(contData(t, true))
		}
		for i, t := range shape {
			w.b = append(w.b, contData(t, true)...)
			l.bounds[key("data", i+1)] = len(w.b)
		}
	default: // official_runs: cookie 12347 | (n-1)<<16, run bitmap, descriptors, data
		fld("magic", 0, 2)
		w.u16(12347)
		fld("cookiehi", 0, 2)
		w.u16(uint16(n - 1))
		fld("runbits", 0, 1)
		var bits uint8
		for i, t := range shape {
			if t == "r" {
				bits |= 1 << uint(i)
			}
		}
		w.u8(bits)
		l.bounds[key("hdr", 0)] = len(w.b)
		for i, t := range shape {
			fld("key", i+1, 2)
			w.u16(uint16(keys[i]))
			fld("card", i+1, 2)
			w.u16(uint16(len(ContVals(t)) - 1))
			l.bounds[key("desc", i+1)] = len(w.b)
		}
		for i, t := range shape {
			if t == "r" {
				fld("runcount", i+1, 2)
			}
			w.b = append(w.b, contData(t, true)...)
			l.bounds[key("data", i+1)] = len(w.b)
		}
	}
	l.b = w.b
	return l
}

// EncodePilosaVals is the reference Pilosa encoder for an arbitrary small value set
// (array containers only; used for follow-up requests and nested op payloads).
func EncodePilosaVals(vals []uint64) []byte {
	type cont struct {
		key  uint64
		vals []uint16
	}
	var cs []*cont
	for _, v := range vals {
		k := v >> 16
		if len(cs) == 0 || cs[len(cs)-1].key != k {
			cs = append(cs, &cont{key: k})
		}
		cs[len(cs)-1].vals = append(cs[len(cs)-1].vals, uint16(v))
	}
	w := &wbuf{}
	w.u16(12348)
	w.u8(0)
	w.u8(0)
	w.u32(uint32(len(cs)))
	for _, c := range cs {
		w.u64(c.key)
		w.u16(1)
		w.u16(uint16(len(c.vals) - 1))
	}
	off := 8 + 16*len(cs)
	for _, c := range cs {
		w.u32(uint32(off))
		off += 2 * len(c.vals)
	}
	for _, c := range cs {
		for _, v := range c.vals {
			w.u16(v)
		}
	}
	return w.b
}

// NestedVals is what the nested roaring payload of an addr/remr tail op denotes.
var NestedVals = []uint64{6<<16 | 2, 6<<16 | 4}

func opChecksum(op []byte) uint32 {
	h := fnv.New32a()
	h.Write(op[0:9])
	h.Write(op[13:])
	return h.Sum32()
}

// encodeOp encodes one op-log entry: u8 type, u64 value/count/length, u32 fnv32a
// checksum (over type+value and everything after the checksum), payload.
func encodeOp(kind string) []byte {
	w := &wbuf{}
	batch := func(typ uint8, vals []uint64) {
		w.u8(typ)
		w.u64(uint64(len(vals)))
		w.u32(0)
		for _, v := range vals {
			w.u64(v)
		}
	}
	switch kind {
	case "add":
		w.u8(0)
		w.u64(3<<16 | 9)
		w.u32(0)
	case "rem":
		w.u8(1)
		w.u64(1)
		w.u32(0)
	case "addb":
		batch(2, []uint64{3<<16 | 1, 3<<16 | 2, 5 << 16})
	case "remb":
		batch(3, []uint64{1, 5})
	default:
		typ := uint8(4)
		if kind == "remr" {
			typ = 5
		}
		nested := EncodePilosaVals(NestedVals)
		w.u8(typ)
		w.u64(uint64(len(nested)))
		w.u32(0)
		w.u32(uint32(len(NestedVals)))
		w.b = append(w.b, nested...)
	}
	binary.LittleEndian.PutUint32(w.b[9:13], opChecksum(w.b))
	return w.b
}

func (l *layout) appendTail(tail []string) {
	for j, k := range tail {
		at := len(l.b)
		l.opAt = append(l.opAt, at)
		l.opKind = append(l.opKind, k)
		l.b = append(l.b, encodeOp(k)...)
		l.fields[key("optype", j+1)] = fieldPos{at, 1}
		l.fields[key("oplen", j+1)] = fieldPos{at + 1, 8}
		l.fields[key("opsum", j+1)] = fieldPos{at + 9, 4}
		if k == "addr" || k == "remr" {
			l.fields[key("opn", j+1)] = fieldPos{at + 13, 4}
		}
		l.bounds[key("ophdr", j+1)] = at + 13
		l.bounds[key("op", j+1)] = len(l.b)
	}
}

func (l *layout) get(p fieldPos) uint64 {
	var v uint64
	for i := p.width - 1; i >= 0; i-- {
		v = v<<8 | uint64(l.b[p.off+i])
	}
	return v
}

func (l *layout) put(p fieldPos, v uint64) {
	for i := 0; i < p.width; i++ {
		l.b[p.off+i] = byte(v >> (8 * uint(i)))
	}
}

// resolve turns a symbolic adversarial value into a number (before truncation to the
// field width): total = length of the byte string, cur = the field's valid value.
func resolve(val string, cur uint64, total int) (uint64, error) {
	switch val {
	case "zero", "magic0":
		return 0, nil
	case "one", "t1":
		return 1, nil
	case "t2":
		return 2, nil
	case "t3":
		return 3, nil
	case "t4":
		return 4, nil
	case "t6":
		return 6, nil
	case "lenm1":
		return uint64(total - 1), nil
	case "len":
		return uint64(total), nil
	case "lenp1":
		return uint64(total + 1), nil
	case "max16":
		return 1<<16 - 1, nil
	case "max32":
		return 1<<32 - 1, nil
	case "valm1":
		return cur - 1, nil
	case "valp1":
		return cur + 1, nil
	case "b59":
		return 1 << 59, nil
	case "b59p1":
		return 1<<59 + 1, nil
	case "i63":
		return 1 << 63, nil
	case "max64":
		return ^uint64(0), nil
	case "magic_pilosa":
		return 12348, nil
	case "cookie_norun":
		return 12346, nil
	case "cookie_run":
		return 12347, nil
	}
	return 0, fmt.Errorf("unknown adversarial value %q", val)
}

// Materialise turns a roaring case into bytes: the valid encoding with every
// corruption applied (field edits first, in order; truncations last).
func Materialise(c *Case) ([]byte, error) {
	if len(c.Shape) < 1 || len(c.Shape) > len(ContKeys) {
		return nil, fmt.Errorf("bad shape %v", c.Shape)
	}
	keys := append([]uint64(nil), ContKeys[:len(c.Shape)]...)
	l := encodeValid(c.Fmt, c.Shape, keys)
	if len(c.Tail) > 0 {
		if c.Fmt != "pilosa" {
			return nil, fmt.Errorf("tail on format %s", c.Fmt)
		}
		l.appendTail(c.Tail)
	}
	total := len(l.b)
	cut := -1
	extend := false
	for _, k := range c.Cors {
		switch k.Kind {
		case "field":
			p, ok := l.fields[key(k.Sec, k.Idx)]
			if !ok {
				return nil, fmt.Errorf("no field %s/%d in %s %v", k.Sec, k.Idx, c.Fmt, c.Shape)
			}
			v, err := resolve(k.Val, l.get(p), total)
			if err != nil {
				return nil, err
			}
			l.put(p, v)
		case "keys":
			p1, ok1 := l.fields[key("key", 1)]
			p2, ok2 := l.fields[key("key", 2)]
			if !ok1 || !ok2 {
				return nil, fmt.Errorf("keys corruption needs two containers")
			}
			k1, k2 := l.get(p1), l.get(p2)
			if k.Val == "unsorted" {
				l.put(p1, k2)
				l.put(p2, k1)
			} else {
				l.put(p2, k1)
			}
		case "op":
			j := k.Idx
			if j < 1 || j > len(l.opAt) {
				return nil, fmt.Errorf("no op %d", j)
			}
			at := l.opAt[j-1]
			end := l.bounds[key("op", j)]
			if k.Sec == "nested" {
				nested := l.b[at+17 : end]
				switch k.Val {
				case "magic0":
					nested[0], nested[1] = 0, 0
				case "keyn_max16":
					binary.LittleEndian.PutUint32(nested[4:8], 65535)
				case "offs_len":
					binary.LittleEndian.PutUint32(nested[20:24], uint32(len(nested)))
				case "runcount_max": // type confusion: the array is declared a run container
					binary.LittleEndian.PutUint16(nested[16:18], 3)
					binary.LittleEndian.PutUint16(nested[24:26], 65535)
				case "trunc1": // the op is complete, its roaring payload is one byte short
					if j != len(l.opAt) {
						// only the last op can be shortened without shifting the others
						copy(l.b[end-1:], l.b[end:])
						for jj := j; jj < len(l.opAt); jj++ {
							l.opAt[jj]--
						}
					}
					l.b = l.b[:len(l.b)-1]
					end--
					binary.LittleEndian.PutUint64(l.b[at+1:at+9], uint64(end-at-17))
				default:
					return nil, fmt.Errorf("unknown nested damage %q", k.Val)
				}
			} else {
				p, ok := l.fields[key(k.Sec, j)]
				if !ok {
					return nil, fmt.Errorf("no op field %s/%d", k.Sec, j)
				}
				v, err := resolve(k.Val, l.get(p), total)
				if err != nil {
					return nil, err
				}
				l.put(p, v)
			}
			if k.Sec != "opsum" {
				// the damage must reach the decoder: recompute the checksum over the
				// op as it now stands
				binary.LittleEndian.PutUint32(l.b[at+9:at+13], opChecksum(l.b[at:end]))
			}
		case "trunc":
			var at int
			if k.Sec == "abs" {
				at = k.Idx
			} else {
				b, ok := l.bounds[key(k.Sec, k.Idx)]
				if !ok {
					return nil, fmt.Errorf("no section %s/%d", k.Sec, k.Idx)
				}
				at = b
				switch k.Val {
				case "m1":
					at--
				case "p1":
					at++
				}
			}
			if at > total {
				extend = true // one byte of garbage past the end
				continue
			}
			if at < 0 {
				at = 0
			}
			if cut < 0 || at < cut {
				cut = at
			}
		default:
			return nil, fmt.Errorf("unknown corruption kind %q", k.Kind)
		}
	}
	out := l.b
	if extend && cut < 0 {
		out = append(out, 0xFF)
	}
	if cut >= 0 && cut < len(out) {
		out = out[:cut]
	}
	return out, nil
}

// ---- PQL

var pqlTokens = map[string]string{
	"ROW": "Row", "SET": "Set", "LP": "(", "RP": ")", "COMMA": ",", "F": "f", "EQ": "=",
	"ONE": "1", "DQ": "\"", "SQ": "'", "LB": "[", "RB": "]", "LT": "<", "BTW": "><",
	"MINUS": "-", "G": "g", "SP": " ", "BSL": "\\", "SETCALL": "Set(1,f=1)",
	"ROWCALL": "Row(f=1)", "BIG": "99999999999999999999", "DOT": ".", "COND": "1<f<2",
	"NULL": "null", "TS": "2019-01-01T00:00", "RANGE": "Range", "TOPN": "TopN",
	"STORE": "Store", "UROW": "_row", "ARG": "f=1", "ARGL": "f=[1,2]", "ARGB": "f><[1,2]",
	"ROWLP": "Row(", "CLEARROW": "ClearRow", "NL": "\n", "NUL": "\x00", "UTF": "\xff\xfe",
	"OPTS": "Options", "COUNT": "Count", "NOT": "Not",
	"STOREG": "Store(Row(f=1),g=1)", "STOREB": "Store(Row(f=1),f=\"x\")", "CLEARG": "ClearRow(g=1)",
	"SETG": "Set(1,g=1)", "TOPNG": "TopN(g)", "ROWSG": "Rows(g)", "SUMG": "Sum(field=g)", "GROUPG": "GroupBy(Rows(g))",
}

// PQLText materialises a pql case.
func PQLText(c *Case) (string, error) {
	if c.NestKind != "" {
		d := c.Nest
		switch c.NestKind {
		case "balanced":
			return strings.Repeat("Union(", d) + "Row(f=1)" + strings.Repeat(")", d), nil
		case "unclosed":
			return strings.Repeat("Union(", d) + "Row(f=1)", nil
		case "overclosed":
			return "Row(f=1)" + strings.Repeat(")", d), nil
		case "quote":
			return "Row(f=\"" + strings.Repeat("a", d), nil
		case "bracket":
			return "Row(f=[" + strings.Repeat("1,", d), nil
		case "calls":
			return strings.Repeat("Row(f=1)", d), nil
		}
		return "", fmt.Errorf("unknown nest kind %q", c.NestKind)
	}
	var sb strings.Builder
	for _, t := range c.Toks {
		s, ok := pqlTokens[t]
		if !ok {
			return "", fmt.Errorf("unknown token %q", t)
		}
		sb.WriteString(s)
	}
	return sb.String(), nil
}
