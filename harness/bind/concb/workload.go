//go:build verif

// Package concb binds spec/Linearize.tla / spec/TraceLinearize.tla (property C29) to the
// real code: seeded concurrent workloads on shared fragments (through the verif export)
// and on an in-process server (API.Query / API.Import / API.ImportRoaring), run under the
// race detector in a child process; the call/return history of every workload is
// recorded for TLC.
package concb

import (
	"math/rand"
	"sort"

	"github.com/pilosa/pilosa"
)

const SW = uint64(pilosa.ShardWidth)

// Op is one operation of a client. Its fields are those of Linearize.tla's call record;
// Path selects the concrete write/read path and Pre the delay injected before the call
// (neither is seen by the specification).
type Op struct {
	Op   string `json:"op"`
	F    int    `json:"f"`
	R    int    `json:"r"`
	C    int    `json:"c"`
	S    []int  `json:"S"`
	Path string `json:"path,omitempty"`
	Pre  int    `json:"pre,omitempty"` // 0 none, 1 Gosched, 2.. sleep (Pre-1)*20us
}

// Workload is a self-contained concurrent case (and the replay payload).
type Workload struct {
	Idx     int     `json:"idx"`
	Seed    int64   `json:"seed"`
	Mode    string  `json:"mode"`  // lin | race
	Level   string  `json:"level"` // frag | api
	NF      int     `json:"nf"`    // fragments (frag: separate fragments; api: fields f, g)
	Init    [][]int `json:"init"`  // initial codes per fragment
	Procs   [][]Op  `json:"procs"`
	Cache   string  `json:"cache"`    // ranked | lru | none
	MaxOpN  int     `json:"max_opn"`  // frag level: 0 = default
	Queue   bool    `json:"queue"`    // frag level: private snapshot queue + background worker goroutine
	Profile int     `json:"profile"`  // column / row refinement
	GMP     int     `json:"gomaxprocs"`
	Warm    bool    `json:"warm"`     // read every row once before the clients start (fills caches)
	ColKeys bool    `json:"col_keys"` // api level: index with column keys
	Rank    bool    `json:"rank,omitempty"` // race mode: TopN by rank against imports / recalculations
	RowKeys bool    `json:"row_keys"` // api level: fields with row keys; the workload's clients make the FIRST use of the keys
	Reps    int     `json:"reps,omitempty"`
	Corrupt bool    `json:"corrupt,omitempty"` // binding self-test: falsify one recorded result
}

var (
	nRows = 2
	nCols = 3
)

// refinement of the abstract rows / columns (all columns in shard 0; container edges,
// neighbouring containers, the shard's last column; rows next to each other, rows in
// different checksum blocks)
var colProfiles = [][]uint64{
	{0, 1, 2},
	{0, 65535, 65536},
	{65535, 65536, SW - 1},
	{5, 70000, 1000000},
}
var rowProfiles = [][]uint64{
	{0, 1},
	{0, 100},
	{99, 100},
	{7, 300},
}

func (w *Workload) cols() []uint64 { return colProfiles[w.Profile%len(colProfiles)] }
func (w *Workload) rows() []uint64 {
	return rowProfiles[(w.Profile/len(colProfiles))%len(rowProfiles)]
}

func (w *Workload) colBack(c uint64) int {
	for i, x := range w.cols() {
		if x == c {
			return i
		}
	}
	return 9
}
func (w *Workload) rowBack(r uint64) int {
	for i, x := range w.rows() {
		if x == r {
			return i
		}
	}
	return 9
}

func code(r, c int) int { return r*10 + c }

func sortedInts(m map[int]bool) []int {
	out := make([]int, 0, len(m))
	for k := range m {
		out = append(out, k)
	}
	sort.Ints(out)
	return out
}

func subset(rng *rand.Rand, n int, nonEmpty bool) []int {
	for {
		var out []int
		for i := 0; i < n; i++ {
			if rng.Intn(2) == 0 {
				out = append(out, i)
			}
		}
		if len(out) > 0 || !nonEmpty {
			if out == nil {
				out = []int{}
			}
			return out
		}
	}
}

func codeSubset(rng *rand.Rand, nonEmpty bool) []int {
	for {
		out := []int{}
		for r := 0; r < nRows; r++ {
			for c := 0; c < nCols; c++ {
				if rng.Intn(3) == 0 {
					out = append(out, code(r, c))
				}
			}
		}
		if len(out) > 0 || !nonEmpty {
			return out
		}
	}
}

// opMix: weights of the operation kinds (writes and reads about even; the row-level
// writes and the multi-row reads are what expose a half-applied operation).
var opMix = []struct {
	op string
	w  int
}{
	{"SetBit", 14}, {"ClearBit", 10}, {"ImportSet", 9}, {"ImportClear", 7}, {"SetRow", 6}, {"ClearRow", 6},
	{"Row", 14}, {"Count", 8}, {"Rows", 8}, {"All", 6}, {"TopN", 8},
	{"Snapshot", 3}, {"FlushCache", 2}, {"Recalculate", 2}, {"Blocks", 2}, {"Noise", 4},
}

var fragExtras = []string{"checksum", "minrow", "bit", "cachecount", "rowsfilter", "topn", "blockdata", "mergeblock", "enqueue"}
var apiExtras = []string{"topn", "topnsrc", "groupby", "union", "not", "timeset", "timerow", "timeclear", "intset", "intsum", "intrange",
	"intimport", "keyset", "keyrow", "keyrows", "schema", "tmpfield", "rowattrs", "colattrs", "blockdata", "mutexset", "views", "shards", "options"}

func genOp(rng *rand.Rand, w *Workload) Op {
	total := 0
	for _, m := range opMix {
		total += m.w
	}
	x := rng.Intn(total)
	name := ""
	for _, m := range opMix {
		if x < m.w {
			name = m.op
			break
		}
		x -= m.w
	}
	if w.Mode == "race" && rng.Intn(4) == 0 {
		// race mode only: requests outside the sequential model (their results are not
		// judged; they are there for the race detector)
		paths := fragExtras
		if w.Level == "api" {
			paths = apiExtras
		}
		return Op{Op: "Extra", F: rng.Intn(w.NF), R: rng.Intn(nRows), C: rng.Intn(nCols), S: []int{}, Path: paths[rng.Intn(len(paths))], Pre: rng.Intn(3)}
	}
	if name == "TopN" && w.Cache == "none" {
		// without a cache TopN has nothing to report (fragment.top reads only the cache)
		name = "Count"
	}
	o := Op{Op: name, F: rng.Intn(w.NF), R: -1, C: -1, S: []int{}}
	switch name {
	case "SetBit", "ClearBit":
		o.R, o.C = rng.Intn(nRows), rng.Intn(nCols)
	case "ImportSet", "ImportClear":
		o.S = codeSubset(rng, true)
		o.Path = []string{"bulk", "roaring"}[rng.Intn(2)]
	case "SetRow":
		o.R = rng.Intn(nRows)
		o.S = subset(rng, nCols, false)
	case "ClearRow", "Row", "Count":
		o.R = rng.Intn(nRows)
	case "TopN":
		o.S = subset(rng, nRows, true)
	}
	switch p := rng.Intn(10); {
	case p < 4:
		o.Pre = 0
	case p < 7:
		o.Pre = 1
	default:
		o.Pre = 2 + rng.Intn(4)
	}
	return o
}

// GenerateKeyed builds a workload on fields with row keys. Nothing is written before the
// clients start, so the row keys are new when the clients use them: every client begins,
// without delay, with a bulk import that names both keys (next to a ballast of already
// known keys, which keeps the translation's read phase busy long enough for the clients
// to overlap in it). Sequentially each distinct key has one id, so the model is the same:
// a row is the set of columns set under its key.
func GenerateKeyed(seed int64, idx int) *Workload {
	rng := rand.New(rand.NewSource(seed*1000003 + int64(idx)*7919 + 770003))
	w := &Workload{Idx: idx, Seed: seed, Mode: "lin", Level: "api", RowKeys: true}
	w.NF = 1 + rng.Intn(2)
	w.Profile = rng.Intn(len(colProfiles) * len(rowProfiles))
	w.Cache = []string{"ranked", "lru"}[rng.Intn(2)]
	w.ColKeys = rng.Intn(3) == 0
	w.GMP = []int{2, 4, 8}[rng.Intn(3)]
	w.Init = [][]int{{}, {}}
	ng := 2 + rng.Intn(3)
	for g := 0; g < ng; g++ {
		first := Op{Op: "ImportSet", F: 0, R: -1, C: -1, Path: "bulk", S: []int{code(0, rng.Intn(nCols)), code(1, rng.Intn(nCols))}}
		sort.Ints(first.S)
		ops := []Op{first}
		for k := 0; k < 1+rng.Intn(3); k++ {
			o := genOp(rng, w)
			switch o.Op {
			case "TopN":
				o = Op{Op: "Row", F: o.F, R: rng.Intn(nRows), C: -1, S: []int{}}
			case "SetRow":
				// Store into a row addressed by key is not supported by this executor
				o = Op{Op: "SetBit", F: o.F, R: o.R, C: rng.Intn(nCols), S: []int{}}
			}
			if o.Path == "roaring" {
				o.Path = "bulk"
			}
			ops = append(ops, o)
		}
		w.Procs = append(w.Procs, ops)
	}
	return w
}

// GenerateRank builds a race workload around the rank cache of one fragment: readers ask for
// TopN by rank (no ids) and TopN with a source row, over and over, while writers import into
// the same shard (bulk and roaring, set and clear), recalculate and flush the cache and move
// the counts of further rows (Noise), so that the ranking holds >= 3 rows whose order changes
// and is rebuilt all the time. The answers are judged by the race detector and structurally
// (no row twice, counts non-increasing); the ranking itself may legitimately lag behind the
// writes (rankCache.invalidate is throttled), so there is no sequential value to compare with.
func GenerateRank(seed int64, level string, idx int) *Workload {
	rng := rand.New(rand.NewSource(seed*1000003 + int64(idx)*7919 + 990001))
	w := &Workload{Idx: idx, Seed: seed, Mode: "race", Level: level, Rank: true, Cache: "ranked", NF: 1}
	w.Profile = rng.Intn(len(colProfiles) * len(rowProfiles))
	w.GMP = []int{2, 4, 8}[rng.Intn(3)]
	w.Warm = true
	w.Init = [][]int{codeSubset(rng, true), {}}
	ng := 4 + rng.Intn(3)
	for g := 0; g < ng; g++ {
		var ops []Op
		for k := 0; k < 25; k++ {
			o := Op{F: 0, R: -1, C: -1, S: []int{}, Pre: rng.Intn(2)}
			if g%2 == 0 {
				o.Op, o.R, o.C = "Extra", rng.Intn(nRows), rng.Intn(nCols)
				o.Path = []string{"topn", "topnsrc"}[rng.Intn(2)]
			} else {
				switch x := rng.Intn(10); {
				case x < 3:
					o.Op, o.S, o.Path = "ImportSet", codeSubset(rng, true), []string{"bulk", "roaring"}[rng.Intn(2)]
				case x < 5:
					o.Op, o.S, o.Path = "ImportClear", codeSubset(rng, true), []string{"bulk", "roaring"}[rng.Intn(2)]
				case x < 7:
					o.Op = "Recalculate"
				case x < 8:
					o.Op = "FlushCache"
				default:
					o.Op = "Noise"
				}
			}
			ops = append(ops, o)
		}
		w.Procs = append(w.Procs, ops)
	}
	return w
}

// Generate builds workload idx of a run deterministically from the seed.
func Generate(seed int64, mode, level string, idx int, thorough bool) *Workload {
	salt := int64(0)
	if mode == "race" {
		salt = 500009
	}
	if level == "api" {
		salt += 250007
	}
	rng := rand.New(rand.NewSource(seed*1000003 + int64(idx)*7919 + salt))
	w := &Workload{Idx: idx, Seed: seed, Mode: mode, Level: level}
	w.NF = 1 + rng.Intn(2)
	w.Profile = rng.Intn(len(colProfiles) * len(rowProfiles))
	w.Cache = []string{"ranked", "ranked", "lru", "none"}[rng.Intn(4)]
	if level == "frag" {
		w.MaxOpN = []int{0, 1, 2, 5}[rng.Intn(4)]
		w.Queue = rng.Intn(2) == 0
	} else {
		w.ColKeys = rng.Intn(4) == 0
	}
	w.GMP = []int{1, 2, 4, 8}[rng.Intn(4)]
	w.Warm = rng.Intn(2) == 0
	for f := 0; f < 2; f++ {
		if f < w.NF {
			w.Init = append(w.Init, codeSubset(rng, false))
		} else {
			w.Init = append(w.Init, []int{})
		}
	}
	ng, nops := 2+rng.Intn(3), 0
	if mode == "race" {
		ng = 4 + rng.Intn(5)
	}
	for g := 0; g < ng; g++ {
		var n int
		if mode == "race" {
			n = 15 + rng.Intn(25)
		} else {
			// <= 6 operations per client, <= 16 in the history
			n = 2 + rng.Intn(5)
			if nops+n > 16 {
				n = 16 - nops
			}
			if n <= 0 {
				break
			}
		}
		nops += n
		var ops []Op
		for k := 0; k < n; k++ {
			ops = append(ops, genOp(rng, w))
		}
		w.Procs = append(w.Procs, ops)
	}
	return w
}
