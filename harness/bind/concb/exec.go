//go:build verif

package concb

import (
	"bytes"
	"context"
	"fmt"
	"os"
	"path/filepath"
	"runtime"
	"sort"
	"strconv"
	"strings"
	"sync"
	"sync/atomic"
	"time"

	"github.com/pilosa/pilosa"
	"github.com/pilosa/pilosa/roaring"
	"github.com/pilosa/pilosa/test"
)

const noiseRow = uint64(950) // rows >= 900 are outside the model (operation "Noise", background data)

// target executes operations on the real code and renders every result as the set of
// integers Linearize.tla uses.
type target interface {
	Do(g int, k int, o Op) ([]int, error)
	Close()
}

// checkTopN: whatever the ranking's age, an answer never names a row twice and lists the
// counts in non-increasing order.
func checkTopN(pairs []pilosa.Pair) error {
	seen := map[uint64]bool{}
	for i, p := range pairs {
		if seen[p.ID] {
			return fmt.Errorf("TopN answer names row %d twice: %v", p.ID, pairs)
		}
		seen[p.ID] = true
		if i > 0 && p.Count > pairs[i-1].Count {
			return fmt.Errorf("TopN answer is not ordered by count: %v", pairs)
		}
	}
	return nil
}

// ------------------------------------------------------------------ fragment level

type fragTarget struct {
	w     *Workload
	frags []*pilosa.VerifFragment
	dir   string
	stop  chan struct{}
	wg    sync.WaitGroup
	rowMu sync.Mutex
}

var dirSeq int64

func scratchBase() string {
	d := os.Getenv("VERIF_SCRATCH")
	if d == "" {
		d = os.TempDir()
	}
	// closing / snapshotting fsyncs: keep the files on tmpfs when there is one
	shm := filepath.Join("/dev/shm", filepath.Base(d)+".concb")
	if err := os.MkdirAll(shm, 0o755); err == nil {
		return shm
	}
	return d
}

func newFragTarget(w *Workload) (*fragTarget, error) {
	dir, err := os.MkdirTemp(scratchBase(), fmt.Sprintf("c29-%d-%d-", os.Getpid(), atomic.AddInt64(&dirSeq, 1)))
	if err != nil {
		return nil, err
	}
	t := &fragTarget{w: w, dir: dir, stop: make(chan struct{})}
	for f := 0; f < w.NF; f++ {
		vf := pilosa.VerifNewFragment(filepath.Join(dir, fmt.Sprintf("frag%d", f)), pilosa.VerifFragmentOptions{
			Shard: 0, CacheType: w.Cache, Kind: "set", OwnQueue: w.Queue})
		if err := vf.Open(); err != nil {
			return nil, err
		}
		t.frags = append(t.frags, vf)
		if w.Queue {
			// the background snapshot worker of the holder (snapshotQueueWorker), one per fragment
			t.wg.Add(1)
			go func() {
				defer t.wg.Done()
				for {
					select {
					case <-t.stop:
						return
					default:
					}
					if ran, _ := vf.WorkerStep(); !ran {
						time.Sleep(30 * time.Microsecond)
					}
				}
			}()
		}
		var rs, cs []uint64
		for _, cd := range w.Init[f] {
			rs = append(rs, w.rows()[cd/10])
			cs = append(cs, w.cols()[cd%10])
		}
		if len(rs) > 0 {
			if err := vf.BulkImport(rs, cs, false); err != nil {
				return nil, err
			}
		}
		if w.Warm {
			for _, r := range w.rows() {
				vf.Row(r)
			}
			vf.Blocks()
		}
		if w.MaxOpN != 0 {
			vf.SetMaxOpN(w.MaxOpN)
		}
	}
	return t, nil
}

func (t *fragTarget) Close() {
	// let the background worker finish the snapshots that are still queued (fragment.Close
	// waits for them, as it does in a holder whose queue worker keeps running)
	for _, f := range t.frags {
		for t.w.Queue && (f.Snapshotting() || f.QueueLen() > 0) {
			time.Sleep(50 * time.Microsecond)
		}
	}
	close(t.stop)
	t.wg.Wait()
	for _, f := range t.frags {
		f.Close()
	}
	os.RemoveAll(t.dir)
}

func roaringData(w *Workload, codes []int) []byte {
	bm := roaring.NewBitmap()
	for _, cd := range codes {
		bm.DirectAdd(w.rows()[cd/10]*SW + w.cols()[cd%10]%SW)
	}
	var buf bytes.Buffer
	bm.WriteTo(&buf)
	return buf.Bytes()
}

func b2i(b bool) []int {
	if b {
		return []int{1}
	}
	return []int{0}
}

func (t *fragTarget) Do(g, k int, o Op) ([]int, error) {
	w := t.w
	f := t.frags[o.F]
	rows, cols := w.rows(), w.cols()
	switch o.Op {
	case "SetBit":
		ch, err := f.SetBit(rows[o.R], cols[o.C])
		return b2i(ch), err
	case "ClearBit":
		ch, err := f.ClearBit(rows[o.R], cols[o.C])
		return b2i(ch), err
	case "ImportSet", "ImportClear":
		clear := o.Op == "ImportClear"
		if o.Path == "roaring" {
			return []int{}, f.ImportRoaring(roaringData(w, o.S), clear)
		}
		var rs, cs []uint64
		for _, cd := range o.S {
			rs = append(rs, rows[cd/10])
			cs = append(cs, cols[cd%10])
		}
		return []int{}, f.BulkImport(rs, cs, clear)
	case "SetRow":
		var cs []uint64
		for _, c := range o.S {
			cs = append(cs, cols[c])
		}
		ch, err := f.SetRow(pilosa.NewRow(cs...), rows[o.R])
		return b2i(ch), err
	case "ClearRow":
		ch, err := f.ClearRow(rows[o.R])
		return b2i(ch), err
	case "Row":
		out := map[int]bool{}
		for _, c := range f.Row(rows[o.R]).Columns() {
			out[w.colBack(c)] = true
		}
		return sortedInts(out), nil
	case "Count":
		return []int{int(f.Row(rows[o.R]).Count())}, nil
	case "Rows":
		out := map[int]bool{}
		for _, r := range f.Rows(0, nil, nil, false, nil) {
			if r < 900 {
				out[w.rowBack(r)] = true
			}
		}
		return sortedInts(out), nil
	case "All":
		out := map[int]bool{}
		err := f.ForEachBit(func(r, c uint64) error {
			if r < 900 {
				out[code(w.rowBack(r), w.colBack(c))] = true
			}
			return nil
		})
		return sortedInts(out), err
	case "TopN":
		var ids []uint64
		for _, r := range o.S {
			ids = append(ids, rows[r])
		}
		pairs, err := f.TopN(0, ids)
		out := map[int]bool{}
		for _, p := range pairs {
			n := int(p.Count)
			if n > 9 {
				n = 9
			}
			out[w.rowBack(p.ID)*10+n] = true
		}
		return sortedInts(out), err
	case "Snapshot":
		return []int{}, f.Snapshot()
	case "FlushCache":
		return []int{}, f.FlushCache()
	case "Recalculate":
		f.RecalculateCache()
		return []int{}, nil
	case "Blocks":
		f.Blocks()
		if k%2 == 0 {
			f.BlockData(int(rows[0] / 100))
		}
		return []int{}, nil
	case "Noise":
		if w.Rank {
			// three more rows in the ranking; their counts go up and down
			r, c := noiseRow+uint64((g+k)%3), uint64((k*7)%5)
			if k%3 == 2 {
				_, err := f.ClearBit(r, c)
				return []int{}, err
			}
			_, err := f.SetBit(r, c)
			return []int{}, err
		}
		_, err := f.SetBit(noiseRow+uint64(g), uint64(k*7919)%SW)
		return []int{}, err
	case "Extra":
		switch o.Path {
		case "checksum":
			f.Checksum()
		case "minrow":
			f.MinRowID()
		case "bit":
			f.Bit(rows[o.R], cols[o.C])
		case "cachecount":
			f.CacheCount(rows[o.R])
		case "rowsfilter":
			c := cols[o.C]
			lim := uint64(1)
			f.Rows(0, &c, nil, false, nil)
			f.Rows(rows[o.R], nil, []uint64{rows[0], rows[1]}, true, &lim)
		case "topn":
			pairs, err := f.TopN(3, nil)
			if err == nil {
				err = checkTopN(pairs)
			}
			return []int{}, err
		case "topnsrc":
			pairs, err := f.TopNSrc(3, pilosa.NewRow(cols[0], cols[1], cols[2], 333333))
			if err == nil {
				err = checkTopN(pairs)
			}
			return []int{}, err
		case "blockdata":
			f.BlockData(int(rows[o.R] / 100))
		case "mergeblock":
			// an anti-entropy merge of this block with one remote replica's data
			f.MergeBlock(int(rows[o.R]/100), [][]uint64{{rows[o.R]}}, [][]uint64{{cols[o.C]}})
		case "enqueue":
			f.EnqueueSnapshot()
		}
		return []int{}, nil
	}
	return nil, fmt.Errorf("unknown operation %q", o.Op)
}

// ----------------------------------------------------------------------- API level

var indexSeq int64

type apiTarget struct {
	w     *Workload
	cmd   *test.Command
	api   *pilosa.API
	index string
	ctx   context.Context
}

var fieldNames = []string{"f", "g"}

func (t *apiTarget) colArg(c int) string {
	if t.w.ColKeys {
		return fmt.Sprintf("%q", "c"+strconv.Itoa(c))
	}
	return strconv.FormatUint(t.w.cols()[c], 10)
}

const nBallast = 1500

// rowArg renders abstract row r as the PQL row argument.
func (t *apiTarget) rowArg(r int) string {
	if t.w.RowKeys {
		return fmt.Sprintf("%q", "k"+strconv.Itoa(r))
	}
	return strconv.FormatUint(t.w.rows()[r], 10)
}

func (t *apiTarget) rowBackKey(k string) int {
	if len(k) == 2 && k[0] == 'k' {
		if n, err := strconv.Atoi(k[1:]); err == nil && n < nRows {
			return n
		}
	}
	return 9
}

func (t *apiTarget) query(pql string) (interface{}, error) {
	resp, err := t.api.Query(t.ctx, &pilosa.QueryRequest{Index: t.index, Query: pql})
	if err != nil {
		return nil, fmt.Errorf("%s: %v", pql, err)
	}
	if len(resp.Results) != 1 {
		return nil, fmt.Errorf("%s: %d results", pql, len(resp.Results))
	}
	return resp.Results[0], nil
}

// importKeyed is a bulk import into a field with row keys: the bits of the codes under the
// keys k0 / k1 plus, for a set, one bit for each of the ballast keys (rows outside the model).
func (t *apiTarget) importKeyed(field string, codes []int, clear bool) error {
	req := &pilosa.ImportRequest{Index: t.index, Field: field, Shard: 0}
	add := func(rowKey string, colKey string, col uint64) {
		req.RowKeys = append(req.RowKeys, rowKey)
		if t.w.ColKeys {
			req.ColumnKeys = append(req.ColumnKeys, colKey)
		} else {
			req.ColumnIDs = append(req.ColumnIDs, col)
		}
	}
	if !clear {
		for i := 0; i < nBallast; i++ {
			add("n"+strconv.Itoa(i), "nz", 333333)
		}
	}
	for _, cd := range codes {
		add("k"+strconv.Itoa(cd/10), "c"+strconv.Itoa(cd%10), t.w.cols()[cd%10])
	}
	return t.api.Import(t.ctx, req, pilosa.OptImportOptionsClear(clear))
}

func (t *apiTarget) importCodes(field string, rowOf func(cd int) uint64, codes []int, clear bool) error {
	req := &pilosa.ImportRequest{Index: t.index, Field: field, Shard: 0}
	for _, cd := range codes {
		req.RowIDs = append(req.RowIDs, rowOf(cd))
		if t.w.ColKeys {
			req.ColumnKeys = append(req.ColumnKeys, "c"+strconv.Itoa(cd%10))
		} else {
			req.ColumnIDs = append(req.ColumnIDs, t.w.cols()[cd%10])
		}
	}
	return t.api.Import(t.ctx, req, pilosa.OptImportOptionsClear(clear))
}

func newAPITarget(w *Workload, cmd *test.Command) (*apiTarget, error) {
	t := &apiTarget{w: w, cmd: cmd, api: cmd.API, ctx: context.Background()}
	t.index = fmt.Sprintf("c29x%d", atomic.AddInt64(&indexSeq, 1))
	if _, err := t.api.CreateIndex(t.ctx, t.index, pilosa.IndexOptions{Keys: w.ColKeys, TrackExistence: w.Profile%2 == 1}); err != nil {
		return nil, err
	}
	size := uint32(50000)
	if w.Cache == "none" {
		size = 0
	}
	for _, fn := range append(append([]string{}, fieldNames[:w.NF]...), "src") {
		opts := []pilosa.FieldOption{pilosa.OptFieldTypeSet(w.Cache, size)}
		if w.RowKeys && fn != "src" {
			opts = append(opts, pilosa.OptFieldKeys())
		}
		if _, err := t.api.CreateField(t.ctx, t.index, fn, opts...); err != nil {
			return nil, err
		}
	}
	if w.Mode == "race" {
		for _, x := range []struct {
			name string
			opt  pilosa.FieldOption
		}{{"t", pilosa.OptFieldTypeTime(pilosa.TimeQuantum("YMD"))}, {"v", pilosa.OptFieldTypeInt(-1000, 1000)},
			{"k", pilosa.OptFieldKeys()}, {"m", pilosa.OptFieldTypeMutex("ranked", 100)}} {
			if _, err := t.api.CreateField(t.ctx, t.index, x.name, x.opt); err != nil {
				return nil, err
			}
		}
	}
	// src: row k holds the columns of the subset with bit mask k (the source rows of Store);
	// never written afterwards
	var src []int
	for k := 0; k < 1<<uint(nCols); k++ {
		for c := 0; c < nCols; c++ {
			if k&(1<<uint(c)) != 0 {
				src = append(src, k*10+c)
			}
		}
	}
	if err := t.importCodes("src", func(cd int) uint64 { return uint64(cd / 10) }, src, false); err != nil {
		return nil, err
	}
	rows := w.rows()
	if w.RowKeys {
		// the ballast keys exist before the clients start; k0 / k1 do not
		for f := 0; f < w.NF; f++ {
			if err := t.importKeyed(fieldNames[f], nil, false); err != nil {
				return nil, err
			}
		}
		return t, nil
	}
	for f := 0; f < w.NF; f++ {
		if len(w.Init[f]) > 0 {
			if err := t.importCodes(fieldNames[f], func(cd int) uint64 { return rows[cd/10] }, w.Init[f], false); err != nil {
				return nil, err
			}
		}
		if !w.ColKeys {
			// static background in a second shard: every request maps over two shards
			if _, err := t.query(fmt.Sprintf("Set(%d, %s=%d)", SW+3, fieldNames[f], noiseRow-1)); err != nil {
				return nil, err
			}
		}
		if w.Warm {
			for _, r := range rows {
				if _, err := t.query(fmt.Sprintf("Row(%s=%d)", fieldNames[f], r)); err != nil {
					return nil, err
				}
			}
		}
	}
	return t, nil
}

func (t *apiTarget) Close() {
	t.api.DeleteIndex(t.ctx, t.index)
}

func (t *apiTarget) frag(field string) *pilosa.VerifFragment {
	return pilosa.VerifHolderFragment(pilosa.VerifClusterHolderOfAPI(t.api), t.index, field, "standard", 0)
}

func (t *apiTarget) colBackKey(k string) int {
	if len(k) == 2 && k[0] == 'c' {
		if n, err := strconv.Atoi(k[1:]); err == nil && n < nCols {
			return n
		}
	}
	return 9
}

func (t *apiTarget) Do(g, k int, o Op) ([]int, error) {
	w := t.w
	fn := fieldNames[o.F]
	rows := w.rows()
	asBool := func(v interface{}, err error) ([]int, error) {
		if err != nil {
			return nil, err
		}
		b, ok := v.(bool)
		if !ok {
			return nil, fmt.Errorf("%s: result %T, want bool", o.Op, v)
		}
		return b2i(b), nil
	}
	switch o.Op {
	case "SetBit":
		return asBool(t.query(fmt.Sprintf("Set(%s, %s=%s)", t.colArg(o.C), fn, t.rowArg(o.R))))
	case "ClearBit":
		return asBool(t.query(fmt.Sprintf("Clear(%s, %s=%s)", t.colArg(o.C), fn, t.rowArg(o.R))))
	case "ImportSet", "ImportClear":
		clear := o.Op == "ImportClear"
		if o.Path == "roaring" && !w.ColKeys && !w.RowKeys {
			req := &pilosa.ImportRoaringRequest{Clear: clear, Views: map[string][]byte{"": roaringData(w, o.S)}}
			return []int{}, t.api.ImportRoaring(t.ctx, t.index, fn, 0, false, req)
		}
		if w.RowKeys {
			return []int{}, t.importKeyed(fn, o.S, clear)
		}
		return []int{}, t.importCodes(fn, func(cd int) uint64 { return rows[cd/10] }, o.S, clear)
	case "SetRow":
		mask := 0
		for _, c := range o.S {
			mask |= 1 << uint(c)
		}
		return asBool(t.query(fmt.Sprintf("Store(Row(src=%d), %s=%s)", mask, fn, t.rowArg(o.R))))
	case "ClearRow":
		return asBool(t.query(fmt.Sprintf("ClearRow(%s=%s)", fn, t.rowArg(o.R))))
	case "Row":
		v, err := t.query(fmt.Sprintf("Row(%s=%s)", fn, t.rowArg(o.R)))
		if err != nil {
			return nil, err
		}
		row, ok := v.(*pilosa.Row)
		if !ok {
			return nil, fmt.Errorf("Row: result %T", v)
		}
		out := map[int]bool{}
		if w.ColKeys {
			for _, key := range row.Keys {
				out[t.colBackKey(key)] = true
			}
		} else {
			for _, c := range row.Columns() {
				out[w.colBack(c)] = true
			}
		}
		return sortedInts(out), nil
	case "Count":
		v, err := t.query(fmt.Sprintf("Count(Row(%s=%s))", fn, t.rowArg(o.R)))
		if err != nil {
			return nil, err
		}
		n, ok := v.(uint64)
		if !ok {
			return nil, fmt.Errorf("Count: result %T", v)
		}
		return []int{int(n)}, nil
	case "Rows":
		v, err := t.query(fmt.Sprintf("Rows(%s)", fn))
		if err != nil {
			return nil, err
		}
		ri, ok := v.(pilosa.RowIdentifiers)
		if !ok {
			return nil, fmt.Errorf("Rows: result %T", v)
		}
		out := map[int]bool{}
		if w.RowKeys {
			for _, key := range ri.Keys {
				if !strings.HasPrefix(key, "n") {
					out[t.rowBackKey(key)] = true
				}
			}
			if len(ri.Keys) == 0 && len(ri.Rows) > 0 {
				return nil, fmt.Errorf("Rows on a keyed field answered row ids %v", ri.Rows)
			}
			return sortedInts(out), nil
		}
		for _, r := range ri.Rows {
			if r < 900 {
				out[w.rowBack(r)] = true
			}
		}
		return sortedInts(out), nil
	case "All":
		var buf bytes.Buffer
		if err := t.api.ExportCSV(t.ctx, t.index, fn, 0, &buf); err != nil {
			// a field nothing was ever written to has no fragment to export
			if strings.Contains(err.Error(), "fragment not found") {
				return []int{}, nil
			}
			return nil, err
		}
		out := map[int]bool{}
		for _, line := range strings.Split(strings.TrimSpace(buf.String()), "\n") {
			if line == "" {
				continue
			}
			p := strings.SplitN(line, ",", 2)
			if len(p) != 2 {
				return nil, fmt.Errorf("ExportCSV line %q", line)
			}
			ar := 9
			if w.RowKeys {
				if strings.HasPrefix(p[0], "n") {
					continue
				}
				ar = t.rowBackKey(p[0])
			} else {
				r, err := strconv.ParseUint(p[0], 10, 64)
				if err != nil {
					return nil, fmt.Errorf("ExportCSV line %q", line)
				}
				if r >= 900 {
					continue
				}
				ar = w.rowBack(r)
			}
			c := 9
			if w.ColKeys {
				c = t.colBackKey(p[1])
			} else if cv, err := strconv.ParseUint(p[1], 10, 64); err == nil {
				c = w.colBack(cv)
			}
			out[code(ar, c)] = true
		}
		return sortedInts(out), nil
	case "TopN":
		var ids []string
		for _, r := range o.S {
			ids = append(ids, strconv.FormatUint(rows[r], 10))
		}
		v, err := t.query(fmt.Sprintf("TopN(%s, ids=[%s])", fn, strings.Join(ids, ",")))
		if err != nil {
			return nil, err
		}
		pairs, ok := v.([]pilosa.Pair)
		if !ok {
			return nil, fmt.Errorf("TopN: result %T", v)
		}
		out := map[int]bool{}
		for _, p := range pairs {
			n := int(p.Count)
			if n > 9 {
				n = 9
			}
			out[w.rowBack(p.ID)*10+n] = true
		}
		return sortedInts(out), nil
	case "Snapshot":
		if f := t.frag(fn); f != nil {
			return []int{}, f.Snapshot()
		}
		return []int{}, nil
	case "FlushCache":
		if f := t.frag(fn); f != nil {
			return []int{}, f.FlushCache()
		}
		return []int{}, nil
	case "Recalculate":
		return []int{}, t.api.RecalculateCaches(t.ctx)
	case "Blocks":
		_, err := t.api.FragmentBlocks(t.ctx, t.index, fn, "standard", 0)
		if err != nil && strings.Contains(err.Error(), "not found") {
			err = nil
		}
		return []int{}, err
	case "Noise":
		var pql string
		if w.Rank {
			verb := "Set"
			if k%3 == 2 {
				verb = "Clear"
			}
			pql = fmt.Sprintf("%s(%d, %s=%d)", verb, (k*7)%5, fn, noiseRow+uint64((g+k)%3))
		} else if w.RowKeys {
			// a first use of yet another new row key, on a column outside the model
			col := "333333"
			if w.ColKeys {
				col = `"nz"`
			}
			pql = fmt.Sprintf("Set(%s, %s=%q)", col, fn, fmt.Sprintf("nx%d-%d", g, k))
		} else if w.ColKeys {
			pql = fmt.Sprintf("Set(%q, %s=%d)", fmt.Sprintf("n%d-%d-%d", w.Idx, g, k), fn, noiseRow+uint64(g))
		} else {
			pql = fmt.Sprintf("Set(%d, %s=%d)", SW+10+uint64(g*100+k), fn, noiseRow+uint64(g))
		}
		_, err := t.query(pql)
		return []int{}, err
	}
	if o.Op == "Extra" {
		if o.Path == "topn" || o.Path == "topnsrc" {
			pql := fmt.Sprintf("TopN(%s, n=3)", fn)
			if o.Path == "topnsrc" {
				pql = fmt.Sprintf("TopN(%s, Row(src=7), n=3)", fn)
			}
			v, err := t.query(pql)
			if err != nil {
				return []int{}, nil // not judged
			}
			if pairs, ok := v.([]pilosa.Pair); ok {
				return []int{}, checkTopN(pairs)
			}
			return []int{}, nil
		}
		t.extra(g, k, o)
		return []int{}, nil
	}
	return nil, fmt.Errorf("unknown operation %q", o.Op)
}

// extra issues a request outside the sequential model (race mode); errors are not judged.
func (t *apiTarget) extra(g, k int, o Op) {
	w := t.w
	fn := fieldNames[o.F]
	other := fieldNames[(o.F+1)%w.NF]
	r, col := w.rows()[o.R], t.colArg(o.C)
	q := func(f string, a ...interface{}) { t.api.Query(t.ctx, &pilosa.QueryRequest{Index: t.index, Query: fmt.Sprintf(f, a...)}) }
	switch o.Path {
	case "topn":
		q("TopN(%s, n=2)", fn)
	case "topnsrc":
		q("TopN(%s, Row(%s=%d), n=2)", fn, other, r)
	case "groupby":
		q("GroupBy(Rows(%s), Rows(%s))", fn, other)
	case "union":
		q("Count(Union(Row(%s=%d), Row(%s=%d), Row(src=3)))", fn, r, other, w.rows()[0])
	case "not":
		q("Not(Row(%s=%d))", fn, r)
	case "timeset":
		q("Set(%s, t=%d, 2019-0%d-02T03:04)", col, o.R, 1+k%9)
	case "timerow":
		q("Row(t=%d, from='2019-01-01T00:00', to='2019-12-01T00:00')", o.R)
	case "timeclear":
		q("Clear(%s, t=%d)", col, o.R)
	case "intset":
		q("Set(%s, v=%d)", col, g*10+k-50)
	case "intsum":
		q("Sum(field=v)")
		q("Min(field=v)")
	case "intrange":
		q("Count(Row(v > %d))", k-5)
	case "intimport":
		req := &pilosa.ImportValueRequest{Index: t.index, Field: "v", Shard: 0, Values: []int64{int64(k), int64(-g)}}
		if w.ColKeys {
			req.ColumnKeys = []string{"c0", "c2"}
		} else {
			req.ColumnIDs = []uint64{w.cols()[0], w.cols()[2]}
		}
		t.api.ImportValue(t.ctx, req)
	case "keyset":
		q("Set(%s, k=%q)", col, fmt.Sprintf("key%d", (g+k)%5))
	case "keyrow":
		q("Row(k=%q)", fmt.Sprintf("key%d", k%5))
	case "keyrows":
		q("Rows(k)")
	case "schema":
		t.api.Schema(t.ctx)
	case "tmpfield":
		name := fmt.Sprintf("tmp%d", g)
		t.api.CreateField(t.ctx, t.index, name, pilosa.OptFieldTypeSet("ranked", 100))
		q("Set(%s, %s=1)", col, name)
		q("Row(%s=1)", name)
		t.api.DeleteField(t.ctx, t.index, name)
	case "rowattrs":
		q("SetRowAttrs(%s, %d, x=%d)", fn, r, k)
		q("Row(%s=%d)", fn, r)
	case "colattrs":
		q("SetColumnAttrs(%s, y=%d)", col, k)
		q("Options(Row(%s=%d), columnAttrs=true)", fn, r)
	case "blockdata":
		if b, err := t.api.Serializer.Marshal(&pilosa.BlockDataRequest{Index: t.index, Field: fn, View: "standard", Shard: 0, Block: r / 100}); err == nil {
			t.api.FragmentBlockData(t.ctx, bytes.NewReader(b))
		}
	case "mutexset":
		q("Set(%s, m=%d)", col, (g+k)%3)
		q("Row(m=%d)", k%3)
	case "views":
		t.api.Views(t.ctx, t.index, "t")
	case "shards":
		t.api.AvailableShardsByIndex(t.ctx)
	case "options":
		q("Options(Count(Row(%s=%d)), shards=[0])", fn, r)
	}
}

// ---------------------------------------------------------------------- recording

var seq int64

// stamp is the global atomic sequence number that orders the events of a history.
func stamp() int64 { return atomic.AddInt64(&seq, 1) }

type event struct {
	t   int64
	ret bool
	p   int
	op  *Op
	res []int
}

func delay(pre int) {
	switch {
	case pre == 1:
		runtime.Gosched()
	case pre > 1:
		time.Sleep(time.Duration(pre-1) * 20 * time.Microsecond)
	}
}

func intsJSON(a []int) string {
	s := make([]string, len(a))
	for i, x := range a {
		s[i] = strconv.Itoa(x)
	}
	return "[" + strings.Join(s, ",") + "]"
}

// RunWorkload executes the clients concurrently and returns the history as ndjson lines
// (reset, then call / return events in stamp order).
func RunWorkload(w *Workload, tg target) ([]string, error) {
	prev := runtime.GOMAXPROCS(w.GMP)
	defer runtime.GOMAXPROCS(prev)
	start := make(chan struct{})
	evs := make([][]event, len(w.Procs))
	errs := make([]error, len(w.Procs))
	var wg sync.WaitGroup
	for g := range w.Procs {
		wg.Add(1)
		go func(g int) {
			defer wg.Done()
			<-start
			for k := range w.Procs[g] {
				o := &w.Procs[g][k]
				delay(o.Pre)
				// the stamp BEFORE the call and the stamp AFTER the return: the recorded
				// interval contains the real one
				t0 := stamp()
				res, err := tg.Do(g, k, *o)
				t1 := stamp()
				if err != nil {
					errs[g] = fmt.Errorf("client %d op %d %s: %v", g, k, o.Op, err)
					return
				}
				evs[g] = append(evs[g], event{t: t0, p: g, op: o}, event{t: t1, ret: true, p: g, res: res})
			}
		}(g)
	}
	close(start)
	wg.Wait()
	for _, e := range errs {
		if e != nil {
			return nil, e
		}
	}
	var all []event
	for _, e := range evs {
		all = append(all, e...)
	}
	sort.Slice(all, func(a, b int) bool { return all[a].t < all[b].t })
	if w.Corrupt {
		corrupt(all)
	}
	lines := []string{fmt.Sprintf(`{"e":"reset","w":%d,"init":[%s,%s]}`, w.Idx, intsJSON(w.Init[0]), intsJSON(w.Init[1]))}
	for _, e := range all {
		if e.ret {
			lines = append(lines, fmt.Sprintf(`{"e":"ret","w":%d,"p":%d,"res":%s}`, w.Idx, e.p, intsJSON(e.res)))
		} else {
			lines = append(lines, fmt.Sprintf(`{"e":"call","w":%d,"p":%d,"op":%q,"f":%d,"r":%d,"c":%d,"S":%s}`,
				w.Idx, e.p, e.op.Op, e.op.F, e.op.R, e.op.C, intsJSON(e.op.S)))
		}
	}
	return lines, nil
}

// corrupt (binding self-test) falsifies the last recorded result: {7} is not a result any
// operation of the model can produce, so no sequential order explains the history any more.
func corrupt(all []event) {
	for i := len(all) - 1; i >= 0; i-- {
		if all[i].ret {
			all[i].res = []int{7}
			return
		}
	}
}
