//go:build verif

package concb

import (
	"bytes"
	"encoding/json"
	"fmt"
	"os"
	"os/exec"
	"path/filepath"
	"regexp"
	"runtime/pprof"
	"sort"
	"strconv"
	"strings"
	"testing"
	"time"

	"github.com/pilosa/pilosa/test"

	"verif/harness/behav"
)

// ------------------------------------------------------------------ child process

type job struct {
	Workloads []*Workload `json:"workloads"`
	Out       string      `json:"out"`
	DeadlineS int         `json:"deadline_s"`
}

// TestC29Child runs a batch of workloads (it is started by TestC29Lin / TestC29Race as a
// child process with GORACE=halt_on_error=1 exitcode=66, so that a race report ends the
// process with a distinct exit code right at the racing workload). Markers on stderr tell
// the parent which workload was running.
func TestC29Child(t *testing.T) {
	path := os.Getenv("VERIF_C29_JOB")
	if path == "" {
		t.Skip("child of TestC29Lin / TestC29Race")
	}
	b, err := os.ReadFile(path)
	if err != nil {
		t.Fatal(err)
	}
	var jb job
	if err := json.Unmarshal(b, &jb); err != nil {
		t.Fatal(err)
	}
	out, err := os.OpenFile(jb.Out, os.O_CREATE|os.O_WRONLY|os.O_APPEND, 0o644)
	if err != nil {
		t.Fatal(err)
	}
	defer out.Close()
	var cmd *test.Command
	defer func() {
		if cmd != nil {
			cmd.Close()
		}
	}()
	for _, w := range jb.Workloads {
		reps := w.Reps
		if reps <= 0 {
			reps = 1
		}
		for rep := 0; rep < reps; rep++ {
			fmt.Fprintf(os.Stderr, "C29-WL-BEGIN %d\n", w.Idx)
			wd := time.AfterFunc(time.Duration(jb.DeadlineS)*time.Second, func() {
				fmt.Fprintf(os.Stderr, "C29-DEADLINE %d\n", w.Idx)
				pprof.Lookup("goroutine").WriteTo(os.Stderr, 2)
				os.Exit(67)
			})
			var tg target
			var err error
			if w.Level == "api" {
				if cmd == nil {
					// test.MustRunCommand, but with room in the key translation file (the test
					// helper gives it 140 kB; the keyed workloads use new keys in every run)
					cmd = test.NewCommandNode(true)
					cmd.Config.Cluster.Disabled = true
					cmd.Config.Metric.Diagnostics = false
					cmd.Config.Translation.MapSize = 256 << 20
					if err := cmd.Start(); err != nil {
						t.Fatalf("starting the server: %v", err)
					}
				}
				tg, err = newAPITarget(w, cmd)
			} else {
				tg, err = newFragTarget(w)
			}
			if err != nil {
				fmt.Fprintf(os.Stderr, "C29-SETUP-ERROR %d %s\n", w.Idx, strings.ReplaceAll(err.Error(), "\n", " "))
				wd.Stop()
				continue
			}
			lines, err := RunWorkload(w, tg)
			tg.Close()
			wd.Stop()
			if err != nil {
				fmt.Fprintf(os.Stderr, "C29-ERROR %d %s\n", w.Idx, strings.ReplaceAll(err.Error(), "\n", " "))
			} else {
				out.WriteString(strings.Join(lines, "\n") + "\n")
			}
			fmt.Fprintf(os.Stderr, "C29-WL-END %d\n", w.Idx)
		}
	}
}

// ----------------------------------------------------------------- parent process

type outcome struct {
	w       *Workload
	symptom string // "", race, panic, deadlock, error, setup
	match   map[string]string
	detail  string
}

var (
	accessRe = regexp.MustCompile(`(?m)^(?:Previous )?(?:[Aa]tomic )?(?:[Ww]rite|[Rr]ead) at 0x[0-9a-f]+ by (?:goroutine \d+|main goroutine):\n((?:  .*\n)+)`)
	frameRe  = regexp.MustCompile(`(?m)^  (\S+)\(\)\n      (\S+):(\d+)`)
)

// racePair extracts, for each of the two accesses of a race report, the innermost frame in
// the code under test (not the harness, not the runtime, not the verif access wrappers).
func racePair(report string) (a, b string) {
	var fns []string
	for _, m := range accessRe.FindAllStringSubmatch(report, -1) {
		fn := "?"
		for _, fr := range frameRe.FindAllStringSubmatch(m[1], -1) {
			if strings.Contains(fr[1], "github.com/pilosa/pilosa") && !strings.Contains(filepath.Base(fr[2]), "verif_export") {
				fn = strings.TrimPrefix(fr[1], "github.com/pilosa/pilosa")
				fn = strings.TrimPrefix(fn, ".")
				fn = strings.TrimPrefix(fn, "/")
				break
			}
		}
		fns = append(fns, fn)
	}
	for len(fns) < 2 {
		fns = append(fns, "?")
	}
	fns = fns[:2]
	sort.Strings(fns)
	return fns[0], fns[1]
}

func panicInCode(out string) (bool, string) {
	i := strings.Index(out, "panic: ")
	if j := strings.Index(out, "fatal error: "); j >= 0 && (i < 0 || j < i) {
		i = j
	}
	if i < 0 {
		return false, ""
	}
	text := out[i:]
	// first frame of the panicking goroutine inside the code under test
	for _, fr := range regexp.MustCompile(`(?m)^(\S+)\(.*\)\n\t(\S+):(\d+)`).FindAllStringSubmatch(text, -1) {
		if strings.Contains(fr[1], "github.com/pilosa/pilosa") && !strings.Contains(filepath.Base(fr[2]), "verif_export") {
			fn := strings.TrimPrefix(strings.TrimPrefix(fr[1], "github.com/pilosa/pilosa"), ".")
			return true, fn
		}
		if strings.Contains(fr[1], "verif/harness") {
			return false, ""
		}
	}
	return false, ""
}

func tailStr(s string, n int) string {
	if len(s) > n {
		return s[len(s)-n:]
	}
	return s
}

func headStr(s string, n int) string {
	if len(s) > n {
		return s[:n]
	}
	return s
}

// runBatch runs the workloads in child processes (a new child after every abnormal end)
// and returns the outcome of each workload that did not simply complete, plus the recorded
// histories (ndjson lines).
func runBatch(t *testing.T, ws []*Workload, deadlineS int, res *behav.Result) ([]outcome, []string) {
	scratch := os.Getenv("VERIF_SCRATCH")
	if scratch == "" {
		scratch = os.TempDir()
	}
	var outs []outcome
	var hist []string
	remaining := ws
	for len(remaining) > 0 {
		jf, _ := os.CreateTemp(scratch, "c29job-*.json")
		hf := jf.Name() + ".hist"
		jb, _ := json.Marshal(job{Workloads: remaining, Out: hf, DeadlineS: deadlineS})
		jf.Write(jb)
		jf.Close()
		cmd := exec.Command(os.Args[0], "-test.run", "^TestC29Child$", "-test.timeout", "0", "-test.count", "1")
		cmd.Env = append(os.Environ(), "VERIF_C29_JOB="+jf.Name(), "GORACE=halt_on_error=1 exitcode=66")
		var buf bytes.Buffer
		cmd.Stdout, cmd.Stderr = &buf, &buf
		done := make(chan error, 1)
		if err := cmd.Start(); err != nil {
			res.SetInconclusive("cannot start the child process: " + err.Error())
			return outs, hist
		}
		go func() { done <- cmd.Wait() }()
		reps := 0
		for _, w := range remaining {
			if w.Reps > 1 {
				reps += w.Reps
			} else {
				reps++
			}
		}
		var werr error
		timedOut := false
		select {
		case werr = <-done:
		case <-time.After(time.Duration(reps*deadlineS+180) * time.Second):
			cmd.Process.Kill()
			werr = <-done
			timedOut = true
		}
		out := buf.String()
		if b, err := os.ReadFile(hf); err == nil {
			for _, l := range strings.Split(strings.TrimSpace(string(b)), "\n") {
				if l != "" {
					hist = append(hist, l)
				}
			}
		}
		os.Remove(hf)
		os.Remove(jf.Name())
		if sb := scratchBase(); strings.HasSuffix(sb, ".concb") {
			os.RemoveAll(sb) // fragment files a crashed child left behind
		}
		// which workloads ended, which was running
		ended := map[int]int{}
		running := -1
		byIdx := map[int]*Workload{}
		for _, w := range remaining {
			byIdx[w.Idx] = w
		}
		for _, l := range strings.Split(out, "\n") {
			switch {
			case strings.HasPrefix(l, "C29-WL-BEGIN "):
				running, _ = strconv.Atoi(strings.TrimPrefix(l, "C29-WL-BEGIN "))
			case strings.HasPrefix(l, "C29-WL-END "):
				n, _ := strconv.Atoi(strings.TrimPrefix(l, "C29-WL-END "))
				ended[n]++
				running = -1
			case strings.HasPrefix(l, "C29-ERROR "):
				p := strings.SplitN(strings.TrimPrefix(l, "C29-ERROR "), " ", 2)
				n, _ := strconv.Atoi(p[0])
				op := ""
				if m := regexp.MustCompile(`client \d+ op \d+ (\w+):`).FindStringSubmatch(p[1]); m != nil {
					op = m[1]
				}
				outs = append(outs, outcome{w: byIdx[n], symptom: "error",
					match:  map[string]string{"symptom": "error", "op": op, "level": byIdx[n].Level},
					detail: "an operation of a concurrent workload failed: " + headStr(p[1], 1500)})
			case strings.HasPrefix(l, "C29-SETUP-ERROR "):
				res.SetInconclusive("workload setup failed: " + l)
			}
		}
		if werr == nil && !timedOut {
			break
		}
		// abnormal end: attribute it to the running workload and go on after it
		code := -1
		if ee, ok := werr.(*exec.ExitError); ok {
			code = ee.ExitCode()
		}
		var w *Workload
		pos := -1
		for i, x := range remaining {
			if x.Idx == running {
				w, pos = x, i
			}
		}
		switch {
		case strings.Contains(out, "WARNING: DATA RACE") || code == 66:
			i := strings.Index(out, "WARNING: DATA RACE")
			report := ""
			if i >= 0 {
				report = out[i:]
				if j := strings.Index(report, "\n==================\n"); j >= 0 {
					report = report[:j]
				}
			}
			a, b := racePair(report)
			if w == nil {
				res.SetInconclusive("race report outside any workload:\n" + headStr(report, 2500))
				return outs, hist
			}
			outs = append(outs, outcome{w: w, symptom: "race", match: map[string]string{"symptom": "race", "a": a, "b": b},
				detail: fmt.Sprintf("race detector report during workload %d (%s level, seed %d):\n%s", w.Idx, w.Level, w.Seed, headStr(report, 6000))})
		case code == 67 || timedOut:
			if w == nil {
				res.SetInconclusive("deadline missed outside any workload:\n" + tailStr(out, 2500))
				return outs, hist
			}
			i := strings.Index(out, "C29-DEADLINE")
			dump := ""
			if i >= 0 {
				dump = out[i:]
			}
			// the goroutines blocked inside the code under test
			blocked := ""
			for _, m := range regexp.MustCompile(`(?m)^goroutine \d+ \[((?:semacquire|sync\.|chan )[^\]]*)\]:\n(\S+)\(`).FindAllStringSubmatch(dump, -1) {
				if strings.Contains(m[2], "pilosa") {
					blocked = m[1]
					break
				}
			}
			outs = append(outs, outcome{w: w, symptom: "deadlock", match: map[string]string{"symptom": "deadlock", "level": w.Level, "blocked": strings.Fields(blocked + " -")[0]},
				detail: fmt.Sprintf("workload %d (%s level) did not finish within %d s (deadlock):\n%s", w.Idx, w.Level, deadlineS, headStr(dump, 6000))})
		case strings.Contains(out, "fatal error: checkptr"):
			// boltdb v1.3.1 (a dependency) does not pass the pointer checks that -race switches
			// on; checks/c29.py builds with -gcflags=all=-d=checkptr=0. Never a verdict.
			res.SetInconclusive("the race build aborts in a dependency's unsafe pointer arithmetic (checkptr); build with -gcflags=all=-d=checkptr=0 (checks/c29.py does):\n" + headStr(out[strings.Index(out, "fatal error: checkptr"):], 600))
			return outs, hist
		default:
			inCode, fn := panicInCode(out)
			if w == nil || !inCode {
				res.SetInconclusive(fmt.Sprintf("child process ended abnormally (exit %d) outside the code under test:\n%s", code, tailStr(out, 3000)))
				return outs, hist
			}
			i := strings.Index(out, "panic: ")
			if j := strings.Index(out, "fatal error: "); j >= 0 && (i < 0 || j < i) {
				i = j
			}
			outs = append(outs, outcome{w: w, symptom: "panic", match: map[string]string{"symptom": "panic", "fn": fn, "level": w.Level},
				detail: fmt.Sprintf("workload %d (%s level) crashed the process:\n%s", w.Idx, w.Level, headStr(out[i:], 5000))})
		}
		remaining = remaining[pos+1:]
	}
	return outs, hist
}

// tlcValidate runs TLC (TraceLinearize) on the history lines; it returns whether the trace
// was accepted and, if not, the number of events a linearization could explain.
func tlcValidate(lines []string) (accepted bool, prefix int, out string, err error) {
	specdir := os.Getenv("VERIF_SPECDIR")
	if specdir == "" {
		specdir = "/verif/spec"
	}
	work, err := os.MkdirTemp(os.Getenv("VERIF_SCRATCH"), "c29tlc-")
	if err != nil {
		return false, 0, "", err
	}
	defer os.RemoveAll(work)
	for _, f := range []string{"Linearize.tla", "TraceLinearize.tla", "TraceLinearize.cfg"} {
		b, e := os.ReadFile(filepath.Join(specdir, f))
		if e != nil {
			return false, 0, "", e
		}
		os.WriteFile(filepath.Join(work, f), b, 0o644)
	}
	os.WriteFile(filepath.Join(work, "trace.ndjson"), []byte(strings.Join(lines, "\n")+"\n"), 0o644)
	cmd := exec.Command("timeout", "600", "tlc", "-workers", "1", "-metadir", filepath.Join(work, "meta"),
		"-noGenerateSpecTE", "-config", "TraceLinearize.cfg", "TraceLinearize.tla")
	cmd.Dir = work
	cmd.Env = append(os.Environ(), "JAVA_TOOL_OPTIONS=-Xss64m -Dtlc2.tool.queue.IStateQueue=StateDeque")
	b, _ := cmd.CombinedOutput()
	out = string(b)
	if strings.Contains(out, "TRACE-ACCEPTED") {
		return true, len(lines), out, nil
	}
	if i := strings.Index(out, "TRACE-REJECTED"); i >= 0 {
		fmt.Sscanf(out[i:], "TRACE-REJECTED %d", &prefix)
		return false, prefix, out, nil
	}
	return false, 0, out, fmt.Errorf("TLC gave no verdict on the trace:\n%s", tailStr(out, 1500))
}

// historyOf returns the lines of the history (reset .. next reset) that contains line k.
func historyOf(lines []string, k int) []string {
	if k >= len(lines) {
		k = len(lines) - 1
	}
	a := k
	for a > 0 && !strings.HasPrefix(lines[a], `{"e":"reset"`) {
		a--
	}
	b := k + 1
	for b < len(lines) && !strings.HasPrefix(lines[b], `{"e":"reset"`) {
		b++
	}
	return lines[a:b]
}

func opOfRejected(h []string, line string) string {
	var ev struct {
		P int `json:"p"`
	}
	json.Unmarshal([]byte(line), &ev)
	op := ""
	for _, l := range h {
		if l == line {
			break
		}
		var c struct {
			E  string `json:"e"`
			P  int    `json:"p"`
			Op string `json:"op"`
		}
		json.Unmarshal([]byte(l), &c)
		if c.E == "call" && c.P == ev.P {
			op = c.Op
		}
	}
	return op
}

func failOutcome(res *behav.Result, o outcome) {
	res.Fail(behav.Failure{Match: o.match, Detail: o.detail, Replay: map[string]interface{}{"workload": o.w, "symptom": o.symptom, "report": headStr(o.detail, 6000)}})
}

const selfBase = 100000

func counts(mode string, thorough bool) (nFrag, nAPI int) {
	switch {
	case mode == "lin" && !thorough:
		nFrag, nAPI = 30, 14
	case mode == "lin":
		nFrag, nAPI = 500, 300
	case !thorough:
		nFrag, nAPI = 8, 5
	default:
		nFrag, nAPI = 80, 40
	}
	return behav.EnvInt("VERIF_NFRAG", nFrag), behav.EnvInt("VERIF_NAPI", nAPI)
}

func run(t *testing.T, mode string) {
	res := behav.NewResult()
	defer res.Write()
	deadline := behav.EnvInt("VERIF_DEADLINE_S", 90)
	if raw, ok := behav.LoadReplay(); ok {
		replay(t, raw, deadline, res)
		return
	}
	seed := behav.Seed()
	nFrag, nAPI := counts(mode, behav.Thorough())
	var all []*Workload
	for _, lv := range []struct {
		level string
		n     int
	}{{"frag", nFrag}, {"api", nAPI}} {
		var ws []*Workload
		for i := 0; i < lv.n; i++ {
			w := Generate(seed, mode, lv.level, len(all)+i, behav.Thorough())
			if mode == "lin" && lv.level == "frag" {
				// the schedule is not ours to choose: every fragment-level workload (cheap) runs
				// several times, each run giving a history of its own
				w.Reps = behav.EnvInt("VERIF_REPS", 3)
			}
			ws = append(ws, w)
		}
		all = append(all, ws...)
	}
	// race mode: TopN by rank against imports / recalculations of the same fragment's cache
	if mode == "race" {
		nRank := 4
		if behav.Thorough() {
			nRank = 30
		}
		nRank = behav.EnvInt("VERIF_NRANK", nRank)
		for i := 0; i < nRank; i++ {
			all = append(all, GenerateRank(seed, []string{"frag", "api"}[i%2], len(all)))
		}
	}
	// workloads whose clients make the first use of new row keys at the same time (each
	// several times: the overlap inside the translation is a matter of microseconds)
	if mode == "lin" {
		nKey := 5
		if behav.Thorough() {
			nKey = 60
		}
		nKey = behav.EnvInt("VERIF_NKEYED", nKey)
		for i := 0; i < nKey; i++ {
			w := GenerateKeyed(seed, len(all))
			w.Reps = behav.EnvInt("VERIF_KEYED_REPS", 4)
			all = append(all, w)
		}
	}
	// binding self-test: a few more histories in which one recorded result is falsified;
	// they go to a file of their own, which TLC must reject
	nSelf := 0
	if mode == "lin" {
		nSelf = behav.EnvInt("VERIF_SELFTEST", 0)
	}
	for i := 0; i < nSelf; i++ {
		w := Generate(seed, mode, "frag", selfBase+i, behav.Thorough())
		w.Corrupt = true
		all = append(all, w)
	}
	var hist []string
	bad := map[int]bool{}
	for _, level := range []string{"frag", "api"} {
		var ws []*Workload
		for _, w := range all {
			if w.Level == level {
				ws = append(ws, w)
			}
		}
		if len(ws) == 0 {
			continue
		}
		outs, h := runBatch(t, ws, deadline, res)
		hist = append(hist, h...)
		for _, o := range outs {
			bad[o.w.Idx] = true
			failOutcome(res, o)
		}
	}
	// coverage and counts
	nHist := 0
	for _, l := range hist {
		if strings.HasPrefix(l, `{"e":"reset"`) {
			nHist++
		}
	}
	for _, w := range all {
		if w.Idx >= selfBase {
			continue
		}
		nops := 0
		for _, p := range w.Procs {
			nops += len(p)
			for _, o := range p {
				res.Cover("op:" + o.Op)
			}
		}
		res.Cover("level:" + w.Level)
		res.Cover("cache:" + w.Cache)
		res.Cover(fmt.Sprintf("clients:%d", len(w.Procs)))
		res.Cover(fmt.Sprintf("gomaxprocs:%d", w.GMP))
		if w.Queue {
			res.Cover("frag:snapshot_queue_worker")
		}
		if w.ColKeys {
			res.Cover("api:column_keys")
		}
		if w.RowKeys {
			res.Cover("api:row_keys_first_use")
		}
		if w.Rank {
			res.Cover("rank_cache_topn_vs_import:" + w.Level)
		}
		if !bad[w.Idx] {
			res.CountEval()
			if len(w.Procs) > 1 && nops > 2 {
				res.CountNontrivial()
			}
		}
	}
	res.Coverage["histories_recorded"] = nHist
	if mode == "lin" {
		// the check runs TLC on the histories
		base := os.Getenv("VERIF_TRACE_OUT")
		if base != "" {
			var real, self []string
			inSelf := false
			for _, l := range hist {
				if strings.HasPrefix(l, `{"e":"reset"`) {
					var ev struct {
						W int `json:"w"`
					}
					json.Unmarshal([]byte(l), &ev)
					inSelf = ev.W >= selfBase
				}
				if inSelf {
					self = append(self, l)
				} else {
					real = append(real, l)
				}
			}
			hist = real
			os.WriteFile(base, []byte(strings.Join(real, "\n")+"\n"), 0o644)
			if len(self) > 0 {
				os.WriteFile(base+".selftest", []byte(strings.Join(self, "\n")+"\n"), 0o644)
			}
			var cs []string
			for _, w := range all {
				if w.Idx >= selfBase {
					continue
				}
				b, _ := json.Marshal(w)
				cs = append(cs, string(b))
			}
			os.WriteFile(base+".cases", []byte(strings.Join(cs, "\n")+"\n"), 0o644)
			res.Coverage["trace_file"] = base
		}
		// measured concurrency: how many operations of a history overlap another one
		overlap, total, pending := 0, 0, 0
		for _, l := range hist {
			switch {
			case strings.HasPrefix(l, `{"e":"reset"`):
				pending = 0
			case strings.HasPrefix(l, `{"e":"call"`):
				total++
				if pending > 0 {
					overlap++
				}
				pending++
			case strings.HasPrefix(l, `{"e":"ret"`):
				pending--
			}
		}
		res.Coverage["ops_recorded"] = total
		res.Coverage["ops_called_while_another_pending"] = overlap
	}
	if len(all) > 0 {
		res.AddSample(all[0])
	}
}

// replay re-executes one workload (repeatedly: the schedule is not under our control).
func replay(t *testing.T, raw json.RawMessage, deadline int, res *behav.Result) {
	var rp struct {
		Workload *Workload `json:"workload"`
		Symptom  string    `json:"symptom"`
		Report   string    `json:"report"`
	}
	if err := json.Unmarshal(raw, &rp); err != nil || rp.Workload == nil {
		res.SetInconclusive("unreadable replay payload")
		return
	}
	w := rp.Workload
	w.Reps = behav.EnvInt("VERIF_REPLAY_REPS", 30)
	outs, hist := runBatch(t, []*Workload{w}, deadline, res)
	for _, o := range outs {
		failOutcome(res, o)
		return
	}
	switch rp.Symptom {
	case "race":
		// DESIGN 5.1: a race detector report is accepted on first sight (the detector has no
		// false positives); the schedule that exposed it need not recur.
		a, b := racePair(rp.Report)
		res.Fail(behav.Failure{Match: map[string]string{"symptom": "race", "a": a, "b": b},
			Detail: fmt.Sprintf("not reproduced in %d repetitions; race detector report of the original run (accepted on first sight):\n%s", w.Reps, rp.Report),
			Replay: map[string]interface{}{"workload": w, "symptom": "race", "report": rp.Report}})
	case "not_linearizable":
		if len(hist) == 0 {
			return
		}
		lines := hist
		for len(lines) > 0 {
			ok, prefix, _, err := tlcValidate(lines)
			if err != nil {
				res.SetInconclusive(err.Error())
				return
			}
			if ok {
				return
			}
			h := historyOf(lines, prefix)
			k := prefix
			if k >= len(lines) {
				k = len(lines) - 1
			}
			res.Fail(behav.Failure{Match: map[string]string{"symptom": "not_linearizable", "level": w.Level, "op": opOfRejected(h, lines[k])},
				Detail: fmt.Sprintf("no linearization explains the recorded history (rejected at %s):\n%s", lines[k], strings.Join(h, "\n")),
				Replay: map[string]interface{}{"workload": w, "symptom": "not_linearizable"}})
			return
		}
	}
}

func TestC29Lin(t *testing.T)  { run(t, "lin") }
func TestC29Race(t *testing.T) { run(t, "race") }
