// Package behav is the plumbing shared by all replay drivers: it reads the
// behaviours TLC emitted (one JSON array of step records per line), runs a
// replay function over them in parallel, and writes the result file that
// /verif/check turns into a verdict and an evidence file.
package behav

import (
	"bufio"
	"encoding/json"
	"fmt"
	"hash/fnv"
	"os"
	"runtime"
	"runtime/debug"
	"sort"
	"strconv"
	"strings"
	"sync"
	"sync/atomic"
)

// Step is one record of a behaviour's hist sequence, as printed by ToJson.
type Step map[string]interface{}

// Behaviour is a sequence of steps.
type Behaviour []Step

// Failure describes one disagreement between the real code and the specification.
type Failure struct {
	// Match is the set of fields known_findings.json entries are matched against.
	Match map[string]string `json:"match"`
	// Detail is a human-readable account: step, expected, actual.
	Detail string `json:"detail"`
	// Replay is everything the driver needs to re-execute the case in a fresh process.
	Replay interface{} `json:"replay"`
}

// Result is what a driver writes to $VERIF_OUT.
type Result struct {
	Evaluations        int64                  `json:"evaluations"`
	DistinctNontrivial int64                  `json:"distinct_nontrivial"`
	Validated          int64                  `json:"validated"`
	Samples            []interface{}          `json:"samples"`
	Failures           []Failure              `json:"failures"`
	Coverage           map[string]interface{} `json:"coverage"`
	Inconclusive       string                 `json:"inconclusive,omitempty"`

	mu       sync.Mutex
	covCount map[string]*int64
	seenSig  map[string]int
}

// NewResult returns an empty result.
func NewResult() *Result {
	return &Result{Coverage: map[string]interface{}{}, covCount: map[string]*int64{}, seenSig: map[string]int{}}
}

// Cover counts an occurrence of a coverage key (thread-safe).
func (r *Result) Cover(key string) {
	r.mu.Lock()
	p := r.covCount[key]
	if p == nil {
		p = new(int64)
		r.covCount[key] = p
	}
	r.mu.Unlock()
	atomic.AddInt64(p, 1)
}

// CountEval counts one replayed case (evaluation validated against the implementation).
func (r *Result) CountEval() {
	atomic.AddInt64(&r.Evaluations, 1)
	atomic.AddInt64(&r.Validated, 1)
}

// CountNontrivial counts one distinct non-trivial case.
func (r *Result) CountNontrivial() { atomic.AddInt64(&r.DistinctNontrivial, 1) }

// AddSample records a sample case (at most 6 are kept).
func (r *Result) AddSample(s interface{}) {
	r.mu.Lock()
	if len(r.Samples) < 6 {
		r.Samples = append(r.Samples, s)
	}
	r.mu.Unlock()
}

// Fail records a failure. At most 3 failures per distinct match signature and 200 in
// total are kept (the verdict needs one per signature; the rest is noise).
func (r *Result) Fail(f Failure) {
	keys := make([]string, 0, len(f.Match))
	for k := range f.Match {
		keys = append(keys, k)
	}
	sort.Strings(keys)
	sig := ""
	for _, k := range keys {
		sig += k + "=" + f.Match[k] + ";"
	}
	r.mu.Lock()
	defer r.mu.Unlock()
	r.seenSig[sig]++
	if r.seenSig[sig] > 3 || len(r.Failures) >= 200 {
		return
	}
	r.Failures = append(r.Failures, f)
}

// NFailures returns the number of recorded failures.
func (r *Result) NFailures() int {
	r.mu.Lock()
	defer r.mu.Unlock()
	return len(r.Failures)
}

// Write stores the result at $VERIF_OUT.
func (r *Result) Write() error {
	r.mu.Lock()
	for k, p := range r.covCount {
		r.Coverage[k] = atomic.LoadInt64(p)
	}
	sigs := map[string]int{}
	for k, v := range r.seenSig {
		sigs[k] = v
	}
	r.Coverage["failure_signatures"] = sigs
	r.mu.Unlock()
	path := os.Getenv("VERIF_OUT")
	if path == "" {
		path = "verif_result.json"
	}
	b, err := json.MarshalIndent(r, "", " ")
	if err != nil {
		return err
	}
	return os.WriteFile(path, b, 0o644)
}

// Seed returns $VERIF_SEED.
func Seed() int64 {
	n, _ := strconv.ParseInt(os.Getenv("VERIF_SEED"), 10, 64)
	return n
}

// Tier returns $VERIF_TIER ("quick" by default).
func Tier() string {
	t := os.Getenv("VERIF_TIER")
	if t == "" {
		return "quick"
	}
	return t
}

// Thorough reports whether the thorough tier is selected.
func Thorough() bool { return Tier() == "thorough" }

// EnvInt reads an integer environment variable with a default.
func EnvInt(name string, def int) int {
	if v := os.Getenv(name); v != "" {
		if n, err := strconv.Atoi(v); err == nil {
			return n
		}
	}
	return def
}

// ReplayFile is the on-disk replay file written by check (vlib.Ctx.confirm).
type ReplayFile struct {
	Property string          `json:"property"`
	Match    map[string]string `json:"match"`
	Detail   string          `json:"detail"`
	Replay   json.RawMessage `json:"replay"`
}

// LoadReplay returns the replay payload when $VERIF_REPLAY is set.
func LoadReplay() (json.RawMessage, bool) {
	p := os.Getenv("VERIF_REPLAY")
	if p == "" {
		return nil, false
	}
	b, err := os.ReadFile(p)
	if err != nil {
		panic(err)
	}
	var rf ReplayFile
	if err := json.Unmarshal(b, &rf); err != nil {
		panic(err)
	}
	return rf.Replay, true
}

// Load reads all behaviours of an ndjson file.
func Load(path string) ([]Behaviour, error) {
	f, err := os.Open(path)
	if err != nil {
		return nil, err
	}
	defer f.Close()
	var out []Behaviour
	sc := bufio.NewScanner(f)
	sc.Buffer(make([]byte, 1<<20), 1<<28)
	for sc.Scan() {
		line := sc.Bytes()
		if len(line) == 0 {
			continue
		}
		var b Behaviour
		if err := json.Unmarshal(line, &b); err != nil {
			return nil, fmt.Errorf("bad behaviour line: %v: %.200s", err, line)
		}
		out = append(out, b)
	}
	return out, sc.Err()
}

// LoadEnv reads the behaviours named by $VERIF_BEH.
func LoadEnv() []Behaviour {
	p := os.Getenv("VERIF_BEH")
	if p == "" {
		panic("VERIF_BEH not set")
	}
	b, err := Load(p)
	if err != nil {
		panic(err)
	}
	return b
}

// Parallel runs fn(i) for i in [0,n) on GOMAXPROCS workers. A panic inside fn is
// returned to onPanic(i, value, stack) instead of killing the process.
func Parallel(n int, fn func(i int), onPanic func(i int, v interface{}, stack string)) {
	workers := runtime.GOMAXPROCS(0)
	if w := EnvInt("VERIF_WORKERS", 0); w > 0 {
		workers = w
	}
	if workers > n {
		workers = n
	}
	if workers < 1 {
		workers = 1
	}
	var next int64 = -1
	var wg sync.WaitGroup
	for w := 0; w < workers; w++ {
		wg.Add(1)
		go func() {
			defer wg.Done()
			for {
				i := int(atomic.AddInt64(&next, 1))
				if i >= n {
					return
				}
				func() {
					defer func() {
						if v := recover(); v != nil {
							if onPanic != nil {
								onPanic(i, v, string(debug.Stack()))
							}
						}
					}()
					fn(i)
				}()
			}
		}()
	}
	wg.Wait()
}

// PanicInCode reports whether a panic's stack passes through the code under test
// (as opposed to a bug in the harness itself, which is never a verdict).
func PanicInCode(stack string) bool {
	return strings.Contains(stack, "github.com/pilosa/pilosa")
}

// SetInconclusive marks the run inconclusive (first reason wins).
func (r *Result) SetInconclusive(why string) {
	r.mu.Lock()
	if r.Inconclusive == "" {
		if len(why) > 3000 {
			why = why[:3000]
		}
		r.Inconclusive = why
	}
	r.mu.Unlock()
}

// Protect runs fn and converts a panic into (value, stack).
func Protect(fn func()) (pv interface{}, stack string) {
	defer func() {
		if v := recover(); v != nil {
			pv = v
			stack = string(debug.Stack())
		}
	}()
	fn()
	return nil, ""
}

// ---- accessors for JSON-decoded TLA+ values ---------------------------------

// Str returns s[k] as a string ("" when absent).
func (s Step) Str(k string) string {
	v, _ := s[k].(string)
	return v
}

// Int returns s[k] as an int (0 when absent).
func (s Step) Int(k string) int {
	return ToInt(s[k])
}

// Bool returns s[k] as a bool.
func (s Step) Bool(k string) bool {
	v, _ := s[k].(bool)
	return v
}

// Ints returns s[k] (a TLA+ set or sequence of integers) as []int, in the order
// printed (sets are printed sorted by TLC).
func (s Step) Ints(k string) []int {
	return ToInts(s[k])
}

// Has reports whether the step has field k.
func (s Step) Has(k string) bool {
	_, ok := s[k]
	return ok
}

// ToInt converts a decoded JSON number.
func ToInt(v interface{}) int {
	switch x := v.(type) {
	case float64:
		return int(x)
	case int:
		return x
	case int64:
		return int(x)
	case json.Number:
		n, _ := x.Int64()
		return int(n)
	case string:
		n, _ := strconv.Atoi(x)
		return n
	}
	return 0
}

// ToInts converts a decoded JSON array of numbers.
func ToInts(v interface{}) []int {
	a, ok := v.([]interface{})
	if !ok {
		return nil
	}
	out := make([]int, len(a))
	for i, x := range a {
		out[i] = ToInt(x)
	}
	return out
}

// ToList returns a decoded JSON array.
func ToList(v interface{}) []interface{} {
	a, _ := v.([]interface{})
	return a
}

// ToMap returns a decoded JSON object.
func ToMap(v interface{}) map[string]interface{} {
	m, _ := v.(map[string]interface{})
	return m
}

// Hash64 hashes a string (for deterministic per-case choices).
func Hash64(s string) uint64 {
	h := fnv.New64a()
	h.Write([]byte(s))
	return h.Sum64()
}

// JSON renders v compactly for details.
func JSON(v interface{}) string {
	b, _ := json.Marshal(v)
	if len(b) > 1500 {
		return string(b[:1500]) + "…"
	}
	return string(b)
}

// Distinct counts distinct strings (thread-safe).
type Distinct struct {
	mu sync.Mutex
	m  map[uint64]struct{}
}

// Add inserts s and reports whether it was new.
func (d *Distinct) Add(s string) bool {
	h := Hash64(s)
	d.mu.Lock()
	defer d.mu.Unlock()
	if d.m == nil {
		d.m = map[uint64]struct{}{}
	}
	if _, ok := d.m[h]; ok {
		return false
	}
	d.m[h] = struct{}{}
	return true
}

// Len returns the number of distinct strings seen.
func (d *Distinct) Len() int {
	d.mu.Lock()
	defer d.mu.Unlock()
	return len(d.m)
}
