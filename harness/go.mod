module verif/harness

go 1.23.5

replace github.com/pilosa/pilosa => /repo

replace github.com/hashicorp/memberlist => github.com/pilosa/memberlist v0.1.4-0.20190415211605-f6512523c021

require (
	github.com/cespare/xxhash v1.1.0
	github.com/pelletier/go-toml v1.2.0
	github.com/pilosa/pilosa v0.0.0
	github.com/spf13/pflag v1.0.3
)

require (
	github.com/CAFxX/gcnotifier v0.0.0-20190112062741-224a280d589d // indirect
	github.com/DataDog/datadog-go v0.0.0-20180822151419-281ae9f2d895 // indirect
	github.com/armon/go-metrics v0.0.0-20180917152333-f0300d1749da // indirect
	github.com/beorn7/perks v1.0.0 // indirect
	github.com/boltdb/bolt v1.3.1 // indirect
	github.com/fsnotify/fsnotify v1.4.7 // indirect
	github.com/gogo/protobuf v1.2.0 // indirect
	github.com/golang/protobuf v1.3.1 // indirect
	github.com/google/btree v0.0.0-20180813153112-4030bb1f1f0c // indirect
	github.com/gorilla/handlers v1.3.0 // indirect
	github.com/gorilla/mux v1.7.0 // indirect
	github.com/hashicorp/errwrap v1.0.0 // indirect
	github.com/hashicorp/go-immutable-radix v1.0.0 // indirect
	github.com/hashicorp/go-msgpack v0.5.3 // indirect
	github.com/hashicorp/go-multierror v1.0.0 // indirect
	github.com/hashicorp/go-sockaddr v1.0.0 // indirect
	github.com/hashicorp/golang-lru v0.5.0 // indirect
	github.com/hashicorp/hcl v1.0.0 // indirect
	github.com/hashicorp/memberlist v0.1.3 // indirect
	github.com/magiconair/properties v1.8.0 // indirect
	github.com/matttproud/golang_protobuf_extensions v1.0.1 // indirect
	github.com/miekg/dns v1.0.14 // indirect
	github.com/mitchellh/mapstructure v1.1.2 // indirect
	github.com/opentracing/opentracing-go v1.1.0 // indirect
	github.com/pkg/errors v0.8.1 // indirect
	github.com/prometheus/client_golang v0.9.3 // indirect
	github.com/prometheus/client_model v0.0.0-20190129233127-fd36f4220a90 // indirect
	github.com/prometheus/common v0.4.0 // indirect
	github.com/prometheus/procfs v0.0.0-20190507164030-5867b95ac084 // indirect
	github.com/satori/go.uuid v1.2.0 // indirect
	github.com/sean-/seed v0.0.0-20170313163322-e2103e2c3529 // indirect
	github.com/shirou/gopsutil v2.18.12+incompatible // indirect
	github.com/spf13/afero v1.1.2 // indirect
	github.com/spf13/cast v1.3.0 // indirect
	github.com/spf13/cobra v0.0.3 // indirect
	github.com/spf13/jwalterweatherman v1.0.0 // indirect
	github.com/spf13/viper v1.3.1 // indirect
	github.com/uber/jaeger-client-go v2.16.0+incompatible // indirect
	github.com/uber/jaeger-lib v2.0.0+incompatible // indirect
	golang.org/x/crypto v0.0.0-20190426145343-a29dc8fdc734 // indirect
	golang.org/x/net v0.0.0-20190424112056-4829fb13d2c6 // indirect
	golang.org/x/sync v0.0.0-20190423024810-112230192c58 // indirect
	golang.org/x/sys v0.0.0-20190429190828-d89cdac9e872 // indirect
	golang.org/x/text v0.3.2 // indirect
	gopkg.in/yaml.v2 v2.2.2 // indirect
)
