// Package gamma implements the data refinement γ of DESIGN.md §2.4: every abstract
// element of the small ordered universe 0..n-1 that TLC enumerates is mapped to a
// non-empty block of concrete uint64 values; blocks are pairwise disjoint and ordered
// like the abstract elements. γ is a homomorphism for the set operations, membership,
// counting, ordered iteration, min/max and ranges whose ends are block boundaries, so
// the concrete result the specification demands is γ(abstract result).
//
// The abstract universe is K containers × M slots: element i lives in container
// index i/M (concrete container key Keys[i/M]) and is the (i%M)-th block inside it.
package gamma

import (
	"fmt"
	"math/rand"
	"sort"
	"sync"
)

// Profile is one concrete refinement.
type Profile struct {
	Name   string     `json:"name"`
	K      int        `json:"k"`
	M      int        `json:"m"`
	Keys   []uint64   `json:"keys"`   // concrete container key per abstract container
	Blocks [][]uint64 `json:"-"`      // block per abstract element, sorted ascending
	Inner  string     `json:"inner"`  // in-container shape
	KeySet string     `json:"keyset"` // key placement
	Seed   int64      `json:"seed"`
}

// N is the number of abstract elements.
func (p *Profile) N() int { return p.K * p.M }

// Lo is the smallest concrete value of block i.
func (p *Profile) Lo(i int) uint64 { return p.Blocks[i][0] }

// Hi is the largest concrete value of block i.
func (p *Profile) Hi(i int) uint64 { b := p.Blocks[i]; return b[len(b)-1] }

// Set materialises γ(S) for a set of abstract elements (any order) as a sorted slice.
func (p *Profile) Set(abs []int) []uint64 {
	a := append([]int(nil), abs...)
	sort.Ints(a)
	n := 0
	for _, i := range a {
		n += len(p.Blocks[i])
	}
	out := make([]uint64, 0, n)
	for _, i := range a {
		out = append(out, p.Blocks[i]...)
	}
	return out
}

// Size is |γ(S)|.
func (p *Profile) Size(abs []int) uint64 {
	var n uint64
	for _, i := range abs {
		n += uint64(len(p.Blocks[i]))
	}
	return n
}

// Cut maps an abstract cut point c in 0..n to a concrete bound b such that for every
// abstract element i: (all of block i < b) iff i < c, and (all of block i >= b) iff i >= c.
// variant selects among the admissible bounds: 0 = the lowest (just above block c-1, or
// 0), 1 = the highest (lo of block c), 2 = somewhere between. ok=false when no bound
// exists (c = n and the last block ends at 2^64-1).
func (p *Profile) Cut(c int, variant int) (b uint64, ok bool) {
	n := p.N()
	var lowest, highest uint64
	if c == 0 {
		lowest = 0
	} else {
		h := p.Hi(c - 1)
		if h == ^uint64(0) {
			return 0, false
		}
		lowest = h + 1
	}
	if c == n {
		highest = ^uint64(0)
		// a bound above every block; keep it near the data so that key arithmetic is exercised
		if variant == 0 {
			return lowest, true
		}
		if variant == 1 {
			return highest, true
		}
		return lowest + (highest-lowest)/2, true
	}
	highest = p.Lo(c)
	switch variant {
	case 0:
		return lowest, true
	case 1:
		return highest, true
	default:
		return lowest + (highest-lowest)/2, true
	}
}

// KeyCut maps an abstract *container* cut point kc in 0..K to a concrete value with zero
// low bits (for OffsetRange): containers with index < kc lie below it.
func (p *Profile) KeyCut(kc int, variant int) (uint64, bool) {
	if kc == 0 {
		if variant == 0 || p.Keys[0] == 0 {
			return 0, true
		}
		return p.Keys[0] << 16, true
	}
	if kc == p.K {
		k := p.Keys[p.K-1]
		if k >= (1<<48)-1 {
			return 0, false
		}
		return (k + 1) << 16, true
	}
	if variant == 0 {
		return (p.Keys[kc-1] + 1) << 16, true
	}
	return p.Keys[kc] << 16, true
}

// Inners lists the in-container shapes.
var Inners = []string{"edge", "array", "thresh", "comb", "runs", "runthresh", "full", "mixed"}

// KeySets lists the key placements.
var KeySets = []string{"low", "gap", "spread", "high"}

func keysFor(keyset string, K int, rng *rand.Rand) []uint64 {
	keys := make([]uint64, K)
	switch keyset {
	case "low": // 0,1,2,…: adjacent containers starting at key 0 (the lookaside's initial key)
		for i := range keys {
			keys[i] = uint64(i)
		}
	case "gap": // 0 then gaps
		k := uint64(0)
		for i := range keys {
			keys[i] = k
			k += 2 + uint64(rng.Intn(5))
		}
	case "spread": // 0 / 2^16-1 / … / 2^48-1
		cands := []uint64{0, 1<<16 - 1, 1 << 16, 1<<32 - 1, 1 << 32, 1<<48 - 2, 1<<48 - 1}
		idx := rng.Perm(len(cands))[:K]
		sort.Ints(idx)
		for i, j := range idx {
			keys[i] = cands[j]
		}
		if K >= 2 {
			keys[K-1] = 1<<48 - 1
		}
	case "high": // the top of the key space, adjacent
		for i := range keys {
			keys[i] = (1<<48 - 1) - uint64(K-1-i)
		}
	default:
		panic("unknown keyset " + keyset)
	}
	return keys
}

// interval returns lo..hi inclusive.
func interval(lo, hi int) []uint16 {
	out := make([]uint16, 0, hi-lo+1)
	for v := lo; v <= hi; v++ {
		out = append(out, uint16(v))
	}
	return out
}

func comb(lo, n, stride int) []uint16 {
	out := make([]uint16, 0, n)
	for i := 0; i < n; i++ {
		out = append(out, uint16(lo+i*stride))
	}
	return out
}

// runsOf returns nruns runs of length runLen separated by gaps of gap, starting at lo.
func runsOf(lo, nruns, runLen, gap int) []uint16 {
	out := make([]uint16, 0, nruns*runLen)
	v := lo
	for r := 0; r < nruns; r++ {
		for j := 0; j < runLen; j++ {
			out = append(out, uint16(v))
			v++
		}
		v += gap
	}
	return out
}

// innerBlocks returns M disjoint ordered blocks of low-16-bit values for one container.
func innerBlocks(inner string, M int, rng *rand.Rand) [][]uint16 {
	bl := make([][]uint16, M)
	switch inner {
	case "edge":
		// singletons at the container's edges
		var pts []int
		switch M {
		case 1:
			pts = []int{[]int{0, 65535, 32768}[rng.Intn(3)]}
		case 2:
			pts = []int{0, 65535}
		case 3:
			pts = []int{0, 1 + rng.Intn(65533), 65535}
		default:
			pts = []int{0, 1}
			for len(pts) < M-2 {
				pts = append(pts, 2+rng.Intn(65530))
			}
			sort.Ints(pts)
			// distinct
			for i := 1; i < len(pts); i++ {
				if pts[i] <= pts[i-1] {
					pts[i] = pts[i-1] + 1
				}
			}
			pts = append(pts, 65534, 65535)
		}
		for i := 0; i < M; i++ {
			bl[i] = []uint16{uint16(pts[i])}
		}
	case "array":
		// sparse random sets, total well under 4096
		width := 65536 / M
		for i := 0; i < M; i++ {
			n := 3 + rng.Intn(60)
			seen := map[int]bool{}
			for len(seen) < n {
				seen[i*width+rng.Intn(width)] = true
			}
			vs := make([]int, 0, n)
			for v := range seen {
				vs = append(vs, v)
			}
			sort.Ints(vs)
			for _, v := range vs {
				bl[i] = append(bl[i], uint16(v))
			}
		}
	case "thresh":
		// stride-2 combs sized so that unions of subsets land on 4095/4096/4097 values
		sizes := make([]int, M)
		switch M {
		case 1:
			sizes[0] = 4096 + rng.Intn(3) - 1
		case 2:
			sizes[0], sizes[1] = 4095, 1
		case 3:
			sizes[0], sizes[1], sizes[2] = 4095, 1, 1
		default:
			sizes[0], sizes[1] = 2048, 2047
			for i := 2; i < M; i++ {
				sizes[i] = 1
			}
		}
		lo := rng.Intn(16)
		for i := 0; i < M; i++ {
			bl[i] = comb(lo, sizes[i], 2)
			lo += sizes[i]*2 + 1 + rng.Intn(8)
		}
	case "comb":
		// dense stride-2 combs: bitmap containers with far more than 2048 runs
		width := 65536 / M
		for i := 0; i < M; i++ {
			n := width/2 - 8
			if n > 5000 {
				n = 4200 + rng.Intn(800)
			}
			bl[i] = comb(i*width+rng.Intn(4), n, 2)
		}
	case "runs":
		// long intervals; adjacent blocks contiguous so that unions are single runs and
		// block-boundary cuts fall at/inside a run; first starts at 0, last ends at 65535
		width := 65536 / M
		for i := 0; i < M; i++ {
			lo, hi := i*width, (i+1)*width-1
			if i == M-1 {
				hi = 65535
			}
			// every other boundary leaves a small gap so both shapes occur
			if i%2 == 1 && M > 2 && i != M-1 {
				hi -= 1 + rng.Intn(7)
			}
			bl[i] = interval(lo, hi)
		}
	case "runthresh":
		// runs of length 8, gap 8: 2047 / 2048 / 2049 runs across subsets
		// (run container size 2+4r vs bitmap 8192: r=2047 -> run, r=2048 -> bitmap)
		sizes := make([]int, M)
		switch M {
		case 1:
			sizes[0] = 2047 + rng.Intn(3)
		case 2:
			sizes[0], sizes[1] = 2047, 1
		default:
			sizes[0] = 2046
			for i := 1; i < M; i++ {
				sizes[i] = 1
			}
		}
		lo := 0
		for i := 0; i < M; i++ {
			bl[i] = runsOf(lo, sizes[i], 8, 8)
			lo += sizes[i] * 16
		}
	case "longruns":
		// long runs (70 values) separated by short gaps (5): a run ends and the next one
		// starts inside the same 64-bit word, runs straddle word boundaries, few enough
		// runs (<= 800) that the optimized container is run-encoded, more than 4096 values
		per := make([]int, M)
		switch M {
		case 1:
			per[0] = 800
		case 2:
			per[0], per[1] = 500, 300
		case 3:
			per[0], per[1], per[2] = 400, 300, 100
		default:
			per[0], per[1] = 400, 200
			rest := 200
			for i := 2; i < M; i++ {
				per[i] = rest / (M - 2)
			}
		}
		lo := rng.Intn(3)
		for i := 0; i < M; i++ {
			bl[i] = runsOf(lo, per[i], 70, 5)
			lo += per[i] * 75
		}
	case "full":
		// blocks partition the container: the union of all is a full container
		width := 65536 / M
		for i := 0; i < M; i++ {
			lo, hi := i*width, (i+1)*width-1
			if i == M-1 {
				hi = 65535
			}
			bl[i] = interval(lo, hi)
		}
	default:
		panic("unknown inner " + inner)
	}
	return bl
}

// Make builds a profile deterministically from (inner, keyset, K, M, seed). inner
// "mixed" picks a different shape per container.
func Make(inner, keyset string, K, M int, seed int64) *Profile {
	rng := rand.New(rand.NewSource(seed*7919 + int64(len(inner))*104729 + int64(len(keyset))*1299709 + int64(K*31+M)))
	p := &Profile{Name: fmt.Sprintf("%s/%s/%dx%d/s%d", inner, keyset, K, M, seed), K: K, M: M,
		Inner: inner, KeySet: keyset, Seed: seed}
	p.Keys = keysFor(keyset, K, rng)
	p.Blocks = make([][]uint64, K*M)
	shapes := []string{"edge", "array", "thresh", "comb", "runs", "runthresh", "longruns", "full"}
	for k := 0; k < K; k++ {
		in := inner
		if inner == "mixed" {
			in = shapes[rng.Intn(len(shapes))]
		}
		bl := innerBlocks(in, M, rng)
		for s := 0; s < M; s++ {
			blk := make([]uint64, len(bl[s]))
			for j, v := range bl[s] {
				blk[j] = p.Keys[k]<<16 | uint64(v)
			}
			p.Blocks[k*M+s] = blk
		}
	}
	return p
}

// Window builds a singleton profile γ(i) = {base+i} (K*M consecutive values) used for
// operations that need adjacency (Shift, Flip). base is chosen so that the window
// straddles a container edge, a 2^32 edge or ends at 2^64-1.
func Window(n int, where string, seed int64) *Profile {
	var base uint64
	switch where {
	case "zero":
		base = 0
	case "edge": // straddles the first container edge
		base = 65536 - uint64(n/2)
	case "edge2":
		base = 65536 - 1
	case "mid":
		base = 3<<16 + 1000 + uint64(seed%100)
	case "key32":
		base = 1<<32 - uint64(n/2)
	case "top": // ends at 2^64-1
		base = ^uint64(0) - uint64(n-1)
	case "neartop":
		base = ^uint64(0) - uint64(n)
	default:
		panic("unknown window " + where)
	}
	p := &Profile{Name: fmt.Sprintf("window/%s/%d", where, n), K: 1, M: n, Inner: "window", KeySet: where, Seed: seed}
	p.Blocks = make([][]uint64, n)
	for i := 0; i < n; i++ {
		p.Blocks[i] = []uint64{base + uint64(i)}
	}
	p.Keys = []uint64{base >> 16}
	return p
}

// Windows lists window placements.
var Windows = []string{"zero", "edge", "edge2", "mid", "key32", "top", "neartop"}

// Equal compares two sorted slices.
func Equal(a, b []uint64) bool {
	if len(a) != len(b) {
		return false
	}
	for i := range a {
		if a[i] != b[i] {
			return false
		}
	}
	return true
}

// Diff describes the first differences between two sorted slices (for details).
func Diff(want, got []uint64) string {
	i, j := 0, 0
	var missing, extra []uint64
	for i < len(want) || j < len(got) {
		switch {
		case j >= len(got) || (i < len(want) && want[i] < got[j]):
			if len(missing) < 5 {
				missing = append(missing, want[i])
			}
			i++
		case i >= len(want) || got[j] < want[i]:
			if len(extra) < 5 {
				extra = append(extra, got[j])
			}
			j++
		default:
			i++
			j++
		}
	}
	return fmt.Sprintf("want %d values, got %d; first missing %v, first extra %v", len(want), len(got), missing, extra)
}

var (
	cacheMu sync.Mutex
	cache   = map[string]*Profile{}
)

// Cached is Make with memoisation (profiles are immutable once built).
func Cached(inner, keyset string, K, M int, seed int64) *Profile {
	key := fmt.Sprintf("%s|%s|%d|%d|%d", inner, keyset, K, M, seed)
	cacheMu.Lock()
	defer cacheMu.Unlock()
	if p, ok := cache[key]; ok {
		return p
	}
	p := Make(inner, keyset, K, M, seed)
	cache[key] = p
	return p
}

// Probes returns a small set of concrete values that decides membership block by block:
// each block's lowest, highest and a middle value (owner = the abstract element) and the
// neighbours just outside a block when they belong to no block (owner = -1). Sorted.
func (p *Profile) Probes() (vals []uint64, owner []int) {
	n := p.N()
	for i := 0; i < n; i++ {
		b := p.Blocks[i]
		lo, hi := b[0], b[len(b)-1]
		if lo > 0 && (i == 0 || p.Hi(i-1) < lo-1) {
			vals, owner = append(vals, lo-1), append(owner, -1)
		}
		vals, owner = append(vals, lo), append(owner, i)
		if len(b) > 2 {
			vals, owner = append(vals, b[len(b)/2]), append(owner, i)
		}
		if len(b) > 1 {
			vals, owner = append(vals, hi), append(owner, i)
		}
		if hi != ^uint64(0) && (i == n-1 || p.Lo(i+1) > hi+1) {
			vals, owner = append(vals, hi+1), append(owner, -1)
		}
	}
	return vals, owner
}
